"""The individual extractors (G1..G9 of DESIGN.md section 2.3)."""
from __future__ import annotations

import ast

from .gen import Shape, cstr, extractor, parse
