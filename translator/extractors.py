"""The individual extractors (G1..G9 of DESIGN.md section 2.3)."""
from __future__ import annotations

import ast

from .gen import Shape, cstr, extractor, parse


POSN = {"center": "Center", "left": "Left", "right": "Right", "inner": "Inner", "outer": "Outer"}


def const(node):
    if not isinstance(node, ast.Constant):
        raise Shape(f"expected a literal, got {ast.dump(node)[:80]}")
    return node.value


def clist(items):
    return "[" + "; ".join(items) + "]"


# ---------------------------------------------------------------------------
# G2: constants


@extractor("G2")
def g2():
    out = ["From Coq Require Import List String.", "From XV Require Import Base.Seq1D Model.Axis.",
           "Import ListNotations.", "Open Scope string_scope."]
    tree = parse("axis.py")
    vals = {}
    for n in tree.body:
        if isinstance(n, ast.Assign) and len(n.targets) == 1 and isinstance(n.targets[0], ast.Name):
            vals[n.targets[0].id] = n.value
    vp = const(vals["VALID_POSITION_NAMES"])
    out.append("Definition gen_valid_positions : list string := " +
               clist(cstr(s) for s in vp.split("|")) + ".")
    fb = vals["FALLBACK_SHIFTS"]
    if not isinstance(fb, ast.Dict):
        raise Shape("FALLBACK_SHIFTS is not a dict literal")
    rows = []
    for k, v in zip(fb.keys, fb.values):
        if not isinstance(v, ast.Tuple):
            raise Shape("FALLBACK_SHIFTS value is not a tuple")
        rows.append(f"({POSN[const(k)]}, {clist(POSN[const(e)] for e in v.elts)})")
    out.append("Definition gen_fallback_shifts : list (pos * list pos) := " + clist(rows) + ".")
    # padding.py boundary word -> xarray pad mode
    tree = parse("padding.py")
    m = None
    for n in tree.body:
        if isinstance(n, ast.Assign) and isinstance(n.targets[0], ast.Name) and \
                n.targets[0].id == "_XGCM_BOUNDARY_KWARG_TO_XARRAY_PAD_KWARG":
            m = n.value
    if not isinstance(m, ast.Dict):
        raise Shape("pad-mode map not found")
    mode = {"wrap": "Periodic", "constant": "Fill", "edge": "Extend"}
    rows = []
    for k, v in zip(m.keys, m.values):
        kk = const(k)
        key = "None" if kk is None else f"(Some {cstr(kk)})"
        rows.append(f"({key}, {mode[const(v)]})")
    out.append("Definition gen_pad_modes : list (option string * rule) := " + clist(rows) + ".")
    # grid_ufunc.py DISALLOWED_OVERLAP_POSITIONS
    tree = parse("grid_ufunc.py")
    d = None
    for n in tree.body:
        if isinstance(n, ast.Assign) and isinstance(n.targets[0], ast.Name) and \
                n.targets[0].id == "DISALLOWED_OVERLAP_POSITIONS":
            d = n.value
    if not isinstance(d, ast.List):
        raise Shape("DISALLOWED_OVERLAP_POSITIONS not a list literal")
    out.append("Definition gen_disallowed_overlap : list pos := " +
               clist(POSN[const(e)] for e in d.elts) + ".")
    return "\n".join(out)


g2.fallback = ("From Coq Require Import List String.\nFrom XV Require Import Base.Seq1D Model.Axis.\n"
               "Import ListNotations.\n"
               "Definition gen_valid_positions : list string := [].\n"
               "Definition gen_fallback_shifts : list (pos * list pos) := [].\n"
               "Definition gen_pad_modes : list (option string * rule) := [].\n"
               "Definition gen_disallowed_overlap : list pos := [].")


# ---------------------------------------------------------------------------
# G1: the table of predefined grid ufuncs in gridops.py


def is_ellipsis_slice(node, lower, upper):
    """a[..., lower:upper] with integer-or-None bounds"""
    if not (isinstance(node, ast.Subscript) and isinstance(node.slice, ast.Tuple)):
        return False
    elts = node.slice.elts
    if len(elts) != 2 or not (isinstance(elts[0], ast.Constant) and elts[0].value is Ellipsis):
        return False
    s = elts[1]
    if not isinstance(s, ast.Slice) or s.step is not None:
        return False

    def val(x):
        if x is None:
            return None
        if isinstance(x, ast.UnaryOp) and isinstance(x.op, ast.USub):
            return -const(x.operand)
        return const(x)
    return val(s.lower) == lower and val(s.upper) == upper


def kw_axis_last(call):
    for k in call.keywords:
        if k.arg == "axis":
            v = k.value
            if isinstance(v, ast.UnaryOp) and isinstance(v.op, ast.USub) and const(v.operand) == 1:
                return True
    return False


def np_call(node, name):
    return (isinstance(node, ast.Call) and isinstance(node.func, ast.Attribute) and
            isinstance(node.func.value, ast.Name) and node.func.value.id == "np" and
            node.func.attr == name)


def bexpr(node, env, helpers):
    """Translate an array expression over the single parameter into a bexpr term."""
    if isinstance(node, ast.Name):
        if node.id in env:
            return env[node.id]
        raise Shape(f"unknown name {node.id}")
    if is_ellipsis_slice(node, 1, None):
        return f"(BTail {bexpr(node.value, env, helpers)})"
    if is_ellipsis_slice(node, None, -1):
        return f"(BInit {bexpr(node.value, env, helpers)})"
    if isinstance(node, ast.BinOp):
        if isinstance(node.right, ast.Constant):
            c = node.right.value
            if float(c) != int(c):
                raise Shape("non-integral constant")
            op = {ast.Div: "BDivC", ast.Mult: "BMulC"}.get(type(node.op))
            if op is None:
                raise Shape("unsupported scalar operation")
            return f"({op} {bexpr(node.left, env, helpers)} ({int(c)})%Z)"
        op = {ast.Sub: "BSub", ast.Add: "BAdd", ast.Mult: "BMul", ast.Div: "BDiv"}.get(type(node.op))
        if op is None:
            raise Shape("unsupported binary operation")
        return f"({op} {bexpr(node.left, env, helpers)} {bexpr(node.right, env, helpers)})"
    if np_call(node, "min") or np_call(node, "max"):
        if not kw_axis_last(node) or len(node.args) != 1:
            raise Shape("np.min/max without axis=-1")
        inner = node.args[0]
        if isinstance(inner, ast.Name) and inner.id in env and isinstance(env[inner.id], tuple):
            a, b = env[inner.id]
        elif np_call(inner, "stack") and kw_axis_last(inner) and isinstance(inner.args[0], ast.List) \
                and len(inner.args[0].elts) == 2:
            a, b = (bexpr(e, env, helpers) for e in inner.args[0].elts)
        else:
            raise Shape("np.min/max of something that is not a 2-stack on the last axis")
        return f"({'BMinStack' if node.func.attr == 'min' else 'BMaxStack'} {a} {b})"
    if np_call(node, "cumsum"):
        if not kw_axis_last(node) or len(node.args) != 1:
            raise Shape("np.cumsum without axis=-1")
        return f"(BCumsum {bexpr(node.args[0], env, helpers)})"
    if isinstance(node, ast.Call) and isinstance(node.func, ast.Name) and node.func.id in helpers:
        if len(node.args) != 1:
            raise Shape("helper called with several arguments")
        return body_expr(helpers[node.func.id], bexpr(node.args[0], env, helpers), helpers)
    raise Shape(f"unsupported expression {ast.dump(node)[:100]}")


def body_expr(fn, arg, helpers):
    """Body of a one-parameter function as a bexpr (statements: tuple/simple assigns, return)."""
    if len(fn.args.args) != 1:
        raise Shape(f"{fn.name}: not a one-parameter function")
    env = {fn.args.args[0].arg: arg}
    body = [s for s in fn.body if not (isinstance(s, ast.Expr) and isinstance(s.value, ast.Constant))]
    for s in body[:-1]:
        if not isinstance(s, ast.Assign) or len(s.targets) != 1:
            raise Shape(f"{fn.name}: unsupported statement")
        t = s.targets[0]
        if isinstance(t, ast.Tuple) and isinstance(s.value, ast.Tuple) and len(t.elts) == len(s.value.elts):
            vals = [bexpr(v, env, helpers) for v in s.value.elts]
            for n, v in zip(t.elts, vals):
                env[n.id] = v
        elif isinstance(t, ast.Name):
            v = s.value
            if np_call(v, "stack") and kw_axis_last(v) and isinstance(v.args[0], ast.List) \
                    and len(v.args[0].elts) == 2:
                env[t.id] = tuple(bexpr(e, env, helpers) for e in v.args[0].elts)
            else:
                env[t.id] = bexpr(v, env, helpers)
        else:
            raise Shape(f"{fn.name}: unsupported assignment")
    last = body[-1]
    if isinstance(last, ast.Raise):
        return None
    if not isinstance(last, ast.Return):
        raise Shape(f"{fn.name}: last statement is not return/raise")
    return bexpr(last.value, env, helpers)


SIG_RE = None


@extractor("G1")
def g1():
    import re
    tree = parse("gridops.py")
    helpers = {}
    entries = []
    for n in tree.body:
        if not isinstance(n, ast.FunctionDef):
            continue
        decos = [d for d in n.decorator_list]
        if not decos:
            helpers[n.name] = n
            continue
        if len(decos) != 1 or not (isinstance(decos[0], ast.Call) and
                                   isinstance(decos[0].func, ast.Name) and
                                   decos[0].func.id == "as_grid_ufunc"):
            raise Shape(f"{n.name}: unexpected decorator")
        kws = {k.arg: k.value for k in decos[0].keywords}
        if decos[0].args:
            raise Shape(f"{n.name}: positional decorator arguments")
        unknown = set(kws) - {"signature", "boundary_width", "fill_value", "pad_before_func",
                              "boundary", "dask", "map_overlap"}
        if unknown:
            raise Shape(f"{n.name}: unknown options {unknown}")
        sig = const(kws["signature"]).replace(" ", "")
        m = re.fullmatch(r"\((\w+):(\w+)\)->\((\w+):(\w+)\)", sig)
        if not m or m.group(1) != m.group(3):
            raise Shape(f"{n.name}: signature {sig!r} is not one-axis one-argument")
        dummy = m.group(1)
        width = "None"
        if "boundary_width" in kws:
            bw = kws["boundary_width"]
            if not (isinstance(bw, ast.Dict) and len(bw.keys) == 1 and const(bw.keys[0]) == dummy
                    and isinstance(bw.values[0], ast.Tuple) and len(bw.values[0].elts) == 2):
                raise Shape(f"{n.name}: boundary_width shape")
            lo, hi = (const(e) for e in bw.values[0].elts)
            if not (isinstance(lo, int) and isinstance(hi, int) and lo >= 0 and hi >= 0):
                raise Shape(f"{n.name}: boundary_width values")
            width = f"(Some ({lo}%nat, {hi}%nat))"
        fill = "None"
        if "fill_value" in kws:
            fv = const(kws["fill_value"])
            if fv is None:
                fill = "None"
            elif float(fv) == int(fv):
                fill = f"(Some ({int(fv)})%Z)"
            else:
                raise Shape(f"{n.name}: non-integral fill_value")
        pbf = "true"
        if "pad_before_func" in kws:
            pbf = "true" if const(kws["pad_before_func"]) else "false"
        boundary = "None"
        if "boundary" in kws:
            b = const(kws["boundary"])
            boundary = "None" if b is None else f"(Some {cstr(b)})"
        for extra in ("dask", "map_overlap"):
            if extra in kws:
                raise Shape(f"{n.name}: option {extra} not modelled")
        be = body_expr(n, "BArg", helpers)
        body = "None" if be is None else f"(Some {be})"
        entries.append(
            "{| ge_name := %s; ge_from := %s; ge_to := %s; ge_width := %s; ge_fill := %s; "
            "ge_boundary := %s; ge_pad_before := %s; ge_body := %s |}" % (
                cstr(n.name), POSN[m.group(2)], POSN[m.group(4)], width, fill, boundary, pbf, body))
    out = ["From Coq Require Import List String ZArith.", "From XV Require Import Model.Axis Model.GridOps.",
           "Import ListNotations.", "Open Scope string_scope.",
           "Definition gen_gridops : list gentry := [", ";\n".join(entries), "]."]
    return "\n".join(out)


g1.fallback = ("From Coq Require Import List String ZArith.\nFrom XV Require Import Model.Axis Model.GridOps.\n"
               "Import ListNotations.\nDefinition gen_gridops : list gentry := [].")


# ---------------------------------------------------------------------------
# G4: the if/elif chain of Grid.cumsum


@extractor("G4")
def g4():
    tree = parse("grid.py")
    cls = [n for n in tree.body if isinstance(n, ast.ClassDef) and n.name == "Grid"][0]
    fn = [n for n in cls.body if isinstance(n, ast.FunctionDef) and n.name == "cumsum"][0]
    loops = [n for n in fn.body if isinstance(n, ast.For)]
    if len(loops) != 1:
        raise Shape("cumsum: expected one for loop")
    chain = [s for s in loops[0].body if isinstance(s, ast.If) and isinstance(s.test, ast.BoolOp)]
    if len(chain) != 1:
        raise Shape("cumsum: expected one shift chain")
    rows = []
    node = chain[0]

    def pair(cmp_and):
        # pos == "a" and ax_to == "b"
        if not (isinstance(cmp_and, ast.BoolOp) and isinstance(cmp_and.op, ast.And) and len(cmp_and.values) == 2):
            raise Shape("cumsum: condition shape")
        res = {}
        for c in cmp_and.values:
            if not (isinstance(c, ast.Compare) and len(c.ops) == 1 and isinstance(c.ops[0], ast.Eq)
                    and isinstance(c.left, ast.Name)):
                raise Shape("cumsum: comparison shape")
            res[c.left.id] = const(c.comparators[0])
        if set(res) != {"pos", "ax_to"}:
            raise Shape("cumsum: compared names")
        return POSN[res["pos"]], POSN[res["ax_to"]]

    while True:
        test = node.test
        if not (isinstance(test, ast.BoolOp) and isinstance(test.op, ast.Or)):
            raise Shape("cumsum: test is not an `or` of shift pairs")
        pairs = [pair(v) for v in test.values]
        trim = False
        width = None
        for s in node.body:
            if isinstance(s, ast.Assign) and isinstance(s.targets[0], ast.Name):
                if s.targets[0].id == "data":
                    # data = data.isel({dim: slice(0, -1)})   (the last entry along dim is dropped)
                    src = ast.unparse(s.value).replace(" ", "")
                    if src not in ("data.isel({dim:slice(0,-1)})", "data.isel(**{dim:slice(0,-1)})"):
                        raise Shape(f"cumsum: unexpected trim {src}")
                    trim = True
                elif s.targets[0].id == "ax_boundary_width":
                    d = s.value
                    if not (isinstance(d, ast.Dict) and isinstance(d.values[0], ast.Tuple)):
                        raise Shape("cumsum: width shape")
                    width = tuple(const(e) for e in d.values[0].elts)
                else:
                    raise Shape("cumsum: unexpected assignment")
            elif isinstance(s, ast.Expr) and isinstance(s.value, ast.Constant):
                continue
            else:
                raise Shape("cumsum: unexpected statement in chain")
        if width is None:
            raise Shape("cumsum: branch without width")
        for f, t in pairs:
            rows.append(f"(({f}, {t}), ({'true' if trim else 'false'}, ({width[0]}%nat, {width[1]}%nat)))")
        if len(node.orelse) == 1 and isinstance(node.orelse[0], ast.If):
            node = node.orelse[0]
        elif len(node.orelse) == 1 and isinstance(node.orelse[0], ast.Raise):
            exc = node.orelse[0].exc
            if not (isinstance(exc, ast.Call) and isinstance(exc.func, ast.Name) and exc.func.id == "ValueError"):
                raise Shape("cumsum: else branch does not raise ValueError")
            break
        else:
            raise Shape("cumsum: chain does not end in raise")
    # the cumsum call itself and the pad call
    src = ast.unparse(loops[0])
    if "data = data.cumsum(dim=dim)" not in src:
        raise Shape("cumsum: xarray cumsum call changed")
    out = ["From Coq Require Import List String.", "From XV Require Import Model.Axis.",
           "Import ListNotations.",
           "Definition gen_cumsum_table : list ((pos * pos) * (bool * (nat * nat))) := " + clist(rows) + "."]
    return "\n".join(out)


g4.fallback = ("From Coq Require Import List String.\nFrom XV Require Import Model.Axis.\nImport ListNotations.\n"
               "Definition gen_cumsum_table : list ((pos * pos) * (bool * (nat * nat))) := [].")


# ---------------------------------------------------------------------------
# G6: the loop-nest kernels of transform.py as Gallina over Ops A
#
# A statement list is translated in continuation style: the rest of a block is pushed
# into both branches of every `if`, so chains that assign different locals need no
# special case.  Arrays that are mutated (`output`) are threaded functionally.


class KT:
    """Kernel translator for one @guvectorize function."""

    def __init__(self, fn, arrays, scalars_bool, out):
        self.fn = fn
        self.arrays = set(arrays)      # names bound to 1-d arrays of A
        self.bools = set(scalars_bool)  # names bound to booleans
        self.nats = set()              # names bound to naturals (loop indices, len())
        self.out = out

    # ---- expressions ----
    def ty(self, e):
        if isinstance(e, ast.Name):
            if e.id in self.nats:
                return "nat"
            if e.id in self.bools:
                return "bool"
            if e.id in self.arrays:
                return "arr"
            return "A"
        if isinstance(e, ast.Constant):
            return "nat" if isinstance(e.value, int) and not isinstance(e.value, bool) else "A"
        if isinstance(e, ast.BinOp):
            l, r = self.ty(e.left), self.ty(e.right)
            return "nat" if l == r == "nat" else "A"
        if isinstance(e, ast.Call) and isinstance(e.func, ast.Name) and e.func.id == "len":
            return "nat"
        if isinstance(e, ast.Subscript):
            if isinstance(e.slice, ast.Slice) or self.is_mask(e.slice):
                return "arr"
            return "A"
        if isinstance(e, ast.Call) and np_call(e, "interp"):
            return "arr"
        if isinstance(e, (ast.Compare, ast.BoolOp)) or (isinstance(e, ast.UnaryOp) and isinstance(e.op, ast.Not)):
            return "bool"
        if isinstance(e, ast.Call) and np_call(e, "isnan"):
            return "bool" if self.ty(e.args[0]) != "arr" else "mask"
        return "A"

    def is_mask(self, s):
        return (isinstance(s, ast.UnaryOp) and isinstance(s.op, ast.Invert) and np_call(s.operand, "isnan"))

    def ex(self, e):
        if isinstance(e, ast.Name):
            return e.id
        if isinstance(e, ast.Constant):
            v = e.value
            if isinstance(v, bool):
                return "true" if v else "false"
            if isinstance(v, int):
                return f"{v}%nat" if True else str(v)
            raise Shape(f"constant {v!r}")
        if isinstance(e, ast.Attribute) and isinstance(e.value, ast.Name) and e.value.id == "np" and e.attr == "nan":
            return "nanv"
        if isinstance(e, ast.Subscript):
            base = self.ex(e.value)
            s = e.slice
            if isinstance(s, ast.Slice):
                if s.lower is None and s.upper is None and isinstance(s.step, ast.UnaryOp) \
                        and isinstance(s.step.op, ast.USub) and const(s.step.operand) == 1:
                    return f"(rev {base})"
                raise Shape("unsupported slice")
            if self.is_mask(s):
                if ast.dump(s.operand.args[0]) != ast.dump(e.value):
                    raise Shape("mask over a different array")
                return f"(not_nan isnan {base})"
            if isinstance(s, ast.UnaryOp) and isinstance(s.op, ast.USub) and const(s.operand) == 1:
                return f"(idx_last o {base})"
            return f"(idx o {base} {self.nat(s)})"
        if isinstance(e, ast.BinOp):
            if self.ty(e) == "nat":
                op = {ast.Add: "+", ast.Sub: "-", ast.Mult: "*"}.get(type(e.op))
                if op is None:
                    raise Shape("nat op")
                return f"({self.ex(e.left)} {op} {self.ex(e.right)})%nat"
            op = {ast.Add: "add", ast.Sub: "sub", ast.Mult: "mul", ast.Div: "div"}.get(type(e.op))
            if op is None:
                raise Shape("binop")
            return f"({op} o {self.val(e.left)} {self.val(e.right)})"
        if isinstance(e, ast.Compare):
            if len(e.ops) != 1:
                raise Shape("chained comparison")
            l, r = e.left, e.comparators[0]
            if self.ty(l) == "nat" and self.ty(r) == "nat":
                op = {ast.Eq: "Nat.eqb", ast.Lt: "Nat.ltb"}.get(type(e.ops[0]))
                if op is None:
                    raise Shape("nat comparison")
                return f"({op} {self.ex(l)} {self.ex(r)})"
            a, b = self.val(l), self.val(r)
            t = type(e.ops[0])
            if t is ast.Lt:
                return f"(ltb o {a} {b})"
            if t is ast.Gt:
                return f"(gtb o {a} {b})"
            if t is ast.Eq:
                return f"(eqb o {a} {b})"
            if t is ast.LtE:
                return f"(leb o {a} {b})"
            if t is ast.GtE:
                return f"(leb o {b} {a})"
            raise Shape("comparison")
        if isinstance(e, ast.BoolOp):
            op = "&&" if isinstance(e.op, ast.And) else "||"
            return "(" + f" {op} ".join(self.ex(v) for v in e.values) + ")"
        if isinstance(e, ast.UnaryOp) and isinstance(e.op, ast.Not):
            return f"(negb {self.ex(e.operand)})"
        if isinstance(e, ast.Call):
            if isinstance(e.func, ast.Name) and e.func.id in ("max", "min") and len(e.args) == 2:
                return f"(py_{e.func.id} o {self.val(e.args[0])} {self.val(e.args[1])})"
            if isinstance(e.func, ast.Name) and e.func.id == "len":
                return f"(List.length {self.ex(e.args[0])})"
            if np_call(e, "isnan") and self.ty(e.args[0]) != "arr":
                return f"(isnan {self.val(e.args[0])})"
            if np_call(e, "interp") and len(e.args) == 3:
                return f"(np_interp o isnan nanv {self.ex(e.args[0])} {self.ex(e.args[1])} {self.ex(e.args[2])})"
            if np_call(e, "nanmax") or np_call(e, "nanmin"):
                return f"({e.func.attr} o isnan nanv {self.ex(e.args[0])})"
        raise Shape(f"unsupported expression {ast.dump(e)[:90]}")

    def val(self, e):
        if self.ty(e) == "nat":
            raise Shape("natural used as a value")
        return self.ex(e)

    def nat(self, e):
        if self.ty(e) != "nat":
            raise Shape("index is not a natural")
        return self.ex(e)

    # ---- statements ----
    def block(self, stmts, k):
        """k: Gallina text for the value of the enclosing construct once stmts are done."""
        if not stmts:
            return k
        s, rest = stmts[0], stmts[1:]
        if isinstance(s, ast.Expr) and isinstance(s.value, ast.Constant):
            return self.block(rest, k)
        if isinstance(s, ast.Pass):
            return self.block(rest, k)
        if isinstance(s, ast.Continue):
            return k
        if isinstance(s, ast.Assign):
            tgts = s.targets
            if len(tgts) == 1 and isinstance(tgts[0], ast.Subscript):
                t = tgts[0]
                if not (isinstance(t.value, ast.Name) and t.value.id == self.out):
                    raise Shape("store into something other than the output")
                if isinstance(t.slice, ast.Slice) and t.slice.lower is None and t.slice.upper is None:
                    v = s.value
                    if isinstance(v, ast.Constant) and v.value == 0:
                        new = f"(zeros_like o {self.out})"
                    else:
                        new = self.ex(v)
                    return f"let {self.out} := {new} in\n{self.block(rest, k)}"
                return (f"let {self.out} := upd_set {self.out} {self.nat(t.slice)} {self.val(s.value)} in\n"
                        f"{self.block(rest, k)}")
            names = []
            for t in tgts:
                if not isinstance(t, ast.Name):
                    raise Shape("assignment target")
                names.append(t.id)
            ty = self.ty(s.value)
            text = self.ex(s.value)
            for n in names:
                (self.nats if ty == "nat" else self.bools if ty == "bool" else
                 self.arrays if ty == "arr" else set()).add(n)
                if ty != "nat":
                    self.nats.discard(n)
            body = self.block(rest, k)
            for n in reversed(names):
                body = f"let {n} := {text} in\n{body}"
            return body
        if isinstance(s, ast.AugAssign):
            t = s.target
            if not (isinstance(t, ast.Subscript) and isinstance(t.value, ast.Name) and t.value.id == self.out
                    and isinstance(s.op, ast.Add)):
                raise Shape("augmented assignment")
            return (f"let {self.out} := upd_add o {self.out} {self.nat(t.slice)} {self.val(s.value)} in\n"
                    f"{self.block(rest, k)}")
        if isinstance(s, ast.If):
            save = (set(self.nats), set(self.bools), set(self.arrays))
            a = self.block(list(s.body) + rest, k)
            self.nats, self.bools, self.arrays = (set(x) for x in save)
            b = self.block(list(s.orelse) + rest, k)
            self.nats, self.bools, self.arrays = (set(x) for x in save)
            return f"if {self.ex(s.test)}\nthen ({a})\nelse ({b})"
        if isinstance(s, ast.For):
            if not (isinstance(s.target, ast.Name) and isinstance(s.iter, ast.Call)
                    and isinstance(s.iter.func, ast.Name) and s.iter.func.id == "range"
                    and len(s.iter.args) == 1 and not s.orelse):
                raise Shape("for loop shape")
            i = s.target.id
            self.nats.add(i)
            bound = self.nat(s.iter.args[0])
            body = self.block(list(s.body), self.out)
            loop = (f"fold_left (fun ({self.out} : list A) ({i} : nat) =>\n{body})\n"
                    f"(seq 0 {bound}) {self.out}")
            return f"let {self.out} := {loop} in\n{self.block(rest, k)}"
        raise Shape(f"unsupported statement {type(s).__name__}")


def kernel(fn_name, bool_params):
    tree = parse("transform.py")
    fn = [n for n in tree.body if isinstance(n, ast.FunctionDef) and n.name == fn_name]
    if len(fn) != 1:
        raise Shape(f"{fn_name} not found")
    fn = fn[0]
    if not (len(fn.decorator_list) == 1 and isinstance(fn.decorator_list[0], ast.Call)
            and getattr(fn.decorator_list[0].func, "id", "") == "guvectorize"):
        raise Shape(f"{fn_name}: decorator")
    layout = const(fn.decorator_list[0].args[1])
    params = [a.arg for a in fn.args.args]
    out = params[-1]
    arrays = [p for p in params if p not in bool_params]
    t = KT(fn, arrays, bool_params, out)
    body = t.block(list(fn.body), out)
    binders = " ".join(f"({p} : bool)" if p in bool_params else f"({p} : list A)" for p in params)
    return layout, f"Definition gen{fn_name} {binders} : list A :=\n{body}."


@extractor("G6")
def g6():
    lay_c, cons = kernel("_interp_1d_conservative", [])
    lay_l, lin = kernel("_interp_1d_linear", ["mask_edges", "bypass_checks"])
    if lay_c != "(n),(n),(n),(m),(m)->(m)" or lay_l != "(n),(n),(m),(),()->(m)":
        raise Shape("gufunc layout changed")
    out = ["From Coq Require Import List Bool Arith.", "From XV Require Import Base.Ops Base.Kernel.",
           "Import ListNotations.", "Section G6.",
           "Context {A : Type} (o : Ops A) (isnan : A -> bool) (nanv : A).",
           cons, lin, "End G6."]
    return "\n".join(out)


g6.fallback = ("From Coq Require Import List Bool Arith.\nFrom XV Require Import Base.Ops Base.Kernel.\n"
               "Section G6.\nContext {A : Type} (o : Ops A) (isnan : A -> bool) (nanv : A).\n"
               "Definition gen_interp_1d_conservative (phi theta_1 theta_2 theta_hat_1 theta_hat_2 output : list A) : list A := output.\n"
               "Definition gen_interp_1d_linear (phi theta target_theta_levels : list A) (mask_edges bypass_checks : bool) (output : list A) : list A := output.\n"
               "End G6.")


# ---------------------------------------------------------------------------
# G3: the signature regular expressions of grid_ufunc.py as Base.Regex terms


def eval_str(node, env):
    """Evaluate a string constant / f-string over earlier constants."""
    if isinstance(node, ast.Constant) and isinstance(node.value, str):
        return node.value
    if isinstance(node, ast.JoinedStr):
        out = ""
        for v in node.values:
            if isinstance(v, ast.Constant):
                out += v.value
            elif isinstance(v, ast.FormattedValue) and isinstance(v.value, ast.Name) and v.conversion == -1 \
                    and v.format_spec is None:
                out += env[v.value.id]
            else:
                raise Shape("unsupported f-string part")
        return out
    raise Shape("not a string constant")


class ReParser:
    """The subset of Python's `re` syntax the seven patterns use."""

    def __init__(self, text):
        self.t = text
        self.i = 0
        self.start = False
        self.end = None

    def peek(self):
        return self.t[self.i] if self.i < len(self.t) else None

    def alt(self):
        parts = [self.cat()]
        while self.peek() == "|":
            self.i += 1
            parts.append(self.cat())
        out = parts[-1]
        for p in reversed(parts[:-1]):
            out = f"(Alt {p} {out})"
        return out

    def cat(self):
        items = []
        while self.peek() is not None and self.peek() not in "|)":
            items.append(self.rep())
        items = [x for x in items if x is not None]
        if not items:
            return "Eps"
        out = items[-1]
        for p in reversed(items[:-1]):
            out = f"(Cat {p} {out})"
        return out

    def rep(self):
        a = self.atom()
        c = self.peek()
        if c in ("*", "+", "?"):
            if a is None:
                raise Shape("quantifier on an anchor")
            self.i += 1
            return {"*": f"(Star {a})", "+": f"(Plus {a})", "?": f"(Opt {a})"}[c]
        return a

    def atom(self):
        c = self.peek()
        if c == "(":
            if self.t[self.i:self.i + 3] != "(?:":
                raise Shape("capturing group")
            self.i += 3
            r = self.alt()
            if self.peek() != ")":
                raise Shape("unbalanced group")
            self.i += 1
            return r
        if c == "\\":
            d = self.t[self.i + 1]
            self.i += 2
            if d == "w":
                return "(Chr is_word)"
            if d in "()":
                return f'(Chr (Ascii.eqb "{d}"))'
            if d == "Z":
                if self.i != len(self.t):
                    raise Shape("\\Z not at the end")
                self.end = "Z"
                return None
            raise Shape(f"escape \\{d}")
        if c == "^":
            if self.i != 0:
                raise Shape("^ not at the start")
            self.i += 1
            self.start = True
            return None
        if c == "$":
            if self.i != len(self.t) - 1:
                raise Shape("$ not at the end")
            self.i += 1
            self.end = "$"
            return "(Opt (Chr is_newline))"
        if c in ".[]{}":
            raise Shape(f"unsupported metacharacter {c}")
        self.i += 1
        if not (32 < ord(c) < 127) or c == '"':
            raise Shape("unsupported literal")
        return f'(Chr (Ascii.eqb "{c}"))'

    def parse(self):
        r = self.alt()
        if self.i != len(self.t):
            raise Shape("trailing text in pattern")
        return r


@extractor("G3")
def g3():
    tree = parse("grid_ufunc.py")
    names = ["_AXIS_NAME", "_AXIS_POSITION", "_AXIS_NAME_POSITION_PAIR", "_AXIS_NAME_POSITION_PAIR_LIST",
             "_ARGUMENT", "_ARGUMENT_LIST", "_SIGNATURE"]
    env = {}
    for n in tree.body:
        if isinstance(n, ast.Assign) and len(n.targets) == 1 and isinstance(n.targets[0], ast.Name) \
                and n.targets[0].id in names:
            env[n.targets[0].id] = eval_str(n.value, env)
    if set(env) != set(names):
        raise Shape("signature pattern constants missing")
    out = ["From Coq Require Import List Bool Ascii String.", "From XV Require Import Base.Regex Model.Signature.",
           "Open Scope char_scope."]
    for n in names:
        p = ReParser(env[n])
        term = p.parse()
        out.append(f"Definition gen{n} : re := {term}.")
        if n == "_SIGNATURE":
            out.append(f"Definition gen_signature_start_anchor : bool := {'true' if p.start else 'false'}.")
            out.append(f"Definition gen_signature_end_anchor_Z : bool := {'true' if p.end == 'Z' else 'false'}.")
    return "\n".join(out)


g3.fallback = ("From Coq Require Import List Bool Ascii String.\nFrom XV Require Import Base.Regex Model.Signature.\n"
               + "\n".join(f"Definition gen{n} : re := Emp." for n in
                           ["_AXIS_NAME", "_AXIS_POSITION", "_AXIS_NAME_POSITION_PAIR",
                            "_AXIS_NAME_POSITION_PAIR_LIST", "_ARGUMENT", "_ARGUMENT_LIST", "_SIGNATURE"])
               + "\nDefinition gen_signature_start_anchor : bool := false.\nDefinition gen_signature_end_anchor_Z : bool := false.")


# ---------------------------------------------------------------------------
# G9(i): inventory of the places where an unordered collection is iterated


SET_FILES = ["padding.py", "grid_ufunc.py", "metadata_parsers.py", "comodo.py", "sgrid.py", "metrics.py",
             "grid.py", "axis.py", "transform.py", "gridops.py"]


class SetSites(ast.NodeVisitor):
    """Flags iteration over expressions that are statically set-typed: set()/frozenset()
    calls, set displays/comprehensions, |,&,-,^ of those or of dictionary views, and local names bound to them."""

    def __init__(self, fname):
        self.fname = fname
        self.func = "<module>"
        self.setnames = set()
        self.sites = []

    def is_set(self, e):
        if isinstance(e, (ast.Set, ast.SetComp)):
            return True
        if isinstance(e, ast.Call) and isinstance(e.func, ast.Name) and e.func.id in ("set", "frozenset"):
            return True
        if isinstance(e, ast.Name) and e.id in self.setnames:
            return True
        if isinstance(e, ast.BinOp) and isinstance(e.op, (ast.BitOr, ast.BitAnd, ast.Sub, ast.BitXor)):
            # set algebra on dictionary views (d.keys() | other, d.items() & other, ...) yields a plain set
            view = lambda x: isinstance(x, ast.Call) and isinstance(x.func, ast.Attribute) and \
                x.func.attr in ("keys", "items") and not x.args
            return self.is_set(e.left) or self.is_set(e.right) or view(e.left) or view(e.right)
        if isinstance(e, ast.Call) and isinstance(e.func, ast.Attribute) and \
                e.func.attr in ("union", "intersection", "difference", "symmetric_difference", "copy") \
                and self.is_set(e.func.value):
            return True
        return False

    def flag(self, kind, e):
        self.sites.append((self.fname, self.func, kind, ast.unparse(e)[:80]))

    def visit_FunctionDef(self, n):
        saved = (self.func, set(self.setnames))
        self.func = n.name if self.func == "<module>" else self.func + "." + n.name
        # two passes so that names bound later in a loop body are known
        for _ in range(2):
            for s in ast.walk(n):
                if isinstance(s, ast.Assign) and self.is_set(s.value):
                    for t in s.targets:
                        if isinstance(t, ast.Name):
                            self.setnames.add(t.id)
        self.generic_visit(n)
        self.func, self.setnames = saved

    def visit_For(self, n):
        if self.is_set(n.iter):
            self.flag("for", n.iter)
        self.generic_visit(n)

    def visit_comprehension(self, n):
        if self.is_set(n.iter):
            self.flag("comprehension", n.iter)
        self.generic_visit(n)

    def visit_Starred(self, n):
        if self.is_set(n.value):
            self.flag("star", n.value)
        self.generic_visit(n)

    def visit_Call(self, n):
        ordered_consumers = {"list", "tuple", "zip", "enumerate", "iter", "next", "map", "reversed"}
        f = n.func
        # an arbitrary element taken out of a set
        if isinstance(f, ast.Attribute) and f.attr == "pop" and not n.args and self.is_set(f.value):
            self.flag("set.pop", f.value)
        name = f.id if isinstance(f, ast.Name) else (f.attr if isinstance(f, ast.Attribute) else None)
        is_itertools = isinstance(f, ast.Attribute) and isinstance(f.value, ast.Name) and f.value.id == "itertools"
        if name in ordered_consumers or is_itertools or name in ("join", "extend"):
            for a in n.args:
                if self.is_set(a):
                    self.flag(("itertools." if is_itertools else "") + str(name), a)
        self.generic_visit(n)


@extractor("G9")
def g9():
    sites = []
    for fname in SET_FILES:
        v = SetSites(fname)
        v.visit(parse(fname))
        sites += v.sites
    rows = [f"({cstr(a)}, {cstr(b)}, {cstr(c)}, {cstr(d)})" for a, b, c, d in sorted(set(sites))]
    out = ["From Coq Require Import List String.", "Import ListNotations.", "Open Scope string_scope.",
           "(* (file, function, kind of ordered consumption, set-typed expression) *)",
           "Definition gen_set_iteration_sites : list (string * string * string * string) := " + clist(rows) + "."]
    return "\n".join(out)


g9.fallback = ("From Coq Require Import List String.\nImport ListNotations.\nOpen Scope string_scope.\n"
               "Definition gen_set_iteration_sites : list (string * string * string * string) := "
               "[(\"?\", \"?\", \"extractor unavailable\", \"?\")].")


# ----------------------------------------------------------------------------------------
# G18: for every function of the package, what its body may do to objects its caller can
# see -- the action lists of coq/Model/Heap.v (bindings by kind, in-place operations,
# conditionals).  Loops and try blocks are linearised onto AIf: names (re)bound in a loop
# body are made unknown before it (a later iteration sees the earlier one's bindings), the
# body is one optional round, handlers/else/finally are alternatives.

HEAP_FILES = ["grid.py", "padding.py", "grid_ufunc.py", "transform.py", "axis.py", "metrics.py", "comodo.py",
              "sgrid.py", "metadata_parsers.py", "gridops.py", "regridding.py"]
MUTATING_METHODS = {"pop", "popitem", "update", "setdefault", "append", "extend", "insert", "remove", "clear",
                    "sort", "reverse", "add", "discard", "fill", "itemset", "put", "resize", "setflags",
                    "__setitem__", "__delitem__", "intersection_update", "difference_update",
                    "symmetric_difference_update"}
PART_METHODS = {"items", "keys", "values", "get", "pop", "popitem", "setdefault"}
MODULE_NAMES = {"np", "xr", "itertools", "warnings", "functools", "re", "dask", "dsa", "inspect", "typing",
                "numbers", "string", "copy", "os", "sys", "math", "operator", "collections"}
FRESH_BUILTINS = {"dict", "list", "tuple", "set", "frozenset", "sorted", "zip", "enumerate", "range", "len", "str",
                  "int", "float", "bool", "map", "filter", "reversed", "isinstance", "issubclass", "hasattr", "any",
                  "all", "sum", "min", "max", "abs", "type", "repr", "print", "callable", "id", "round", "slice",
                  "ValueError", "TypeError", "KeyError", "NotImplementedError", "RuntimeError", "OrderedDict",
                  "get_type_hints", "deepcopy"}
CALLER = "$caller"
# functions of the package known to build and return a new container (their body is in the inventory too)
PACKAGE_BUILDERS = {"get_axis_coords"}   # comodo.get_axis_coords: collects names into a new list


def _self_attr(e):
    return isinstance(e, ast.Attribute) and isinstance(e.value, ast.Name) and e.value.id == "self"


def _chain_root(e):
    """(root name, depth) of x, x.a, x[k], x.a[k].b ...; None if not rooted at a name.
    An attribute of self is a root of its own ("self.attr"): the containers a Grid owns are
    tracked one by one."""
    d = 0
    while isinstance(e, (ast.Attribute, ast.Subscript, ast.Starred)):
        if _self_attr(e):
            return "self." + e.attr, d
        e = e.value
        d += 1
    if isinstance(e, ast.Name):
        return e.id, d
    return None


def _names(e):
    return sorted({n.id for n in ast.walk(e) if isinstance(n, ast.Name)} - MODULE_NAMES - FRESH_BUILTINS)


class HeapBody:
    def __init__(self):
        self.tmp = 0

    def classify(self, e):
        """kind of the object an expression evaluates to: (kind, source name)"""
        if isinstance(e, ast.Name):
            return ("alias", e.id)
        if _self_attr(e):
            return ("alias", "self." + e.attr)
        if isinstance(e, (ast.Attribute, ast.Subscript)):
            r = _chain_root(e)
            if r and r[0] not in MODULE_NAMES:
                return ("sub", r[0])
            return ("unknown", None) if r is None and not isinstance(e.value, ast.Call) else \
                (("shallow", CALLER) if r else ("unknown", None))
        if isinstance(e, (ast.Constant, ast.JoinedStr, ast.Lambda)):
            return ("fresh", None)
        if isinstance(e, (ast.Dict, ast.List, ast.Set, ast.Tuple, ast.ListComp, ast.SetComp, ast.DictComp,
                          ast.GeneratorExp, ast.BinOp, ast.UnaryOp, ast.Compare)):
            ns = _names(e)
            if not ns:
                return ("fresh", None)
            return ("shallow", ns[0] if len(ns) == 1 else CALLER)
        if isinstance(e, (ast.BoolOp, ast.IfExp, ast.NamedExpr, ast.Await, ast.Yield, ast.YieldFrom, ast.Starred)):
            return ("unknown", None)      # evaluates to one of its operands
        if isinstance(e, ast.Call):
            f = e.func
            if isinstance(f, ast.Name):
                if f.id in FRESH_BUILTINS:
                    ns = _names(ast.Tuple(elts=list(e.args) + [k.value for k in e.keywords], ctx=ast.Load()))
                    if not ns:
                        return ("fresh", None)
                    if f.id == "deepcopy":
                        return ("fresh", None)
                    return ("shallow", ns[0] if len(ns) == 1 else CALLER)
                if f.id == "getattr" and e.args and isinstance(e.args[0], ast.Name):
                    return ("sub", e.args[0].id)
                if f.id in PACKAGE_BUILDERS:
                    return ("shallow", CALLER)
                return ("unknown", None)          # a function of the package: may hand back its argument
            if isinstance(f, ast.Attribute):
                r = _chain_root(f.value)
                if r is None:
                    # method of a call result / literal, e.g. "".join(..), f(x).rename(..)
                    inner = self.classify(f.value)
                    return ("shallow", inner[1] or CALLER) if inner[0] != "fresh" else ("shallow", CALLER)
                root, depth = r
                if root in MODULE_NAMES:
                    return ("shallow", CALLER)    # np.*, xr.* build new objects from their arguments
                if root == "self" and depth == 0:
                    return ("unknown", None)      # a method of the Grid: may return stored state
                if f.attr in PART_METHODS:
                    return ("sub", root)
                if f.attr == "deepcopy":
                    return ("fresh", None)
                return ("shallow", root)          # x.copy(), x.rename(..), x.isel(..): new object, shared interior
            return ("unknown", None)
        raise Shape(f"expression form {type(e).__name__} at line {getattr(e, 'lineno', '?')}")

    def bind(self, target, kind, src, out):
        if isinstance(target, ast.Name):
            x = target.id
            if kind == "fresh":
                out.append(("fresh", x))
            elif kind == "shallow":
                out.append(("shallow", x, src))
            elif kind == "alias":
                out.append(("alias", x, src))
            elif kind == "sub":
                out.append(("sub", x, src))
            else:
                out.append(("unknown", x))
        elif isinstance(target, (ast.Tuple, ast.List)):
            # unpacking: the targets are parts of the value
            k2, s2 = {"fresh": ("fresh", None), "alias": ("sub", src), "sub": ("sub", src),
                      "shallow": ("sub", src), "unknown": ("unknown", None)}[kind]
            for t in target.elts:
                self.bind(t.value if isinstance(t, ast.Starred) else t, k2, s2, out)
        elif _self_attr(target):
            # self.attr = value: the Grid object changes, and the attribute names the value from now on
            out.append(("mutate", "self"))
            self.bind(ast.Name(id="self." + target.attr, ctx=ast.Store()), kind, src, out)
        elif isinstance(target, (ast.Attribute, ast.Subscript)):
            self.mutate_receiver(target.value, out)
        else:
            raise Shape(f"assignment target {type(target).__name__}")

    def mutate_receiver(self, recv, out):
        r = _chain_root(recv)
        if r is None:
            # the receiver is the result of a call or another expression: an object we know nothing about
            self.tmp += 1
            t = f"$t{self.tmp}"
            k, s = self.classify(recv)
            self.bind(ast.Name(id=t, ctx=ast.Store()), k, s, out)
            out.append(("mutate", t))
        elif r[0] in MODULE_NAMES:
            raise Shape(f"in-place operation on module {r[0]}")
        elif r[1] == 0:
            out.append(("mutate", r[0]))
        else:
            out.append(("mutate_deep", r[0]))

    def expr_effects(self, e, out):
        """in-place operations hidden inside an expression: x.pop(..), x.update(..), f(.., inplace=True)"""
        for n in ast.walk(e):
            if isinstance(n, ast.Call) and isinstance(n.func, ast.Attribute):
                inplace = any(k.arg == "inplace" and not (isinstance(k.value, ast.Constant) and k.value.value is False)
                              for k in n.keywords)
                if n.func.attr in MUTATING_METHODS or inplace:
                    r = _chain_root(n.func.value)
                    if r and r[0] in MODULE_NAMES:
                        continue
                    self.mutate_receiver(n.func.value, out)
            if isinstance(n, ast.Call):
                # numpy's out=...: the result is written into that array
                for k in n.keywords:
                    if k.arg == "out" and not (isinstance(k.value, ast.Constant) and k.value.value is None):
                        self.mutate_receiver(k.value, out)
            if isinstance(n, (ast.NamedExpr,)):
                raise Shape("walrus")

    def assigned(self, stmts):
        names = set()
        for s in stmts:
            aug = {id(n.target) for n in ast.walk(s) if isinstance(n, ast.AugAssign)}
            for n in ast.walk(s):
                # x += y keeps x's object or derives a new one from it: not a rebinding to something else
                if isinstance(n, ast.Name) and isinstance(n.ctx, ast.Store) and id(n) not in aug:
                    names.add(n.id)
                if isinstance(n, (ast.FunctionDef, ast.ClassDef)):
                    names.add(n.name)
        return sorted(names)

    def block(self, stmts):
        out = []
        for s in stmts:
            self.stmt(s, out)
        return out

    def stmt(self, s, out):
        if isinstance(s, (ast.FunctionDef, ast.AsyncFunctionDef, ast.ClassDef)):
            out.append(("fresh", s.name))          # bodies are inventoried on their own
        elif isinstance(s, ast.Assign):
            self.expr_effects(s.value, out)
            k, src = self.classify(s.value)
            for t in s.targets:
                self.bind(t, k, src, out)
        elif isinstance(s, ast.AnnAssign):
            if s.value is not None:
                self.expr_effects(s.value, out)
                k, src = self.classify(s.value)
                self.bind(s.target, k, src, out)
        elif isinstance(s, ast.AugAssign):
            self.expr_effects(s.value, out)
            if isinstance(s.target, ast.Name):
                out.append(("mutate", s.target.id))        # x += y may act in place
            else:
                self.mutate_receiver(s.target.value, out)
        elif isinstance(s, ast.Delete):
            for t in s.targets:
                if isinstance(t, ast.Name):
                    out.append(("unknown", t.id))
                else:
                    self.mutate_receiver(t.value, out)
        elif isinstance(s, (ast.Expr, ast.Return, ast.Raise, ast.Assert)):
            for v in [getattr(s, a, None) for a in ("value", "exc", "cause", "test", "msg")]:
                if v is not None:
                    self.expr_effects(v, out)
        elif isinstance(s, ast.If):
            self.expr_effects(s.test, out)
            out.append(("if", self.block(s.body), self.block(s.orelse)))
        elif isinstance(s, (ast.For, ast.AsyncFor, ast.While)):
            body = list(s.body)
            pre = []
            if isinstance(s, ast.While):
                self.expr_effects(s.test, out)
            else:
                self.expr_effects(s.iter, out)
                k, src = self.classify(s.iter)
                k2, s2 = {"fresh": ("fresh", None), "alias": ("sub", src), "sub": ("sub", src),
                          "shallow": ("sub", src), "unknown": ("unknown", None)}[k]
                self.bind(s.target, k2, s2, pre)
            names = self.assigned(body + ([ast.Expr(value=s.target)] if not isinstance(s, ast.While) else []))
            for x in names:
                out.append(("unknown", x))
            out.append(("if", pre + self.block(body), []))
            if s.orelse:
                out.append(("if", self.block(s.orelse), []))
        elif isinstance(s, ast.Try):
            # any prefix of the body may have run when a handler starts: the body is optional,
            # names it binds are unknown to the handlers
            names = self.assigned(s.body)
            out.append(("if", self.block(s.body), []))
            for h in s.handlers:
                pre = [("unknown", x) for x in names] + ([("fresh", h.name)] if h.name else [])
                out.append(("if", pre + self.block(h.body), []))
            if s.orelse:
                out.append(("if", self.block(s.orelse), []))
            if s.finalbody:
                out.extend([("unknown", x) for x in names] + self.block(s.finalbody))
        elif isinstance(s, (ast.With, ast.AsyncWith)):
            for it in s.items:
                self.expr_effects(it.context_expr, out)
                if it.optional_vars is not None:
                    self.bind(it.optional_vars, "unknown", None, out)
            out.extend(self.block(s.body))
        elif isinstance(s, (ast.Pass, ast.Break, ast.Continue, ast.Import, ast.ImportFrom, ast.Global, ast.Nonlocal)):
            pass
        else:
            raise Shape(f"statement form {type(s).__name__} at line {s.lineno}")


def _coq_actions(acts):
    def one(a):
        t = a[0]
        if t == "fresh":
            return f"ABindFresh {cstr(a[1])}"
        if t in ("shallow", "alias", "sub"):
            c = {"shallow": "ABindShallow", "alias": "ABindAlias", "sub": "ABindSub"}[t]
            return f"{c} {cstr(a[1])} {cstr(a[2] or CALLER)}"
        if t == "unknown":
            return f"ABindUnknown {cstr(a[1])}"
        if t == "mutate":
            return f"AMutate {cstr(a[1])}"
        if t == "mutate_deep":
            return f"AMutateDeep {cstr(a[1])}"
        if t == "if":
            return f"AIf {_coq_actions(a[1])} {_coq_actions(a[2])}"
        raise Shape(f"action {t}")
    return clist(one(a) for a in acts)


def _has_mutation(acts):
    return any(a[0] in ("mutate", "mutate_deep") or (a[0] == "if" and (_has_mutation(a[1]) or _has_mutation(a[2])))
               for a in acts)


@extractor("G18")
def g18():
    rows = []
    nfun = 0
    for fname in HEAP_FILES:
        tree = parse(fname)

        def visit(node, prefix):
            nonlocal nfun
            for ch in ast.iter_child_nodes(node):
                if isinstance(ch, (ast.FunctionDef, ast.AsyncFunctionDef)):
                    q = prefix + ch.name
                    nfun += 1
                    hb = HeapBody()
                    acts = hb.block(ch.body)
                    a = ch.args
                    fresh = [a.kwarg.arg] if a.kwarg else []      # the **kwargs dictionary is built for the call
                    if a.vararg:
                        fresh.append(a.vararg.arg)
                    if _has_mutation(acts):
                        rows.append(f"({cstr(fname)}, {cstr(q)}, {clist(cstr(x) for x in fresh)}, {_coq_actions(acts)})")
                    visit(ch, q + ".")
                elif isinstance(ch, ast.ClassDef):
                    visit(ch, prefix + ch.name + ".")
                else:
                    visit(ch, prefix)
        visit(tree, "")
    out = ["From Coq Require Import List String.", "From XV Require Import Model.Heap.", "Import ListNotations.",
           "Open Scope string_scope.",
           f"(* {nfun} function bodies read; listed: those containing an in-place operation.",
           "   (file, function, names fresh on entry, body) *)",
           "Definition gen_bodies : list (string * string * list string * list action) := " + clist(rows) + ".",
           f"Definition gen_bodies_read : nat := {nfun}."]
    return "\n".join(out)


g18.fallback = ("From Coq Require Import List String.\nFrom XV Require Import Model.Heap.\nImport ListNotations.\n"
                "Open Scope string_scope.\n"
                "Definition gen_bodies : list (string * string * list string * list action) := "
                "[(\"?\", \"extractor unavailable\", [], [AMutate \"?\"])].\nDefinition gen_bodies_read : nat := 0.")


# ----------------------------------------------------------------------------------------
# G13: places where the spelling of a name could matter -- string methods that look inside
# a string, ordering of strings, and string concatenation -- in the files that handle axis,
# dimension and variable names.

NAME_FILES = ["grid.py", "axis.py", "padding.py", "grid_ufunc.py", "transform.py", "metrics.py", "comodo.py",
              "sgrid.py", "metadata_parsers.py"]
STRING_METHODS = {"replace", "startswith", "endswith", "find", "rfind", "index", "rindex", "split", "rsplit",
                  "partition", "rpartition", "strip", "lstrip", "rstrip", "lower", "upper", "title", "capitalize",
                  "casefold", "swapcase", "zfill", "ljust", "rjust", "center", "count", "translate", "removeprefix",
                  "removesuffix", "isalpha", "isdigit", "isalnum", "isupper", "islower", "isidentifier"}


class NameSites(ast.NodeVisitor):
    def __init__(self, fname):
        self.fname = fname
        self.func = "<module>"
        self.sites = []

    def flag(self, kind, e):
        self.sites.append((self.fname, self.func, kind, " ".join(ast.unparse(e).split())[:90]))

    def visit_FunctionDef(self, n):
        saved = self.func
        self.func = n.name if self.func == "<module>" else self.func + "." + n.name
        body = n.body
        # a docstring is not code
        if body and isinstance(body[0], ast.Expr) and isinstance(body[0].value, ast.Constant) \
                and isinstance(body[0].value.value, str):
            body = body[1:]
        for s in body:
            self.visit(s)
        self.func = saved

    def visit_Call(self, n):
        f = n.func
        if isinstance(f, ast.Attribute) and f.attr in STRING_METHODS:
            # list.index / list.count are not string operations when the receiver is visibly a list
            if not (f.attr in ("index", "count") and isinstance(f.value, (ast.List, ast.ListComp))):
                self.flag("str." + f.attr, n)
        if isinstance(f, ast.Name) and f.id in ("sorted", "min", "max") and n.args:
            self.flag(f.id, n)
        if isinstance(f, ast.Attribute) and f.attr == "sort":
            self.flag("list.sort", n)
        if isinstance(f, ast.Attribute) and isinstance(f.value, ast.Name) and f.value.id == "re":
            self.flag("re." + f.attr, n)
        if isinstance(f, ast.Name) and f.id == "len" and n.args and isinstance(n.args[0], (ast.Name, ast.Attribute)) \
                and ("name" in ast.unparse(n.args[0]).lower() or "dim" in ast.unparse(n.args[0]).lower()
                     and not ast.unparse(n.args[0]).endswith("dims")):
            self.flag("len-of-name", n)
        self.generic_visit(n)

    def visit_BinOp(self, n):
        def is_str(e):
            return isinstance(e, ast.Constant) and isinstance(e.value, str)
        if isinstance(n.op, ast.Add) and (is_str(n.left) or is_str(n.right)):
            self.flag("concat", n)
        self.generic_visit(n)

    def visit_Compare(self, n):
        def is_str(e):
            return isinstance(e, ast.Constant) and isinstance(e.value, str)
        def strlike(e):
            # a string literal, an f-string, str(...) / repr(...) / "..." % ... / ...format(...): the
            # right-hand side of `in` is text, so the test is a substring test, not membership
            return is_str(e) or isinstance(e, ast.JoinedStr) or \
                (isinstance(e, ast.Call) and isinstance(e.func, ast.Name) and e.func.id in ("str", "repr")) or \
                (isinstance(e, ast.Call) and isinstance(e.func, ast.Attribute) and e.func.attr in ("format", "lower", "upper", "strip")) or \
                (isinstance(e, ast.BinOp) and isinstance(e.op, ast.Mod) and is_str(e.left))
        for op, c in zip(n.ops, n.comparators):
            if isinstance(op, (ast.In, ast.NotIn)) and strlike(c):
                self.flag("substring-test", n)      # x in "literal": substring, not membership
            if isinstance(op, (ast.Lt, ast.LtE, ast.Gt, ast.GtE)) and (is_str(n.left) or is_str(c)):
                self.flag("string-order", n)
        self.generic_visit(n)


@extractor("G13")
def g13():
    sites = []
    for fname in NAME_FILES:
        v = NameSites(fname)
        v.visit(parse(fname))
        sites += v.sites
    rows = [f"({cstr(a)}, {cstr(b)}, {cstr(c)}, {cstr(d)})" for a, b, c, d in sorted(set(sites))]
    out = ["From Coq Require Import List String.", "Import ListNotations.", "Open Scope string_scope.",
           "(* (file, function, kind, expression) *)",
           "Definition gen_name_sensitive_sites : list (string * string * string * string) := " + clist(rows) + "."]
    return "\n".join(out)


g13.fallback = ("From Coq Require Import List String.\nImport ListNotations.\nOpen Scope string_scope.\n"
                "Definition gen_name_sensitive_sites : list (string * string * string * string) := "
                "[(\"?\", \"?\", \"extractor unavailable\", \"?\")].")
