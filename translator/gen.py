"""Fail-closed Python-ast extractors: /repo fragments -> coq/Generated/*.v.
Every extractor has a shape contract; when the source no longer has that shape the
extractor emits `<name>_available := false` and records why (it never guesses)."""
from __future__ import annotations

import ast
import traceback
from pathlib import Path

REPO = Path("/repo/xgcm")
OUT = Path(__file__).resolve().parent.parent / "coq" / "Generated"

EXTRACTORS = []   # (name, function returning coq text)


def extractor(name):
    def deco(f):
        EXTRACTORS.append((name, f))
        return f
    return deco


class Shape(Exception):
    pass


def cstr(s):
    if not all(32 <= ord(c) < 127 for c in s):
        raise Shape(f"non-ASCII string {s!r}")
    return '"' + s.replace('"', '""') + '"'


def parse(fname):
    return ast.parse((REPO / fname).read_text())


def write_if_changed(path, text):
    if path.exists() and path.read_text() == text:
        return
    path.parent.mkdir(parents=True, exist_ok=True)
    path.write_text(text)


def regenerate():
    status = {}
    for name, f in EXTRACTORS:
        header = (f"(* GENERATED from /repo by translator/gen.py extractor {name}; "
                  "rewritten on every run. *)\n")
        try:
            body = f()
            text = header + body + f"\nDefinition {name}_available : bool := true.\n"
            status[name] = "ok"
        except Exception as e:  # fail closed
            why = f"{type(e).__name__}: {e}"
            status[name] = "unavailable: " + why[:300]
            text = header + getattr(f, "fallback", "") + \
                f"\nDefinition {name}_available : bool := false.\n(* {why[:300].replace('*)', '* )')} *)\n"
        write_if_changed(OUT / f"{name}.v", text)
    return status


from . import extractors  # noqa: E402,F401  (registers the extractors)
