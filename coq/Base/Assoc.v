(* Association lists standing for Python dicts (insertion-ordered, first key wins). *)
From Coq Require Import List Bool ZArith String.
Import ListNotations.
Open Scope string_scope.

Section Assoc.
  Context {K V : Type} (keqb : K -> K -> bool).
  Hypothesis keqb_spec : forall a b, keqb a b = true <-> a = b.

  Fixpoint lookup (k : K) (l : list (K * V)) : option V :=
    match l with
    | [] => None
    | (k', v) :: r => if keqb k k' then Some v else lookup k r
    end.

  Lemma lookup_In : forall k l v, lookup k l = Some v -> In (k, v) l.
  Proof.
    intros k l; induction l as [|[k' v'] r IH]; simpl; intros v H; [discriminate|].
    destruct (keqb k k') eqn:E.
    - apply keqb_spec in E. subst. inversion H; subst. left; reflexivity.
    - right; apply IH; exact H.
  Qed.

  Lemma In_lookup_NoDup : forall k v l, NoDup (map fst l) -> In (k, v) l -> lookup k l = Some v.
  Proof.
    intros k v l; induction l as [|[k' v'] r IH]; simpl; intros ND HI; [contradiction|].
    inversion ND as [|? ? Hn ND']; subst.
    destruct HI as [HI|HI].
    - inversion HI; subst. destruct (keqb k k) eqn:E; [reflexivity|].
      assert (keqb k k = true) by (apply keqb_spec; reflexivity). congruence.
    - destruct (keqb k k') eqn:E.
      + apply keqb_spec in E; subst. exfalso. apply Hn.
        change k' with (fst (k', v)). apply in_map. exact HI.
      + apply IH; assumption.
  Qed.

  Definition memk (k : K) (l : list K) : bool := existsb (keqb k) l.

  Lemma memk_In : forall k l, memk k l = true <-> In k l.
  Proof.
    intros k l. unfold memk. rewrite existsb_exists. split.
    - intros [x [Hx E]]. apply keqb_spec in E. subst; exact Hx.
    - intros H. exists k. split; [exact H|]. apply keqb_spec; reflexivity.
  Qed.
End Assoc.

Lemma string_eqb_spec' : forall a b : string, String.eqb a b = true <-> a = b.
Proof. intros; apply String.eqb_eq. Qed.
Lemma Z_eqb_spec' : forall a b : Z, Z.eqb a b = true <-> a = b.
Proof. intros; apply Z.eqb_eq. Qed.

Definition lookupS {V} := @lookup string V String.eqb.
Definition lookupZ {V} := @lookup Z V Z.eqb.
Definition memS := @memk string String.eqb.
Definition memZ := @memk Z Z.eqb.
