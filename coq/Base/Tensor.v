(* Labelled N-d arrays: a dimension list (order is observable) and a value function over
   index environments.  Every xarray primitive xgcm calls is a two-line definition. *)
From Coq Require Import List Bool ZArith Lia Arith String.
From XV Require Import Base.Assoc Base.Seq1D.
Import ListNotations.
Open Scope string_scope.
Open Scope nat_scope.
Open Scope list_scope.

Definition env : Type := string -> nat.
Definition env0 : env := fun _ => 0.
Definition upd (e : env) (d : string) (i : nat) : env :=
  fun s => if String.eqb s d then i else e s.

Definition dimlist : Type := list (string * nat).

Definition dsize (d : string) (ds : dimlist) : nat :=
  match lookupS d ds with Some n => n | None => 0 end.
Definition dhas (d : string) (ds : dimlist) : bool :=
  match lookupS d ds with Some _ => true | None => false end.
Definition dnames (ds : dimlist) : list string := map fst ds.

(* replace the entry of dimension d (name and size), keeping its place *)
Fixpoint dreplace (d : string) (new : string * nat) (ds : dimlist) : dimlist :=
  match ds with
  | [] => []
  | (d', n) :: r => if String.eqb d' d then new :: r else (d', n) :: dreplace d new r
  end.
Fixpoint dremove (d : string) (ds : dimlist) : dimlist :=
  match ds with
  | [] => []
  | (d', n) :: r => if String.eqb d' d then r else (d', n) :: dremove d r
  end.

Arguments dsize : simpl never.
Arguments dhas : simpl never.

Record tensor (A : Type) : Type := { dims : dimlist; get : env -> A }.
Arguments dims {A} _.
Arguments get {A} _ _.

Section Tensor.
  Context {A : Type} (dflt : A).

  Definition size (d : string) (t : tensor A) : nat := dsize d (dims t).
  Definition has (d : string) (t : tensor A) : bool := dhas d (dims t).

  (* the 1-d column through environment e along dimension d *)
  Definition column (t : tensor A) (d : string) (e : env) : list A :=
    map (fun i => get t (upd e d i)) (seq 0 (size d t)).

  (* apply a list function to every column along d; the dimension keeps its place and
     is renamed d' with length newlen (xarray.pad, isel(slice), cumsum, flip ...) *)
  Definition map_dim (d d' : string) (newlen : nat) (f : list A -> list A)
             (t : tensor A) : tensor A :=
    {| dims := dreplace d (d', newlen) (dims t);
       get := fun e => nth (e d') (f (column t d e)) dflt |}.

  (* xarray.apply_ufunc with one core dimension: the core dimension is moved last,
     and the output core dimension d' (length newlen) is appended *)
  Definition apply_core (d d' : string) (newlen : nat) (f : list A -> list A)
             (t : tensor A) : tensor A :=
    {| dims := dremove d (dims t) ++ [(d', newlen)];
       get := fun e => nth (e d') (f (column t d e)) dflt |}.

  (* DataArray.transpose( *order ): order is a permutation of the dimension names *)
  Definition transpose (order : list string) (t : tensor A) : tensor A :=
    {| dims := map (fun d => (d, size d t)) order; get := get t |}.

  Definition rename_dim (d d' : string) (t : tensor A) : tensor A :=
    {| dims := dreplace d (d', size d t) (dims t);
       get := fun e => get t (upd e d (e d')) |}.

  (* isel({d: i}) drops the dimension *)
  Definition isel_index (d : string) (i : nat) (t : tensor A) : tensor A :=
    {| dims := dremove d (dims t); get := fun e => get t (upd e d i) |}.

  (* broadcasting binary operation: union of dimensions in order of appearance *)
  Definition tmap2 (f : A -> A -> A) (t1 t2 : tensor A) : tensor A :=
    {| dims := dims t1 ++ filter (fun p => negb (dhas (fst p) (dims t1))) (dims t2);
       get := fun e => f (get t1 e) (get t2 e) |}.

  Definition tmap (f : A -> A) (t : tensor A) : tensor A :=
    {| dims := dims t; get := fun e => f (get t e) |}.

  (* row-major enumeration of the index environments of a dimension list *)
  Fixpoint envs (ds : dimlist) (e : env) : list env :=
    match ds with
    | [] => [e]
    | (d, n) :: r => flat_map (fun i => envs r (upd e d i)) (seq 0 n)
    end.

  Definition tabulate (t : tensor A) : list A := map (get t) (envs (dims t) env0).

  Fixpoint dprod (ds : dimlist) : nat :=
    match ds with [] => 1 | (_, n) :: r => n * dprod r end.

  Fixpoint flat_index (ds : dimlist) (e : env) : nat :=
    match ds with
    | [] => 0
    | (d, _) :: r => e d * dprod r + flat_index r e
    end.

  Definition of_list (ds : dimlist) (vals : list A) : tensor A :=
    {| dims := ds; get := fun e => nth (flat_index ds e) vals dflt |}.

  (* evaluate once, so that later reads do not recompute the whole history *)
  Definition materialize (t : tensor A) : tensor A := of_list (dims t) (tabulate t).

  (* a tensor only reads the environment at its own dimensions *)
  Definition wf (t : tensor A) : Prop :=
    forall e e', (forall d, In d (dnames (dims t)) -> e d = e' d) -> get t e = get t e'.

  Definition in_range (ds : dimlist) (e : env) : Prop :=
    forall d n, In (d, n) ds -> e d < n.
End Tensor.

Definition dimlist_eqb (a b : dimlist) : bool :=
  (List.length a =? List.length b)%nat &&
  forallb (fun p => String.eqb (fst (fst p)) (fst (snd p)) && (snd (fst p) =? snd (snd p))%nat)
          (combine a b).

Fixpoint list_eqb {A} (eqb : A -> A -> bool) (a b : list A) : bool :=
  match a, b with
  | [], [] => true
  | x :: a', y :: b' => eqb x y && list_eqb eqb a' b'
  | _, _ => false
  end.

(* ---- further xarray primitives used by the face-connection padding ---- *)
Section Tensor2.
  Context {A : Type} (dflt : A).

  (* isel({d: slice(start, start+len)}) with 0 <= start, start+len <= size *)
  Definition isel_range (d : string) (start len : nat) (t : tensor A) : tensor A :=
    {| dims := dreplace d (d, len) (dims t);
       get := fun e => get t (upd e d (start + e d)) |}.

  (* isel({d: slice(None, None, -1)}) *)
  Definition flip (d : string) (t : tensor A) : tensor A :=
    {| dims := dims t; get := fun e => get t (upd e d (size d t - 1 - e d)) |}.

  (* exchange the names of two dimensions (both present), or rename a to b (b absent) *)
  Definition swap_names (a b : string) (t : tensor A) : tensor A :=
    {| dims := map (fun dn => if String.eqb (fst dn) a then (b, snd dn)
                              else if String.eqb (fst dn) b then (a, snd dn) else dn) (dims t);
       get := fun e => get t (fun d => if String.eqb d a then e b
                                        else if String.eqb d b then e a else e d) |}.

  (* xr.concat([t1, t2], dim=d) where both carry d *)
  Definition concat (d : string) (t1 t2 : tensor A) : tensor A :=
    {| dims := dreplace d (d, size d t1 + size d t2) (dims t1);
       get := fun e => if e d <? size d t1 then get t1 e else get t2 (upd e d (e d - size d t1)) |}.

  (* the same two operations with the lengths involved made explicit (in the face
     padding every slice length is known: the common width W) *)
  Definition flip_n (d : string) (n : nat) (t : tensor A) : tensor A :=
    {| dims := dims t; get := fun e => get t (upd e d (n - 1 - e d)) |}.
  Definition concat_at (d : string) (n1 n2 : nat) (t1 t2 : tensor A) : tensor A :=
    {| dims := dreplace d (d, n1 + n2) (dims t1);
       get := fun e => if e d <? n1 then get t1 e else get t2 (upd e d (e d - n1)) |}.

  (* xr.concat(faces, dim=facedim) of arrays lacking facedim: new leading dimension *)
  Definition stack (d : string) (ts : list (tensor A)) : tensor A :=
    {| dims := (d, List.length ts) :: match ts with t :: _ => dims t | [] => [] end;
       get := fun e => match nth_error ts (e d) with Some t => get t e | None => dflt end |}.
End Tensor2.
