(* IEEE binary64 instance of Ops (Coq primitive floats), used only to execute the
   translated kernels bit-exactly against the implementation; no theorem is about it. *)
From Coq Require Import PrimFloat.
From XV Require Import Base.Ops.
Definition FOps : Ops float :=
  mkOps float PrimFloat.zero PrimFloat.one PrimFloat.add PrimFloat.sub PrimFloat.mul PrimFloat.div
        PrimFloat.leb PrimFloat.ltb PrimFloat.eqb.
Definition fisnan (x : float) : bool := PrimFloat.is_nan x.
(* bitwise-level agreement up to the sign of zero and the payload of NaN *)
Definition feq (a b : float) : bool := (PrimFloat.is_nan a && PrimFloat.is_nan b) || PrimFloat.eqb a b.
