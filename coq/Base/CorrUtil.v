(* Helpers shared by the Corr/Eval_* evaluators: indices of failing cases. *)
From Coq Require Import List Bool.
Import ListNotations.

Fixpoint failing_from (i : nat) (l : list bool) : list nat :=
  match l with
  | [] => []
  | b :: r => if b then failing_from (S i) r else i :: failing_from (S i) r
  end.
Definition failing (l : list bool) : list nat := failing_from 0 l.

(* Three observable classes per case: (spec agrees, model agrees, auxiliary agrees). *)
Definition failing3 (l : list (bool * bool * bool)) : list nat * list nat * list nat :=
  ( failing (map (fun t => fst (fst t)) l),
    failing (map (fun t => snd (fst t)) l),
    failing (map snd l) ).
