(* Support for loop-nest kernels translated from Python/NumPy (transform.py): Python's
   max/min, indexed reads and functional updates of 1-d arrays, NaN-aware reductions and
   the modelled NumPy primitive np.interp. *)
From Coq Require Import List Bool ZArith Arith.
From XV Require Import Base.Ops.
Import ListNotations.
Open Scope nat_scope.
Open Scope list_scope.

Section Kernel.
  Context {A : Type} (o : Ops A) (isnan : A -> bool) (nanv : A).

  Definition gtb (a b : A) : bool := ltb o b a.
  (* Python: max(a, b) returns b if b > a else a;  min(a, b) returns b if b < a else a *)
  Definition py_max (a b : A) : A := if gtb b a then b else a.
  Definition py_min (a b : A) : A := if ltb o b a then b else a.

  Definition idx (x : list A) (i : nat) : A := nth i x (zero o).
  Definition idx_last (x : list A) : A := last x (zero o).

  Fixpoint upd_set (x : list A) (i : nat) (v : A) : list A :=
    match x, i with
    | [], _ => []
    | _ :: r, O => v :: r
    | a :: r, S i' => a :: upd_set r i' v
    end.
  Definition upd_add (x : list A) (i : nat) (v : A) : list A := upd_set x i (add o (idx x i) v).

  Definition zeros_like (x : list A) : list A := map (fun _ => zero o) x.
  Definition not_nan (x : list A) : list A := filter (fun v => negb (isnan v)) x.

  (* np.nanmax / np.nanmin: NaNs ignored (all-NaN input: NaN) *)
  Definition nanmax (x : list A) : A :=
    match not_nan x with
    | [] => nanv
    | a :: r => fold_left (fun m v => if gtb v m then v else m) r a
    end.
  Definition nanmin (x : list A) : A :=
    match not_nan x with
    | [] => nanv
    | a :: r => fold_left (fun m v => if ltb o v m then v else m) r a
    end.

  (* np.interp(x, xp, fp) for increasing xp (modelled NumPy primitive): below xp[0] ->
     fp[0]; above xp[-1] -> fp[-1]; otherwise with j the last index such that
     xp[j] <= x: fp[j] if j is the last index or x == xp[j], else
     slope * (x - xp[j]) + fp[j] with slope = (fp[j+1]-fp[j]) / (xp[j+1]-xp[j]).
     NaN in x gives NaN. *)
  Fixpoint last_le (x : A) (xp : list A) (j : nat) (best : nat) : nat :=
    match xp with
    | [] => best
    | a :: r => if leb o a x then last_le x r (S j) j else best
    end.
  Definition interp1 (xp fp : list A) (x : A) : A :=
    if isnan x then nanv else
    match xp with
    | [] => nanv
    | x0 :: _ =>
      if ltb o x x0 then idx fp 0
      else if gtb x (idx_last xp) then idx_last fp
      else
        let j := last_le x xp 0 0 in
        if (j =? List.length xp - 1) || eqb o x (idx xp j) then idx fp j
        else
          let slope := div o (sub o (idx fp (j + 1)) (idx fp j)) (sub o (idx xp (j + 1)) (idx xp j)) in
          add o (mul o slope (sub o x (idx xp j))) (idx fp j)
    end.
  Definition np_interp (x xp fp : list A) : list A := map (interp1 xp fp) x.
End Kernel.
