(* The real-number instance of Ops: theorems "for all real values" are stated here. *)
From Coq Require Import Reals Lra Bool.
From XV Require Import Base.Ops.
Open Scope R_scope.

Definition ROps : Ops R :=
  mkOps R 0 1 Rplus Rminus Rmult Rdiv
        (fun a b => if Rle_dec a b then true else false)
        (fun a b => if Rlt_dec a b then true else false)
        (fun a b => if Req_EM_T a b then true else false).

Definition Rnotnan (x : R) : bool := false.

Lemma Rltb_iff a b : ltb ROps a b = true <-> a < b.
Proof. simpl. destruct (Rlt_dec a b); split; intros; auto; discriminate. Qed.
Lemma Rltb_false a b : ltb ROps a b = false <-> b <= a.
Proof. simpl. destruct (Rlt_dec a b); split; intros; try lra; try discriminate; auto. Qed.
Lemma Rleb_iff a b : leb ROps a b = true <-> a <= b.
Proof. simpl. destruct (Rle_dec a b); split; intros; auto; discriminate. Qed.
Lemma Rleb_false a b : leb ROps a b = false <-> b < a.
Proof. simpl. destruct (Rle_dec a b); split; intros; try lra; try discriminate; auto. Qed.
Lemma Reqb_iff a b : eqb ROps a b = true <-> a = b.
Proof. simpl. destruct (Req_EM_T a b); split; intros; auto; discriminate. Qed.
Lemma Reqb_false a b : eqb ROps a b = false <-> a <> b.
Proof. simpl. destruct (Req_EM_T a b); split; intros; auto; try discriminate; contradiction. Qed.

(* turn every boolean comparison of the goal/hypotheses into an arithmetic fact *)
Ltac rbool :=
  repeat match goal with
         | |- context [ltb ROps ?a ?b] =>
           let E := fresh "E" in destruct (ltb ROps a b) eqn:E;
           [apply Rltb_iff in E | apply Rltb_false in E]
         | |- context [leb ROps ?a ?b] =>
           let E := fresh "E" in destruct (leb ROps a b) eqn:E;
           [apply Rleb_iff in E | apply Rleb_false in E]
         | |- context [eqb ROps ?a ?b] =>
           let E := fresh "E" in destruct (eqb ROps a b) eqn:E;
           [apply Reqb_iff in E | apply Reqb_false in E]
         end.
