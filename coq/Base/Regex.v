(* Regular expressions over ASCII with a Brzozowski-derivative matcher, proved correct
   against the denotation.  Generic; used for the seven signature patterns of
   xgcm/grid_ufunc.py (re.match anchored at both ends = membership of the whole string). *)
From Coq Require Import List Bool Ascii.
Import ListNotations.
Open Scope list_scope.

Inductive re : Type :=
| Emp                              (* no string *)
| Eps                              (* the empty string *)
| Chr (p : ascii -> bool)          (* one character satisfying p *)
| Cat (a b : re)
| Alt (a b : re)
| Star (a : re).

Definition Opt (a : re) : re := Alt Eps a.
Definition Plus (a : re) : re := Cat a (Star a).
Fixpoint Lit (s : list ascii) : re :=
  match s with
  | [] => Eps
  | c :: r => Cat (Chr (Ascii.eqb c)) (Lit r)
  end.

Inductive lang : re -> list ascii -> Prop :=
| L_eps : lang Eps []
| L_chr p c : p c = true -> lang (Chr p) [c]
| L_cat a b s t : lang a s -> lang b t -> lang (Cat a b) (s ++ t)
| L_altl a b s : lang a s -> lang (Alt a b) s
| L_altr a b s : lang b s -> lang (Alt a b) s
| L_star0 a : lang (Star a) []
| L_star1 a s t : lang a s -> lang (Star a) t -> lang (Star a) (s ++ t).

Fixpoint nullable (r : re) : bool :=
  match r with
  | Emp => false
  | Eps => true
  | Chr _ => false
  | Cat a b => nullable a && nullable b
  | Alt a b => nullable a || nullable b
  | Star _ => true
  end.

Fixpoint deriv (c : ascii) (r : re) : re :=
  match r with
  | Emp | Eps => Emp
  | Chr p => if p c then Eps else Emp
  | Cat a b => if nullable a then Alt (Cat (deriv c a) b) (deriv c b) else Cat (deriv c a) b
  | Alt a b => Alt (deriv c a) (deriv c b)
  | Star a => Cat (deriv c a) (Star a)
  end.

Fixpoint matches (r : re) (s : list ascii) : bool :=
  match s with
  | [] => nullable r
  | c :: t => matches (deriv c r) t
  end.

Lemma lang_cat_inv a b s : lang (Cat a b) s -> exists s1 s2, s = s1 ++ s2 /\ lang a s1 /\ lang b s2.
Proof.
  intros H. remember (Cat a b) as r eqn:Er. destruct H; try discriminate.
  inversion Er; subst. eauto.
Qed.
Lemma lang_alt_inv a b s : lang (Alt a b) s -> lang a s \/ lang b s.
Proof.
  intros H. remember (Alt a b) as r eqn:Er. destruct H; try discriminate; inversion Er; subst; auto.
Qed.
Lemma lang_chr_inv p s : lang (Chr p) s -> exists c, s = [c] /\ p c = true.
Proof.
  intros H. remember (Chr p) as r eqn:Er. destruct H; try discriminate. inversion Er; subst. eauto.
Qed.
Lemma lang_eps_inv s : lang Eps s -> s = [].
Proof. intros H. remember Eps as r eqn:Er. destruct H; try discriminate; reflexivity. Qed.
Lemma lang_emp_inv s : ~ lang Emp s.
Proof. intros H. remember Emp as r eqn:Er. destruct H; discriminate. Qed.

Lemma nullable_spec r : nullable r = true <-> lang r [].
Proof.
  induction r; simpl.
  - split; [discriminate|intros H; exfalso; apply (lang_emp_inv _ H)].
  - split; [intros; constructor|reflexivity].
  - split; [discriminate|]. intros H. apply lang_chr_inv in H. destruct H as (c & E & _). discriminate.
  - rewrite andb_true_iff, IHr1, IHr2. split.
    + intros [H1 H2]. change (@nil ascii) with (@nil ascii ++ []). constructor; assumption.
    + intros H. apply lang_cat_inv in H. destruct H as (s1 & s2 & E & H1 & H2).
      symmetry in E. apply app_eq_nil in E. destruct E; subst. auto.
  - rewrite orb_true_iff, IHr1, IHr2. split.
    + intros [H|H]; [apply L_altl|apply L_altr]; exact H.
    + apply lang_alt_inv.
  - split; [intros; constructor|reflexivity].
Qed.

Lemma star_cons_inv a c s : lang (Star a) (c :: s) ->
  exists s1 s2, s = s1 ++ s2 /\ lang a (c :: s1) /\ lang (Star a) s2.
Proof.
  intros H. remember (Star a) as r eqn:Er. remember (c :: s) as w eqn:Ew.
  revert c s Ew. induction H; intros c0 s0 Ew; try discriminate.
  inversion Er; subst a0. destruct s as [|x s].
  - simpl in Ew. apply (IHlang2 eq_refl c0 s0 Ew).
  - simpl in Ew. inversion Ew; subst. exists s, t. auto.
Qed.

Lemma deriv_spec c r s : lang (deriv c r) s <-> lang r (c :: s).
Proof.
  revert s. induction r; intros s; simpl.
  - split; intros H; exfalso; apply (lang_emp_inv _ H).
  - split; intros H; [exfalso; apply (lang_emp_inv _ H)|apply lang_eps_inv in H; discriminate].
  - destruct (p c) eqn:E; split; intros H.
    + apply lang_eps_inv in H. subst. constructor. exact E.
    + apply lang_chr_inv in H. destruct H as (c' & Ec & _). inversion Ec; subst. constructor.
    + exfalso; apply (lang_emp_inv _ H).
    + apply lang_chr_inv in H. destruct H as (c' & Ec & Hp). inversion Ec; subst. congruence.
  - destruct (nullable r1) eqn:N.
    + split.
      * intros H. apply lang_alt_inv in H. destruct H as [H|H].
        -- apply lang_cat_inv in H. destruct H as (s1 & s2 & -> & H1 & H2).
           change (c :: s1 ++ s2) with ((c :: s1) ++ s2). constructor; [apply IHr1; exact H1|exact H2].
        -- change (c :: s) with ([] ++ c :: s). constructor; [apply nullable_spec; exact N|apply IHr2; exact H].
      * intros H. apply lang_cat_inv in H. destruct H as (u & t & E & Hu & Ht).
        destruct u as [|x u].
        -- simpl in E. subst t. apply L_altr. apply IHr2. exact Ht.
        -- simpl in E. inversion E; subst. apply L_altl. constructor; [apply IHr1; exact Hu|exact Ht].
    + split.
      * intros H. apply lang_cat_inv in H. destruct H as (s1 & s2 & -> & H1 & H2).
        change (c :: s1 ++ s2) with ((c :: s1) ++ s2). constructor; [apply IHr1; exact H1|exact H2].
      * intros H. apply lang_cat_inv in H. destruct H as (u & t & E & Hu & Ht).
        destruct u as [|x u].
        -- apply nullable_spec in Hu. congruence.
        -- simpl in E. inversion E; subst. constructor; [apply IHr1; exact Hu|exact Ht].
  - split; intros H; apply lang_alt_inv in H; destruct H as [H|H].
    + apply L_altl, IHr1; exact H.
    + apply L_altr, IHr2; exact H.
    + apply L_altl, IHr1; exact H.
    + apply L_altr, IHr2; exact H.
  - split.
    + intros H. apply lang_cat_inv in H. destruct H as (s1 & s2 & -> & H1 & H2).
      change (c :: s1 ++ s2) with ((c :: s1) ++ s2). constructor; [apply IHr; exact H1|exact H2].
    + intros H. apply star_cons_inv in H. destruct H as (s1 & s2 & -> & H1 & H2).
      constructor; [apply IHr; exact H1|exact H2].
Qed.

Theorem matches_spec r s : matches r s = true <-> lang r s.
Proof.
  revert r. induction s as [|c s IH]; intros r; simpl.
  - apply nullable_spec.
  - rewrite IH. apply deriv_spec.
Qed.

(* inversion and construction helpers *)
Lemma lang_lit s t : lang (Lit s) t <-> t = s.
Proof.
  revert t. induction s as [|c s IH]; intros t; simpl.
  - split; [apply lang_eps_inv|intros ->; constructor].
  - split.
    + intros H. apply lang_cat_inv in H. destruct H as (s1 & s2 & -> & H1 & H2).
      apply lang_chr_inv in H1. destruct H1 as (c' & -> & Hc). apply Ascii.eqb_eq in Hc. subst.
      simpl. f_equal. apply IH. exact H2.
    + intros ->. change (c :: s) with ([c] ++ s).
      constructor; [constructor; apply Ascii.eqb_refl|apply IH; reflexivity].
Qed.

(* Star as a list of pieces *)
Lemma lang_star_pieces a s : lang (Star a) s <->
  exists pieces, s = List.concat pieces /\ Forall (lang a) pieces.
Proof.
  split.
  - intros H. remember (Star a) as r eqn:Er. induction H; try discriminate.
    + exists []. split; [reflexivity|constructor].
    + inversion Er; subst a0. destruct (IHlang2 eq_refl) as (ps & -> & F).
      exists (s :: ps). split; [reflexivity|constructor; assumption].
  - intros (ps & -> & F). induction F; simpl; [constructor|constructor; assumption].
Qed.
