(* One-dimensional columns: boundary extension (the specification's view) and the
   list-level model of numpy/xarray padding (the implementation's view). *)
From Coq Require Import List Bool ZArith Lia Arith.
Import ListNotations.

Ltac Zify.zify_post_hook ::= Z.to_euclidean_division_equations.

Inductive rule : Type := Periodic | Fill | Extend.

Definition rule_eqb (a b : rule) : bool :=
  match a, b with Periodic, Periodic | Fill, Fill | Extend, Extend => true | _, _ => false end.

Section Seq.
  Context {A : Type}.

  Definition lastn (k : nat) (x : list A) : list A := skipn (List.length x - k) x.

  (* Bi-infinite extension of a column under a boundary rule (index in Z). *)
  Definition ext (r : rule) (c : A) (x : list A) (i : Z) : A :=
    let n := Z.of_nat (List.length x) in
    match r with
    | Periodic => nth (Z.to_nat (i mod n)) x c
    | Fill => if ((0 <=? i) && (i <? n))%Z then nth (Z.to_nat i) x c else c
    | Extend => nth (Z.to_nat (Z.max 0 (Z.min (n - 1) i))) x c
    end.

  (* numpy.pad along one axis, for widths not exceeding the length:
     wrap / constant / edge *)
  Definition pad1 (r : rule) (c : A) (lo hi : nat) (x : list A) : list A :=
    match r with
    | Periodic => lastn lo x ++ x ++ firstn hi x
    | Fill => repeat c lo ++ x ++ repeat c hi
    | Extend => repeat (hd c x) lo ++ x ++ repeat (last x c) hi
    end.

  Lemma lastn_length k x : k <= List.length x -> List.length (lastn k x) = k.
  Proof. intros H. unfold lastn. rewrite skipn_length. lia. Qed.

  Lemma nth_skipn' m (x : list A) j d : nth j (skipn m x) d = nth (m + j) x d.
  Proof.
    revert x; induction m as [|m IH]; intros x; [reflexivity|].
    destruct x as [|a x]; simpl; [destruct j; reflexivity|apply IH].
  Qed.

  Lemma nth_lastn k x j d : k <= List.length x -> j < k ->
    nth j (lastn k x) d = nth (List.length x - k + j) x d.
  Proof. intros Hk Hj. unfold lastn. apply nth_skipn'. Qed.

  Lemma nth_firstn_lt k (x : list A) j d : j < k -> nth j (firstn k x) d = nth j x d.
  Proof.
    revert k j; induction x as [|a x IH]; intros [|k] [|j] H; simpl; try reflexivity; try lia.
    apply IH; lia.
  Qed.

  Lemma nth_repeat' (a : A) n j d : j < n -> nth j (repeat a n) d = a.
  Proof. revert j; induction n; intros [|j] H; simpl; try lia; auto. apply IHn; lia. Qed.

  Lemma hd_nth0 c (x : list A) : hd c x = nth 0 x c.
  Proof. destruct x; reflexivity. Qed.

  Lemma last_nth c (x : list A) : last x c = nth (List.length x - 1) x c.
  Proof.
    induction x as [|a [|b x] IH]; try reflexivity.
    change (last (a :: b :: x) c) with (last (b :: x) c). rewrite IH.
    simpl. rewrite Nat.sub_0_r. reflexivity.
  Qed.

  Lemma pad1_length r c lo hi x :
    lo <= List.length x -> hi <= List.length x ->
    List.length (pad1 r c lo hi x) = lo + List.length x + hi.
  Proof.
    intros Hlo Hhi. destruct r; simpl; rewrite !app_length.
    - rewrite lastn_length, firstn_length_le by lia. lia.
    - rewrite !repeat_length. lia.
    - rewrite !repeat_length. lia.
  Qed.

  (* The padded array is the extension read through a window shifted by [lo]. *)
  Lemma pad1_nth r c lo hi x k d :
    1 <= List.length x -> lo <= List.length x -> hi <= List.length x ->
    k < lo + List.length x + hi ->
    nth k (pad1 r c lo hi x) d = ext r c x (Z.of_nat k - Z.of_nat lo).
  Proof.
    intros Hn Hlo Hhi Hk. set (n := List.length x) in *.
    destruct r; unfold pad1, ext; fold n.
    - (* wrap *)
      destruct (Nat.lt_ge_cases k lo) as [H1|H1].
      + rewrite app_nth1 by (rewrite lastn_length; fold n; lia).
        rewrite nth_lastn by (fold n; lia). fold n.
        replace ((Z.of_nat k - Z.of_nat lo) mod Z.of_nat n)%Z
          with (Z.of_nat (n - lo + k)).
        * rewrite Nat2Z.id. apply nth_indep. fold n. lia.
        * apply Z.mod_unique with (q := (-1)%Z); lia.
      + rewrite app_nth2; rewrite lastn_length by (fold n; lia); [|lia].
        destruct (Nat.lt_ge_cases (k - lo) n) as [H2|H2].
        * rewrite app_nth1 by (fold n; lia).
          replace ((Z.of_nat k - Z.of_nat lo) mod Z.of_nat n)%Z with (Z.of_nat (k - lo)).
          -- rewrite Nat2Z.id. apply nth_indep. fold n; lia.
          -- apply Z.mod_unique with (q := 0%Z); lia.
        * rewrite app_nth2 by (fold n; lia). fold n.
          rewrite nth_firstn_lt by lia.
          replace ((Z.of_nat k - Z.of_nat lo) mod Z.of_nat n)%Z with (Z.of_nat (k - lo - n)).
          -- rewrite Nat2Z.id. apply nth_indep. fold n; lia.
          -- apply Z.mod_unique with (q := 1%Z); lia.
    - (* constant *)
      destruct (Nat.lt_ge_cases k lo) as [H1|H1].
      + rewrite app_nth1 by (rewrite repeat_length; lia).
        rewrite nth_repeat' by lia.
        destruct ((0 <=? _) && _)%Z eqn:E; [lia|reflexivity].
      + rewrite app_nth2; rewrite repeat_length; [|lia].
        destruct (Nat.lt_ge_cases (k - lo) n) as [H2|H2].
        * rewrite app_nth1 by (fold n; lia).
          destruct ((0 <=? _) && _)%Z eqn:E; [|lia].
          replace (Z.to_nat (Z.of_nat k - Z.of_nat lo)) with (k - lo) by lia.
          apply nth_indep. fold n; lia.
        * rewrite app_nth2 by (fold n; lia). fold n.
          rewrite nth_repeat' by lia.
          destruct ((0 <=? _) && _)%Z eqn:E; [lia|reflexivity].
    - (* edge *)
      destruct (Nat.lt_ge_cases k lo) as [H1|H1].
      + rewrite app_nth1 by (rewrite repeat_length; lia).
        rewrite nth_repeat' by lia. rewrite hd_nth0.
        replace (Z.to_nat _) with 0 by lia. reflexivity.
      + rewrite app_nth2; rewrite repeat_length; [|lia].
        destruct (Nat.lt_ge_cases (k - lo) n) as [H2|H2].
        * rewrite app_nth1 by (fold n; lia).
          replace (Z.to_nat _) with (k - lo) by lia.
          apply nth_indep. fold n; lia.
        * rewrite app_nth2 by (fold n; lia). fold n.
          rewrite nth_repeat' by lia. rewrite last_nth. fold n.
          replace (Z.to_nat _) with (n - 1) by lia. reflexivity.
  Qed.

  (* Reading the extension inside the array returns the array. *)
  Lemma ext_inside r c x i d : (0 <= i < Z.of_nat (List.length x))%Z ->
    ext r c x i = nth (Z.to_nat i) x d.
  Proof.
    intros H. unfold ext. destruct r.
    - rewrite Z.mod_small by lia. apply nth_indep; lia.
    - destruct ((0 <=? i) && _)%Z eqn:E; [apply nth_indep; lia|lia].
    - replace (Z.max 0 _) with i by lia. apply nth_indep; lia.
  Qed.

  (* Pairwise window of size 2: the shape of every stencil body in gridops.py. *)
  Fixpoint window2 (f : A -> A -> A) (x : list A) : list A :=
    match x with
    | a :: ((b :: _) as t) => f a b :: window2 f t
    | _ => []
    end.

  Lemma window2_length f x : List.length (window2 f x) = List.length x - 1.
  Proof.
    induction x as [|a [|b t] IH]; try reflexivity.
    change (window2 f (a :: b :: t)) with (f a b :: window2 f (b :: t)).
    simpl List.length in *. rewrite IH. lia.
  Qed.

  Lemma window2_nth f x j d : j + 1 < List.length x ->
    nth j (window2 f x) d = f (nth j x d) (nth (j + 1) x d).
  Proof.
    revert j; induction x as [|a [|b t] IH]; intros j H; simpl in H; try lia.
    change (window2 f (a :: b :: t)) with (f a b :: window2 f (b :: t)).
    destruct j as [|j]; [reflexivity|].
    change (nth (S j) (f a b :: window2 f (b :: t)) d) with (nth j (window2 f (b :: t)) d).
    rewrite IH by (simpl; lia). reflexivity.
  Qed.
End Seq.
