(* Carrier-parametric numerics: every numeric model function is written once over [Ops A]. *)
From Coq Require Import ZArith QArith Bool.

Record Ops (A : Type) : Type := mkOps {
  zero : A; one : A;
  add : A -> A -> A; sub : A -> A -> A; mul : A -> A -> A; div : A -> A -> A;
  leb : A -> A -> bool; ltb : A -> A -> bool; eqb : A -> A -> bool
}.
Arguments zero {A} _. Arguments one {A} _.
Arguments add {A} _ _ _. Arguments sub {A} _ _ _. Arguments mul {A} _ _ _.
Arguments div {A} _ _ _. Arguments leb {A} _ _ _. Arguments ltb {A} _ _ _. Arguments eqb {A} _ _ _.

Definition two {A} (o : Ops A) : A := add o (one o) (one o).
Definition omin {A} (o : Ops A) (a b : A) : A := if leb o a b then a else b.
Definition omax {A} (o : Ops A) (a b : A) : A := if leb o a b then b else a.

Definition QOps : Ops Q :=
  mkOps Q 0%Q 1%Q Qplus Qminus Qmult Qdiv Qle_bool (fun a b => negb (Qle_bool b a)) Qeq_bool.

Definition ZOps : Ops Z :=
  mkOps Z 0%Z 1%Z Z.add Z.sub Z.mul Z.div Z.leb Z.ltb Z.eqb.
