(* Rationals extended with NaN ([None]): the carrier on which the translated kernels are
   executed exactly when the implementation produces NaN masks.  Arithmetic propagates
   NaN, every comparison with NaN is false -- as IEEE/NumPy do. *)
From Coq Require Import QArith Bool.
From XV Require Import Base.Ops.

Definition QN : Type := option Q.
Definition qn2 (f : Q -> Q -> Q) (a b : QN) : QN :=
  match a, b with Some x, Some y => Some (f x y) | _, _ => None end.
Definition qnb (f : Q -> Q -> bool) (a b : QN) : bool :=
  match a, b with Some x, Some y => f x y | _, _ => false end.
Definition qn_div (a b : QN) : QN :=
  match a, b with
  | Some x, Some y => if Qeq_bool y 0 then None else Some (Qdiv x y)   (* 0/0, x/0: not finite *)
  | _, _ => None
  end.

Definition QNOps : Ops QN :=
  mkOps QN (Some 0%Q) (Some 1%Q) (qn2 Qplus) (qn2 Qminus) (qn2 Qmult) qn_div
        (qnb Qle_bool) (qnb (fun a b => negb (Qle_bool b a))) (qnb Qeq_bool).
Definition qn_isnan (a : QN) : bool := match a with None => true | Some _ => false end.
Definition qn_eqb (a b : QN) : bool :=
  match a, b with
  | None, None => true
  | Some x, Some y => Qeq_bool x y
  | _, _ => false
  end.
