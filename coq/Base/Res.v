(* Result type for model entry points: every Python exception class the
   correspondence check distinguishes is one constructor of [ekind]. *)
From Coq Require Import List Bool.
Import ListNotations.

Inductive ekind : Type :=
| KeyError | ValueError | TypeError | NotImplementedError | IndexError
| AttributeError | RuntimeError | OtherError.

Inductive res (T : Type) : Type :=
| Ok : T -> res T
| Err : ekind -> res T.
Arguments Ok {T} _.
Arguments Err {T} _.

Definition is_ok {T} (r : res T) : bool := match r with Ok _ => true | Err _ => false end.
Definition is_err {T} (r : res T) : bool := negb (is_ok r).

Definition bind {T U} (r : res T) (f : T -> res U) : res U :=
  match r with Ok x => f x | Err e => Err e end.

Notation "'do' x <- r ; k" := (bind r (fun x => k))
  (at level 200, x pattern, r at level 100, k at level 200).

Definition ekind_eqb (a b : ekind) : bool :=
  match a, b with
  | KeyError, KeyError | ValueError, ValueError | TypeError, TypeError
  | NotImplementedError, NotImplementedError | IndexError, IndexError
  | AttributeError, AttributeError | RuntimeError, RuntimeError
  | OtherError, OtherError => true
  | _, _ => false
  end.

(* Fold a fallible step over a list, stopping at the first error
   (a Python [for] loop whose body may raise). *)
Fixpoint forM_ {T} (f : T -> res unit) (l : list T) : res unit :=
  match l with
  | [] => Ok tt
  | x :: xs => match f x with Ok _ => forM_ f xs | Err e => Err e end
  end.

Lemma forM_ok : forall T (f : T -> res unit) l,
  forM_ f l = Ok tt <-> (forall x, In x l -> f x = Ok tt).
Proof.
  intros T f l; induction l as [|a l IH]; simpl.
  - split; [intros _ x []| reflexivity].
  - destruct (f a) as [[]|e] eqn:Ha.
    + rewrite IH. split.
      * intros H x [<-|Hx]; [exact Ha|apply H, Hx].
      * intros H x Hx. apply H. right; exact Hx.
    + split; [discriminate|]. intros H. specialize (H a (or_introl eq_refl)).
      congruence.
Qed.

Lemma forM_is_ok : forall T (f : T -> res unit) l,
  is_ok (forM_ f l) = forallb (fun x => is_ok (f x)) l.
Proof.
  intros T f l; induction l as [|a l IH]; simpl; [reflexivity|].
  destruct (f a) as [[]|e]; simpl; [exact IH|reflexivity].
Qed.
