(* Evaluator for harness-written cases files (C08, and the Grid.transform wrappers of C07). *)
From Coq Require Import List Bool ZArith QArith String PrimFloat.
From XV Require Import Base.Res Base.Assoc Base.CorrUtil Base.Ops Base.FloatOps Base.QNOps Base.Kernel
     Base.Seq1D Base.Tensor Model.Axis Model.Transform.
Import ListNotations.
Open Scope string_scope.
Open Scope nat_scope.
Open Scope list_scope.

Record obs08 : Type := {
  o_dims : dimlist; o_vals : list QN; o_name : option string; o_newdim : string;
  o_coord : option (list QN)
}.

Inductive case08 : Type :=
| K08_kernel (phi theta levels : list float) (mask bypass : bool) (impl : list float)
| K08_grid (c : tcall (A:=QN)) (out_order : list string) (impl : res obs08).

Definition qn_half (a : QN) : QN := qn_div a (Some (2 # 1)).
Definition qn_list_eqb := list_eqb qn_eqb.
Definition ostr_eqb (a b : option string) : bool :=
  match a, b with None, None => true | Some x, Some y => String.eqb x y | _, _ => false end.

Definition check08 (c : case08) : bool * bool * bool :=
  match c with
  | K08_kernel phi theta levels mask bypass impl =>
    (true, list_eqb feq (linear_call FOps fisnan PrimFloat.nan phi theta levels mask bypass) impl, true)
  | K08_grid tc order impl =>
    let m := grid_transform QNOps qn_isnan None (fun x => x) qn_half tc in
    match m, impl with
    | Ok r, Ok ob =>
      let t := transpose order (tr_tensor r) in
      let vals_ok := dimlist_eqb (dims t) (o_dims ob) && qn_list_eqb (tabulate t) (o_vals ob) in
      let names_ok := ostr_eqb (tr_name r) (o_name ob) && String.eqb (tr_newdim r) (o_newdim ob) in
      let coord_ok := match tr_coord r, o_coord ob with
                      | Some a, Some b => qn_list_eqb a b
                      | None, _ => true
                      | Some _, None => false
                      end in
      (vals_ok && names_ok, vals_ok && names_ok && coord_ok, true)
    | Err k, Err k' => (true, true, ekind_eqb k k')
    | Ok _, Err _ => (false, false, true)
    | Err _, Ok _ => (true, false, true)
    end
  end.

Definition run08 (cs : list case08) := failing3 (map check08 cs).
