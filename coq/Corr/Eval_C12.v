(* Evaluator for harness-written cases files (C12): every cell, corners included, of a padded
   face-connected array must be the one the order-free model gives -- whatever the insertion
   order of the table and of the widths. *)
From Coq Require Import List Bool ZArith QArith String.
From XV Require Import Base.Res Base.Assoc Base.CorrUtil Base.Ops Base.Seq1D Base.Tensor
     Model.Axis Model.GridCtor Model.Pad Model.FaceConn Model.Dispatch Model.FacePad Corr.Eval_C05.
Import ListNotations.
Open Scope string_scope.
Open Scope nat_scope.
Open Scope list_scope.

Definition check12 (cs : case05) : bool * bool * bool :=
  let c := c05_ctor cs in
  match grid_ctor 0%Q c with
  | Err _ => (true, false, true)
  | Ok g =>
    let da := of_list 0%Q (c05_dims cs) (c05_vals cs) in
    let partner := match c05_partner cs with
                   | Some dv => Some (of_list 0%Q (fst dv) (snd dv))
                   | None => None
                   end in
    let isvector := match c05_vector cs with Some _ => true | None => false end in
    let vaxis := match c05_vector cs with Some a => a | None => "" end in
    let bw := match c05_bw cs with Some w => w | None => [] end in
    (* the order is computed by the model from the grid, not taken from the run *)
    let m := pad_faces Qneg 0%Q (pad_axes_order g (c05_conn cs) bw) g (c05_facedim cs) (c05_conn cs)
                       isvector vaxis da partner (c05_bw cs) (c05_boundary cs) (c05_fill cs) in
    match m, c05_impl cs with
    | Ok r, Ok dv =>
      let ok := dimlist_eqb (reorder (c05_out_order cs) (dims r)) (fst dv) &&
                Qlist_eqb5 (tabulate (transpose (c05_out_order cs) r)) (snd dv) in
      (ok, ok, true)
    | Err _, Err _ => (true, true, true)
    | _, _ => (false, false, true)
    end
  end.

Definition run12 (cs : list case05) := failing3 (map check12 cs).
