(* Evaluator for harness-written cases files (C02). *)
From Coq Require Import List Bool ZArith QArith String.
From XV Require Import Base.Res Base.Assoc Base.CorrUtil Base.Ops Base.Seq1D Base.Tensor
     Model.Axis Model.GridCtor Model.Pad Spec.S02.
Import ListNotations.
Open Scope string_scope.
Open Scope nat_scope.
Open Scope list_scope.

Record call02 : Type := {
  k_dims : dimlist; k_vals : list Q;
  k_bw : option (list (string * (nat * nat)));
  k_boundary : kw bword; k_fill : kw Q
}.

Inductive impl02 : Type :=
| ICtorErr (k : ekind)
| ICtorOk (axes : list (string * bword * Q)) (padres : option (res (dimlist * list Q))).

Record case02 : Type := { c02_ctor : ctor_args Q; c02_call : option call02; c02_impl : impl02 }.

Definition Qlist_eqb := list_eqb Qeq_bool.

Definition axes_obs (g : grid Q) : list (string * bword * Q) :=
  map (fun a => (ax_name a, ax_boundary a, ax_fill a)) g.

Definition axes_eqb (a b : list (string * bword * Q)) : bool :=
  list_eqb (fun x y => String.eqb (fst (fst x)) (fst (fst y)) &&
                       bword_eqb (snd (fst x)) (snd (fst y)) && Qeq_bool (snd x) (snd y)) a b.

(* spec: each axis carries the rule/fill the property prescribes *)
Definition axes_spec_ok (c : ctor_args Q) (obs : list (string * bword * Q)) : bool :=
  list_eqb String.eqb (map (fun x => fst (fst x)) obs) (map fst (c_coords c)) &&
  forallb (fun x => bword_eqb (snd (fst x)) (grid_rule c (fst (fst x))) &&
                    Qeq_bool (snd x) (grid_fill 0%Q c (fst (fst x)))) obs.

(* the spec's resolved requests for a call: rule in force per axis, dimension found by
   position *)
Definition spec_requests (c : ctor_args Q) (k : call02) : option (list (padspec (A:=Q))) :=
  match k_bw k with
  | None => None
  | Some ws =>
    Some (flat_map (fun w =>
      match lookupS (fst w) (c_coords c) with
      | None => []
      | Some cs =>
        match find (fun pd => memS (snd pd) (dnames (k_dims k))) cs with
        | None => []
        | Some pd => [{| ps_dim := snd pd;
                         ps_rule := rule_of_bword (call_rule c (k_boundary k) (fst w));
                         ps_fill := call_fill 0%Q c (k_fill k) (fst w);
                         ps_lo := fst (snd w); ps_hi := snd (snd w) |}]
        end
      end) ws)
  end.

Definition mask_eq (spec : list (option Q)) (vals : list Q) : bool :=
  (List.length spec =? List.length vals) &&
  forallb (fun p => match fst p with Some v => Qeq_bool v (snd p) | None => true end)
          (combine spec vals).

Definition check02 (cs : case02) : bool * bool * bool :=
  let c := c02_ctor cs in
  match grid_ctor 0%Q c, c02_impl cs with
  | Err k, ICtorErr k' => (true, true, ekind_eqb k k')
  | Err _, ICtorOk _ _ => (true, false, true)
  | Ok _, ICtorErr _ => (false, false, true)   (* valid spellings are never refused *)
  | Ok g, ICtorOk axes pr =>
    let spec_axes := axes_spec_ok c axes in
    let model_axes := axes_eqb (axes_obs g) axes in
    match c02_call cs, pr with
    | Some k, Some r =>
      let t := of_list 0%Q (k_dims k) (k_vals k) in
      match pad 0%Q g t (k_bw k) (k_boundary k) (k_fill k), r with
      | Ok m, Ok dv =>
        let ds := fst dv in let vals := snd dv in
        let sp := match spec_requests c k with
                  | None => (dimlist_eqb ds (k_dims k), mask_eq (map Some (k_vals k)) vals)
                  | Some ps =>
                    let sd := spec_pad_dims ps (k_dims k) in
                    (dimlist_eqb ds sd,
                     mask_eq (map (spec_pad_cell ps t) (envs sd env0)) vals)
                  end in
        let corner_mask := match spec_requests c k with
                           | None => map (fun _ => true) vals
                           | Some ps => map (fun e => match spec_pad_cell ps t e with
                                                      | Some _ => true | None => false end)
                                            (envs (dims m) env0)
                           end in
        let mv := tabulate m in
        ( spec_axes && fst sp && snd sp,
          model_axes && dimlist_eqb (dims m) ds &&
          mask_eq (map (fun p : bool * Q => if fst p then Some (snd p) else None) (combine corner_mask mv)) vals,
          Qlist_eqb mv vals )
      | Err k1, Err k2 => (spec_axes, model_axes, ekind_eqb k1 k2)
      | Ok _, Err _ => (false, false, true)
      | Err _, Ok _ => (spec_axes, false, true)
      end
    | _, _ => (spec_axes, model_axes, true)
    end
  end.

Definition run02 (cs : list case02) := failing3 (map check02 cs).
