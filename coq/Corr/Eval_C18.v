(* Evaluator for harness-written cases files (C18): for every call of a sequence, whether
   the deep snapshot of every argument object, of the Grid and of the dataset was the same
   before and after it, and whether its outcome equals that of the same call made first on
   freshly built objects. *)
From Coq Require Import List Bool String.
From XV Require Import Base.CorrUtil.
Import ListNotations.

Record case18 : Type := { c18_calls : list (string * bool * bool) }.

Definition check18 (c : case18) : bool * bool * bool :=
  ( forallb (fun k : string * bool * bool => snd (fst k) && snd k) (c18_calls c), true, true ).

Definition run18 (cs : list case18) := failing3 (map check18 cs).
