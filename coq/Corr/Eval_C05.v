(* Evaluator for harness-written cases files (C05; also used by C03/C04/C12). *)
From Coq Require Import List Bool ZArith QArith String.
From XV Require Import Base.Res Base.Assoc Base.CorrUtil Base.Ops Base.Seq1D Base.Tensor
     Model.Axis Model.GridCtor Model.Pad Model.FaceConn Model.Dispatch Model.FacePad
     Spec.S02 Spec.S05.
Import ListNotations.
Open Scope string_scope.
Open Scope nat_scope.
Open Scope list_scope.

Record case05 : Type := {
  c05_ctor : ctor_args Q;
  c05_facedim : string;
  c05_conn : facetab;
  c05_order : list string;            (* iteration order of the set of axes in this run *)
  c05_vector : option string;         (* Some axis: da is the component along that axis *)
  c05_dims : dimlist; c05_vals : list Q;
  c05_partner : option (dimlist * list Q);
  c05_bw : option (list (string * (nat * nat)));
  c05_boundary : kw bword; c05_fill : kw Q;
  c05_out_order : list string;        (* dimension order in which values are compared *)
  c05_impl : res (dimlist * list Q)
}.

Definition Qneg (q : Q) : Q := Qopp q.
Definition Qlist_eqb5 := list_eqb Qeq_bool.

Definition reqs_of (c : ctor_args Q) (g : grid Q) (cs : case05) (da : tensor Q) : list (req (A:=Q)) :=
  match c05_bw cs with
  | None => []
  | Some ws =>
    flat_map (fun w =>
      match axis_dim g (fst w) da with
      | Some d => [{| rq_axis := fst w; rq_dim := d; rq_lo := fst (snd w); rq_hi := snd (snd w);
                      rq_n := size d da;
                      rq_rule := rule_of_bword (call_rule c (c05_boundary cs) (fst w));
                      rq_fill := call_fill 0%Q c (c05_fill cs) (fst w) |}]
      | None => []
      end) ws
  end.

Definition spec_dims (rs : list (req (A:=Q))) (ds : dimlist) : dimlist :=
  map (fun dn => match find (fun r => String.eqb (rq_dim r) (fst dn)) rs with
                 | Some r => (fst dn, rq_lo r + snd dn + rq_hi r)
                 | None => dn
                 end) ds.

Definition reorder (order : list string) (ds : dimlist) : dimlist :=
  map (fun d => (d, dsize d ds)) order.

Definition mask_eq5 (spec : list (option Q)) (vals : list Q) : bool :=
  (List.length spec =? List.length vals) &&
  forallb (fun p : option Q * Q => match fst p with Some v => Qeq_bool v (snd p) | None => true end)
          (combine spec vals).

Definition check05 (cs : case05) : bool * bool * bool :=
  let c := c05_ctor cs in
  match grid_ctor 0%Q c with
  | Err _ => (true, false, true)
  | Ok g =>
    let da := of_list 0%Q (c05_dims cs) (c05_vals cs) in
    let partner := match c05_partner cs with
                   | Some dv => Some (of_list 0%Q (fst dv) (snd dv))
                   | None => None
                   end in
    let isvector := match c05_vector cs with Some _ => true | None => false end in
    let vaxis := match c05_vector cs with Some a => a | None => "" end in
    let m := pad_faces Qneg 0%Q (c05_order cs) g (c05_facedim cs) (c05_conn cs) isvector vaxis
                       da partner (c05_bw cs) (c05_boundary cs) (c05_fill cs) in
    let rs := reqs_of c g cs da in
    let sd := reorder (c05_out_order cs) (spec_dims rs (c05_dims cs)) in
    let ptn := match partner with Some p => p | None => da end in
    let spec_cells := map (spec_fc_cell Qneg g (c05_facedim cs) (c05_conn cs) isvector vaxis da ptn rs)
                          (envs sd env0) in
    match c05_impl cs with
    | Ok dv =>
      let constrained := map (fun o : option Q => match o with Some _ => true | None => false end) spec_cells in
      ( dimlist_eqb (fst dv) sd && mask_eq5 spec_cells (snd dv),
        match m with
        | Ok r =>
          let mv := tabulate (transpose (c05_out_order cs) r) in
          list_eqb String.eqb (c05_order cs)
                   (pad_axes_order g (c05_conn cs) (match c05_bw cs with Some w => w | None => [] end)) &&
          dimlist_eqb (reorder (c05_out_order cs) (dims r)) (fst dv) &&
          mask_eq5 (map (fun p : bool * Q => if fst p then Some (snd p) else None) (combine constrained mv))
                   (snd dv)
        | Err _ => false
        end,
        match m with
        | Ok r => Qlist_eqb5 (tabulate (transpose (c05_out_order cs) r)) (snd dv)   (* corners too *)
        | Err _ => true
        end )
    | Err k' =>
      ( false,        (* a well-posed request must not raise *)
        match m with Ok _ => false | Err _ => true end,
        match m with Err k2 => ekind_eqb k2 k' | Ok _ => true end )
    end
  end.

Definition run05 (cs : list case05) := failing3 (map check05 cs).
