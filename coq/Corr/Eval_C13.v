(* Evaluator for harness-written cases files (C13): a call replayed under an injective
   renaming of axes, dimensions, variables and dummy names.  [same]: the implementation's
   outcome on the renamed call is the renaming of its outcome on the original call
   (compared by the harness after renaming back).  The renamed call is also run through
   the model of its kind, so the model's own equivariance is sampled on the same inputs. *)
From Coq Require Import List Bool ZArith QArith String.
From XV Require Import Base.Res Base.CorrUtil Corr.Eval_C01 Corr.Eval_C09 Corr.Eval_C11 Corr.Eval_C08 Corr.Eval_C05.
Import ListNotations.

Inductive case13 : Type :=
| K13_op (same : bool) (ren : case01)
| K13_cumsum (same : bool) (ren : case09)
| K13_faces (same : bool) (ren : case05)
| K13_ufunc (same : bool) (ren : case11)
| K13_transform (same : bool) (ren : case08)
| K13_other (same : bool).

Definition check13 (c : case13) : bool * bool * bool :=
  match c with
  | K13_op same ren => let '(s, m, a) := check01 ren in (same, s && m, a)
  | K13_cumsum same ren => let '(s, m, a) := check09 ren in (same, s && m, a)
  | K13_faces same ren => let '(s, m, a) := check05 ren in (same, s && m, a)
  | K13_ufunc same ren => let '(s, m, a) := check11 ren in (same, s && m, a)
  | K13_transform same ren => let '(s, m, a) := check08 ren in (same, s && m, a)
  | K13_other same => (same, true, true)
  end.

Definition run13 (cs : list case13) := failing3 (map check13 cs).
