(* Evaluator for harness-written cases files (C16). *)
From Coq Require Import List Bool ZArith String.
From XV Require Import Base.Res Base.Assoc Base.CorrUtil Base.Tensor Model.Registry Spec.S16.
Import ListNotations.
Open Scope string_scope.
Open Scope nat_scope.
Open Scope list_scope.

Record case16 : Type := {
  c16_env : reg_env;
  c16_calls : list reg_call;
  c16_impl_reg : list (list string * list string);   (* key -> names, in dict/list order *)
  c16_impl_out : list (option ekind)                 (* per call: None = returned *)
}.

Definition out_eqb (a : res unit) (b : option ekind) : bool :=
  match a, b with Ok _, None => true | Err _, Some _ => true | _, _ => false end.
Definition kind_eqb (a : res unit) (b : option ekind) : bool :=
  match a, b with Err k, Some k' => ekind_eqb k k' | _, _ => true end.

Definition outs_eqb (f : res unit -> option ekind -> bool) (a : list (res unit)) (b : list (option ekind)) : bool :=
  (List.length a =? List.length b) && forallb (fun p => f (fst p) (snd p)) (combine a b).

(* impl registry -> abstract map, using the dataset's dims for each name *)
Definition impl_abs (env : reg_env) (r : list (list string * list string)) : amap :=
  flat_map (fun kl => map (fun n => ((fst kl, match lookupS n (re_vars env) with Some d => d | None => [] end), n))
                          (snd kl)) r.

Definition amap_agree (a b : amap) : bool :=
  forallb (fun sv => match aget (fst sv) b with Some v => String.eqb v (snd sv) | None => false end) a &&
  forallb (fun sv => match aget (fst sv) a with Some v => String.eqb v (snd sv) | None => false end) b.

Definition reg_eqb (m : registry) (r : list (list string * list string)) : bool :=
  (List.length m =? List.length r) &&
  forallb (fun p => set_eqb (fst (fst p)) (fst (snd p)) &&
                    list_eqb String.eqb (map fst (snd (fst p))) (snd (snd p))) (combine m r).

Definition check16 (c : case16) : bool * bool * bool :=
  let '(reg, outs) := run_history (c16_env c) [] (c16_calls c) in
  let '(m, souts) := spec_history (c16_env c) [] (c16_calls c) in
  ( amap_agree m (impl_abs (c16_env c) (c16_impl_reg c)) && outs_eqb out_eqb souts (c16_impl_out c),
    reg_eqb reg (c16_impl_reg c) && outs_eqb out_eqb outs (c16_impl_out c),
    outs_eqb kind_eqb outs (c16_impl_out c) ).

Definition run16 (cs : list case16) := failing3 (map check16 cs).
