(* Evaluator for harness-written cases files (C01). *)
From Coq Require Import List Bool ZArith QArith String.
From XV Require Import Base.Res Base.Assoc Base.CorrUtil Base.Ops Base.Seq1D Base.Tensor
     Model.Axis Model.GridCtor Model.Pad Model.GridOps Model.GridOpsTable Model.Dispatch
     Spec.S01 Spec.S02.
Import ListNotations.
Open Scope string_scope.
Open Scope nat_scope.
Open Scope list_scope.

Record case01 : Type := {
  c01_ctor : ctor_args Q;
  c01_dssizes : dimlist;
  c01_dims : dimlist; c01_vals : list Q;
  c01_call : call01 (A:=Q);
  c01_impl : res (dimlist * list Q)
}.

Definition Qlist_eqb := list_eqb Qeq_bool.
Definition ofZQ (z : Z) : Q := inject_Z z.

(* The specification oracle: axis after axis, geometry + rule in force. *)
Definition spec_step (c : ctor_args Q) (dssizes : dimlist) (k : call01 (A:=Q))
           (orig : list string) (t : tensor Q) (axn : string) : option (tensor Q) :=
  match lookupS axn (c_coords c), op_fun QOps ofZQ (k_func k) with
  | Some cs, Some f =>
    match find (fun pd => memS (snd pd) orig) cs with
    | None => None
    | Some (from, d) =>
      let to := match explicit (k_to k) axn with
                | Some p => Some p
                | None => (* documented default shift *)
                  match from with
                  | Center => find (fun q => memP q (map fst cs)) [Left; Right; Outer; Inner]
                  | _ => Some Center
                  end
                end in
      match to with
      | None => None
      | Some to =>
        match lookupP to cs, lookupP Center cs with
        | Some d', Some dc =>
          if valid_shift from to then
            Some (spec_axis f (rule_of_bword (call_rule c (k_boundary k) axn))
                            (call_fill 0%Q c (k_fill k) axn) from to d d' (dsize dc dssizes) t)
          else None
        | _, _ => None
        end
      end
    end
  | _, _ => None
  end.

Fixpoint spec_steps c dssizes k orig (t : tensor Q) (axes : list string) : option (tensor Q) :=
  match axes with
  | [] => Some t
  | a :: r => match spec_step c dssizes k orig t a with
              | Some t' => spec_steps c dssizes k orig (materialize 0%Q t') r
              | None => None
              end
  end.

Definition tensor_agrees (t : tensor Q) (dv : dimlist * list Q) : bool :=
  dimlist_eqb (dims t) (fst dv) && Qlist_eqb (tabulate t) (snd dv).

Definition check01 (cs : case01) : bool * bool * bool :=
  let c := c01_ctor cs in
  match grid_ctor 0%Q c with
  | Err _ => (true, false, true)
  | Ok g =>
    let t := of_list 0%Q (c01_dims cs) (c01_vals cs) in
    let k := c01_call cs in
    let m := grid_op QOps ofZQ canon_gridops g (c01_dssizes cs) k t in
    let sp := spec_steps c (c01_dssizes cs) k (dnames (c01_dims cs)) t (k_axes k) in
    match c01_impl cs with
    | Ok dv =>
      ( match sp with Some s => tensor_agrees s dv | None => true end,
        match m with Ok r => tensor_agrees r dv | Err _ => false end,
        true )
    | Err k' =>
      ( match sp with Some _ => false | None => true end,   (* a well-posed call must not raise *)
        match m with Ok _ => false | Err _ => true end,
        match m with Err k2 => ekind_eqb k2 k' | Ok _ => true end )
    end
  end.

Definition run01 (cs : list case01) := failing3 (map check01 cs).
