(* Evaluator for harness-written cases files (C04): the undivided vector field oracle. *)
From Coq Require Import List Bool ZArith QArith String.
From XV Require Import Base.Res Base.Assoc Base.CorrUtil Base.Ops Base.Seq1D Base.Tensor
     Model.Axis Model.FaceConn Spec.S01 Spec.S03.
Import ListNotations.
Open Scope string_scope.
Open Scope nat_scope.
Open Scope list_scope.

Record case04 : Type := {
  c04_dom : domain; c04_N : nat; c04_charts : list chart; c04_conn : facetab;
  c04_udims : dimlist; c04_uvals : list Q;     (* U: flux through the left edge, dims gy, gxe (Lx+1) *)
  c04_vdims : dimlist; c04_vvals : list Q;     (* V: flux through the lower edge, dims gye (Ly+1), gx *)
  c04_func : string;                           (* "diff" | "interp" | "div" *)
  c04_axis : string;
  c04_rule : rule; c04_fill : Q;
  c04_out_order : list string;
  c04_impl : res (dimlist * list Q)
}.

Definition wrapi (L : Z) (per : bool) (x : Z) : Z := if per then (x mod L)%Z else x.

(* flux from cell a to the adjacent cell b of the undivided domain (raw coordinates) *)
Definition phi (dom : domain) (U V : tensor Q) (e : env) (a b : Z * Z) : Q :=
  let ux (x y : Z) := get U (upd (upd e "gxe" (Z.to_nat (if dom_perx dom then x mod dom_lx dom else x)))
                                 "gy" (Z.to_nat (wrapi (dom_ly dom) (dom_pery dom) y))) in
  let vy (x y : Z) := get V (upd (upd e "gye" (Z.to_nat (if dom_pery dom then y mod dom_ly dom else y)))
                                 "gx" (Z.to_nat (wrapi (dom_lx dom) (dom_perx dom) x))) in
  if (fst b =? fst a + 1)%Z then ux (fst b) (snd b)
  else if (fst b =? fst a - 1)%Z then Qopp (ux (fst a) (snd a))
  else if (snd b =? snd a + 1)%Z then vy (fst b) (snd b)
  else Qopp (vy (fst a) (snd a)).

Definition spec_cell4 (cs : case04) (U V : tensor Q) (e : env) : option Q :=
  match nth_error (c04_charts cs) (e "face") with
  | None => None
  | Some ch =>
    let N := c04_N cs in
    let i := Z.of_nat (e "xc") in let j := Z.of_nat (e "yc") in
    (* component along local axis at local edge index idx (the edge below cell idx) *)
    let comp (ax_is_x : bool) (idx : Z) : Q :=
        let p1 := if ax_is_x then (idx - 1, j)%Z else (i, idx - 1)%Z in
        let p2 := if ax_is_x then (idx, j) else (i, idx) in
        phi (c04_dom cs) U V e (chart_apply ch p1) (chart_apply ch p2) in
    let own (ax_is_x : bool) := map (fun k => comp ax_is_x (Z.of_nat k)) (seq 0 N) in
    (* the upper edge of the last cell: across a link, or the boundary rule on my own column *)
    let upper (ax_is_x : bool) (idx : Z) : Q :=
        if (idx <? Z.of_nat N)%Z then comp ax_is_x idx
        else let p := if ax_is_x then (idx, j) else (i, idx) in
             match wrap (c04_dom cs) (chart_apply ch p) with
             | Some _ => comp ax_is_x idx
             | None => ext (c04_rule cs) (c04_fill cs) (own ax_is_x) idx
             end in
    let dif (ax_is_x : bool) := let k := if ax_is_x then i else j in
                                Qminus (upper ax_is_x (k + 1)%Z) (comp ax_is_x k) in
    let itp (ax_is_x : bool) := let k := if ax_is_x then i else j in
                                Qdiv (Qplus (comp ax_is_x k) (upper ax_is_x (k + 1)%Z)) (2 # 1) in
    if String.eqb (c04_func cs) "div" then Some (Qplus (dif true) (dif false))
    else if String.eqb (c04_func cs) "diff" then Some (dif (is_x (c04_axis cs)))
    else if String.eqb (c04_func cs) "interp" then Some (itp (is_x (c04_axis cs)))
    else None
  end.

Definition check04 (cs : case04) : bool * bool * bool :=
  let U := of_list 0%Q (c04_udims cs) (c04_uvals cs) in
  let V := of_list 0%Q (c04_vdims cs) (c04_vvals cs) in
  let atlas_ok := atlas_consistentb (c04_dom cs) (c04_charts cs) (Z.of_nat (c04_N cs)) (c04_conn cs) in
  match c04_impl cs with
  | Ok dv =>
    let cells := map (spec_cell4 cs U V) (envs (fst dv) env0) in
    ( atlas_ok &&
      (List.length cells =? List.length (snd dv)) &&
      forallb (fun p : option Q * Q => match fst p with Some v => Qeq_bool v (snd p) | None => false end)
              (combine cells (snd dv)),
      true, true )
  | Err _ => (false, true, true)
  end.

Definition run04 (cs : list case04) := failing3 (map check04 cs).
