(* Evaluator for harness-written cases files (C17). *)
From Coq Require Import List Bool ZArith String.
From XV Require Import Base.Res Base.Assoc Base.CorrUtil Model.FaceConn Spec.S17.
Import ListNotations.

Record case17 : Type := {
  c17_inp : fc_input;
  c17_impl_ok : bool;              (* the constructor returned *)
  c17_impl_err : option ekind      (* exception class otherwise *)
}.

(* (impl agrees with spec oracle, impl agrees with model, auxiliary: error kind agrees) *)
Definition check17 (c : case17) : bool * bool * bool :=
  let m := assign (c17_inp c) in
  ( Bool.eqb (accepted_specb (c17_inp c)) (c17_impl_ok c),
    Bool.eqb (is_ok m) (c17_impl_ok c),
    match m, c17_impl_err c with
    | Ok _, None => true
    | Err k, Some k' => ekind_eqb k k'
    | Ok _, Some _ | Err _, None => true   (* already reported by the second component *)
    end ).

Definition run17 (cs : list case17) := failing3 (map check17 cs).
