(* Evaluator for harness-written cases files (C11). *)
From Coq Require Import List Bool ZArith QArith String.
From XV Require Import Base.Res Base.Assoc Base.CorrUtil Base.Ops Base.Seq1D Base.Tensor
     Model.Axis Model.GridCtor Model.Pad Model.Signature Model.Dispatch Model.UFunc Spec.S02.
Import ListNotations.
Open Scope string_scope.
Open Scope nat_scope.
Open Scope list_scope.

(* an option as supplied in one place: None = not supplied there *)
Record opts11 : Type := {
  o_bw : option (option (list (string * (nat * nat))));
  o_boundary : option (kw bword);
  o_fill : option (kw Q);
  o_pad_before : option bool
}.

Record case11 : Type := {
  c11_ctor : ctor_args Q; c11_dssizes : dimlist;
  c11_sig : string; c11_axis : list (list string);
  c11_args : list (dimlist * list Q);
  c11_bound : opts11; c11_call : opts11;
  c11_plan : trim_plan;
  c11_recv : list (list nat * list Q);      (* shape and row-major values of every array the function received *)
  c11_ret : list (list Q);                  (* row-major values of every array it returned *)
  c11_res : res (list (dimlist * list Q))
}.

Definition Qlist_eqb := list_eqb Qeq_bool.
Definition nats_eqb := list_eqb Nat.eqb.

Definition resolved (cs : case11) (s : sig) : ucall (A:=Q) :=
  {| u_sig := s; u_axis := c11_axis cs;
     u_bw := resolve_option None (o_bw (c11_bound cs)) (o_bw (c11_call cs));
     u_boundary := resolve_option (KScalar None) (o_boundary (c11_bound cs)) (o_boundary (c11_call cs));
     u_fill := resolve_option (KScalar None) (o_fill (c11_bound cs)) (o_fill (c11_call cs));
     u_pad_before := resolve_option true (o_pad_before (c11_bound cs)) (o_pad_before (c11_call cs)) |}.

Definition mask_eq (spec : list (option Q)) (vals : list Q) : bool :=
  (List.length spec =? List.length vals) &&
  forallb (fun p => match fst p with Some v => Qeq_bool v (snd p) | None => true end)
          (combine spec vals).

Definition lastn {T} (n : nat) (l : list T) : list T := rev (firstn n (rev l)).

(* ---- the specification oracle, written against the constructor arguments ---- *)

(* dummy name -> real axis: the real axis standing where the name first appears *)
Definition bind_first (s : sig) (axis : list (list string)) (n : string) : option string :=
  lookupS n (combine (List.concat (map (map fst) (s_in s))) (List.concat axis)).

Definition binding_consistent (s : sig) (axis : list (list string)) : bool :=
  let flatd := List.concat (map (map fst) (s_in s)) in
  let flatr := List.concat axis in
  (List.length (s_in s) =? List.length axis) &&
  forallb (fun p : sarg * list string => List.length (fst p) =? List.length (snd p)) (combine (s_in s) axis) &&
  forallb (fun dr : string * string =>
             match bind_first s axis (fst dr) with Some r => String.eqb r (snd dr) | None => false end &&
             (* injective *)
             forallb (fun dr' : string * string =>
                        implb (String.eqb (snd dr) (snd dr')) (String.eqb (fst dr) (fst dr')))
                     (combine flatd flatr))
          (combine flatd flatr).

Definition dim_of (c : ctor_args Q) (ax : string) (p : pos) : option string :=
  match lookupS ax (c_coords c) with Some cs => lookupP p cs | None => None end.

(* the dimension of an array lying on a real axis *)
Definition dim_on (c : ctor_args Q) (ax : string) (ds : dimlist) : option string :=
  match lookupS ax (c_coords c) with
  | Some cs => option_map snd (find (fun pd : pos * string => dhas (snd pd) ds) cs)
  | None => None
  end.

Definition all_some {T} (l : list (option T)) : option (list T) :=
  fold_right (fun x acc => match x, acc with Some v, Some r => Some (v :: r) | _, _ => None end) (Some []) l.

Definition spec_core (c : ctor_args Q) (a : sarg) (real : list string) : option (list string) :=
  all_some (map (fun x : (string * pos) * string => dim_of c (snd x) (snd (fst x))) (combine a real)).

(* padding requests of one input under the options in force; None if the input does
   not carry an axis boundary_width names (outside the property's quantifier) *)
Definition spec_requests (c : ctor_args Q) (s : sig) (u : ucall (A:=Q)) (ds : dimlist)
  : option (list (padspec (A:=Q))) :=
  match u_bw u with
  | None => Some []
  | Some ws =>
    all_some (map (fun w : string * (nat * nat) =>
                     match bind_first s (u_axis u) (fst w) with
                     | None => None
                     | Some r =>
                       match dim_on c r ds with
                       | None => None
                       | Some d => Some {| ps_dim := d;
                                           ps_rule := rule_of_bword (call_rule c (u_boundary u) r);
                                           ps_fill := call_fill 0%Q c (u_fill u) r;
                                           ps_lo := fst (snd w); ps_hi := snd (snd w) |}
                       end
                     end) ws)
  end.

(* input k as the function must receive it: (trailing sizes, masked row-major cells) *)
Definition spec_received (c : ctor_args Q) (s : sig) (u : ucall (A:=Q)) (a : sarg) (real : list string)
           (arg : dimlist * list Q) (lead_order : list string) : option (list nat * list (option Q)) :=
  match spec_core c a real, spec_requests c s u (fst arg) with
  | Some core, Some ps =>
    let t := of_list 0%Q (fst arg) (snd arg) in
    let sd := spec_pad_dims ps (fst arg) in
    let lead := filter (fun d => dhas d sd && negb (memS d core)) lead_order in
    let order := map (fun d => (d, dsize d sd)) (lead ++ core) in
    Some (map (fun d => dsize d sd) core, map (spec_pad_cell ps t) (envs order env0))
  | _, _ => None
  end.

Definition on_positions (c : ctor_args Q) (a : sarg) (real : list string) (ds : dimlist) : bool :=
  forallb (fun x : (string * pos) * string =>
             match dim_of c (snd x) (snd (fst x)) with Some d => dhas d ds | None => false end)
          (combine a real).

Definition is_value_error {T} (r : res T) : bool :=
  match r with Err ValueError => true | _ => false end.

Definition spec11 (cs : case11) : bool :=
  let c := c11_ctor cs in
  match parse_string (c11_sig cs) with
  | Err _ => true
  | Ok s =>
    let u := resolved cs s in
    if negb (binding_consistent s (c11_axis cs) && (List.length (c11_args cs) =? List.length (s_in s)))
    then true else
    if negb (forallb (fun x : (sarg * list string) * (dimlist * list Q) =>
                        on_positions c (fst (fst x)) (snd (fst x)) (fst (snd x)))
                     (combine (combine (s_in s) (c11_axis cs)) (c11_args cs)))
    then is_value_error (c11_res cs)                      (* misplaced input: refused *)
    else
      (* loop dimensions in order of first appearance over the inputs *)
      let cores := map (fun x : sarg * list string =>
                          match spec_core c (fst x) (snd x) with Some l => l | None => [] end)
                       (combine (s_in s) (c11_axis cs)) in
      let lead_order := dedup_l (List.concat (map (fun x : list string * (dimlist * list Q) =>
                                     filter (fun d => negb (memS d (fst x))) (dnames (fst (snd x))))
                                   (combine cores (c11_args cs)))) in
      let recv_ok :=
          match c11_recv cs with
          | [] => true
          | rv =>
            if negb (u_pad_before u) then true else
            (List.length rv =? List.length (c11_args cs)) &&
            forallb (fun x : ((sarg * list string) * (dimlist * list Q)) * (list nat * list Q) =>
                       let '(((a, real), arg), (shape, vals)) := x in
                       match spec_received c s u a real arg lead_order with
                       | None => true
                       | Some (trail, cells) =>
                         nats_eqb (lastn (List.length trail) shape) trail && mask_eq cells vals
                       end)
                    (combine (combine (combine (s_in s) (c11_axis cs)) (c11_args cs)) rv)
          end in
      let out_ok :=
          match c11_res cs with
          | Err _ => true
          | Ok outs =>
            (List.length outs =? List.length (s_out s)) &&
            implb (u_pad_before u) (List.length (c11_ret cs) =? List.length outs) &&
            forallb (fun x : (sarg * (dimlist * list Q)) * list Q =>
                       let '((a, (ds, vals)), ret) := x in
                       match all_some (map (fun np : string * pos =>
                                              match bind_first s (c11_axis cs) (fst np) with
                                              | Some r => dim_of c r (snd np) | None => None end) a) with
                       | None => false
                       | Some odims =>
                         list_eqb String.eqb (lastn (List.length odims) (dnames ds)) odims &&
                         forallb (fun d => dsize d ds =? dsize d (c11_dssizes cs)) odims &&
                         implb (u_pad_before u) (Qlist_eqb vals ret)
                       end)
                    (combine (combine (s_out s) outs)
                             (if u_pad_before u then c11_ret cs else map (fun _ => []) outs))
          end in
      recv_ok && out_ok
  end.

(* ---- the model ---- *)
Definition model11 (cs : case11) : bool * bool :=
  match grid_ctor 0%Q (c11_ctor cs), parse_string (c11_sig cs) with
  | Ok g, Ok s =>
    let u := resolved cs s in
    let args := map (fun a : dimlist * list Q => of_list 0%Q (fst a) (snd a)) (c11_args cs) in
    match ufunc_apply 0%Q g (c11_dssizes cs) u (user_trim (c11_plan cs)) args, c11_res cs with
    | Ok (recv, outs), Ok iouts =>
      ( (List.length recv =? List.length (c11_recv cs)) &&
        forallb (fun x : tensor Q * (list nat * list Q) =>
                   nats_eqb (filter (fun n => negb (n =? 1)) (fst (snd x)))
                            (filter (fun n => negb (n =? 1)) (map snd (dims (fst x)))))
                (combine recv (c11_recv cs)) &&
        (List.length outs =? List.length iouts) &&
        forallb (fun x : tensor Q * (dimlist * list Q) =>
                   dimlist_eqb (dims (fst x)) (fst (snd x)))
                (combine outs iouts),
        forallb (fun x : tensor Q * (list nat * list Q) => Qlist_eqb (tabulate (fst x)) (snd (snd x)))
                (combine recv (c11_recv cs)) &&
        forallb (fun x : tensor Q * (dimlist * list Q) => Qlist_eqb (tabulate (fst x)) (snd (snd x)))
                (combine outs iouts) )
    | Err k, Err k' => (true, ekind_eqb k k')
    | _, _ =>
      (* a call whose dummy names are not bound consistently to real axes (one dummy for two axes, one
         axis for two dummies) is outside what the model describes: the package does not detect it as
         such, what happens downstream (a transposition with a repeated dimension, ...) is xarray's and
         NumPy's business.  The specification (spec11) does not constrain such calls either. *)
      (negb (binding_consistent s (c11_axis cs)), true)
    end
  | _, _ => (true, true)
  end.

Definition check11 (cs : case11) : bool * bool * bool :=
  let m := model11 cs in (spec11 cs, fst m, snd m).

Definition run11 (cs : list case11) := failing3 (map check11 cs).
