(* Evaluator for harness-written cases files (C19). *)
From Coq Require Import List Bool ZArith QArith String.
From XV Require Import Base.Res Base.Assoc Base.CorrUtil Base.Ops Base.Seq1D Base.Tensor
     Model.Axis Model.GridCtor Model.Pad Model.GridOps Model.GridOpsTable Model.Dispatch Model.Cumsum
     Model.Coords.
Import ListNotations.
Open Scope string_scope.
Open Scope nat_scope.
Open Scope list_scope.

Record case19 : Type := {
  c19_ctor : ctor_args Q;
  c19_dscoords : list coordv;
  c19_keep : bool;
  c19_func : string; c19_axes : list string; c19_to : kw pos;
  c19_in : labels;
  c19_shifts : list (string * string);      (* (dimension left, dimension entered) per axis, as observed *)
  c19_out : option labels;
  c19_values_label_free : bool     (* same numbers when the input carries no coordinates at all *)
}.

Definition coordv_eqb (a b : coordv) : bool :=
  String.eqb (cv_name a) (cv_name b) && list_eqb String.eqb (cv_dims a) (cv_dims b) && (cv_id a =? cv_id b).
Definition subset (a b : list coordv) : bool := forallb (fun c => existsb (coordv_eqb c) b) a.
Definition same_coords (a b : list coordv) : bool :=
  subset a b && subset b a && (List.length a =? List.length b).
Definition ostr_eqb (a b : option string) : bool :=
  match a, b with None, None => true | Some x, Some y => String.eqb x y | _, _ => false end.

(* the specification: exactly the grid dataset's coordinates that fit the result (the
   non-dimension ones only when keep_coords), none on an abandoned dimension, name kept *)
Definition spec19 (cs : case19) (out : labels) : bool :=
  let expect := filter (fun c => fits (l_dims out) c && (c19_keep cs || is_dim_coord (l_dims out) c))
                       (c19_dscoords cs) in
  same_coords expect (l_coords out) &&
  forallb (fun c => forallb (fun da => negb (memS (fst da) (cv_dims c)) || memS (fst da) (l_dims out))
                            (c19_shifts cs)) (l_coords out) &&
  ostr_eqb (l_name out) (l_name (c19_in cs)) && c19_values_label_free cs.

Definition check19 (cs : case19) : bool * bool * bool :=
  match c19_out cs with
  | None => (true, true, true)
  | Some out =>
    match grid_ctor 0%Q (c19_ctor cs) with
    | Err _ => (spec19 cs out, true, true)
    | Ok g =>
      let m := if String.eqb (c19_func cs) "cumsum"
               then cumsum_labels g (c19_dscoords cs) (c19_keep cs) (c19_axes cs) (c19_to cs) (c19_in cs)
               else op_labels canon_gridops g (c19_dscoords cs) (c19_keep cs) (c19_func cs)
                              (c19_axes cs) (c19_to cs) (c19_in cs) in
      match m with
      | Ok r => (spec19 cs out,
                 same_coords (l_coords r) (l_coords out) && ostr_eqb (l_name r) (l_name out) &&
                 (* cumsum does not restore the order of the dimensions (padding across faces moves the
                    face dimension first): the SET of dimensions is compared there *)
                 (if String.eqb (c19_func cs) "cumsum"
                  then forallb (fun d => memS d (l_dims out)) (l_dims r) &&
                       forallb (fun d => memS d (l_dims r)) (l_dims out)
                  else list_eqb String.eqb (l_dims r) (l_dims out)),
                 true)
      | Err _ => (spec19 cs out, false, true)
      end
    end
  end.

Definition run19 (cs : list case19) := failing3 (map check19 cs).
