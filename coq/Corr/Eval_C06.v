(* Evaluator for harness-written cases files (C06). *)
From Coq Require Import List Bool ZArith QArith String.
From XV Require Import Base.Res Base.Assoc Base.CorrUtil Base.Ops Base.Seq1D Base.Tensor Model.Axis Model.GridOps
     Model.GridOpsTable Model.Dask.
Import ListNotations.
Open Scope string_scope.
Open Scope nat_scope.
Open Scope list_scope.

Inductive case06 : Type :=
| K06_stencil (func : string) (from to : pos) (rule : rule) (fill : Q)
              (chunks_core : list nat)                   (* chunks of the operated dimension *)
              (cols : list (list Q * list Q))            (* input column, computed lazy result column *)
              (refused : bool)                           (* raised NotImplementedError *)
              (out_chunks : list nat)                    (* chunks of the result along the new dimension *)
              (lazy_ok : bool)                           (* built without computing; lazy result == eager result *)
| K06_other (expect_refusal : bool) (refused : bool) (lazy_ok : bool).

Definition Qlist_eqb := list_eqb Qeq_bool.
Definition ofZQ (z : Z) : Q := inject_Z z.
Definition nats_eqb := list_eqb Nat.eqb.

Definition check06 (c : case06) : bool * bool * bool :=
  match c with
  | K06_stencil func from to r fillv cs cols refused ochunks lazy_ok =>
    let chunked := 1 <? List.length cs in
    let spec_refuse := chunked && (length_changing from || length_changing to) in
    let spec := Bool.eqb refused spec_refuse && (refused || lazy_ok) in
    match select func from to canon_gridops with
    | Ok e =>
      match ge_width e, ge_body e with
      | Some (lo, hi), Some body =>
        let mo := snd (dask_mode true (List.length cs) func false) in
        let m_refuse := match overlap_check mo 1 [from; to] with Err _ => true | Ok _ => false end in
        let f := eval QOps ofZQ body in
        let vals_ok :=
            forallb (fun io : list Q * list Q =>
                       let padded := pad1 r fillv lo hi (fst io) in
                       let out := if mo then List.concat (map_overlap f lo hi cs padded) else f padded in
                       Qlist_eqb out (snd io)) cols in
        let chunks_ok := if mo then nats_eqb ochunks cs else true in
        (spec, Bool.eqb refused m_refuse && (refused || (vals_ok && chunks_ok)), true)
      | _, _ => (spec, false, true)
      end
    | Err _ => (spec, false, true)
    end
  | K06_other expect refused lazy_ok => (Bool.eqb refused expect && (refused || lazy_ok), true, true)
  end.

Definition run06 (cs : list case06) := failing3 (map check06 cs).
