(* Evaluator for harness-written cases files (C07). *)
From Coq Require Import List Bool ZArith QArith String PrimFloat.
From XV Require Import Base.Res Base.Assoc Base.CorrUtil Base.Ops Base.FloatOps Base.Kernel
     Base.Seq1D Base.Tensor Model.Transform Spec.S07.
Import ListNotations.
Open Scope nat_scope.
Open Scope list_scope.

Inductive case07 : Type :=
| K07_kernel (phi t1 t2 h1 h2 : list float) (impl : list float)
| K07_cols (phi theta : list (list Q)) (bins : list Q) (impl : res (list (list Q))).

Definition Qisnan (q : Q) : bool := false.
Definition Qle_list (a b : list Q) : bool := list_eqb Qeq_bool a b.

Definition check07 (c : case07) : bool * bool * bool :=
  match c with
  | K07_kernel phi t1 t2 h1 h2 impl =>
    let m := conservative_call FOps fisnan phi t1 t2 h1 h2 in
    (true, list_eqb feq m impl, true)
  | K07_cols phi theta bins impl =>
    let model := map (fun pt => conservative_col QOps Qisnan (fst pt) (snd pt) bins) (combine phi theta) in
    let spec := map (fun pt => spec_conservative QOps (fst pt) (snd pt) bins) (combine phi theta) in
    match impl with
    | Ok outs =>
      ( (List.length outs =? List.length spec) &&
        forallb (fun p : option (list Q) * list Q =>
                   match fst p with Some s => Qle_list s (snd p) | None => false end) (combine spec outs),
        (List.length outs =? List.length model) &&
        forallb (fun p : res (list Q) * list Q =>
                   match fst p with Ok s => Qle_list s (snd p) | Err _ => false end) (combine model outs),
        true )
    | Err _ =>
      ( forallb (fun s : option (list Q) => match s with None => true | Some _ => false end) spec,
        forallb (fun s : res (list Q) => match s with Err _ => true | Ok _ => false end) model,
        true )
    end
  end.

Definition run07 (cs : list case07) := failing3 (map check07 cs).
