(* Evaluator for harness-written cases files (C09). *)
From Coq Require Import List Bool ZArith QArith String.
From XV Require Import Base.Res Base.Assoc Base.CorrUtil Base.Ops Base.Seq1D Base.Tensor
     Model.Axis Model.GridCtor Model.Pad Model.GridOps Model.GridOpsTable Model.Dispatch Model.Cumsum
     Spec.S01 Spec.S02 Spec.S09 Corr.Eval_C01.
Import ListNotations.
Open Scope string_scope.
Open Scope nat_scope.
Open Scope list_scope.

Record case09 : Type := {
  c09_kind : nat;                      (* 0: cumsum; 1: diff (cumsum to outer, fill 0) *)
  c09_ctor : ctor_args Q;
  c09_dssizes : dimlist;
  c09_dims : dimlist; c09_vals : list Q;
  c09_call : callcs (A:=Q);
  c09_impl : res (dimlist * list Q)
}.

Definition spec_cs_step (c : ctor_args Q) (dssizes : dimlist) (k : callcs (A:=Q))
           (orig : list string) (t : tensor Q) (axn : string) : option (tensor Q) :=
  match lookupS axn (c_coords c) with
  | Some cs =>
    match find (fun pd => memS (snd pd) orig) cs with
    | None => None
    | Some (from, d) =>
      let to := match explicit (cs_to k) axn with
                | Some p => Some p
                | None => match from with
                          | Center => find (fun q => memP q (map fst cs)) [Left; Right; Outer; Inner]
                          | _ => Some Center
                          end
                end in
      match to with
      | None => None
      | Some to =>
        match lookupP to cs, lookupP Center cs with
        | Some d', Some dc =>
          if valid_shift from to then
            Some (spec_cumsum_axis QOps (rule_of_bword (call_rule c (cs_boundary k) axn))
                                   (call_fill 0%Q c (cs_fill k) axn) from to d d'
                                   (dsize dc dssizes) t)
          else None
        | _, _ => None
        end
      end
    end
  | None => None
  end.

Fixpoint spec_cs_steps c dssizes k orig (t : tensor Q) (axes : list string) : option (tensor Q) :=
  match axes with
  | [] => Some t
  | a :: r => match spec_cs_step c dssizes k orig t a with
              | Some t' => spec_cs_steps c dssizes k orig (materialize 0%Q t') r
              | None => None
              end
  end.

Definition check09 (cs : case09) : bool * bool * bool :=
  let c := c09_ctor cs in
  match grid_ctor 0%Q c with
  | Err _ => (true, false, true)
  | Ok g =>
    let t := of_list 0%Q (c09_dims cs) (c09_vals cs) in
    let k := c09_call cs in
    let m := grid_cumsum QOps cumsum_table g (c09_dssizes cs) k t in
    match c09_kind cs with
    | 0 =>
      let sp := spec_cs_steps c (c09_dssizes cs) k (dnames (c09_dims cs)) t (cs_axes k) in
      match c09_impl cs with
      | Ok dv =>
        ( match sp with Some s => tensor_agrees s dv | None => true end,
          match m with Ok r => tensor_agrees r dv | Err _ => false end, true )
      | Err k' =>
        ( match sp with Some _ => false | None => true end,
          match m with Ok _ => false | Err _ => true end,
          match m with Err k2 => ekind_eqb k2 k' | Ok _ => true end )
      end
    | _ =>
      (* differencing the cumsum taken to outer with zero fill returns the input *)
      let back := match m with
                  | Ok r => grid_op QOps ofZQ canon_gridops g (c09_dssizes cs)
                                    {| k_func := "diff"; k_axes := cs_axes k;
                                       k_to := KScalar (Some Center);
                                       k_boundary := KScalar None; Dispatch.k_fill := KScalar None |}
                                    (materialize 0%Q r)
                  | Err e => Err e
                  end in
      match c09_impl cs with
      | Ok dv => ( tensor_agrees t dv,
                   match back with Ok r => tensor_agrees r dv | Err _ => false end, true )
      | Err _ => (false, match back with Ok _ => false | Err _ => true end, true)
      end
    end
  end.

Definition run09 (cs : list case09) := failing3 (map check09 cs).
