(* Evaluator for harness-written cases files (C03): the undivided-domain oracle. *)
From Coq Require Import List Bool ZArith QArith String.
From XV Require Import Base.Res Base.Assoc Base.CorrUtil Base.Ops Base.Seq1D Base.Tensor
     Model.Axis Model.FaceConn Spec.S01 Spec.S03.
Import ListNotations.
Open Scope string_scope.
Open Scope nat_scope.
Open Scope list_scope.

Record case03 : Type := {
  c03_dom : domain; c03_N : nat; c03_charts : list chart; c03_conn : facetab;
  c03_gdims : dimlist; c03_gvals : list Q;     (* the undivided field, dims gy, gx (, t) *)
  c03_func : string; c03_axis : string; c03_to : pos;
  c03_rule : rule; c03_fill : Q;
  c03_xdim : string; c03_ydim : string;        (* result dimensions along X and Y *)
  c03_out_order : list string;
  c03_impl : res (dimlist * list Q)
}.

Definition ofZQ3 (z : Z) : Q := inject_Z z.

(* value of the undivided field at a global cell *)
Definition gval (G : tensor Q) (e : env) (q : Z * Z) : Q :=
  get G (upd (upd e "gx" (Z.to_nat (fst q))) "gy" (Z.to_nat (snd q))).

Definition spec_cell (cs : case03) (G : tensor Q) : env -> option Q :=
  fun e =>
  match nth_error (c03_charts cs) (e "face"), op_fun QOps ofZQ3 (c03_func cs) with
  | Some ch, Some fn =>
    let N := c03_N cs in
    let ax_is_x := is_x (c03_axis cs) in
    let it := e (if ax_is_x then c03_xdim cs else c03_ydim cs) in     (* target index *)
    let other := e (if ax_is_x then c03_ydim cs else c03_xdim cs) in
    let pos_of (idx : Z) : Z * Z := if ax_is_x then (idx, Z.of_nat other) else (Z.of_nat other, idx) in
    let own := map (fun k => gval G e (chart_apply ch (pos_of (Z.of_nat k)))) (seq 0 N) in
    let col (idx : Z) : Q :=
        if ((0 <=? idx) && (idx <? Z.of_nat N))%Z then gval G e (chart_apply ch (pos_of idx))
        else match wrap (c03_dom cs) (chart_apply ch (pos_of idx)) with
             | Some q => gval G e q
             | None => ext (c03_rule cs) (c03_fill cs) own idx
             end in
    let i0 := lower_index Center (c03_to cs) (Z.of_nat it) in
    Some (fn (col i0) (col (i0 + 1)%Z))
  | _, _ => None
  end.

Definition check03 (cs : case03) : bool * bool * bool :=
  let G := of_list 0%Q (c03_gdims cs) (c03_gvals cs) in
  let atlas_ok := atlas_consistentb (c03_dom cs) (c03_charts cs) (Z.of_nat (c03_N cs)) (c03_conn cs) in
  match c03_impl cs with
  | Ok dv =>
    let cells := map (spec_cell cs G) (envs (fst dv) env0) in
    ( atlas_ok &&
      (List.length cells =? List.length (snd dv)) &&
      forallb (fun p : option Q * Q => match fst p with Some v => Qeq_bool v (snd p) | None => false end)
              (combine cells (snd dv)),
      true, true )
  | Err _ => (false, true, true)
  end.

Definition run03 (cs : list case03) := failing3 (map check03 cs).
