(* Evaluator for harness-written cases files (C10). *)
From Coq Require Import List Bool ZArith String.
From XV Require Import Base.Res Base.Assoc Base.CorrUtil Base.Tensor Model.Registry Model.Metrics Spec.S10.
Import ListNotations.
Open Scope string_scope.
Open Scope nat_scope.
Open Scope list_scope.

Record case10 : Type := {
  c10_axis_dims : list (string * list string);
  c10_env : reg_env;
  c10_history : list reg_call;                 (* how the registry came about *)
  c10_array_dims : list string;
  c10_axes : list string;
  (* the name sets whose product (interpolated to the array's position where needed)
     equals the metric the implementation returned; None: it raised *)
  c10_impl : option (list (list string));
  c10_impl_err : option ekind;
  c10_warned : bool
}.

Definition names_eqb (a b : list string) : bool := set_eqb a b && (List.length a =? List.length b).

Definition check10 (c : case10) : bool * bool * bool :=
  let reg := fst (run_history (c10_env c) [] (c10_history c)) in
  let m := get_metric (c10_axis_dims c) reg (c10_array_dims c) (c10_axes c) in
  match c10_impl c, m with
  | Some cands, Ok e =>
    let names := map f_name e in
    ( existsb (fun cand =>
                 admissible reg (c10_array_dims c) (c10_axes c)
                            (map (fun n : string =>
                                    {| f_name := n;
                                       f_interp := match key_of reg n with
                                                   | Some (_, v) => negb (fits (c10_array_dims c) v)
                                                   | None => false
                                                   end |}) cand)) cands
      || existsb (fun cand => names_eqb cand names) cands && admissible reg (c10_array_dims c) (c10_axes c) e,
      existsb (fun cand => names_eqb cand names) cands,
      Bool.eqb (existsb f_interp e) (c10_warned c) )
  | None, Err k => (true, true, match c10_impl_err c with Some k' => ekind_eqb k k' | None => true end)
  | Some _, Err _ => (true, false, true)
  | None, Ok e => (negb (admissible reg (c10_array_dims c) (c10_axes c) e), false, true)
  end.

Definition run10 (cs : list case10) := failing3 (map check10 cs).

(* --- the enumeration of axis combinations, compared directly -------------------------- *)
(* input: the requested axes; observed: what metrics.iterate_axis_combinations yielded, each
   yield a tuple of frozensets (blocks compared as sets, their order and the order of the
   yields compared exactly) *)
Fixpoint forall2b {X Y} (f : X -> Y -> bool) (a : list X) (b : list Y) : bool :=
  match a, b with
  | [], [] => true
  | x :: a', y :: b' => f x y && forall2b f a' b'
  | _, _ => false
  end.
Definition block_eqb (a b : list string) : bool := set_eqb a b && (List.length a =? List.length b).
Definition check10c (c : list string * list (list (list string))) : bool * bool * bool :=
  let ok := forall2b (forall2b block_eqb) (axis_combinations (fst c)) (snd c) in
  (ok, ok, true).
Definition run10c (cs : list (list string * list (list (list string)))) := failing3 (map check10c cs).
