(* Evaluator for harness-written cases files (C14). *)
From Coq Require Import List Bool ZArith String.
From XV Require Import Base.Res Base.Assoc Base.CorrUtil Model.Axis Model.Comodo Model.Sgrid.
Import ListNotations.
Open Scope string_scope.
Open Scope nat_scope.
Open Scope list_scope.

Definition topo : Type := list (string * list (pos * string)).

Record case14 : Type := {
  c14_conv : option string;
  c14_sgrid : option sgrid_attrs;
  c14_dims : list cdim;
  c14_user : option topo;
  c14_expected : option topo;          (* the topology the convention table prescribes; None: refuse *)
  c14_unspecified : bool;              (* the annotation is outside both tables: the property is silent *)
  c14_impl : res topo                  (* Grid(ds).axes[*].coords, in Grid order *)
}.

Definition axis_map_eqb (a b : list (pos * string)) : bool :=
  (List.length a =? List.length b) &&
  forallb (fun p => match lookupP (fst p) b with Some d => String.eqb d (snd p) | None => false end) a.

(* as maps axis -> (position -> dim); the order of the axes is compared separately *)
Definition topo_map_eqb (a b : topo) : bool :=
  (List.length a =? List.length b) &&
  forallb (fun e => match lookupS (fst e) b with Some m => axis_map_eqb (snd e) m | None => false end) a.

Definition topo_order_eqb (a b : topo) : bool :=
  (List.length a =? List.length b) && forallb (fun p => String.eqb (fst (fst p)) (fst (snd p))) (combine a b).

Definition check14 (c : case14) : bool * bool * bool :=
  let m := ctor_coords (c14_user c) (parse_metadata (c14_conv c) (c14_sgrid c) (c14_dims c)) in
  match c14_impl c with
  | Ok t =>
    ( c14_unspecified c || match c14_expected c with Some e => topo_map_eqb e t && topo_order_eqb e t | None => false end,
      match m with Ok mt => topo_map_eqb mt t && topo_order_eqb mt t | Err _ => false end,
      true )
  | Err k =>
    ( c14_unspecified c || match c14_expected c with Some _ => false | None => true end,
      match m with Err _ => true | Ok _ => false end,
      match m with Err k' => ekind_eqb k k' | Ok _ => true end )
  end.

Definition run14 (cs : list case14) := failing3 (map check14 cs).
