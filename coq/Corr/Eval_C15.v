(* Evaluator for harness-written cases files (C15). *)
From Coq Require Import List Bool Ascii String Arith.
From XV Require Import Base.Res Base.Assoc Base.CorrUtil Model.Axis Model.Signature Spec.S15.
Import ListNotations.
Open Scope string_scope.
Open Scope list_scope.

Inductive case15 : Type :=
| K15_parse (text : string) (impl : option (sig * string))       (* None: ValueError *)
| K15_equiv (a b : string) (impl : option bool).                 (* None: a text was refused *)

Definition sarg_eqb (a b : sarg) : bool :=
  (List.length a =? List.length b)%nat &&
  forallb (fun p => String.eqb (fst (fst p)) (fst (snd p)) && pos_eqb (snd (fst p)) (snd (snd p)))
          (combine a b).
Definition sargs_eqb (a b : list sarg) : bool :=
  (List.length a =? List.length b)%nat && forallb (fun p => sarg_eqb (fst p) (snd p)) (combine a b).
Definition sig_eqb (a b : sig) : bool := sargs_eqb (s_in a) (s_in b) && sargs_eqb (s_out a) (s_out b).

Definition check15 (c : case15) : bool * bool * bool :=
  match c with
  | K15_parse text impl =>
    let m := parse_string text in
    let sp := spec_parse text in
    ( match sp, impl with
      | Some s, Some (s', printed) =>
        sig_eqb s s' && String.eqb (print_sig s) printed &&
        String.eqb printed (str (remove_spaces (chars text)))
      | None, None => true
      | _, _ => false
      end,
      match m, impl with
      | Ok s, Some (s', printed) => sig_eqb s s' && String.eqb (print_sig s) printed
      | Err _, None => true
      | _, _ => false
      end, true )
  | K15_equiv a b impl =>
    match parse_string a, parse_string b, impl with
    | Ok sa, Ok sb, Some r =>
      ( match spec_parse a, spec_parse b with
        | Some xa, Some xb => Bool.eqb (spec_equivalent xa xb) r
        | _, _ => false
        end,
        Bool.eqb (equivalent sa sb) r, true )
    | _, _, None => (true, true, true)
    | _, _, _ => (false, false, true)
    end
  end.

Definition run15 (cs : list case15) := failing3 (map check15 cs).
