(* Evaluator for harness-written cases files (C20): a request and whether the
   implementation raised. *)
From Coq Require Import List Bool ZArith QArith String.
From XV Require Import Base.Res Base.Assoc Base.CorrUtil Base.Ops Base.QNOps Base.Seq1D Base.Tensor
     Model.Axis Model.GridCtor Model.Pad Model.GridOps Model.GridOpsTable Model.Dispatch Model.Cumsum
     Model.Signature Model.UFunc Model.Transform Model.Refuse Model.Registry Model.Metrics Spec.S02
     Proofs.P10 Corr.Eval_C01 Corr.Eval_C08 Corr.Eval_C11.
Import ListNotations.
Open Scope string_scope.
Open Scope nat_scope.
Open Scope list_scope.

Inductive req20 : Type :=
| R_op (c : ctor_args Q) (dssizes : dimlist) (ds : dimlist) (vals : list Q) (k : rawcall (A:=Q))
| R_transform (tc : tcall (A:=QN))
| R_ufunc (cs : case11)
| R_ctor (c : ctor_args Q) (fill : kw (option Q))
(* a metric operation (get_metric / integrate / average / cumint / derivative): the axes' dimensions, how the
   registry came about, the array's dimensions, the requested axes *)
| R_metric (axis_dims : list (string * list string)) (env : reg_env) (hist : list reg_call)
           (array_dims axes : list string).

Record case20 : Type := {
  c20_req : req20;
  c20_raised : option ekind           (* None: the call returned *)
}.

(* ---- the specification: the listed classes of ill-posed requests, recognised on the
   arguments alone ---- *)
Definition count_dims_on (cs : list (pos * string)) (ds : dimlist) : nat :=
  List.length (filter (fun d => memS d (map snd cs)) (dnames ds)).

Definition ill_posed_op (c : ctor_args Q) (ds : dimlist) (k : rawcall (A:=Q)) : bool :=
  negb (match r_axes k with [] => true | _ => false end) &&
  ( (* an axis the grid lacks *)
    existsb (fun ax => match lookupS ax (c_coords c) with None => true | Some _ => false end) (r_axes k) ||
    (* data lacking, or having two, dimensions of the axis *)
    existsb (fun ax => match lookupS ax (c_coords c) with
                       | Some cs => negb (count_dims_on cs ds =? 1) | None => false end) (r_axes k) ||
    (* an unknown position word for an axis operated on *)
    existsb (fun ax => match explicit (r_to k) ax with
                       | Some w => match pos_of_name w with None => true | Some _ => false end
                       | None => false end) (r_axes k) ||
    (* a shift the axis cannot make: same position, or a position the axis lacks *)
    existsb (fun ax => match lookupS ax (c_coords c), explicit (r_to k) ax with
                       | Some cs, Some w =>
                         match pos_of_name w, find (fun pd : pos * string => dhas (snd pd) ds) cs with
                         | Some tp, Some (from, _) =>
                           pos_eqb tp from || negb (memP tp (map fst cs))
                         | _, _ => false
                         end
                       | _, _ => false end) (r_axes k) ||
    (* an unknown boundary word *)
    existsb (fun b => bword_eqb b BUnknown) (kw_values (r_boundary k)) ||
    (* a non-numeric fill value *)
    negb (fill_numeric (r_fill k)) ).

Definition qn_strictly (lt : QN -> QN -> bool) (l : list QN) : bool :=
  forallb (fun p : QN * QN => lt (fst p) (snd p)) (combine (removelast l) (tl l)).

Definition ill_posed_transform (tc : tcall (A:=QN)) : bool :=
  tc_periodic tc ||
  (* data lacking, or having two, dimensions of the axis *)
  negb (count_dims_on (tc_coords tc) (dims (tc_da tc)) =? 1) ||
  (String.eqb (tc_method tc) "conservative" &&
   (negb (memP Outer (map fst (tc_coords tc))) ||
    match tc_target tc with
    | TBare bins => negb (qn_strictly (ltb QNOps) bins || qn_strictly (fun a b => ltb QNOps b a) bins)
    | TArr t => match dims t with
                | [_] => let bins := tabulate t in
                         negb (qn_strictly (ltb QNOps) bins || qn_strictly (fun a b => ltb QNOps b a) bins)
                | _ => false
                end
    end)).

Definition ill_posed_ufunc (cs : case11) : bool :=
  match parse_string (c11_sig cs) with
  | Err _ => true
  | Ok s =>
    negb (List.length (c11_args cs) =? List.length (s_in s)) ||
    negb (List.length (c11_axis cs) =? List.length (s_in s)) ||
    negb (forallb (fun p : sarg * list string => List.length (fst p) =? List.length (snd p))
                  (combine (s_in s) (c11_axis cs))) ||
    negb (forallb (fun x : (sarg * list string) * (dimlist * list Q) =>
                     on_positions (c11_ctor cs) (fst (fst x)) (snd (fst x)) (fst (snd x)))
                  (combine (combine (s_in s) (c11_axis cs)) (c11_args cs)))
  end.

Definition ill_posed_ctor (c : ctor_args Q) (fill : kw (option Q)) : bool :=
  existsb (fun ac : string * list (pos * string) =>
             existsb (fun pd : pos * string => negb (memS (snd pd) (c_dsdims c))) (snd ac)) (c_coords c) ||
  existsb (fun b => bword_eqb b BUnknown) (kw_values (c_boundary c)) ||
  negb (fill_numeric fill) ||
  existsb (fun ac : string * list (pos * string) =>
             match explicit (c_shifts c) (fst ac) with
             | Some sh => existsb (fun pq : pos * pos => pos_eqb (fst pq) (snd pq) && memP (fst pq) (map fst (snd ac))) sh
             | None => false
             end) (c_coords c).

Definition must_refuse (r : req20) : bool :=
  match r with
  | R_op c _ ds _ k => ill_posed_op c ds k
  | R_transform tc => ill_posed_transform tc
  | R_ufunc cs => ill_posed_ufunc cs
  | R_ctor c fill => ill_posed_ctor c fill
  | R_metric axd _ _ ad axes => ill_posed_metric axd ad axes
  end.

(* ---- the model ---- *)
Definition model_outcome (r : req20) : option (option ekind) :=     (* None: no model verdict *)
  match r with
  | R_op c dssizes ds vals k =>
    match grid_ctor 0%Q c with
    | Ok g => Some (match raw_op QOps ofZQ canon_gridops cumsum_table g dssizes k (of_list 0%Q ds vals) with
                    | Ok _ => None | Err e => Some e end)
    | Err _ => None
    end
  | R_transform tc =>
    Some (match grid_transform QNOps qn_isnan None (fun x => x) qn_half tc with
          | Ok _ => None | Err e => Some e end)
  | R_ufunc cs =>
    match grid_ctor 0%Q (c11_ctor cs), parse_string (c11_sig cs) with
    | Ok g, Ok s =>
      Some (match ufunc_apply 0%Q g (c11_dssizes cs) (resolved cs s) (user_trim (c11_plan cs))
                              (map (fun a : dimlist * list Q => of_list 0%Q (fst a) (snd a)) (c11_args cs)) with
            | Ok _ => None | Err e => Some e end)
    | _, Err e => Some (Some e)
    | _, _ => None
    end
  | R_ctor c fill =>
    Some (match grid_ctor 0%Q c with
          | Ok _ => if fill_numeric fill then None else Some TypeError
          | Err e => Some e end)
  | R_metric axd env hist ad axes =>
    Some (match get_metric axd (fst (run_history env [] hist)) ad axes with
          | Ok _ => None | Err e => Some e end)
  end.

Definition okind_eqb (a b : option ekind) : bool :=
  match a, b with None, None => true | Some x, Some y => ekind_eqb x y | _, _ => false end.
Definition raised {T} (a : option T) : bool := match a with Some _ => true | None => false end.

Definition check20 (cs : case20) : bool * bool * bool :=
  let spec := implb (must_refuse (c20_req cs)) (raised (c20_raised cs)) in
  match model_outcome (c20_req cs) with
  | None => (spec, true, true)
  | Some m => (spec, Bool.eqb (raised m) (raised (c20_raised cs)), okind_eqb m (c20_raised cs))
  end.

Definition run20 (cs : list case20) := failing3 (map check20 cs).
