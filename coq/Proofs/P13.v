(* C13: names are opaque labels -- equivariance of the model's building blocks under an
   injective renaming of names. *)
From Coq Require Import List Bool ZArith String Lia.
From XV Require Import Base.Res Base.Assoc Base.Seq1D Base.Tensor Model.Axis Model.UFunc
     Proofs.TensorLemmas.
Import ListNotations.
Open Scope string_scope.
Open Scope nat_scope.
Open Scope list_scope.

Definition injective (r : string -> string) : Prop := forall a b, r a = r b -> a = b.

Section Rename.
  Variable r : string -> string.
  Hypothesis r_inj : injective r.

  Lemma eqb_rename a b : String.eqb (r a) (r b) = String.eqb a b.
  Proof.
    destruct (String.eqb a b) eqn:E.
    - apply String.eqb_eq in E. subst. apply String.eqb_refl.
    - apply String.eqb_neq. intros H. apply r_inj in H. apply String.eqb_neq in E. contradiction.
  Qed.

  (* dictionaries keyed by names *)
  Definition rename_keys {V} (l : list (string * V)) : list (string * V) :=
    map (fun p => (r (fst p), snd p)) l.

  Lemma lookupS_rename {V} k (l : list (string * V)) :
    lookupS (r k) (rename_keys l) = lookupS k l.
  Proof.
    unfold lookupS. induction l as [|[k' v] l IH]; [reflexivity|].
    cbn [rename_keys map lookup fst snd]. rewrite eqb_rename.
    destruct (String.eqb k k'); [reflexivity | exact IH].
  Qed.

  Lemma memS_rename x l : memS (r x) (map r l) = memS x l.
  Proof.
    unfold memS, memk. induction l as [|y l IH]; [reflexivity|].
    cbn [map existsb]. rewrite eqb_rename, IH. reflexivity.
  Qed.

  Lemma filter_neq_rename x l :
    filter (fun y => negb (String.eqb y (r x))) (map r l) =
    map r (filter (fun y => negb (String.eqb y x)) l).
  Proof.
    induction l as [|y l IH]; [reflexivity|]. cbn [map filter]. rewrite eqb_rename.
    destruct (String.eqb y x); cbn [negb map]; rewrite IH; reflexivity.
  Qed.

  (* order of first appearance *)
  Lemma dedup_rename l : dedup_l (map r l) = map r (dedup_l l).
  Proof.
    induction l as [|x l IH]; [reflexivity|]. cbn [map dedup_l]. rewrite IH, filter_neq_rename. reflexivity.
  Qed.

  Lemma assoc_set_rename {V} k (v : V) l :
    Model.GridCtor.assoc_set (r k) v (rename_keys l) = rename_keys (Model.GridCtor.assoc_set k v l).
  Proof.
    induction l as [|[k' v'] l IH]; [reflexivity|].
    cbn [rename_keys map Model.GridCtor.assoc_set fst snd]. rewrite eqb_rename.
    destruct (String.eqb k k'); [reflexivity|]. cbn [map fst snd]. f_equal. exact IH.
  Qed.

  (* ---- tensors: dimension names ---- *)
  Definition rename_dims (ds : dimlist) : dimlist := rename_keys ds.
  Definition rename_tensor {A} (t : tensor A) : tensor A :=
    {| dims := rename_dims (dims t); get := fun e => get t (fun d => e (r d)) |}.

  Lemma dsize_rename d ds : dsize (r d) (rename_dims ds) = dsize d ds.
  Proof. unfold dsize, rename_dims. rewrite (lookupS_rename d ds). reflexivity. Qed.
  Lemma dhas_rename d ds : dhas (r d) (rename_dims ds) = dhas d ds.
  Proof. unfold dhas, rename_dims. rewrite (lookupS_rename d ds). reflexivity. Qed.
  Lemma dnames_rename ds : dnames (rename_dims ds) = map r (dnames ds).
  Proof. unfold dnames, rename_dims, rename_keys. rewrite !map_map. reflexivity. Qed.

  Lemma dreplace_rename d d' n ds :
    dreplace (r d) (r d', n) (rename_dims ds) = rename_dims (dreplace d (d', n) ds).
  Proof.
    induction ds as [|[x m] ds IH]; [reflexivity|].
    cbn [rename_dims rename_keys map dreplace fst snd]. rewrite eqb_rename.
    destruct (String.eqb x d); [reflexivity|]. cbn [map fst snd]. f_equal. exact IH.
  Qed.
  Lemma dremove_rename d ds : dremove (r d) (rename_dims ds) = rename_dims (dremove d ds).
  Proof.
    induction ds as [|[x m] ds IH]; [reflexivity|].
    cbn [rename_dims rename_keys map dremove fst snd]. rewrite eqb_rename.
    destruct (String.eqb x d); [reflexivity|]. cbn [map fst snd]. f_equal. exact IH.
  Qed.

  Lemma upd_rename (e : env) d i x : upd e (r d) i (r x) = upd (fun y => e (r y)) d i x.
  Proof. unfold upd. rewrite eqb_rename. reflexivity. Qed.

  Section T.
    Context {A : Type} (dflt : A).

    Lemma wf_rename (t : tensor A) : wf t -> wf (rename_tensor t).
    Proof.
      intros W e e' H. cbn [rename_tensor get]. apply W. intros d Hd. apply H.
      cbn [rename_tensor dims]. rewrite dnames_rename. apply in_map. exact Hd.
    Qed.

    (* the column through a point of the renamed array is the column of the original *)
    Lemma column_rename (t : tensor A) d e : wf t ->
      column (rename_tensor t) (r d) e = column t d (fun y => e (r y)).
    Proof.
      intros W. unfold column, size. cbn [rename_tensor dims get]. rewrite dsize_rename.
      apply map_ext. intros i. apply W. intros x _. apply upd_rename.
    Qed.

    (* the combinator every 1-d operation (padding, stencils, cumsum, trimming) is built
       from commutes with renaming *)
    Lemma map_dim_rename d d' n f (t : tensor A) : wf t ->
      dims (map_dim dflt (r d) (r d') n f (rename_tensor t)) =
        dims (rename_tensor (map_dim dflt d d' n f t)) /\
      forall e, get (map_dim dflt (r d) (r d') n f (rename_tensor t)) e =
                get (rename_tensor (map_dim dflt d d' n f t)) e.
    Proof.
      intros W. split.
      - cbn [map_dim rename_tensor dims]. apply dreplace_rename.
      - intros e. cbn [map_dim rename_tensor get]. rewrite (column_rename t d e W). reflexivity.
    Qed.

    Lemma apply_core_rename d d' n f (t : tensor A) : wf t ->
      dims (apply_core dflt (r d) (r d') n f (rename_tensor t)) =
        dims (rename_tensor (apply_core dflt d d' n f t)) /\
      forall e, get (apply_core dflt (r d) (r d') n f (rename_tensor t)) e =
                get (rename_tensor (apply_core dflt d d' n f t)) e.
    Proof.
      intros W. split.
      - cbn [apply_core rename_tensor dims]. rewrite dremove_rename. unfold rename_dims, rename_keys.
        rewrite map_app. reflexivity.
      - intros e. cbn [apply_core rename_tensor get]. rewrite (column_rename t d e W). reflexivity.
    Qed.

    Lemma transpose_rename order (t : tensor A) :
      transpose (map r order) (rename_tensor t) = rename_tensor (transpose order t).
    Proof.
      unfold transpose, rename_tensor. cbn [dims get]. f_equal.
      unfold rename_dims, rename_keys. rewrite !map_map. apply map_ext. intros d. cbn [fst snd].
      unfold size. cbn [dims]. rewrite dsize_rename. reflexivity.
    Qed.
  End T.

  (* ---- axes ---- *)
  Section Ax.
    Context {A : Type}.
    Variable ra : string -> string.          (* renaming of axis names *)
    Hypothesis ra_inj : injective ra.

    Definition rename_axis (a : axis A) : axis A :=
      {| ax_name := ra (ax_name a);
         ax_coords := map (fun pd => (fst pd, r (snd pd))) (ax_coords a);
         ax_shifts := ax_shifts a; ax_boundary := ax_boundary a; ax_fill := ax_fill a |}.

    Lemma lookupP_rename p (cs : list (pos * string)) :
      lookupP p (map (fun pd => (fst pd, r (snd pd))) cs) = option_map r (lookupP p cs).
    Proof.
      unfold lookupP. induction cs as [|[q d] cs IH]; [reflexivity|].
      cbn [map lookup fst snd]. destruct (pos_eqb p q); [reflexivity | exact IH].
    Qed.

    Lemma find_axis_rename (g : grid A) n :
      find_axis (map rename_axis g) (ra n) =
      match find_axis g n with Ok a => Ok (rename_axis a) | Err e => Err e end.
    Proof.
      unfold find_axis. induction g as [|a g IH]; [reflexivity|].
      cbn [map find rename_axis ax_name].
      assert (E : String.eqb (ra (ax_name a)) (ra n) = String.eqb (ax_name a) n).
      { destruct (String.eqb (ax_name a) n) eqn:E.
        - apply String.eqb_eq in E. rewrite E. apply String.eqb_refl.
        - apply String.eqb_neq. intros H. apply ra_inj in H. apply String.eqb_neq in E. contradiction. }
      rewrite E. destruct (String.eqb (ax_name a) n); [reflexivity | exact IH].
    Qed.

    Lemma nodup_rename l : nodup string_dec (map r l) = map r (nodup string_dec l).
    Proof.
      induction l as [|x l IH]; [reflexivity|]. cbn [map nodup].
      destruct (in_dec string_dec x l) as [Hi|Hn]; destruct (in_dec string_dec (r x) (map r l)) as [Hi'|Hn'].
      - exact IH.
      - exfalso. apply Hn'. apply in_map. exact Hi.
      - exfalso. apply Hn. apply in_map_iff in Hi'. destruct Hi' as [y [Hy Hy2]].
        apply r_inj in Hy. subst. exact Hy2.
      - cbn [map]. rewrite IH. reflexivity.
    Qed.

    Lemma filter_mem_rename (ds : list string) l :
      filter (fun d => memS d (map r ds)) (map r l) = map r (filter (fun d => memS d ds) l).
    Proof.
      induction l as [|x l IH]; [reflexivity|]. cbn [map filter]. rewrite memS_rename.
      destruct (memS x ds); cbn [map]; rewrite IH; reflexivity.
    Qed.

    (* which dimension of an array lies on an axis does not depend on how the dimensions
       are called *)
    Lemma get_position_name_rename (a : axis A) dadims :
      get_position_name (rename_axis a) (map r dadims) =
      match get_position_name a dadims with
      | Ok pd => Ok (fst pd, r (snd pd))
      | Err e => Err e
      end.
    Proof.
      unfold get_position_name. cbn [rename_axis ax_coords].
      rewrite map_map. cbn [snd].
      rewrite <- (map_map snd r). rewrite nodup_rename, filter_mem_rename.
      destruct (filter (fun d => memS d (map snd (ax_coords a))) (nodup string_dec dadims)) as [|x [|y l]];
        try reflexivity.
      cbn [map].
      assert (F : find (fun pd : pos * string => memS (snd pd) (map r dadims))
                       (map (fun pd : pos * string => (fst pd, r (snd pd))) (ax_coords a)) =
                  option_map (fun pd : pos * string => (fst pd, r (snd pd)))
                             (find (fun pd : pos * string => memS (snd pd) dadims) (ax_coords a))).
      { induction (ax_coords a) as [|[p d] cs IH]; [reflexivity|].
        cbn [map find fst snd]. rewrite memS_rename. destruct (memS d dadims); [reflexivity | exact IH]. }
      rewrite F. destruct (find _ (ax_coords a)); reflexivity.
    Qed.
  End Ax.

  (* ---- binding of dummy names: renaming the dummies (r) and the real axes (r2) ---- *)
  Lemma combine_map {X Y X' Y'} (f : X -> X') (g : Y -> Y') (a : list X) (b : list Y) :
    combine (map f a) (map g b) = map (fun p => (f (fst p), g (snd p))) (combine a b).
  Proof.
    revert b; induction a as [|x a IH]; intros [|y b]; try reflexivity. cbn [map combine fst snd].
    f_equal. apply IH.
  Qed.

  Lemma concat_map_map {X Y} (f : X -> Y) (l : list (list X)) :
    List.concat (map (map f) l) = map f (List.concat l).
  Proof. induction l as [|x l IH]; [reflexivity|]. cbn [map List.concat]. rewrite map_app, IH. reflexivity. Qed.
End Rename.

Lemma dummy_to_real_rename r1 r2 (H1 : injective r1) (H2 : injective r2) dummy axis :
  dummy_to_real (map (map r1) dummy) (map (map r2) axis) =
  match dummy_to_real dummy axis with
  | Ok m => Ok (map (fun p => (r1 (fst p), r2 (snd p))) m)
  | Err e => Err e
  end.
Proof.
  unfold dummy_to_real. rewrite !map_length.
  destruct (negb (List.length axis =? List.length dummy)); [reflexivity|].
  assert (F : forallb (fun p : list string * list string => List.length (fst p) =? List.length (snd p))
                      (combine (map (map r2) axis) (map (map r1) dummy)) =
              forallb (fun p : list string * list string => List.length (fst p) =? List.length (snd p))
                      (combine axis dummy)).
  { rewrite combine_map. clear. induction (combine axis dummy) as [|p l IH]; [reflexivity|].
    cbn [map forallb fst snd]. rewrite !map_length, IH. reflexivity. }
  rewrite F. destruct (negb (forallb _ (combine axis dummy))); [reflexivity|].
  rewrite !concat_map_map, (dedup_rename r1 H1), (dedup_rename r2 H2), !map_length.
  destruct (negb (List.length (dedup_l (List.concat dummy)) =? List.length (dedup_l (List.concat axis))));
    [reflexivity|].
  rewrite combine_map. reflexivity.
Qed.

(* the canonical numbering of dummy names (signature equivalence, C15) does not see an
   injective renaming: a predefined operation is found for an axis of any name *)
From XV Require Import Model.Signature Proofs.P15_equiv.

Lemma numbering_rename r (Hr : injective r) names :
  fst (number_names (map r names) []) = fst (number_names names []).
Proof.
  symmetry. apply numbering_iff_pattern; [rewrite map_length; reflexivity|].
  intros p q Hp Hq.
  assert (P : forall x, In x (combine names (map r names)) -> snd x = r (fst x)).
  { clear. induction names as [|n names IH]; intros x Hx; [destruct Hx|].
    cbn [map combine] in Hx. destruct Hx as [Hx|Hx]; [subst x; reflexivity | apply IH, Hx]. }
  rewrite (P p Hp), (P q Hq). split; [intros E; rewrite E; reflexivity | apply Hr].
Qed.

(* padding one dimension commutes with renaming the dimensions *)
From XV Require Import Model.Pad.
Lemma pad_dim_rename {A} (dflt : A) r (Hr : injective r) (p : padspec (A:=A)) (t : tensor A) : wf t ->
  let p' := {| ps_dim := r (ps_dim p); ps_rule := ps_rule p; ps_fill := ps_fill p;
               ps_lo := ps_lo p; ps_hi := ps_hi p |} in
  dims (pad_dim dflt p' (rename_tensor r t)) = dims (rename_tensor r (pad_dim dflt p t)) /\
  forall e, get (pad_dim dflt p' (rename_tensor r t)) e = get (rename_tensor r (pad_dim dflt p t)) e.
Proof.
  intros W p'. unfold pad_dim. cbn [p' ps_dim ps_rule ps_fill ps_lo ps_hi].
  assert (S : size (r (ps_dim p)) (rename_tensor r t) = size (ps_dim p) t).
  { unfold size. cbn [rename_tensor dims]. apply dsize_rename. exact Hr. }
  rewrite S. apply map_dim_rename; assumption.
Qed.

(* ================================================================================== *)
(* A whole entry point: xgcm.padding.pad on a grid without face connections commutes  *)
(* with renaming the axes (ra) and the dimensions (r).                                 *)
(* ================================================================================== *)
From XV Require Import Model.GridCtor.

Definition respects {A} (t : tensor A) : Prop :=
  forall e e', (forall d, e d = e' d) -> get t e = get t e'.

Definition teq {A} (t1 t2 : tensor A) : Prop := dims t1 = dims t2 /\ forall e, get t1 e = get t2 e.

Lemma wf_respects {A} (t : tensor A) : wf t -> respects t.
Proof. intros W e e' H. apply W. intros d _. apply H. Qed.

Lemma teq_refl {A} (t : tensor A) : teq t t.
Proof. split; reflexivity. Qed.
Lemma teq_trans {A} (a b c : tensor A) : teq a b -> teq b c -> teq a c.
Proof. intros [H1 H2] [H3 H4]. split; [congruence | intros e; rewrite H2; apply H4]. Qed.

Section PadRename.
  Variable r ra : string -> string.
  Hypothesis r_inj : injective r.
  Hypothesis ra_inj : injective ra.
  Context {A : Type} (dflt : A).

  Lemma respects_rename (t : tensor A) : respects t -> respects (rename_tensor r t).
  Proof. intros R e e' H. cbn [rename_tensor get]. apply R. intros d. apply H. Qed.

  Lemma respects_map_dim d d' n f (t : tensor A) : respects t -> respects (map_dim dflt d d' n f t).
  Proof.
    intros R e e' H. cbn [map_dim get]. rewrite (H d'). f_equal. f_equal. unfold column.
    apply map_ext. intros i. apply R. intros x. unfold upd. destruct (String.eqb x d); [reflexivity | apply H].
  Qed.

  Lemma column_rename_r (t : tensor A) d e : respects t ->
    column (rename_tensor r t) (r d) e = column t d (fun y => e (r y)).
  Proof.
    intros R. unfold column, size. cbn [rename_tensor dims get]. rewrite (dsize_rename r r_inj).
    apply map_ext. intros i. apply R. intros x. apply (upd_rename r r_inj).
  Qed.

  Lemma map_dim_rename_r d d' n f (t : tensor A) : respects t ->
    teq (map_dim dflt (r d) (r d') n f (rename_tensor r t)) (rename_tensor r (map_dim dflt d d' n f t)).
  Proof.
    intros R. split.
    - cbn [map_dim rename_tensor dims]. apply (dreplace_rename r r_inj).
    - intros e. cbn [map_dim rename_tensor get]. rewrite (column_rename_r t d e R). reflexivity.
  Qed.

  Lemma map_dim_teq d d' n f (t1 t2 : tensor A) :
    teq t1 t2 -> teq (map_dim dflt d d' n f t1) (map_dim dflt d d' n f t2).
  Proof.
    intros [H1 H2]. split.
    - cbn [map_dim dims]. rewrite H1. reflexivity.
    - intros e. cbn [map_dim get]. f_equal. f_equal. unfold column, size. rewrite H1.
      apply map_ext. intros i. apply H2.
  Qed.

  Definition rename_spec (p : padspec (A:=A)) : padspec (A:=A) :=
    {| ps_dim := r (ps_dim p); ps_rule := ps_rule p; ps_fill := ps_fill p; ps_lo := ps_lo p; ps_hi := ps_hi p |}.

  Lemma pad_dim_rename_r (p : padspec (A:=A)) (t : tensor A) : respects t ->
    teq (pad_dim dflt (rename_spec p) (rename_tensor r t)) (rename_tensor r (pad_dim dflt p t)).
  Proof.
    intros R. unfold pad_dim. cbn [rename_spec ps_dim ps_rule ps_fill ps_lo ps_hi].
    assert (S : size (r (ps_dim p)) (rename_tensor r t) = size (ps_dim p) t).
    { unfold size. cbn [rename_tensor dims]. apply (dsize_rename r r_inj). }
    rewrite S. apply map_dim_rename_r. exact R.
  Qed.

  Lemma pad_dim_teq (p : padspec (A:=A)) (t1 t2 : tensor A) :
    teq t1 t2 -> teq (pad_dim dflt p t1) (pad_dim dflt p t2).
  Proof.
    intros H. unfold pad_dim. assert (S : size (ps_dim p) t1 = size (ps_dim p) t2).
    { unfold size. destruct H as [H _]. rewrite H. reflexivity. }
    rewrite S. apply map_dim_teq. exact H.
  Qed.

  Lemma respects_pad_dim (p : padspec (A:=A)) (t : tensor A) : respects t -> respects (pad_dim dflt p t).
  Proof. intros R. unfold pad_dim. apply respects_map_dim. exact R. Qed.

  Lemma pad_dims_rename_r ps : forall (t t' : tensor A), respects t -> teq t' (rename_tensor r t) ->
    teq (pad_dims dflt (map rename_spec ps) t') (rename_tensor r (pad_dims dflt ps t)).
  Proof.
    induction ps as [|p ps IH]; intros t t' R H; [exact H|].
    cbn [map]. unfold pad_dims. cbn [fold_left].
    change (fold_left (fun acc p0 => pad_dim dflt p0 acc) (map rename_spec ps) (pad_dim dflt (rename_spec p) t'))
      with (pad_dims dflt (map rename_spec ps) (pad_dim dflt (rename_spec p) t')).
    change (fold_left (fun acc p0 => pad_dim dflt p0 acc) ps (pad_dim dflt p t))
      with (pad_dims dflt ps (pad_dim dflt p t)).
    apply IH; [apply respects_pad_dim; exact R|].
    eapply teq_trans; [apply pad_dim_teq; exact H | apply pad_dim_rename_r; exact R].
  Qed.

  (* ---- the grid and the keyword arguments ---- *)
  Definition rename_grid (g : grid A) : grid A := map (rename_axis r ra) g.
  Definition rename_kw {V} (k : kw V) : kw V :=
    match k with KScalar v => KScalar v | KMap m => KMap (rename_keys ra m) end.

  Lemma fold_assoc_set_rename {V} (m acc : list (string * option V)) :
    fold_left (fun (a : list (string * option V)) q => assoc_set (fst q) (snd q) a) (rename_keys ra m) (rename_keys ra acc) =
    rename_keys ra (fold_left (fun (a : list (string * option V)) q => assoc_set (fst q) (snd q) a) m acc).
  Proof.
    revert acc. induction m as [|[k v] m IH]; intros acc; [reflexivity|].
    cbn [rename_keys map fold_left fst snd].
    change (map (fun p : string * option V => (ra (fst p), snd p)) m) with (rename_keys ra m).
    rewrite (assoc_set_rename ra ra_inj k v acc). apply IH.
  Qed.

  Lemma complete_kwargs_rename {V} (proj : axis A -> V) (user : kw V) (g : grid A) :
    (forall a, proj (rename_axis r ra a) = proj a) ->
    complete_kwargs (rename_grid g) proj (rename_kw user) = rename_keys ra (complete_kwargs g proj user).
  Proof.
    intros Hp. unfold complete_kwargs.
    assert (D : map (fun a : axis A => (ax_name a, Some (proj a))) (rename_grid g) =
                rename_keys ra (map (fun a : axis A => (ax_name a, Some (proj a))) g)).
    { unfold rename_grid, rename_keys. rewrite !map_map. apply map_ext. intros a.
      cbn [rename_axis ax_name fst snd]. rewrite Hp. reflexivity. }
    assert (N : map (@ax_name A) (rename_grid g) = map ra (map (@ax_name A) g)).
    { unfold rename_grid. rewrite !map_map. reflexivity. }
    destruct user as [[v|]|m]; cbn [rename_kw].
    - rewrite D. unfold map_kwargs_over_axes. rewrite N.
      replace (map (fun a : string => (a, Some v)) (map ra (map (@ax_name A) g)))
        with (rename_keys ra (map (fun a : string => (a, Some v)) (map (@ax_name A) g)))
        by (unfold rename_keys; rewrite !map_map; reflexivity).
      apply fold_assoc_set_rename.
    - exact D.
    - rewrite D. unfold map_kwargs_over_axes. apply fold_assoc_set_rename.
  Qed.

  Lemma words_known_rename (l : list (string * option bword)) :
    words_known (rename_keys ra l) = words_known l.
  Proof.
    unfold words_known, rename_keys. induction l as [|p l IH]; [reflexivity|].
    cbn [map forallb snd]. rewrite IH. reflexivity.
  Qed.
End PadRename.

Section PadRename2.
  Variable r ra : string -> string.
  Hypothesis r_inj : injective r.
  Hypothesis ra_inj : injective ra.
  Context {A : Type} (dflt : A).

  Definition map_res {T U} (f : T -> U) (x : res T) : res U :=
    match x with Ok v => Ok (f v) | Err e => Err e end.

  Lemma resolve_one_rename (g : grid A) dadims padding fillv ax w :
    resolve_one dflt (rename_grid r ra g) (map r dadims) (rename_keys ra padding) (rename_keys ra fillv) (ra ax, w) =
    map_res (rename_spec r) (resolve_one dflt g dadims padding fillv (ax, w)).
  Proof.
    destruct w as [lo hi]. unfold resolve_one, rename_grid.
    rewrite (find_axis_rename r ra ra_inj g ax).
    destruct (find_axis g ax) as [a|e]; [|reflexivity]. cbn [bind].
    rewrite (get_position_name_rename r r_inj ra a dadims).
    destruct (get_position_name a dadims) as [pd|e]; [|reflexivity]. cbn [bind].
    rewrite (lookupS_rename ra ra_inj ax padding).
    destruct (lookupS ax padding) as [b|]; [|reflexivity].
    destruct (pad_mode b) as [rl|e]; [|reflexivity]. cbn [bind].
    destruct rl; try reflexivity.
    rewrite (lookupS_rename ra ra_inj ax fillv).
    destruct (lookupS ax fillv) as [[c|]|]; reflexivity.
  Qed.

  Definition rename_widths (ws : list (string * (nat * nat))) := rename_keys ra ws.

  Lemma resolve_all_rename (g : grid A) dadims padding fillv ws :
    resolve_all dflt (rename_grid r ra g) (map r dadims) (rename_keys ra padding) (rename_keys ra fillv)
                (rename_widths ws) =
    map_res (map (rename_spec r)) (resolve_all dflt g dadims padding fillv ws).
  Proof.
    induction ws as [|[ax w] ws IH]; [reflexivity|].
    cbn [rename_widths rename_keys map resolve_all fst snd].
    change (map (fun p : string * (nat * nat) => (ra (fst p), snd p)) ws) with (rename_widths ws).
    rewrite resolve_one_rename.
    destruct (resolve_one dflt g dadims padding fillv (ax, w)) as [p|e]; [|reflexivity]. cbn [map_res bind].
    rewrite IH. destruct (resolve_all dflt g dadims padding fillv ws) as [ps|e]; reflexivity.
  Qed.

  (* THE theorem: pad() of the renamed array on the renamed grid with the renamed arguments
     is the renamed pad() -- same exception, or same dimensions up to renaming and the same
     number at every point *)
  Theorem pad_rename (g : grid A) (t : tensor A) bw boundary fill :
    respects t ->
    match pad dflt (rename_grid r ra g) (rename_tensor r t) (option_map rename_widths bw)
              (rename_kw ra boundary) (rename_kw ra fill),
          pad dflt g t bw boundary fill with
    | Ok t1, Ok t2 => teq t1 (rename_tensor r t2)
    | Err e1, Err e2 => e1 = e2
    | _, _ => False
    end.
  Proof.
    intros R. unfold pad.
    rewrite (complete_kwargs_rename r ra ra_inj (@ax_boundary A) boundary g) by reflexivity.
    rewrite (complete_kwargs_rename r ra ra_inj (@ax_fill A) fill g) by reflexivity.
    rewrite words_known_rename.
    destruct (negb (words_known (complete_kwargs g (@ax_boundary A) boundary))); [reflexivity|].
    destruct bw as [ws|]; cbn [option_map]; [|apply teq_refl].
    assert (Z : forallb (fun w : string * (nat * nat) => (fst (snd w) =? 0) && (snd (snd w) =? 0)) (rename_widths ws) =
                forallb (fun w : string * (nat * nat) => (fst (snd w) =? 0) && (snd (snd w) =? 0)) ws).
    { unfold rename_widths, rename_keys. induction ws as [|w ws IH]; [reflexivity|].
      cbn [map forallb snd]. rewrite IH. reflexivity. }
    rewrite Z. destruct (forallb _ ws); [apply teq_refl|].
    cbn [rename_tensor dims]. rewrite (dnames_rename r).
    rewrite resolve_all_rename.
    destruct (resolve_all dflt g (dnames (dims t)) _ _ ws) as [ps|e]; cbn [map_res bind]; [|reflexivity].
    apply (pad_dims_rename_r r r_inj dflt ps t (rename_tensor r t) R). apply teq_refl.
  Qed.
End PadRename2.

(* ================================================================================== *)
(* A second whole entry point: Grid.diff / interp / min / max (Model/Dispatch.grid_op) *)
(* ================================================================================== *)
From XV Require Import Base.Ops Model.GridOps Model.Dispatch.

Section OpRename.
  Variable r ra : string -> string.
  Hypothesis r_inj : injective r.
  Hypothesis ra_inj : injective ra.
  Context {A : Type} (o : Ops A) (ofZ : Z -> A).

  Definition rename_call (c : call01 (A:=A)) : call01 (A:=A) :=
    {| k_func := k_func c; k_axes := map ra (k_axes c); k_to := rename_kw ra (k_to c);
       k_boundary := rename_kw ra (k_boundary c); k_fill := rename_kw ra (k_fill c) |}.

  Lemma target_pos_rename (a : axis A) (to : kw pos) from :
    target_pos (rename_axis r ra a) (rename_kw ra to) from = target_pos a to from.
  Proof.
    unfold target_pos. destruct to as [v|m]; cbn [rename_kw rename_axis ax_name ax_shifts]; [reflexivity|].
    rewrite (lookupS_rename ra ra_inj (ax_name a) m). reflexivity.
  Qed.

  Definition rename_sig3 (x : axis A * pos * pos) : axis A * pos * pos :=
    (rename_axis r ra (fst (fst x)), snd (fst x), snd x).

  Lemma signature_of_rename (g : grid A) orig to axn :
    signature_of (rename_grid r ra g) (map r orig) (rename_kw ra to) (ra axn) =
    map_res rename_sig3 (signature_of g orig to axn).
  Proof.
    unfold signature_of, rename_grid. rewrite (find_axis_rename r ra ra_inj g axn).
    destruct (find_axis g axn) as [a|e]; [|reflexivity]. cbn [bind].
    rewrite (get_position_name_rename r r_inj ra a orig).
    destruct (get_position_name a orig) as [pd|e]; [|reflexivity]. cbn [bind fst snd].
    rewrite target_pos_rename. destruct (target_pos a to (fst pd)); reflexivity.
  Qed.

  Lemma apply_core_rename_r d d' n f (t : tensor A) : respects t ->
    teq (apply_core (zero o) (r d) (r d') n f (rename_tensor r t))
        (rename_tensor r (apply_core (zero o) d d' n f t)).
  Proof.
    intros R. split.
    - cbn [apply_core rename_tensor dims]. rewrite (dremove_rename r r_inj). unfold rename_dims, rename_keys.
      rewrite map_app. reflexivity.
    - intros e. cbn [apply_core rename_tensor get]. rewrite (column_rename_r r r_inj t d e R). reflexivity.
  Qed.

  Lemma apply_core_teq d d' n f (t1 t2 : tensor A) :
    teq t1 t2 -> teq (apply_core (zero o) d d' n f t1) (apply_core (zero o) d d' n f t2).
  Proof.
    intros [H1 H2]. split.
    - cbn [apply_core dims]. rewrite H1. reflexivity.
    - intros e. cbn [apply_core get]. f_equal. f_equal. unfold column, size. rewrite H1.
      apply map_ext. intros i. apply H2.
  Qed.

  Lemma respects_apply_core d d' n f (t : tensor A) : respects t -> respects (apply_core (zero o) d d' n f t).
  Proof.
    intros R e e' H. cbn [apply_core get]. rewrite (H d'). f_equal. f_equal. unfold column.
    apply map_ext. intros i. apply R. intros x. unfold upd. destruct (String.eqb x d); [reflexivity | apply H].
  Qed.

  Lemma column_teq (t1 t2 : tensor A) d e : teq t1 t2 -> column t1 d e = column t2 d e.
  Proof. intros [H1 H2]. unfold column, size. rewrite H1. apply map_ext. intros i. apply H2. Qed.

  Lemma respects_teq (t1 t2 : tensor A) : teq t1 t2 -> respects t2 -> respects t1.
  Proof. intros [_ H] R e e' He. rewrite !H. apply R, He. Qed.

  Lemma respects_pad (g : grid A) (t p : tensor A) bw b f :
    respects t -> pad (zero o) g t bw b f = Ok p -> respects p.
  Proof.
    intros R. unfold pad. destruct (negb _); [discriminate|]. destruct bw as [ws|]; [|intros H; inversion H; subst; exact R].
    destruct (forallb _ ws); [intros H; inversion H; subst; exact R|].
    destruct (resolve_all _ _ _ _ _ ws) as [ps|e]; cbn [bind]; [|discriminate].
    intros H. inversion H; subst. clear H. revert t R. induction ps as [|q ps IH]; intros t R; [exact R|].
    unfold pad_dims. cbn [fold_left]. apply IH. apply respects_pad_dim. exact R.
  Qed.

  (* one axis: same exception, or the renamed result *)
  Definition rel_res (x y : res (tensor A)) : Prop :=
    match x, y with
    | Ok t1, Ok t2 => teq t1 (rename_tensor r t2)
    | Err e1, Err e2 => e1 = e2
    | _, _ => False
    end.

  Lemma step_rename tbl (g : grid A) dssizes c orig (t t' : tensor A) axn :
    respects t -> teq t' (rename_tensor r t) ->
    rel_res (step o ofZ tbl (rename_grid r ra g) (rename_dims r dssizes) (rename_call c) (map r orig) t' (ra axn))
            (step o ofZ tbl g dssizes c orig t axn).
  Proof.
    intros R H. unfold step. cbn [rename_call k_to k_func k_boundary k_fill].
    rewrite signature_of_rename.
    destruct (signature_of g orig (k_to c) axn) as [[[a from] tp]|e]; [|reflexivity].
    cbn [map_res bind rename_sig3 fst snd].
    destruct (select (k_func c) from tp tbl) as [en|e]; [|reflexivity]. cbn [bind].
    cbn [rename_axis ax_coords]. rewrite (lookupP_rename r from (ax_coords a)).
    destruct (lookupP from (ax_coords a)) as [din|]; [|reflexivity]. cbn [option_map bind].
    destruct H as [Hd Hg].
    assert (M : memS (r din) (dnames (dims t')) = memS din (dnames (dims t))).
    { rewrite Hd. cbn [rename_tensor dims]. rewrite (dnames_rename r). apply (memS_rename r r_inj). }
    rewrite M. destruct (negb (memS din (dnames (dims t)))); [reflexivity|].
    rewrite (lookupP_rename r tp (ax_coords a)).
    destruct (lookupP tp (ax_coords a)) as [dout|]; [|reflexivity]. cbn [option_map bind].
    (* the padded arrays *)
    set (w := match ge_width en with Some w => w | None => (0, 0) end).
    assert (P : rel_res (if ge_pad_before en
                         then pad (zero o) (rename_grid r ra g) t' (Some [(ra axn, w)])
                                  (rename_kw ra (k_boundary c)) (rename_kw ra (k_fill c))
                         else Ok t')
                        (if ge_pad_before en
                         then pad (zero o) g t (Some [(axn, w)]) (k_boundary c) (k_fill c) else Ok t)).
    { destruct (ge_pad_before en); [|split; assumption].
      pose proof (pad_rename r ra r_inj ra_inj (zero o) g t (Some [(axn, w)]) (k_boundary c) (k_fill c) R) as PR.
      cbn [option_map rename_widths rename_keys map fst snd] in PR.
      (* pad on t' equals pad on the renamed t up to teq *)
      assert (E : forall bw b f,
                 match pad (zero o) (rename_grid r ra g) t' bw b f,
                       pad (zero o) (rename_grid r ra g) (rename_tensor r t) bw b f with
                 | Ok a1, Ok a2 => teq a1 a2 | Err e1, Err e2 => e1 = e2 | _, _ => False end).
      { intros bw b f. unfold pad. destruct (negb _); [reflexivity|].
        destruct bw as [ws|]; [|split; assumption]. destruct (forallb _ ws); [split; assumption|].
        rewrite Hd. destruct (resolve_all _ _ _ _ _ ws) as [ps|e]; cbn [bind]; [|reflexivity].
        clear - Hd Hg. assert (T : teq t' (rename_tensor r t)) by (split; assumption). clear Hd Hg.
        revert T. generalize (rename_tensor r t). revert t'. induction ps as [|q ps IH]; intros t1 t2 T; [exact T|].
        unfold pad_dims. cbn [fold_left]. apply IH. apply pad_dim_teq. exact T. }
      specialize (E (Some [(ra axn, w)]) (rename_kw ra (k_boundary c)) (rename_kw ra (k_fill c))).
      destruct (pad (zero o) (rename_grid r ra g) t' _ _ _) as [a1|e1];
        destruct (pad (zero o) (rename_grid r ra g) (rename_tensor r t) _ _ _) as [a2|e2]; try contradiction;
        destruct (pad (zero o) g t _ _ _) as [a3|e3]; try contradiction; cbn [rel_res].
      - eapply teq_trans; eassumption.
      - congruence. }
    assert (RP : forall p, (if ge_pad_before en then pad (zero o) g t (Some [(axn, w)]) (k_boundary c) (k_fill c)
                            else Ok t) = Ok p -> respects p).
    { intros p Hp. destruct (ge_pad_before en); [eapply respects_pad; eassumption | inversion Hp; subst; exact R]. }
    destruct (if ge_pad_before en then pad (zero o) (rename_grid r ra g) t' _ _ _ else Ok t') as [p'|e'];
      destruct (if ge_pad_before en then pad (zero o) g t _ _ _ else Ok t) as [p|e] eqn:Ep;
      cbn [rel_res] in P; try contradiction; cbn [bind]; [|subst; reflexivity].
    specialize (RP p eq_refl).
    destruct (ge_body en) as [body|]; [|reflexivity]. cbn [bind].
    assert (C0 : column p' (r din) env0 = column p din env0).
    { rewrite (column_teq p' (rename_tensor r p) (r din) env0 P).
      rewrite (column_rename_r r r_inj p din env0 RP). reflexivity. }
    rewrite C0. set (newlen := List.length (eval o ofZ body (column p din env0))).
    rewrite (dsize_rename r r_inj dout dssizes).
    destruct (negb (newlen =? dsize dout dssizes)); [reflexivity|]. cbn [rel_res].
    eapply teq_trans; [apply apply_core_teq; exact P | apply apply_core_rename_r; exact RP].
  Qed.
End OpRename.

Section OpRename2.
  Variable r ra : string -> string.
  Hypothesis r_inj : injective r.
  Hypothesis ra_inj : injective ra.
  Context {A : Type} (o : Ops A) (ofZ : Z -> A).

  Lemma respects_step tbl (g : grid A) dssizes c orig (t u : tensor A) axn :
    respects t -> step o ofZ tbl g dssizes c orig t axn = Ok u -> respects u.
  Proof.
    intros R. unfold step.
    destruct (signature_of g orig (k_to c) axn) as [[[a from] tp]|e]; [|discriminate]. cbn [bind].
    destruct (select (k_func c) from tp tbl) as [en|e]; [|discriminate]. cbn [bind].
    destruct (lookupP from (ax_coords a)) as [din|]; [|discriminate]. cbn [bind].
    destruct (negb (memS din (dnames (dims t)))); [discriminate|].
    destruct (lookupP tp (ax_coords a)) as [dout|]; [|discriminate]. cbn [bind].
    destruct (ge_pad_before en) eqn:Pb.
    - destruct (pad (zero o) g t _ (k_boundary c) (k_fill c)) as [p|e] eqn:Ep; [|discriminate]. cbn [bind].
      destruct (ge_body en) as [body|]; [|discriminate]. cbn [bind].
      destruct (negb _); [discriminate|]. intros H. inversion H; subst.
      apply respects_apply_core. eapply respects_pad; eassumption.
    - cbn [bind]. destruct (ge_body en) as [body|]; [|discriminate]. cbn [bind].
      destruct (negb _); [discriminate|]. intros H. inversion H; subst.
      apply respects_apply_core. exact R.
  Qed.

  Lemma steps_rename tbl (g : grid A) dssizes c orig axes : forall (t t' : tensor A),
    respects t -> teq t' (rename_tensor r t) ->
    rel_res r (steps o ofZ tbl (rename_grid r ra g) (rename_dims r dssizes) (rename_call ra c) (map r orig) t' (map ra axes))
            (steps o ofZ tbl g dssizes c orig t axes).
  Proof.
    induction axes as [|axn axes IH]; intros t t' R H; [exact H|].
    cbn [map steps].
    pose proof (step_rename r ra r_inj ra_inj o ofZ tbl g dssizes c orig t t' axn R H) as S.
    destruct (step o ofZ tbl (rename_grid r ra g) (rename_dims r dssizes) (rename_call ra c) (map r orig) t' (ra axn)) as [u'|e'];
      destruct (step o ofZ tbl g dssizes c orig t axn) as [u|e] eqn:Eu; cbn [rel_res] in S; try contradiction; cbn [bind].
    - apply IH; [eapply respects_step; eassumption | exact S].
    - subst. reflexivity.
  Qed.

  Lemma mapM_sig_rename (g : grid A) orig to axes :
    match mapM (signature_of (rename_grid r ra g) (map r orig) (rename_kw ra to)) (map ra axes),
          mapM (signature_of g orig to) axes with
    | Ok _, Ok _ => True
    | Err e1, Err e2 => e1 = e2
    | _, _ => False
    end.
  Proof.
    induction axes as [|axn axes IH]; [exact I|]. cbn [map mapM].
    rewrite (signature_of_rename r ra r_inj ra_inj g orig to axn).
    destruct (signature_of g orig to axn) as [x|e]; [|reflexivity]. cbn [map_res bind].
    destruct (mapM _ (map ra axes)) as [l1|e1]; destruct (mapM (signature_of g orig to) axes) as [l2|e2];
      try contradiction; cbn [bind]; [exact I | exact IH].
  Qed.

  Definition rename_pairs (l : list (string * string)) := map (fun p => (r (fst p), r (snd p))) l.

  Lemma assoc_set_rename2 k v (l : list (string * string)) :
    assoc_set (r k) (r v) (rename_pairs l) = rename_pairs (assoc_set k v l).
  Proof.
    induction l as [|[k' v'] l IH]; [reflexivity|].
    cbn [rename_pairs map assoc_set fst snd]. rewrite (eqb_rename r r_inj).
    destruct (String.eqb k k'); [reflexivity|]. cbn [map fst snd]. f_equal. exact IH.
  Qed.

  Lemma lookupS_rename2 d (l : list (string * string)) :
    lookupS (r d) (rename_pairs l) = option_map r (lookupS d l).
  Proof.
    unfold lookupS. induction l as [|[k v] l IH]; [reflexivity|].
    cbn [rename_pairs map lookup fst snd]. rewrite (eqb_rename r r_inj).
    destruct (String.eqb d k); [reflexivity | exact IH].
  Qed.

  Lemma transpose_teq order (t1 t2 : tensor A) : teq t1 t2 -> teq (transpose order t1) (transpose order t2).
  Proof.
    intros [H1 H2]. split; [|exact H2]. unfold transpose. cbn [dims]. apply map_ext. intros d.
    unfold size. rewrite H1. reflexivity.
  Qed.

  Lemma restore_order_rename (g : grid A) orig axes (u u' : tensor A) :
    teq u' (rename_tensor r u) ->
    rel_res r (restore_order (rename_grid r ra g) (map r orig) (map ra axes) u')
            (restore_order g orig axes u).
  Proof.
    intros H. unfold restore_order.
    assert (M : mapM (fun axn => do a <- find_axis (rename_grid r ra g) axn;
                                 do old <- get_position_name a (map r orig);
                                 do new <- get_position_name a (dnames (dims u'));
                                 Ok (snd old, snd new)) (map ra axes) =
                map_res rename_pairs
                        (mapM (fun axn => do a <- find_axis g axn;
                                          do old <- get_position_name a orig;
                                          do new <- get_position_name a (dnames (dims u));
                                          Ok (snd old, snd new)) axes)).
    { destruct H as [Hd _]. rewrite Hd. cbn [rename_tensor dims]. rewrite (dnames_rename r).
      induction axes as [|axn axes IH]; [reflexivity|]. cbn [map mapM].
      unfold rename_grid at 1. rewrite (find_axis_rename r ra ra_inj g axn).
      destruct (find_axis g axn) as [a|e]; [|reflexivity]. cbn [bind].
      rewrite (get_position_name_rename r r_inj ra a orig).
      destruct (get_position_name a orig) as [old|e]; [|reflexivity]. cbn [bind fst snd].
      rewrite (get_position_name_rename r r_inj ra a (dnames (dims u))).
      destruct (get_position_name a (dnames (dims u))) as [new|e]; [|reflexivity]. cbn [bind fst snd].
      rewrite IH. destruct (mapM _ axes) as [l|e]; reflexivity. }
    rewrite M. destruct (mapM _ axes) as [shifted|e]; cbn [map_res bind]; [|reflexivity].
    cbn [rel_res].
    assert (F : forall acc, fold_left (fun (a : list (string * string)) (q : string * string) => assoc_set (fst q) (snd q) a)
                                      (rename_pairs shifted) (rename_pairs acc) =
                            rename_pairs (fold_left (fun (a : list (string * string)) (q : string * string) =>
                                                       assoc_set (fst q) (snd q) a) shifted acc)).
    { clear M. induction shifted as [|[k v] l IHl]; intros acc; [reflexivity|].
      cbn [rename_pairs map fold_left fst snd].
      change (map (fun p : string * string => (r (fst p), r (snd p))) l) with (rename_pairs l).
      change (map (fun p : string * string => (r (fst p), r (snd p))) acc) with (rename_pairs acc).
      rewrite assoc_set_rename2. exact (IHl (assoc_set k v acc)). }
    specialize (F []). change (rename_pairs []) with (@nil (string * string)) in F. rewrite F.
    set (sh := fold_left _ shifted []).
    assert (O : map (fun d => match lookupS d (rename_pairs sh) with Some n => n | None => d end) (map r orig) =
                map r (map (fun d => match lookupS d sh with Some n => n | None => d end) orig)).
    { rewrite !map_map. apply map_ext. intros d. rewrite lookupS_rename2. destruct (lookupS d sh); reflexivity. }
    rewrite O. eapply teq_trans; [apply transpose_teq; exact H|].
    rewrite (transpose_rename r r_inj). apply teq_refl.
  Qed.

  (* THE theorem for diff / interp / min / max over any number of axes *)
  Theorem grid_op_rename tbl (g : grid A) dssizes c (t : tensor A) :
    respects t ->
    rel_res r (grid_op o ofZ tbl (rename_grid r ra g) (rename_dims r dssizes) (rename_call ra c) (rename_tensor r t))
            (grid_op o ofZ tbl g dssizes c t).
  Proof.
    intros R. unfold grid_op. cbn [rename_tensor dims rename_call k_axes k_to].
    rewrite (dnames_rename r).
    pose proof (mapM_sig_rename g (dnames (dims t)) (k_to c) (k_axes c)) as MS.
    destruct (mapM _ (map ra (k_axes c))) as [l1|e1];
      destruct (mapM (signature_of g (dnames (dims t)) (k_to c)) (k_axes c)) as [l2|e2]; try contradiction;
      cbn [bind]; [|subst; reflexivity].
    pose proof (steps_rename tbl g dssizes c (dnames (dims t)) (k_axes c) t (rename_tensor r t) R
                             (teq_refl _)) as S.
    change (rename_call ra c) with (rename_call ra c) in S.
    destruct (steps o ofZ tbl (rename_grid r ra g) (rename_dims r dssizes) (rename_call ra c)
                    (map r (dnames (dims t))) (rename_tensor r t) (map ra (k_axes c))) as [u'|e'];
      destruct (steps o ofZ tbl g dssizes c (dnames (dims t)) t (k_axes c)) as [u|e];
      cbn [rel_res] in S; try contradiction; cbn [bind]; [|subst; reflexivity].
    apply restore_order_rename. exact S.
  Qed.
End OpRename2.

(* ================================================================================== *)
(* A third whole entry point: Grid.cumsum (Model/Cumsum.grid_cumsum)                  *)
(* ================================================================================== *)
From XV Require Import Model.Cumsum.

Section CumsumRename.
  Variable r ra : string -> string.
  Hypothesis r_inj : injective r.
  Hypothesis ra_inj : injective ra.
  Context {A : Type} (o : Ops A).

  Definition rename_callcs (c : callcs (A:=A)) : callcs (A:=A) :=
    {| cs_axes := map ra (cs_axes c); cs_to := rename_kw ra (cs_to c);
       cs_boundary := rename_kw ra (cs_boundary c); cs_fill := rename_kw ra (cs_fill c) |}.

  Lemma rename_dim_rename_r d d' (t : tensor A) : respects t ->
    teq (rename_dim (r d) (r d') (rename_tensor r t)) (rename_tensor r (rename_dim d d' t)).
  Proof.
    intros R. split.
    - cbn [rename_dim rename_tensor dims]. unfold size. cbn [rename_tensor dims].
      rewrite (dsize_rename r r_inj). apply (dreplace_rename r r_inj).
    - intros e. cbn [rename_dim rename_tensor get]. apply R. intros x. apply (upd_rename r r_inj).
  Qed.

  Lemma rename_dim_teq d d' (t1 t2 : tensor A) : teq t1 t2 -> teq (rename_dim d d' t1) (rename_dim d d' t2).
  Proof.
    intros [H1 H2]. split.
    - cbn [rename_dim dims]. unfold size. rewrite H1. reflexivity.
    - intros e. cbn [rename_dim get]. apply H2.
  Qed.

  Lemma respects_rename_dim d d' (t : tensor A) : respects t -> respects (rename_dim d d' t).
  Proof.
    intros R e e' H. cbn [rename_dim get]. apply R. intros x. unfold upd. rewrite (H d').
    destruct (String.eqb x d); [reflexivity | apply H].
  Qed.

  Lemma size_teq d (t1 t2 : tensor A) : teq t1 t2 -> size d t1 = size d t2.
  Proof. intros [H _]. unfold size. rewrite H. reflexivity. Qed.

  Lemma size_rename d (t : tensor A) : size (r d) (rename_tensor r t) = size d t.
  Proof. unfold size. cbn [rename_tensor dims]. apply (dsize_rename r r_inj). Qed.

  Lemma pad_teq_gen (g : grid A) (t1 t2 : tensor A) bw b f : teq t1 t2 ->
    match pad (zero o) g t1 bw b f, pad (zero o) g t2 bw b f with
    | Ok a1, Ok a2 => teq a1 a2 | Err e1, Err e2 => e1 = e2 | _, _ => False end.
  Proof.
    intros T. unfold pad. destruct (negb _); [reflexivity|].
    destruct bw as [ws|]; [|exact T]. destruct (forallb _ ws); [exact T|].
    destruct T as [Hd Hg]. rewrite Hd. destruct (resolve_all _ _ _ _ _ ws) as [ps|e]; cbn [bind]; [|reflexivity].
    assert (T : teq t1 t2) by (split; assumption). clear Hd Hg.
    revert t1 t2 T. induction ps as [|q ps IH]; intros t1 t2 T; [exact T|].
    unfold pad_dims. cbn [fold_left]. apply IH. apply (pad_dim_teq (zero o)). exact T.
  Qed.

  Lemma cumsum_step_rename tbl (g : grid A) dssizes c orig (t t' : tensor A) axn :
    respects t -> teq t' (rename_tensor r t) ->
    rel_res r (cumsum_step o tbl (rename_grid r ra g) (rename_dims r dssizes) (rename_callcs c) (map r orig) t' (ra axn))
            (cumsum_step o tbl g dssizes c orig t axn) /\
    (forall u, cumsum_step o tbl g dssizes c orig t axn = Ok u -> respects u).
  Proof.
    intros R H. unfold cumsum_step. cbn [rename_callcs cs_to cs_boundary cs_fill].
    unfold rename_grid at 1. rewrite (find_axis_rename r ra ra_inj g axn).
    destruct (find_axis g axn) as [a|e]; [|split; [reflexivity | discriminate]]. cbn [bind].
    rewrite (get_position_name_rename r r_inj ra a orig).
    destruct (get_position_name a orig) as [[from dim]|e]; [|split; [reflexivity | discriminate]]. cbn [bind fst snd].
    rewrite (target_pos_rename r ra ra_inj a (cs_to c) from).
    destruct (target_pos a (cs_to c) from) as [tp|e]; [|split; [reflexivity | discriminate]]. cbn [bind].
    destruct (lookup_shift (from, tp) tbl) as [[trim w]|]; [|split; [reflexivity | discriminate]].
    (* the cumsummed (and trimmed) arrays *)
    set (d1 := map_dim (zero o) dim dim (size dim t) (GridOps.cumsum o) t).
    set (d1' := map_dim (zero o) (r dim) (r dim) (size (r dim) t') (GridOps.cumsum o) t').
    assert (S1 : size (r dim) t' = size dim t) by (rewrite (size_teq (r dim) t' _ H); apply size_rename).
    assert (T1 : teq d1' (rename_tensor r d1)).
    { unfold d1', d1. rewrite S1. eapply teq_trans; [apply (map_dim_teq (zero o)); exact H|].
      apply (map_dim_rename_r r r_inj (zero o)). exact R. }
    assert (R1 : respects d1) by (apply (respects_map_dim (zero o)); exact R).
    set (d2 := if trim then map_dim (zero o) dim dim (size dim t - 1) (@removelast A) d1 else d1).
    set (d2' := if trim then map_dim (zero o) (r dim) (r dim) (size (r dim) t' - 1) (@removelast A) d1' else d1').
    assert (T2 : teq d2' (rename_tensor r d2)).
    { unfold d2', d2. destruct trim; [|exact T1]. rewrite S1.
      eapply teq_trans; [apply (map_dim_teq (zero o)); exact T1|].
      apply (map_dim_rename_r r r_inj (zero o)). exact R1. }
    assert (R2 : respects d2) by (unfold d2; destruct trim; [apply (respects_map_dim (zero o)) | ]; exact R1).
    pose proof (pad_rename r ra r_inj ra_inj (zero o) g d2 (Some [(axn, w)]) (cs_boundary c) (cs_fill c) R2) as PR.
    cbn [option_map rename_widths rename_keys map fst snd] in PR.
    pose proof (pad_teq_gen (rename_grid r ra g) d2' (rename_tensor r d2) (Some [(ra axn, w)])
                            (rename_kw ra (cs_boundary c)) (rename_kw ra (cs_fill c)) T2) as PT.
    destruct (pad (zero o) (rename_grid r ra g) d2' _ _ _) as [p'|e'];
      destruct (pad (zero o) (rename_grid r ra g) (rename_tensor r d2) _ _ _) as [p2|e2]; try contradiction;
      destruct (pad (zero o) g d2 _ _ _) as [p|e] eqn:Ep; try contradiction; cbn [bind];
      [|split; [cbn [rel_res]; congruence | discriminate]].
    assert (TP : teq p' (rename_tensor r p)) by (eapply teq_trans; eassumption).
    assert (RP : respects p) by (eapply (respects_pad o); eassumption).
    cbn [rename_axis ax_coords]. rewrite (lookupP_rename r tp (ax_coords a)).
    destruct (lookupP tp (ax_coords a)) as [newdim|]; [|split; [reflexivity | discriminate]]. cbn [option_map bind].
    assert (TR : teq (rename_dim (r dim) (r newdim) p') (rename_tensor r (rename_dim dim newdim p))).
    { eapply teq_trans; [apply rename_dim_teq; exact TP | apply rename_dim_rename_r; exact RP]. }
    rewrite (size_teq (r newdim) _ _ TR), size_rename, (dsize_rename r r_inj newdim dssizes).
    destruct (negb (size newdim (rename_dim dim newdim p) =? dsize newdim dssizes)); [split; [reflexivity | discriminate]|].
    split; [exact TR|]. intros u Hu. inversion Hu; subst. apply respects_rename_dim. exact RP.
  Qed.

  Lemma cumsum_steps_rename tbl (g : grid A) dssizes c orig axes : forall (t t' : tensor A),
    respects t -> teq t' (rename_tensor r t) ->
    rel_res r (cumsum_steps o tbl (rename_grid r ra g) (rename_dims r dssizes) (rename_callcs c) (map r orig) t' (map ra axes))
            (cumsum_steps o tbl g dssizes c orig t axes).
  Proof.
    induction axes as [|axn axes IH]; intros t t' R H; [exact H|].
    cbn [map cumsum_steps].
    destruct (cumsum_step_rename tbl g dssizes c orig t t' axn R H) as [S RS].
    destruct (cumsum_step o tbl (rename_grid r ra g) (rename_dims r dssizes) (rename_callcs c) (map r orig) t' (ra axn)) as [u'|e'];
      destruct (cumsum_step o tbl g dssizes c orig t axn) as [u|e]; cbn [rel_res] in S; try contradiction; cbn [bind].
    - apply IH; [apply RS; reflexivity | exact S].
    - subst. reflexivity.
  Qed.

  Theorem grid_cumsum_rename tbl (g : grid A) dssizes c (t : tensor A) :
    respects t ->
    rel_res r (grid_cumsum o tbl (rename_grid r ra g) (rename_dims r dssizes) (rename_callcs c) (rename_tensor r t))
            (grid_cumsum o tbl g dssizes c t).
  Proof.
    intros R. unfold grid_cumsum. cbn [rename_tensor dims rename_callcs cs_axes]. rewrite (dnames_rename r).
    apply cumsum_steps_rename; [exact R | apply teq_refl].
  Qed.
End CumsumRename.
