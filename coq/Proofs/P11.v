(* C11: what a wrapped function receives and returns (Model/UFunc.v). *)
From Coq Require Import List Bool ZArith String Lia.
From XV Require Import Base.Res Base.Assoc Base.Seq1D Base.Tensor
     Model.Axis Model.GridCtor Model.Pad Model.Signature Model.Dispatch Model.UFunc.
Import ListNotations.
Open Scope string_scope.
Open Scope nat_scope.
Open Scope list_scope.

(* ---- options ---- *)
Lemma resolve_call_wins {V} (d : V) b v : resolve_option d b (Some v) = v.
Proof. reflexivity. Qed.
Lemma resolve_bound_default {V} (d : V) v : resolve_option d (Some v) None = v.
Proof. reflexivity. Qed.
Lemma resolve_default {V} (d : V) : resolve_option d None None = d.
Proof. reflexivity. Qed.

(* binding an option at definition time is the same as passing it at call time *)
Lemma resolve_bound_as_call {V} (d : V) v call :
  resolve_option d (Some v) call = resolve_option d None (Some (resolve_option v None call)).
Proof. destruct call; reflexivity. Qed.

(* ---- binding of dummy names to real axes ---- *)
Definition dedupP (l : list (string * string)) : list (string * string) :=
  (fix go l := match l with
               | [] => []
               | p :: r => p :: filter (fun q => negb (String.eqb (fst q) (fst p))) (go r)
               end) l.

Lemma dedupP_cons p r :
  dedupP (p :: r) = p :: filter (fun q => negb (String.eqb (fst q) (fst p))) (dedupP r).
Proof. reflexivity. Qed.

Lemma dedupP_In q l : In q (dedupP l) -> In q l.
Proof.
  induction l as [|p r IH]; [intros H; exact H|].
  rewrite dedupP_cons. intros [H|H]; [left; exact H|].
  apply filter_In in H. right. apply IH. apply H.
Qed.

Lemma map_fst_filter (a : string) (X : list (string * string)) :
  map fst (filter (fun q => negb (String.eqb (fst q) a)) X) =
  filter (fun y => negb (String.eqb y a)) (map fst X).
Proof.
  induction X as [|x X IH]; [reflexivity|]. simpl.
  destruct (String.eqb (fst x) a); simpl; rewrite IH; reflexivity.
Qed.

Lemma map_snd_filter (p : string * string) (X : list (string * string)) :
  (forall q, In q X -> (fst q = fst p <-> snd q = snd p)) ->
  map snd (filter (fun q => negb (String.eqb (fst q) (fst p))) X) =
  filter (fun y => negb (String.eqb y (snd p))) (map snd X).
Proof.
  induction X as [|x X IH]; intros H; [reflexivity|]. simpl.
  assert (Hx := H x (or_introl eq_refl)).
  assert (E : String.eqb (fst x) (fst p) = String.eqb (snd x) (snd p)).
  { destruct (String.eqb (fst x) (fst p)) eqn:E1, (String.eqb (snd x) (snd p)) eqn:E2; try reflexivity.
    - apply String.eqb_eq in E1. apply Hx in E1. apply String.eqb_neq in E2. contradiction.
    - apply String.eqb_eq in E2. apply Hx in E2. apply String.eqb_neq in E1. contradiction. }
  rewrite <- E. destruct (String.eqb (fst x) (fst p)); simpl; rewrite IH; try reflexivity;
    intros q Hq; apply H; right; exact Hq.
Qed.

(* a binding is consistent when it is a bijection between the names used *)
Definition consistent (L : list (string * string)) : Prop :=
  forall p q, In p L -> In q L -> (fst p = fst q <-> snd p = snd q).

Lemma dedup_fst L : dedup_l (map fst L) = map fst (dedupP L).
Proof.
  induction L as [|p r IH]; [reflexivity|].
  rewrite dedupP_cons. simpl. rewrite IH, map_fst_filter. reflexivity.
Qed.

Lemma dedup_snd L : consistent L -> dedup_l (map snd L) = map snd (dedupP L).
Proof.
  induction L as [|p r IH]; intros HC; [reflexivity|].
  rewrite dedupP_cons. simpl. rewrite IH.
  - rewrite map_snd_filter; [reflexivity|].
    intros q Hq. apply HC; [right; apply dedupP_In; exact Hq | left; reflexivity].
  - intros a b Ha Hb. apply HC; right; assumption.
Qed.

Lemma combine_fst_snd {X Y} (l : list (X * Y)) : combine (map fst l) (map snd l) = l.
Proof. induction l as [|[a b] r IH]; simpl; [reflexivity | rewrite IH; reflexivity]. Qed.

Lemma lookup_dedupP d L : lookupS d (dedupP L) = lookupS d L.
Proof.
  induction L as [|[a b] r IH]; [reflexivity|].
  rewrite dedupP_cons. unfold lookupS in *. cbn [lookup fst].
  destruct (String.eqb d a) eqn:E; [reflexivity|].
  rewrite <- IH. clear IH.
  induction (dedupP r) as [|[a' b'] r' IH']; [reflexivity|].
  cbn [filter fst]. destruct (String.eqb a' a) eqn:E2; cbn [negb lookup].
  - apply String.eqb_eq in E2; subst a'. rewrite E. exact IH'.
  - destruct (String.eqb d a'); [reflexivity | exact IH'].
Qed.

Lemma lookup_first_consistent L d r :
  consistent L -> In (d, r) L -> lookupS d L = Some r.
Proof.
  intros HC HI. destruct (lookupS d L) as [r'|] eqn:E.
  - apply (lookup_In String.eqb string_eqb_spec') in E.
    assert (H := HC (d, r) (d, r') HI E). simpl in H.
    f_equal. symmetry. apply H. reflexivity.
  - exfalso. revert E. induction L as [|[a b] L IH]; [destruct HI|].
    unfold lookupS. cbn [lookup]. destruct (String.eqb d a) eqn:E; [discriminate|].
    destruct HI as [HI|HI].
    + inversion HI; subst. rewrite String.eqb_refl in E. discriminate.
    + apply IH; [|exact HI]. intros p q Hp Hq. apply HC; right; assumption.
Qed.

Lemma concat_combine_len {X Y} (a : list (list X)) (b : list (list Y)) :
  List.length a = List.length b ->
  forallb (fun p => List.length (fst p) =? List.length (snd p)) (combine a b) = true ->
  List.length (List.concat a) = List.length (List.concat b).
Proof.
  revert b; induction a as [|x a IH]; intros [|y b] HL HF; try discriminate; [reflexivity|].
  simpl in *. apply andb_prop in HF. destruct HF as [H1 H2]. apply Nat.eqb_eq in H1.
  rewrite !app_length, H1. f_equal. apply IH; [lia | exact H2].
Qed.

Lemma map_fst_combine {X Y} (a : list X) (b : list Y) :
  List.length a = List.length b -> map fst (combine a b) = a.
Proof. revert b; induction a as [|x a IH]; intros [|y b] H; try discriminate; simpl; [reflexivity|]. rewrite IH by (simpl in H; lia). reflexivity. Qed.
Lemma map_snd_combine {X Y} (a : list X) (b : list Y) :
  List.length a = List.length b -> map snd (combine a b) = b.
Proof. revert b; induction a as [|x a IH]; intros [|y b] H; try discriminate; simpl; [reflexivity|]. rewrite IH by (simpl in H; lia). reflexivity. Qed.

(* The real axis bound to a dummy name is the one standing where the name first
   appears; any consistent binding is accepted and reproduced exactly. *)
Lemma dummy_to_real_spec dummy axis :
  List.length axis = List.length dummy ->
  forallb (fun p => List.length (fst p) =? List.length (snd p)) (combine axis dummy) = true ->
  let L := combine (List.concat dummy) (List.concat axis) in
  consistent L ->
  exists m, dummy_to_real dummy axis = Ok m /\
            forall d r, In (d, r) L -> lookupS d m = Some r.
Proof.
  intros HL HF L HC.
  assert (Hlen : List.length (List.concat dummy) = List.length (List.concat axis)).
  { symmetry. apply concat_combine_len; assumption. }
  assert (E1 : dedup_l (List.concat dummy) = map fst (dedupP L)).
  { rewrite <- dedup_fst. unfold L. rewrite map_fst_combine by exact Hlen. reflexivity. }
  assert (E2 : dedup_l (List.concat axis) = map snd (dedupP L)).
  { rewrite <- dedup_snd by exact HC. unfold L. rewrite map_snd_combine by exact Hlen. reflexivity. }
  exists (dedupP L). split.
  - unfold dummy_to_real. rewrite HL, Nat.eqb_refl. cbn [negb]. rewrite HF. cbn [negb].
    rewrite E1, E2, !map_length, Nat.eqb_refl. cbn [negb]. rewrite combine_fst_snd. reflexivity.
  - intros d r HI. rewrite lookup_dedupP. apply lookup_first_consistent; assumption.
Qed.

(* ---- what the function receives ---- *)
Section Received.
  Context {A : Type} (dflt : A).

  Lemma bind_ok {T U} (r : res T) (f : T -> res U) v :
    bind r f = Ok v -> exists x, r = Ok x /\ f x = Ok v.
  Proof. destruct r as [x|e]; simpl; intros H; [exists x; split; [reflexivity|exact H] | discriminate]. Qed.

  (* the labelled array handed over for one input: values of the (padded) input, its own
     loop dimensions first, the core dimensions last in signature order *)
  Lemma as_received_spec bdims core (p : tensor A) :
    let r := as_received bdims core p in
    get r = get p /\
    exists lead, dnames (dims r) = lead ++ core /\
                 (forall d, In d lead -> ~ In d core /\ dhas d (dims p) = true) /\
                 forall d, In d (lead ++ core) -> size d r = size d p.
  Proof.
    intros r. split; [reflexivity|].
    exists (filter (fun d => dhas d (dims p) && negb (memS d core)) bdims).
    split; [|split].
    - unfold r, as_received, transpose, dnames. cbn [dims]. rewrite map_map. cbn [fst].
      rewrite map_id. reflexivity.
    - intros d Hd. apply filter_In in Hd. destruct Hd as [_ Hd]. apply andb_prop in Hd.
      destruct Hd as [H1 H2]. split; [|exact H1].
      intros HI. apply (memk_In String.eqb string_eqb_spec') in HI.
      unfold memS in H2. rewrite HI in H2. discriminate.
    - intros d Hd. unfold r, as_received, transpose, size. cbn [dims].
      set (order := _ ++ core) in *. clearbody order.
      induction order as [|x order IH]; [destruct Hd|].
      unfold dsize, lookupS. cbn [map lookup]. destruct (String.eqb d x) eqn:E.
      + apply String.eqb_eq in E. subst x. reflexivity.
      + destruct Hd as [Hd|Hd]; [subst x; rewrite String.eqb_refl in E; discriminate|].
        apply IH. exact Hd.
  Qed.

  Lemma map_combine_nth {X Y Z} (f : X * Y -> Z) (a : list X) (b : list Y) k z :
    nth_error (map f (combine a b)) k = Some z ->
    exists x y, nth_error a k = Some x /\ nth_error b k = Some y /\ z = f (x, y).
  Proof.
    revert b k; induction a as [|x a IH]; intros [|y b] [|k] H; simpl in H; try discriminate.
    - inversion H; subst. exists x, y. repeat split; reflexivity.
    - destruct (IH b k H) as [x' [y' [H1 [H2 H3]]]]. exists x', y'. repeat split; assumption.
  Qed.

  Lemma mapM_length {T U} (f : T -> res U) l r : mapM f l = Ok r -> List.length r = List.length l.
  Proof.
    revert r; induction l as [|x l IH]; intros r H; simpl in H.
    - inversion H; reflexivity.
    - apply bind_ok in H. destruct H as [y [_ H]]. apply bind_ok in H. destruct H as [ys [H1 H]].
      inversion H; subst. simpl. f_equal. apply IH. exact H1.
  Qed.

  Lemma mapM_nth {T U} (f : T -> res U) l r k x :
    mapM f l = Ok r -> nth_error l k = Some x -> exists y, nth_error r k = Some y /\ f x = Ok y.
  Proof.
    revert r k; induction l as [|a l IH]; intros r k H Hk; [destruct k; discriminate|].
    simpl in H. apply bind_ok in H. destruct H as [y [Hy H]]. apply bind_ok in H.
    destruct H as [ys [H1 H]]. inversion H; subst.
    destruct k as [|k]; simpl in *.
    - inversion Hk; subst. exists y. split; [reflexivity | exact Hy].
    - apply IH; assumption.
  Qed.

  (* Decomposition of a successful call up to the user function. *)
  Lemma ufunc_received_spec (g : grid A) (c : ucall) args recv in_core out_core bw :
    ufunc_received dflt g c args = Ok (recv, in_core, out_core, bw) ->
    exists d2r out_ax padded,
      List.length args = List.length (u_axis c) /\
      dummy_to_real (map (map fst) (s_in (u_sig c))) (u_axis c) = Ok d2r /\
      mapM (mapM (fun n => match lookupS n d2r with Some r => Ok r | None => Err KeyError end))
           (map (map fst) (s_out (u_sig c))) = Ok out_ax /\
      check_positions g (u_axis c) (map (map snd) (s_in (u_sig c))) args = Ok tt /\
      core_dims g (u_axis c) (map (map snd) (s_in (u_sig c))) = Ok in_core /\
      core_dims g out_ax (map (map snd) (s_out (u_sig c))) = Ok out_core /\
      substitute_bw (u_bw c) d2r = Ok bw /\
      (if u_pad_before c
       then mapM (fun t => pad dflt g t (Some bw) (u_boundary c) (u_fill c)) args = Ok padded
       else padded = args) /\
      forall k r, nth_error recv k = Some r ->
        exists core p, nth_error in_core k = Some core /\ nth_error padded k = Some p /\
          get r = get p /\
          exists lead, dnames (dims r) = lead ++ core /\
                       (forall d, In d lead -> ~ In d core /\ dhas d (dims p) = true) /\
                       forall d, In d (lead ++ core) -> size d r = size d p.
  Proof.
    unfold ufunc_received. intros H.
    destruct (negb (List.length args =? List.length (u_axis c))) eqn:E0; [discriminate|].
    apply negb_false_iff, Nat.eqb_eq in E0.
    apply bind_ok in H. destruct H as [d2r [H1 H]].
    apply bind_ok in H. destruct H as [out_ax [H2 H]].
    apply bind_ok in H. destruct H as [[] [H3 H]].
    apply bind_ok in H. destruct H as [ic [H4 H]].
    apply bind_ok in H. destruct H as [oc [H5 H]].
    apply bind_ok in H. destruct H as [bw' [H6 H]].
    apply bind_ok in H. destruct H as [padded [H7 H]].
    match type of H with (if ?b then _ else _) = _ => destruct b; [discriminate|] end.
    inversion H; subst; clear H.
    exists d2r, out_ax, padded. repeat (split; [assumption|]).
    split.
    { destruct (u_pad_before c); [exact H7 | inversion H7; reflexivity]. }
    intros k r Hk. apply map_combine_nth in Hk. destruct Hk as [core [p [Hc [Hp Hr]]]].
    exists core, p. split; [exact Hc|]. split; [exact Hp|]. subst r. cbn [fst snd].
    apply as_received_spec.
  Qed.

  (* ---- rejection of misplaced inputs ---- *)
  Lemma forM_ok {T} (f : T -> res unit) l :
    forM_ f l = Ok tt <-> forall x, In x l -> f x = Ok tt.
  Proof.
    induction l as [|a l IH]; simpl; split; intros H; try reflexivity.
    - intros x [].
    - destruct (f a) as [[]|e] eqn:E; [|discriminate]. intros x [Hx|Hx]; [subst; exact E|].
      apply IH; assumption.
    - rewrite (H a (or_introl eq_refl)). apply IH. intros x Hx. apply H. right; exact Hx.
  Qed.

  Lemma forM_err_kind {T} (f : T -> res unit) l e k :
    (forall x e', f x = Err e' -> e' = k) -> forM_ f l = Err e -> e = k.
  Proof.
    intros Hk. induction l as [|a l IH]; simpl; [discriminate|].
    destruct (f a) as [[]|e'] eqn:E; [exact IH|]. intros H; inversion H; subst. eapply Hk; exact E.
  Qed.

  Definition on_position (g : grid A) (np : string * pos) (arg : tensor A) : Prop :=
    exists d, dim_at g (fst np) (snd np) = Some d /\ dhas d (dims arg) = true.

  (* the position check passes exactly when every input carries the dimension of every
     (axis, position) its signature entry names; otherwise it raises ValueError *)
  Lemma check_positions_spec (g : grid A) axis inpos args :
    (check_positions g axis inpos args = Ok tt <->
     forall ns ps arg, In (ns, ps, arg) (combine (combine axis inpos) args) ->
       forall np, In np (combine ns ps) -> on_position g np arg) /\
    (forall e, check_positions g axis inpos args = Err e -> e = ValueError).
  Proof.
    unfold check_positions. split.
    - rewrite forM_ok. split.
      + intros H ns ps arg HI np Hnp. specialize (H _ HI). cbn beta iota in H.
        rewrite forM_ok in H. specialize (H _ Hnp). cbn beta in H. unfold on_position.
        destruct (dim_at g (fst np) (snd np)) as [d|]; [|discriminate].
        exists d. split; [reflexivity|]. destruct (dhas d (dims arg)); [reflexivity|discriminate].
      + intros H [[ns ps] arg] HI. rewrite forM_ok. intros np Hnp.
        destruct (H ns ps arg HI np Hnp) as [d [H1 H2]]. rewrite H1, H2. reflexivity.
    - intros e. apply forM_err_kind. intros [[ns ps] arg] e'. apply forM_err_kind.
      intros np e''. destruct (dim_at g (fst np) (snd np)) as [d|].
      + destruct (dhas d (dims arg)); [discriminate | intros H; inversion H; reflexivity].
      + intros H; inversion H; reflexivity.
  Qed.

  (* a call that gets as far as the position check with a misplaced input raises
     ValueError and never reaches the user function *)
  Lemma misplaced_rejected (g : grid A) (c : ucall) args d2r out_ax :
    List.length args = List.length (u_axis c) ->
    dummy_to_real (map (map fst) (s_in (u_sig c))) (u_axis c) = Ok d2r ->
    mapM (mapM (fun n => match lookupS n d2r with Some r => Ok r | None => Err KeyError end))
         (map (map fst) (s_out (u_sig c))) = Ok out_ax ->
    (exists ns ps arg np,
        In (ns, ps, arg) (combine (combine (u_axis c) (map (map snd) (s_in (u_sig c)))) args) /\
        In np (combine ns ps) /\ ~ on_position g np arg) ->
    ufunc_received dflt g c args = Err ValueError.
  Proof.
    intros HL H1 H2 [ns [ps [arg [np [Ha [Hb Hc]]]]]].
    unfold ufunc_received. rewrite HL, Nat.eqb_refl. cbn [negb]. rewrite H1. cbn [bind].
    rewrite H2. cbn [bind].
    destruct (check_positions_spec g (u_axis c) (map (map snd) (s_in (u_sig c))) args) as [S1 S2].
    destruct (check_positions g (u_axis c) (map (map snd) (s_in (u_sig c))) args) as [[]|e] eqn:E.
    - exfalso. apply Hc. destruct S1 as [S1 _]. exact (S1 eq_refl ns ps arg Ha np Hb).
    - cbn [bind]. rewrite (S2 e eq_refl). reflexivity.
  Qed.

  (* ---- outputs ---- *)
  Lemma ufunc_apply_spec (g : grid A) dssizes (c : ucall) f args recv outs :
    ufunc_apply dflt g dssizes c f args = Ok (recv, outs) ->
    exists in_core out_core bw,
      ufunc_received dflt g c args = Ok (recv, in_core, out_core, bw) /\
      List.length outs = List.length out_core /\
      (u_pad_before c = true -> outs = f recv in_core out_core) /\
      forall j o core, nth_error outs j = Some o -> nth_error out_core j = Some core ->
        forall d, In d core -> size d o = dsize d dssizes.
  Proof.
    unfold ufunc_apply. intros H.
    apply bind_ok in H. destruct H as [[[[rv ic] oc] bw] [H1 H]].
    destruct (negb (List.length (f rv ic oc) =? List.length oc)) eqn:E0; [discriminate|].
    apply negb_false_iff, Nat.eqb_eq in E0.
    apply bind_ok in H. destruct H as [padded [H2 H]].
    apply bind_ok in H. destruct H as [[] [H3 H]]. inversion H; subst; clear H.
    exists ic, oc, bw. split; [exact H1|]. split.
    { destruct (u_pad_before c); [inversion H2; subst; exact E0|].
      rewrite (mapM_length _ _ _ H2). exact E0. }
    split.
    { intros Hp. rewrite Hp in H2. inversion H2. reflexivity. }
    intros j o core Ho Hc d Hd. rewrite forM_ok in H3.
    assert (HI : In (o, core) (combine outs oc)).
    { clear - Ho Hc. revert oc j Ho Hc. induction outs as [|x outs IH]; intros [|y oc] [|j] Ho Hc;
        simpl in *; try discriminate.
      - inversion Ho; inversion Hc; subst. left; reflexivity.
      - right. eapply IH; eassumption. }
    specialize (H3 _ HI). cbn beta in H3. rewrite forM_ok in H3. specialize (H3 d Hd).
    cbn [fst] in H3. unfold size. destruct (dsize d (dims o) =? dsize d dssizes) eqn:E; [|discriminate].
    apply Nat.eqb_eq in E. exact E.
  Qed.

  (* the declared output dimensions: position p of the real axis bound to the dummy *)
  Lemma core_dims_spec (g : grid A) axis poss core :
    core_dims g axis poss = Ok core ->
    forall j ns ps cj, nth_error axis j = Some ns -> nth_error poss j = Some ps ->
      nth_error core j = Some cj ->
      List.length cj = List.length (combine ns ps) /\
      forall i n p d, nth_error ns i = Some n -> nth_error ps i = Some p -> nth_error cj i = Some d ->
        dim_at g n p = Some d.
  Proof.
    unfold core_dims. intros H j ns ps cj Hn Hp Hc.
    assert (Hnp : nth_error (combine axis poss) j = Some (ns, ps)).
    { clear - Hn Hp. revert poss j Hn Hp. induction axis as [|a axis IH]; intros [|b poss] [|j] Hn Hp;
        simpl in *; try discriminate.
      - inversion Hn; inversion Hp; reflexivity.
      - apply IH; assumption. }
    destruct (mapM_nth _ _ _ _ _ H Hnp) as [cj' [Hc' Hm]]. rewrite Hc in Hc'. inversion Hc'; subst cj'.
    cbn [fst snd] in Hm. split; [apply (mapM_length _ _ _ Hm)|].
    intros i n p d Hi1 Hi2 Hi3.
    assert (Hx : nth_error (combine ns ps) i = Some (n, p)).
    { clear - Hi1 Hi2. revert ps i Hi1 Hi2. induction ns as [|a ns IH]; intros [|b ps] [|i] H1 H2;
        simpl in *; try discriminate.
      - inversion H1; inversion H2; reflexivity.
      - apply IH; assumption. }
    destruct (mapM_nth _ _ _ _ _ Hm Hx) as [d' [Hd' Hm']]. rewrite Hi3 in Hd'. inversion Hd'; subst d'.
    cbn [fst snd] in Hm'. destruct (dim_at g n p); inversion Hm'; reflexivity.
  Qed.
End Received.
