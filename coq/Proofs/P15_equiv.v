(* C15: equivalence by first-appearance numbering is exactly "consistent renaming". *)
From Coq Require Import List Bool Ascii String Arith Lia.
From XV Require Import Base.Res Base.Assoc Model.Axis Model.Signature Spec.S15.
Import ListNotations.
Open Scope list_scope.

(* two name lists follow the same pattern: equal names at the same places *)
Definition same_pattern (na nb : list string) : Prop :=
  List.length na = List.length nb /\
  forall p q, In p (combine na nb) -> In q (combine na nb) -> (fst p = fst q <-> snd p = snd q).

(* environments built by number_names: the k-th key is numbered k *)
Definition env_ok (env : list (string * nat)) : Prop :=
  NoDup (map fst env) /\ forall k, k < List.length env -> nth_error (map snd env) k = Some k.

Lemma lookupS_app_none {V} k (l1 l2 : list (string * V)) :
  lookupS k l1 = None -> lookupS k (l1 ++ l2) = lookupS k l2.
Proof.
  unfold lookupS. induction l1 as [|[k' v] r IH]; simpl; intros H; [reflexivity|].
  destruct (String.eqb k k'); [discriminate|apply IH, H].
Qed.
Lemma lookupS_app_some {V} k (l1 l2 : list (string * V)) v :
  lookupS k l1 = Some v -> lookupS k (l1 ++ l2) = Some v.
Proof.
  unfold lookupS. induction l1 as [|[k' v'] r IH]; simpl; intros H; [discriminate|].
  destruct (String.eqb k k'); [exact H|apply IH, H].
Qed.
Lemma lookupS_none_notin {V} k (l : list (string * V)) : lookupS k l = None <-> ~ In k (map fst l).
Proof.
  unfold lookupS. induction l as [|[k' v] r IH]; simpl; [tauto|].
  destruct (String.eqb k k') eqn:E.
  - apply String.eqb_eq in E. subst. split; [discriminate|intros H; exfalso; apply H; left; reflexivity].
  - apply String.eqb_neq in E. rewrite IH. split; intros H; [intros [H'|H']; [congruence|tauto]|tauto].
Qed.

Lemma combine_app {A B} (l1 l2 : list A) (m1 m2 : list B) : List.length l1 = List.length m1 ->
  combine (l1 ++ l2) (m1 ++ m2) = combine l1 m1 ++ combine l2 m2.
Proof.
  revert m1. induction l1 as [|a l1 IH]; intros [|b m1] H; simpl in H; try lia; [reflexivity|].
  simpl. f_equal. apply IH. lia.
Qed.

Lemma lookup_corr x y k : forall (ea eb : list (string * nat)),
  List.length ea = List.length eb -> map snd ea = map snd eb ->
  (forall u v, In (u, v) (combine (map fst ea) (map fst eb)) -> (x = u <-> y = v)) ->
  (lookupS x ea = Some k <-> lookupS y eb = Some k).
Proof.
  unfold lookupS. induction ea as [|[u n] ea IHe]; intros eb Hl Hs Hp;
    destruct eb as [|[v m] eb]; simpl in Hl; try lia; [tauto|].
  simpl in Hs. inversion Hs; subst. simpl.
  assert (E : x = u <-> y = v) by (apply Hp; left; reflexivity).
  destruct (String.eqb x u) eqn:Ex; destruct (String.eqb y v) eqn:Ey.
  - tauto.
  - apply String.eqb_eq in Ex. apply String.eqb_neq in Ey. tauto.
  - apply String.eqb_neq in Ex. apply String.eqb_eq in Ey. tauto.
  - apply IHe; [lia|assumption|]. intros u' v' Hin. apply Hp. right. exact Hin.
Qed.

(* the pair (x, y) at the head is consistent with the correspondence keys_a <-> keys_b *)
Lemma number_names_same : forall na nb ea eb,
  List.length na = List.length nb ->
  List.length ea = List.length eb -> map snd ea = map snd eb ->
  (forall p q, In p (combine (map fst ea ++ na) (map fst eb ++ nb)) ->
               In q (combine (map fst ea ++ na) (map fst eb ++ nb)) ->
               (fst p = fst q <-> snd p = snd q)) ->
  fst (number_names na ea) = fst (number_names nb eb).
Proof.
  induction na as [|x na IH]; intros nb ea eb Hl Hle Hsnd Hpat; destruct nb as [|y nb]; simpl in Hl; try lia.
  - reflexivity.
  - simpl number_names.
    assert (Hk : List.length (map fst ea) = List.length (map fst eb)) by (rewrite !map_length; exact Hle).
    (* x is bound in ea exactly where y is bound in eb *)
    assert (Hlook : forall k, lookupS x ea = Some k <-> lookupS y eb = Some k).
    { intros k. apply lookup_corr; [exact Hle|exact Hsnd|].
      intros u v Hin.
      specialize (Hpat (x, y) (u, v)). simpl in Hpat. apply Hpat.
      - rewrite combine_app by exact Hk. apply in_or_app. right. left. reflexivity.
      - rewrite combine_app by exact Hk. apply in_or_app. left. exact Hin. }
    destruct (lookupS x ea) as [k|] eqn:Ea.
    + assert (Eb : lookupS y eb = Some k) by (apply (proj1 (Hlook k)); reflexivity). rewrite Eb.
      specialize (IH nb ea eb ltac:(lia) Hle Hsnd).
      destruct (number_names na ea) as [ks ea'] eqn:Na. destruct (number_names nb eb) as [ks' eb'] eqn:Nb.
      simpl in *. f_equal. apply IH.
      intros p q Hp Hq. apply Hpat.
      * rewrite combine_app in * by exact Hk. apply in_app_or in Hp. apply in_or_app.
        destruct Hp as [Hp|Hp]; [left; exact Hp|right; right; exact Hp].
      * rewrite combine_app in * by exact Hk. apply in_app_or in Hq. apply in_or_app.
        destruct Hq as [Hq|Hq]; [left; exact Hq|right; right; exact Hq].
    + assert (Eb : lookupS y eb = None).
      { destruct (lookupS y eb) as [k|] eqn:Eb; [|reflexivity].
        pose proof (proj2 (Hlook k) eq_refl) as X. discriminate X. }
      rewrite Eb, Hle.
      specialize (IH nb (ea ++ [(x, List.length eb)]) (eb ++ [(y, List.length eb)]) ltac:(lia)).
      destruct (number_names na (ea ++ [(x, List.length eb)])) as [ks ea'] eqn:Na.
      destruct (number_names nb (eb ++ [(y, List.length eb)])) as [ks' eb'] eqn:Nb.
      simpl in *. f_equal. apply IH.
      * rewrite !app_length. simpl. lia.
      * rewrite !map_app, Hsnd. reflexivity.
      * rewrite !map_app. simpl. rewrite <- !app_assoc. simpl. exact Hpat.
Qed.

(* --- converse: the numbering reflects equality of names ---------------------------- *)

Definition env_wf (env : list (string * nat)) : Prop :=
  NoDup (map fst env) /\ map snd env = seq 0 (List.length env).

Lemma NoDup_app_snoc {T} (l : list T) x : NoDup l -> ~ In x l -> NoDup (l ++ [x]).
Proof.
  induction l as [|a l IH]; intros ND Hx; simpl; [constructor; [tauto|constructor]|].
  inversion ND; subst. constructor.
  - intros Hin. apply in_app_or in Hin. destruct Hin as [Hin|[<-|[]]]; [tauto|].
    apply Hx. left. reflexivity.
  - apply IH; [assumption|]. intros Hin. apply Hx. right. exact Hin.
Qed.

Lemma env_wf_snoc env x : env_wf env -> lookupS x env = None -> env_wf (env ++ [(x, List.length env)]).
Proof.
  intros [ND Hs] Hx. split.
  - rewrite map_app. simpl. apply NoDup_app_snoc; [exact ND|]. apply lookupS_none_notin. exact Hx.
  - rewrite map_app, app_length, Hs. simpl. rewrite Nat.add_1_r, seq_S. reflexivity.
Qed.

Lemma lookupS_In_snd x k (env : list (string * nat)) : lookupS x env = Some k -> In (x, k) env.
Proof. apply (lookup_In String.eqb string_eqb_spec'). Qed.

Lemma env_wf_inj env x y k : env_wf env -> lookupS x env = Some k -> lookupS y env = Some k -> x = y.
Proof.
  intros [ND Hs] Hx Hy. apply lookupS_In_snd in Hx, Hy.
  apply In_nth_error in Hx, Hy. destruct Hx as [i Hi], Hy as [j Hj].
  assert (Ei : nth_error (map snd env) i = Some k) by (rewrite nth_error_map, Hi; reflexivity).
  assert (Ej : nth_error (map snd env) j = Some k) by (rewrite nth_error_map, Hj; reflexivity).
  rewrite Hs in Ei, Ej.
  assert (Li : i < List.length env) by (apply nth_error_Some; rewrite Hi; discriminate).
  assert (Lj : j < List.length env) by (apply nth_error_Some; rewrite Hj; discriminate).
  rewrite nth_error_nth' with (d := 0) in Ei by (rewrite seq_length; exact Li).
  rewrite nth_error_nth' with (d := 0) in Ej by (rewrite seq_length; exact Lj).
  rewrite seq_nth in Ei, Ej by assumption. simpl in Ei, Ej.
  assert (i = j) by congruence. subst. rewrite Hi in Hj. congruence.
Qed.

Lemma number_names_spec : forall names env, env_wf env ->
  env_wf (snd (number_names names env)) /\
  (exists ext, snd (number_names names env) = env ++ ext) /\
  Forall2 (fun n k => lookupS n (snd (number_names names env)) = Some k)
          names (fst (number_names names env)).
Proof.
  induction names as [|x names IH]; intros env Hwf; simpl.
  - split; [exact Hwf|]. split; [exists []; rewrite app_nil_r; reflexivity|constructor].
  - destruct (lookupS x env) as [k|] eqn:Ex.
    + destruct (IH env Hwf) as (W & (ext & E) & F).
      destruct (number_names names env) as [ks env'] eqn:N. simpl in *.
      split; [exact W|]. split; [exists ext; exact E|].
      constructor; [|exact F]. rewrite E. apply lookupS_app_some. exact Ex.
    + destruct (IH (env ++ [(x, List.length env)]) (env_wf_snoc env x Hwf Ex)) as (W & (ext & E) & F).
      destruct (number_names names (env ++ [(x, List.length env)])) as [ks env'] eqn:N. simpl in *.
      split; [exact W|]. split; [exists ((x, List.length env) :: ext); rewrite E, <- app_assoc; reflexivity|].
      constructor; [|exact F]. rewrite E, <- app_assoc. rewrite lookupS_app_none by exact Ex.
      unfold lookupS. simpl. rewrite String.eqb_refl. reflexivity.
Qed.

Lemma env_wf_nil : env_wf [].
Proof. split; [constructor|reflexivity]. Qed.

Lemma forall2_nth (P Q : string -> nat -> Prop) : forall na nb ks i p,
  Forall2 P na ks -> Forall2 Q nb ks -> nth_error (combine na nb) i = Some p ->
  exists k, P (fst p) k /\ Q (snd p) k.
Proof.
  induction na as [|a na IH]; intros nb ks i p Fa Fb Hi; destruct nb as [|b nb];
    try (destruct i; discriminate).
  inversion Fa; subst. inversion Fb; subst. destruct i as [|i]; simpl in Hi.
  - inversion Hi; subst. simpl. eauto.
  - eapply IH; eauto.
Qed.

(* C15: two name lists get the same first-appearance numbering exactly when they follow
   the same pattern, i.e. when one is a consistent (bijective) renaming of the other *)
Theorem numbering_iff_pattern na nb : List.length na = List.length nb ->
  (fst (number_names na []) = fst (number_names nb []) <->
   forall p q, In p (combine na nb) -> In q (combine na nb) -> (fst p = fst q <-> snd p = snd q)).
Proof.
  intros Hl. split.
  - intros E p q Hp Hq.
    destruct (number_names_spec na [] env_wf_nil) as (Wa & _ & Fa).
    destruct (number_names_spec nb [] env_wf_nil) as (Wb & _ & Fb).
    rewrite <- E in Fb.
    set (ks := fst (number_names na [])) in *.
    (* positions of p and q *)
    apply In_nth_error in Hp, Hq. destruct Hp as [i Hi], Hq as [j Hj].
    destruct (forall2_nth _ _ na nb ks i p Fa Fb Hi) as (ki & Ai & Bi).
    destruct (forall2_nth _ _ na nb ks j q Fa Fb Hj) as (kj & Aj & Bj).
    cbv beta in Ai, Bi, Aj, Bj.
    split; intros Heq.
    + rewrite Heq in Ai. assert (ki = kj) by congruence. subst.
      exact (env_wf_inj _ _ _ kj Wb Bi Bj).
    + rewrite Heq in Bi. assert (ki = kj) by congruence. subst.
      exact (env_wf_inj _ _ _ kj Wa Ai Aj).
  - intros H. apply number_names_same; [exact Hl|reflexivity|reflexivity|]. simpl. exact H.
Qed.
