(* Tie: every function body of the package, as read from /repo on this run (G18), passes
   the confinement check of Model/Heap.v -- it changes in place only objects made during
   the call.  The few names that denote call-local objects for reasons the syntactic
   reading cannot see are declared here, each with its justification; Grid.set_metrics is
   the package's documented mutator of the Grid and is exempt. *)
From Coq Require Import List Bool String.
From XV Require Import Base.Assoc Model.Heap Generated.G18.
Import ListNotations.
Open Scope string_scope.

(* (file, function, names of call-local objects, names whose interior is call-local too) *)
Definition call_local : list (string * string * list string * list string) :=
  [ (* the object under construction *)
    ("grid.py", "Grid.__init__", ["self"], []);
    ("axis.py", "Axis.__init__", ["self"], []);
    ("grid_ufunc.py", "_GridUFuncSignature.__init__", ["self"], []);
    ("grid_ufunc.py", "GridUFunc.__init__", ["self"], []);
    (* helper of Grid.__init__, called from nowhere else: self.axes and the Axis objects in
       it were made by that call *)
    ("grid.py", "Grid._assign_face_connections", ["self"; "self.axes"], ["self.axes"]);
    (* the dictionary [numbering] is created by the enclosing call of canonical() *)
    ("grid_ufunc.py", "_GridUFuncSignature.equivalent.canonical.number", ["numbering"], []);
    (* [hints] is the dictionary typing.get_type_hints built for the only caller *)
    ("grid_ufunc.py", "_parse_signature_from_type_hints", ["hints"], []);
    (* gufunc kernels: [output] is the buffer allocated for this call *)
    ("transform.py", "_interp_1d_linear", ["output"], []);
    ("transform.py", "_interp_1d_conservative", ["output"], []) ].

Definition designated_mutators : list (string * string) := [ ("grid.py", "Grid.set_metrics") ].

Definition entry_for (file fn : string) : list string * list string :=
  fold_right (fun (e : string * string * list string * list string) (acc : list string * list string) =>
                if String.eqb (fst (fst (fst e))) file && String.eqb (snd (fst (fst e))) fn
                then (app (snd (fst e)) (fst acc), app (snd e) (snd acc)) else acc)
             ([], []) call_local.

Definition body_ok (b : string * string * list string * list action) : bool :=
  let '(file, fn, fresh, acts) := b in
  existsb (fun m : string * string => String.eqb (fst m) file && String.eqb (snd m) fn) designated_mutators ||
  confined (app fresh (fst (entry_for file fn))) (snd (entry_for file fn)) acts.

Lemma Tie_heap_available : G18_available = true.
Proof. reflexivity. Qed.

Lemma Tie_heap_confined : forallb body_ok gen_bodies = true.
Proof. vm_compute. reflexivity. Qed.
