(* C01: the stencil table agrees with the staggered-grid geometry. *)
From Coq Require Import List Bool ZArith Lia Arith String.
From XV Require Import Base.Res Base.Assoc Base.Ops Base.Seq1D Base.Tensor
     Model.Axis Model.GridCtor Model.Pad Model.GridOps Model.Dispatch
     Spec.S01 Proofs.TensorLemmas Proofs.P02_pad.
Import ListNotations.
Open Scope string_scope.
Open Scope nat_scope.
Open Scope list_scope.

Ltac Zify.zify_post_hook ::= Z.to_euclidean_division_equations.

(* --- the canonical bodies and what they compute --------------------------------- *)

Definition canon_body (funcname : string) : option bexpr :=
  if String.eqb funcname "diff" then Some (BSub (BTail BArg) (BInit BArg))
  else if String.eqb funcname "interp" then Some (BDivC (BAdd (BInit BArg) (BTail BArg)) 2%Z)
  else if String.eqb funcname "min" then Some (BMinStack (BInit BArg) (BTail BArg))
  else if String.eqb funcname "max" then Some (BMaxStack (BInit BArg) (BTail BArg))
  else None.

Definition body_opt_eqb (a b : option bexpr) : bool :=
  match a, b with Some x, Some y => bexpr_eqb x y | _, _ => false end.

Definition is_none {T} (x : option T) : bool := match x with None => true | Some _ => false end.

(* acceptance predicate over an ARBITRARY table: for each operator and each of the
   eight shifts exactly one entry is selected; its widths are the geometric ones; its
   body is the operator's window-2 form; nothing is overridden at definition time *)
Definition entry_ok (funcname : string) (from to : pos) (e : gentry) : bool :=
  match ge_width e with
  | Some (lo, hi) => width_ok from to lo hi
  | None => false
  end && body_opt_eqb (ge_body e) (canon_body funcname) && ge_pad_before e &&
  is_none (ge_fill e) && is_none (ge_boundary e).

Definition table_ok (tbl : list gentry) : bool :=
  forallb (fun fn => forallb (fun ft =>
    match select fn (fst ft) (snd ft) tbl with
    | Ok e => entry_ok fn (fst ft) (snd ft) e
    | Err _ => false
    end) shifts8) ops4.

Lemma bexpr_eqb_eq x : forall y, bexpr_eqb x y = true -> x = y.
Proof.
  induction x; intros y H; destruct y; simpl in H; try discriminate; try reflexivity;
    repeat match goal with
           | H : _ && _ = true |- _ => apply andb_true_iff in H; destruct H
           | H : Z.eqb _ _ = true |- _ => apply Z.eqb_eq in H; subst
           end; f_equal; auto.
Qed.

Section Bodies.
  Context {A : Type} (o : Ops A) (ofZ : Z -> A).

  Lemma map2_init_tail (f : A -> A -> A) (a : list A) :
    map2 f (removelast a) (tl a) = window2 f a.
  Proof.
    induction a as [|x [|y t] IH]; try reflexivity.
    change (removelast (x :: y :: t)) with (x :: removelast (y :: t)).
    change (tl (x :: y :: t)) with (y :: t).
    change (window2 f (x :: y :: t)) with (f x y :: window2 f (y :: t)).
    rewrite <- IH. reflexivity.
  Qed.

  Lemma map2_tail_init (f : A -> A -> A) (a : list A) :
    map2 f (tl a) (removelast a) = window2 (fun u v => f v u) a.
  Proof.
    induction a as [|x [|y t] IH]; try reflexivity.
    change (removelast (x :: y :: t)) with (x :: removelast (y :: t)).
    change (tl (x :: y :: t)) with (y :: t).
    change (window2 (fun u v => f v u) (x :: y :: t)) with (f y x :: window2 (fun u v => f v u) (y :: t)).
    rewrite <- IH. reflexivity.
  Qed.

  Lemma map_window2 (g : A -> A) (f : A -> A -> A) (a : list A) :
    map g (window2 f a) = window2 (fun u v => g (f u v)) a.
  Proof.
    induction a as [|x [|y t] IH]; try reflexivity.
    change (window2 f (x :: y :: t)) with (f x y :: window2 f (y :: t)).
    change (window2 (fun u v => g (f u v)) (x :: y :: t))
      with (g (f x y) :: window2 (fun u v => g (f u v)) (y :: t)).
    cbn [map]. rewrite IH. reflexivity.
  Qed.

  (* every canonical body is the window-2 map of the operator's pairwise function *)
  Lemma canon_body_window2 fn b f a :
    canon_body fn = Some b -> op_fun o ofZ fn = Some f ->
    eval o ofZ b a = window2 f a.
  Proof.
    unfold canon_body, op_fun.
    destruct (String.eqb fn "diff").
    { intros H1 H2; inversion H1; inversion H2; subst. simpl. apply map2_tail_init. }
    destruct (String.eqb fn "interp").
    { intros H1 H2; inversion H1; inversion H2; subst. simpl.
      rewrite map2_init_tail. apply map_window2. }
    destruct (String.eqb fn "min").
    { intros H1 H2; inversion H1; inversion H2; subst. simpl. apply map2_init_tail. }
    destruct (String.eqb fn "max").
    { intros H1 H2; inversion H1; inversion H2; subst. simpl. apply map2_init_tail. }
    discriminate.
  Qed.
End Bodies.

(* --- geometry ------------------------------------------------------------------- *)

Lemma lower_index_linear from to j : lower_index from to j = (lower_index from to 0 + j)%Z.
Proof. unfold lower_index, coord2. destruct from, to; lia. Qed.

Lemma plen_delta p N : 1 <= N -> Z.of_nat (plen p N) = (Z.of_nat N + len_delta p)%Z.
Proof. destruct p; simpl; lia. Qed.

Lemma pad1_00 {A} r (c : A) x : pad1 r c 0 0 x = x.
Proof.
  destruct r; simpl; rewrite ?app_nil_r; try reflexivity.
  unfold lastn. rewrite Nat.sub_0_r, skipn_all. reflexivity.
Qed.

Section OneD.
  Context {A : Type}.

  (* the 1-D core of C01: padding by the geometric widths and taking the window-2 map
     yields, at every target point, f of the two adjacent (boundary-extended) inputs;
     the result has the target position's length *)
  Lemma stencil_1d (f : A -> A -> A) r (c : A) x from to lo hi N d :
    1 <= N -> 1 <= List.length x -> List.length x = plen from N ->
    width_ok from to lo hi = true -> lo <= List.length x -> hi <= List.length x ->
    List.length (window2 f (pad1 r c lo hi x)) = plen to N /\
    forall j, j < plen to N ->
      nth j (window2 f (pad1 r c lo hi x)) d = spec_op f r c x from to (Z.of_nat j).
  Proof.
    intros HN Hx Hlen Hw Hlo Hhi.
    apply andb_true_iff in Hw. destruct Hw as [W1 W2].
    apply Z.eqb_eq in W1. apply Z.eqb_eq in W2.
    pose proof (plen_delta from N HN) as Pf. pose proof (plen_delta to N HN) as Pt.
    assert (L : List.length (window2 f (pad1 r c lo hi x)) = plen to N).
    { rewrite window2_length, pad1_length by assumption. lia. }
    split; [exact L|]. intros j Hj.
    rewrite window2_nth by (rewrite pad1_length by assumption; lia).
    unfold spec_op. rewrite lower_index_linear.
    rewrite !pad1_nth by (try assumption; lia).
    f_equal; f_equal; lia.
  Qed.
End OneD.

(* --- one axis step on an N-d array ----------------------------------------------- *)

Local Arguments pad : simpl never.
Local Arguments resolve_one : simpl never.

Section Step.
  Context {A : Type} (o : Ops A) (ofZ : Z -> A).
  Let dflt := zero o.

  Lemma column_pad_dim (p : padspec (A:=A)) (t : tensor A) e : wf t -> ps_ok t p ->
    column (pad_dim dflt p t) (ps_dim p) e =
    pad1 (ps_rule p) (ps_fill p) (ps_lo p) (ps_hi p) (column t (ps_dim p) e).
  Proof.
    intros Hwf (Hd & Hn & Hlo & Hhi).
    set (col := column t (ps_dim p) e).
    assert (Hcol : forall i, column t (ps_dim p) (upd e (ps_dim p) i) = col).
    { intros i. apply column_ext; [exact Hwf|]. intros d' Hne _. apply upd_other, Hne. }
    apply nth_ext with (d := dflt) (d' := dflt).
    - rewrite column_length, (pad_dim_size_same dflt p t Hd).
      rewrite pad1_length; unfold col; rewrite ?column_length; lia.
    - intros k Hk. rewrite column_length, (pad_dim_size_same dflt p t Hd) in Hk.
      rewrite column_nth by (rewrite (pad_dim_size_same dflt p t Hd); exact Hk).
      unfold pad_dim. simpl. rewrite upd_same, Hcol. reflexivity.
  Qed.

  Lemma table_ok_select tbl fn from tp :
    table_ok tbl = true -> In fn ops4 -> In (from, tp) shifts8 ->
    exists e, select fn from tp tbl = Ok e /\ entry_ok fn from tp e = true.
  Proof.
    unfold table_ok. rewrite forallb_forall. intros H Hfn Hft.
    specialize (H fn Hfn). rewrite forallb_forall in H. specialize (H (from, tp) Hft).
    simpl in H. destruct (select fn from tp tbl) as [e|]; [|discriminate].
    exists e. auto.
  Qed.

  Lemma widths_small from tp lo hi : In (from, tp) shifts8 -> width_ok from tp lo hi = true ->
    lo <= 1 /\ hi <= 1.
  Proof.
    intros Hin Hw. apply andb_true_iff in Hw. destruct Hw as [W1 W2].
    apply Z.eqb_eq in W1. apply Z.eqb_eq in W2. unfold lower_index, coord2, len_delta in *.
    simpl in Hin.
    repeat (destruct Hin as [Hin|Hin]; [inversion Hin; subst; lia|]). contradiction.
  Qed.

  (* C01, one axis of an N-d array.  Hypotheses: the table passes the acceptance
     predicate; the axis lookups succeed as stated; the array is on the `from` position
     with the dataset's lengths; the padding request for this axis resolves to rule r and
     fill value cf (C02_rule_in_force says which those are). *)
  Theorem step_spec tbl (g : grid A) dssizes (c : call01 (A:=A)) orig (t : tensor A) axn
          a from tp f din dout r cf N :
    table_ok tbl = true -> wf t ->
    signature_of g orig (k_to c) axn = Ok (a, from, tp) ->
    In (from, tp) shifts8 -> In (k_func c) ops4 -> op_fun o ofZ (k_func c) = Some f ->
    lookupP from (ax_coords a) = Some din -> dhas din (dims t) = true ->
    lookupP tp (ax_coords a) = Some dout ->
    words_known (complete_kwargs g (@ax_boundary A) (k_boundary c)) = true ->
    (forall lo hi,
        resolve_one dflt g (dnames (dims t))
                    (complete_kwargs g (@ax_boundary A) (k_boundary c))
                    (complete_kwargs g (@ax_fill A) (k_fill c)) (axn, (lo, hi))
        = Ok {| ps_dim := din; ps_rule := r; ps_fill := cf; ps_lo := lo; ps_hi := hi |}) ->
    1 <= N -> 1 <= plen from N -> size din t = plen from N -> dsize dout dssizes = plen tp N ->
    exists res, step o ofZ tbl g dssizes c orig t axn = Ok res /\
      dims res = dremove din (dims t) ++ [(dout, plen tp N)] /\
      forall e, e dout < plen tp N ->
        get res e = spec_op f r cf (column t din e) from tp (Z.of_nat (e dout)).
  Proof.
    intros Htbl Hwf Hsig Hshift Hfn Hop Hdin Hhas Hdout Hknown Hres HN Hlen1 Hsize Hds.
    unfold dflt in *.
    destruct (table_ok_select tbl (k_func c) from tp Htbl Hfn Hshift) as (en & Hsel & Hok).
    unfold entry_ok in Hok.
    apply andb_true_iff in Hok; destruct Hok as [Hok HBd].
    apply andb_true_iff in Hok; destruct Hok as [Hok HF].
    apply andb_true_iff in Hok; destruct Hok as [Hok HP].
    apply andb_true_iff in Hok; destruct Hok as [HW HB].
    destruct (ge_width en) as [[lo hi]|] eqn:Hw; [|discriminate].
    destruct (ge_body en) as [body|] eqn:Hb; [|discriminate].
    destruct (canon_body (k_func c)) as [cb|] eqn:Hcb; [|discriminate].
    simpl in HB. apply bexpr_eqb_eq in HB. subst cb.
    destruct (widths_small from tp lo hi Hshift HW) as [Hlo1 Hhi1].
    unfold step. rewrite Hsig. simpl. rewrite Hsel. simpl. rewrite Hdin. simpl.
    assert (Hmem : memS din (dnames (dims t)) = true).
    { apply memk_In; [apply string_eqb_spec'|]. apply dhas_In, Hhas. }
    rewrite Hmem. simpl. rewrite Hdout. simpl. rewrite Hw, HP, Hb.
    (* the padded array *)
    set (p := {| ps_dim := din; ps_rule := r; ps_fill := cf; ps_lo := lo; ps_hi := hi |}).
    assert (Hpok : ps_ok t p).
    { unfold ps_ok; simpl. rewrite Hsize. repeat split; auto; lia. }
    assert (Hpad : exists padded,
               pad (zero o) g t (Some [(axn, (lo, hi))]) (k_boundary c) (k_fill c) = Ok padded /\
               dims padded = dreplace din (din, lo + plen from N + hi) (dims t) /\
               forall e, column padded din e = pad1 r cf lo hi (column t din e)).
    { unfold pad. rewrite Hknown. cbn [negb]. simpl forallb.
      destruct ((lo =? 0) && (hi =? 0) && true) eqn:Z0.
      - exists t. apply andb_true_iff in Z0. destruct Z0 as [Z0 _].
        apply andb_true_iff in Z0. destruct Z0 as [Z1 Z2].
        apply Nat.eqb_eq in Z1, Z2. subst lo hi.
        split; [reflexivity|]. split.
        + rewrite Nat.add_0_r. simpl. rewrite <- Hsize.
          clear - Hhas. unfold size. induction (dims t) as [|[d' n] rr IH]; [reflexivity|].
          simpl. destruct (String.eqb d' din) eqn:E.
          * apply String.eqb_eq in E. subst. rewrite dsize_cons_eq. reflexivity.
          * apply String.eqb_neq in E. rewrite dsize_cons_neq by congruence.
            rewrite dhas_cons_neq in Hhas by congruence. rewrite <- IH by exact Hhas. reflexivity.
        + intros e. rewrite pad1_00. reflexivity.
      - cbn [resolve_all]. rewrite Hres. cbn [bind]. exists (pad_dim (zero o) p t).
        split; [reflexivity|]. split.
        + unfold pad_dim, map_dim. simpl. rewrite Hsize. reflexivity.
        + intros e. apply (column_pad_dim p t e Hwf Hpok). }
    destruct Hpad as (padded & Hp & Hpd & Hpc).
    cbn [bind]. rewrite Hp. cbn [bind].
    assert (Hcl : forall e, List.length (column t din e) = plen from N).
    { intros e. rewrite column_length. exact Hsize. }
    assert (Hst : forall e,
      List.length (window2 f (pad1 r cf lo hi (column t din e))) = plen tp N /\
      forall j, j < plen tp N ->
        nth j (window2 f (pad1 r cf lo hi (column t din e))) (zero o)
        = spec_op f r cf (column t din e) from tp (Z.of_nat j)).
    { intros e. apply stencil_1d with (N := N); rewrite ?Hcl; auto; lia. }
    rewrite Hpc. rewrite (canon_body_window2 o ofZ (k_func c) body f _ Hcb Hop).
    destruct (Hst env0) as [L0 _]. rewrite L0, Hds, Nat.eqb_refl. simpl.
    eexists. split; [reflexivity|]. split.
    - simpl. rewrite Hpd. f_equal.
      clear. induction (dims t) as [|[d' n] rr IH]; [reflexivity|].
      simpl. destruct (String.eqb d' din) eqn:E; simpl.
      + rewrite String.eqb_refl. reflexivity.
      + rewrite E. f_equal. exact IH.
    - intros e He. simpl. rewrite Hpc.
      rewrite (canon_body_window2 o ofZ (k_func c) body f _ Hcb Hop).
      destruct (Hst e) as [_ Hv]. apply Hv, He.
  Qed.
End Step.

(* Naming several axes is applying them one after another in the given order: the model's
   multi-axis call is the composition of the single-axis steps, followed by the
   transposition that restores the order of the dimensions. *)
Section Sequence.
  Context {A : Type} (o : Ops A) (ofZ : Z -> A).

  Lemma steps_app tbl (g : grid A) dssizes c orig : forall axes1 axes2 (t : tensor A),
    steps o ofZ tbl g dssizes c orig t (axes1 ++ axes2) =
    match steps o ofZ tbl g dssizes c orig t axes1 with
    | Ok t' => steps o ofZ tbl g dssizes c orig t' axes2
    | Err e => Err e
    end.
  Proof.
    induction axes1 as [|a r IH]; intros axes2 t; [reflexivity|].
    cbn [app steps]. destruct (step o ofZ tbl g dssizes c orig t a) as [t'|e]; [|reflexivity].
    cbn [bind]. apply IH.
  Qed.

  Lemma steps_single tbl (g : grid A) dssizes c orig (t : tensor A) a :
    steps o ofZ tbl g dssizes c orig t [a] = step o ofZ tbl g dssizes c orig t a.
  Proof. cbn [steps]. destruct (step o ofZ tbl g dssizes c orig t a); reflexivity. Qed.

  Lemma grid_op_sequence tbl (g : grid A) dssizes c (t : tensor A) r :
    grid_op o ofZ tbl g dssizes c t = Ok r ->
    exists u, steps o ofZ tbl g dssizes c (dnames (dims t)) t (k_axes c) = Ok u /\
              restore_order g (dnames (dims t)) (k_axes c) u = Ok r.
  Proof.
    unfold grid_op. intros H.
    destruct (mapM _ (k_axes c)) as [sigs|e]; [|discriminate]. cbn [bind] in H.
    destruct (steps o ofZ tbl g dssizes c (dnames (dims t)) t (k_axes c)) as [u|e]; [|discriminate].
    cbn [bind] in H. exists u. split; [reflexivity | exact H].
  Qed.

  (* ---- the order of the dimensions ---- *)
  Lemma lookupS_assoc_set1 {V} k k' (v : V) l :
    lookupS k (assoc_set k' v l) = if String.eqb k k' then Some v else lookupS k l.
  Proof.
    unfold lookupS. induction l as [|[k0 v0] r IH]; simpl.
    - destruct (String.eqb k k'); reflexivity.
    - destruct (String.eqb k' k0) eqn:E0; simpl.
      + apply String.eqb_eq in E0; subst k0. destruct (String.eqb k k'); reflexivity.
      + destruct (String.eqb k k0) eqn:E1.
        * apply String.eqb_eq in E1; subst k0. rewrite String.eqb_sym in E0. rewrite E0.
          reflexivity.
        * exact IH.
  Qed.

  Lemma lookup_fold_assoc_none d : forall (sh acc : list (string * string)),
    ~ In d (map fst sh) ->
    lookupS d (fold_left (fun a (q : string * string) => assoc_set (fst q) (snd q) a) sh acc) = lookupS d acc.
  Proof.
    induction sh as [|q sh IH]; intros acc H; [reflexivity|]. cbn [fold_left].
    rewrite IH; [|intros Hin; apply H; right; exact Hin].
    rewrite lookupS_assoc_set1.
    destruct (String.eqb d (fst q)) eqn:E; [|reflexivity].
    apply String.eqb_eq in E. exfalso. apply H. left. symmetry. exact E.
  Qed.

  Lemma mapM_fst_spec {T U} (f : T -> res U) : forall l r, mapM f l = Ok r -> Forall2 (fun x y => f x = Ok y) l r.
  Proof.
    induction l as [|x l IH]; intros r H; cbn [mapM] in H.
    - inversion H; subst. constructor.
    - destruct (f x) as [y|e] eqn:F; [|discriminate]. cbn [bind] in H.
      destruct (mapM f l) as [ys|e]; [|discriminate]. cbn [bind] in H. inversion H; subst.
      constructor; [exact F | apply IH; reflexivity].
  Qed.

  (* C01: the result has exactly the input's dimensions, in the input's order, except that the
     dimension of each operated axis is replaced, in place, by the dimension of that axis the
     result lies on; a dimension that belongs to no operated axis keeps its place and name *)
  Theorem grid_op_dim_order tbl (g : grid A) dssizes c (t : tensor A) r :
    grid_op o ofZ tbl g dssizes c t = Ok r ->
    List.length (dims r) = List.length (dims t) /\
    forall i d, nth_error (dnames (dims t)) i = Some d ->
      (forall axn a pd, In axn (k_axes c) -> find_axis g axn = Ok a ->
                        get_position_name a (dnames (dims t)) = Ok pd -> snd pd <> d) ->
      nth_error (dnames (dims r)) i = Some d.
  Proof.
    intros H. destruct (grid_op_sequence tbl g dssizes c t r H) as (u & _ & R).
    unfold restore_order in R.
    destruct (mapM _ (k_axes c)) as [sh|e] eqn:M; [|discriminate]. cbn [bind] in R. inversion R; subst r. clear R.
    cbn [transpose dims]. split; [unfold dnames; rewrite !map_length; reflexivity|].
    intros i d Hi Hno.
    assert (DN : forall (f : string -> string) (sz : string -> nat) (l : list string),
               dnames (map (fun x => (f x, sz x)) l) = map f l).
    { intros f sz l. unfold dnames. rewrite map_map. reflexivity. }
    rewrite DN, nth_error_map, nth_error_map, Hi. cbn [option_map]. f_equal.
    rewrite lookup_fold_assoc_none; [reflexivity|].
    intros Hin. apply in_map_iff in Hin. destruct Hin as ([old new] & Hfst & Hq). cbn [fst] in Hfst. subst old.
    apply mapM_fst_spec in M.
    assert (X : exists axn, In axn (k_axes c) /\
                (do a <- find_axis g axn;
                 do old <- get_position_name a (dnames (dims t));
                 do new0 <- get_position_name a (dnames (dims u));
                 Ok (snd old, snd new0)) = Ok (d, new)).
    { clear - M Hq. induction M as [|x y l l' Hxy _ IH]; [contradiction|].
      destruct Hq as [->|Hq]; [exists x; split; [left; reflexivity | exact Hxy]|].
      destruct (IH Hq) as (axn & Hin & E). exists axn. split; [right; exact Hin | exact E]. }
    destruct X as (axn & Hin & E).
    destruct (find_axis g axn) as [a|e] eqn:Fa; [|discriminate]. cbn [bind] in E.
    destruct (get_position_name a (dnames (dims t))) as [pd|e] eqn:Gp; [|discriminate]. cbn [bind] in E.
    destruct (get_position_name a (dnames (dims u))) as [pn|e]; [|discriminate]. cbn [bind] in E.
    inversion E; subst. apply (Hno axn a pd Hin Fa Gp). reflexivity.
  Qed.
End Sequence.
