From Coq Require Import List Bool ZArith String Lia.
From XV Require Import Base.Res Base.Assoc Model.FaceConn Spec.S17.
Import ListNotations.
Open Scope string_scope.

Lemma memS_In k l : memS k l = true <-> In k l.
Proof. apply memk_In, string_eqb_spec'. Qed.
Lemma memZ_In k l : memZ k l = true <-> In k l.
Proof. apply memk_In, Z_eqb_spec'. Qed.

Lemma link_eqb_eq a b : link_eqb a b = true <-> a = b.
Proof.
  destruct a as [[i x] r], b as [[j y] s]; simpl.
  rewrite !andb_true_iff, Z.eqb_eq, String.eqb_eq, Bool.eqb_true_iff.
  split; [intros [[-> ->] ->]; reflexivity | intros H; inversion H; auto].
Qed.

(* One call of check_neighbor succeeds iff the link (if any) is reciprocated. *)
Lemma check_neighbor_ok tbl axes faces fidx axis l position pos :
  (pos = 0 /\ position = 1 \/ pos = 1 /\ position = 0)%nat ->
  check_neighbor tbl axes faces fidx axis l position = Ok tt <->
  match l with
  | None => True
  | Some lk => In fidx faces /\ In axis axes /\
               link_reciprocated tbl axes faces fidx axis pos lk
  end.
Proof.
  intros Hpos. destruct l as [[[idx ax] rev]|]; [|simpl; tauto].
  unfold check_neighbor, link_reciprocated; cbv zeta beta iota.
  assert (Hside : (if rev then (1 - position)%nat else position) = back_side pos rev).
  { destruct Hpos as [[-> ->]|[-> ->]]; destruct rev; reflexivity. }
  rewrite Hside. clear Hside.
  destruct (lookupZ idx tbl) as [fa|] eqn:Hfa.
  2:{ split; [discriminate|]. intros (_ & _ & _ & _ & fa & t & H & _). discriminate. }
  destruct (lookupS ax fa) as [t|] eqn:Ht.
  2:{ split; [discriminate|]. intros (_ & _ & _ & _ & fa' & t & H & H' & _).
      inversion H; subst. congruence. }
  destruct (side_at t (back_side pos rev)) as [[[idx_n ax_n] rev_n]|] eqn:Hs.
  2:{ split; [discriminate|]. intros (_ & _ & _ & _ & fa' & t' & H & H' & H'').
      inversion H; subst. rewrite Ht in H'. inversion H'; subst. congruence. }
  destruct (memS ax axes) eqn:M1; simpl.
  2:{ split; [discriminate|]. intros (_ & _ & H & _). apply memS_In in H. congruence. }
  destruct (memS ax_n axes) eqn:M2; simpl.
  2:{ split; [discriminate|]. intros (_ & Hax & _ & _ & fa' & t' & H & H' & H'').
      inversion H; subst. rewrite Ht in H'. inversion H'; subst.
      rewrite Hs in H''. inversion H''; subst. apply memS_In in Hax. congruence. }
  destruct (memZ idx faces) eqn:M3; simpl.
  2:{ split; [discriminate|]. intros (_ & _ & _ & H & _). apply memZ_In in H. congruence. }
  destruct (memZ idx_n faces) eqn:M4; simpl.
  2:{ split; [discriminate|]. intros (Hf & _ & _ & _ & fa' & t' & H & H' & H'').
      inversion H; subst. rewrite Ht in H'. inversion H'; subst.
      rewrite Hs in H''. inversion H''; subst. apply memZ_In in Hf. congruence. }
  destruct (Z.eqb idx_n fidx) eqn:E1; simpl.
  2:{ split; [discriminate|]. intros (_ & _ & _ & _ & fa' & t' & H & H' & H'').
      inversion H; subst. rewrite Ht in H'. inversion H'; subst.
      rewrite Hs in H''. inversion H''; subst. rewrite Z.eqb_refl in E1. discriminate. }
  destruct (String.eqb ax_n axis) eqn:E2; simpl.
  2:{ split; [discriminate|]. intros (_ & _ & _ & _ & fa' & t' & H & H' & H'').
      inversion H; subst. rewrite Ht in H'. inversion H'; subst.
      rewrite Hs in H''. inversion H''; subst. rewrite String.eqb_refl in E2. discriminate. }
  destruct (Bool.eqb rev_n rev) eqn:E3; simpl.
  2:{ split; [discriminate|]. intros (_ & _ & _ & _ & fa' & t' & H & H' & H'').
      inversion H; subst. rewrite Ht in H'. inversion H'; subst.
      rewrite Hs in H''. inversion H''; subst. rewrite Bool.eqb_reflx in E3. discriminate. }
  apply Z.eqb_eq in E1. apply String.eqb_eq in E2. apply Bool.eqb_prop in E3. subst.
  apply memS_In in M1, M2. apply memZ_In in M3, M4.
  split; [intros _|reflexivity].
  repeat split; try assumption. exists fa, t. auto.
Qed.

Lemma check_face_axis_ok tbl axes faces fidx axis t :
  check_face_axis tbl axes faces fidx (axis, t) = Ok tt <->
  (forall pos l, (pos = 0 \/ pos = 1)%nat -> side_at t pos = Some l ->
     In fidx faces /\ In axis axes /\ link_reciprocated tbl axes faces fidx axis pos l).
Proof.
  destruct t as [l r]. unfold check_face_axis.
  pose proof (check_neighbor_ok tbl axes faces fidx axis l 1 0) as HL.
  pose proof (check_neighbor_ok tbl axes faces fidx axis r 0 1) as HR.
  destruct (check_neighbor tbl axes faces fidx axis l 1) as [[]|e] eqn:EL; simpl.
  - rewrite HR by (right; auto). split.
    + intros Hr pos lk [->| ->] Hs; simpl in Hs; subst.
      * apply HL; auto.
      * exact Hr.
    + intros H. destruct r as [lk|]; [|exact I]. apply (H 1%nat lk); auto.
  - split; [discriminate|]. intros H. exfalso.
    assert (X : @Err unit e = Ok tt); [|discriminate].
    apply HL; [left; auto|]. destruct l as [lk|]; [|exact I]. apply (H 0%nat lk); auto.
Qed.

Lemma checks_ok tbl axes faces :
  forM_ (check_face tbl axes faces) tbl = Ok tt <-> reciprocal tbl axes faces.
Proof.
  rewrite forM_ok. unfold reciprocal, check_face. split.
  - intros H fidx fal axis t pos l Hf Ha Hp Hs.
    specialize (H (fidx, fal) Hf). simpl in H. rewrite forM_ok in H.
    specialize (H (axis, t) Ha).
    pose proof (proj1 (check_face_axis_ok _ _ _ _ _ _) H) as H'. eapply H'; eauto.
  - intros H [fidx fal] Hf. simpl. rewrite forM_ok. intros [axis t] Ha.
    apply check_face_axis_ok. intros pos l Hp Hs. eapply H; eauto.
Qed.

Lemma keys_ok (axes : list string) (ks : list string) :
  forM_ (fun a => if memS a axes then Ok tt else Err KeyError) ks = Ok tt <->
  (forall a, In a ks -> In a axes).
Proof.
  rewrite forM_ok. split; intros H a Ha; specialize (H a Ha).
  - destruct (memS a axes) eqn:M; [apply memS_In; exact M|discriminate].
  - apply memS_In in H. rewrite H. reflexivity.
Qed.

Theorem assign_iff inp : assign inp = Ok tt <-> accepted_spec inp.
Proof.
  unfold assign, accepted_spec.
  destruct (fc_dict inp) as [|[facedim tbl] [|e2 rest]] eqn:Hd.
  - split; [discriminate|]. intros (f & t & H & _). discriminate.
  - destruct (memS facedim (fc_dsdims inp)) eqn:M; simpl.
    + destruct (forM_ (check_face tbl (fc_axes inp) (fc_faces inp)) tbl) as [[]|e] eqn:C; simpl.
      * rewrite keys_ok. split.
        -- intros K. exists facedim, tbl.
           split; [reflexivity|]. split; [apply memS_In; exact M|].
           split; [exact K|apply checks_ok; exact C].
        -- intros (f & t & H & _ & K & _). inversion H; subst. exact K.
      * split; [discriminate|]. intros (f & t & H & _ & _ & R). inversion H; subst.
        apply checks_ok in R. congruence.
    + split; [discriminate|]. intros (f & t & H & Hin & _). inversion H; subst.
      apply memS_In in Hin. congruence.
  - split; [discriminate|]. intros (f & t & H & _). discriminate.
Qed.

(* The boolean oracle reflects the declarative predicate. *)
Lemma link_reciprocatedb_iff tbl axes faces fidx axis pos l :
  link_reciprocatedb tbl axes faces fidx axis pos l = true <->
  link_reciprocated tbl axes faces fidx axis pos l.
Proof.
  destruct l as [[idx ax] rev]. unfold link_reciprocatedb, link_reciprocated.
  rewrite !andb_true_iff, memS_In, memZ_In. split.
  - intros [[H1 H2] H3]. split; [exact H1|split; [exact H2|]].
    destruct (lookupZ idx tbl) as [fa|] eqn:Hfa; [|discriminate].
    destruct (lookupS ax fa) as [t|] eqn:Ht; [|discriminate].
    destruct (side_at t (back_side pos rev)) as [b|] eqn:Hs; [|discriminate].
    apply link_eqb_eq in H3. subst. exists fa, t. split; [reflexivity|split; [exact Ht|exact Hs]].
  - intros (H1 & H2 & fa & t & -> & -> & ->). repeat split; auto.
    apply link_eqb_eq. reflexivity.
Qed.

Lemma reciprocalb_iff tbl axes faces :
  reciprocalb tbl axes faces = true <-> reciprocal tbl axes faces.
Proof.
  unfold reciprocalb, reciprocal. rewrite forallb_forall. split.
  - intros H fidx fal axis t pos l Hf Ha Hp Hs.
    specialize (H (fidx, fal) Hf). rewrite forallb_forall in H.
    specialize (H (axis, t) Ha). simpl in H. apply andb_true_iff in H. destruct H as [H0 H1].
    unfold side_okb in H0, H1.
    destruct Hp as [-> | ->]; rewrite Hs in *.
    + apply andb_true_iff in H0. destruct H0 as [H0 H0'']. apply andb_true_iff in H0.
      destruct H0 as [H0 H0']. apply memZ_In in H0. apply memS_In in H0'.
      apply link_reciprocatedb_iff in H0''. auto.
    + apply andb_true_iff in H1. destruct H1 as [H1 H1'']. apply andb_true_iff in H1.
      destruct H1 as [H1 H1']. apply memZ_In in H1. apply memS_In in H1'.
      apply link_reciprocatedb_iff in H1''. auto.
  - intros H [fidx fal] Hf. rewrite forallb_forall. intros [axis t] Ha. simpl.
    apply andb_true_iff. unfold side_okb. split.
    + destruct (side_at t 0) as [l|] eqn:Hs; [|reflexivity].
      destruct (H fidx fal axis t 0%nat l Hf Ha (or_introl eq_refl) Hs) as (A & B & C).
      rewrite !andb_true_iff, memZ_In, memS_In, link_reciprocatedb_iff. auto.
    + destruct (side_at t 1) as [l|] eqn:Hs; [|reflexivity].
      destruct (H fidx fal axis t 1%nat l Hf Ha (or_intror eq_refl) Hs) as (A & B & C).
      rewrite !andb_true_iff, memZ_In, memS_In, link_reciprocatedb_iff. auto.
Qed.

Lemma accepted_specb_iff inp : accepted_specb inp = true <-> accepted_spec inp.
Proof.
  unfold accepted_specb, accepted_spec.
  destruct (fc_dict inp) as [|[facedim tbl] [|e2 rest]].
  - split; [discriminate|]. intros (f & t & H & _); discriminate.
  - rewrite !andb_true_iff, memS_In, forallb_forall, reciprocalb_iff. split.
    + intros [[A B] C]. exists facedim, tbl.
      split; [reflexivity|]. split; [exact A|]. split; [|exact C].
      intros a Ha. apply memS_In, B, Ha.
    + intros (f & t & H & A & B & C). inversion H; subst.
      split; [split; [exact A|]|exact C].
      intros a Ha. apply memS_In, B, Ha.
  - split; [discriminate|]. intros (f & t & H & _); discriminate.
Qed.

(* Symmetry: in a reciprocal table the back-link of a link is itself a link whose
   back-link is the original one ("no inconsistent topology reaches the padding code"). *)
Lemma back_side_invol pos rev : (pos = 0 \/ pos = 1)%nat ->
  back_side (back_side pos rev) rev = pos.
Proof. intros [-> | ->]; destruct rev; reflexivity. Qed.
