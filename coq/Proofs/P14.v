(* C14: rendering a topology by the COMODO table and parsing it back is the identity. *)
From Coq Require Import List Bool ZArith String Lia Arith.
From XV Require Import Base.Res Base.Assoc Model.Axis Model.Comodo.
Import ListNotations.
Open Scope string_scope.
Open Scope nat_scope.
Open Scope list_scope.

(* how the COMODO table annotates the dimension at a position: length relative to the
   centre coordinate, c_grid_axis_shift (either sign on inner/outer) *)
Definition render_dim (a : string) (N : nat) (sgn : pos -> bool) (pd : pos * string) : cdim :=
  {| cd_name := snd pd; cd_len := plen (fst pd) N; cd_axis := Some a;
     cd_shift := match fst pd with
                 | Center => SNone
                 | Left => SLeft
                 | Right => SRight
                 | Inner | Outer => if sgn (fst pd) then SLeft else SRight
                 end |}.

Lemma lookupP_pos_set p q d m :
  lookupP p (pos_set q d m) = if pos_eqb p q then Some d else lookupP p m.
Proof.
  unfold lookupP, pos_set. induction m as [|[r e] m IH]; simpl.
  - destruct (pos_eqb p q); reflexivity.
  - destruct (pos_eqb r q) eqn:E; simpl.
    + apply pos_eqb_spec in E. subst r. destruct (pos_eqb p q); reflexivity.
    + destruct (pos_eqb p r) eqn:E2.
      * apply pos_eqb_spec in E2. subst r.
        destruct (pos_eqb p q) eqn:E3; [apply pos_eqb_spec in E3; subst; destruct q; discriminate|reflexivity].
      * exact IH.
Qed.

(* one step of the classification loop puts the dimension at its own position *)
Lemma classify_step a N sgn p d m : 1 <= N -> p <> Center ->
  (if cd_len (render_dim a N sgn (p, d)) =? N + 1 then Ok (pos_set Outer (cd_name (render_dim a N sgn (p, d))) m)
   else if S (cd_len (render_dim a N sgn (p, d))) =? N then Ok (pos_set Inner (cd_name (render_dim a N sgn (p, d))) m)
   else match cd_shift (render_dim a N sgn (p, d)) with
        | SLeft => if cd_len (render_dim a N sgn (p, d)) =? N
                   then Ok (pos_set Left (cd_name (render_dim a N sgn (p, d))) m) else Err ValueError
        | SRight => if cd_len (render_dim a N sgn (p, d)) =? N
                    then Ok (pos_set Right (cd_name (render_dim a N sgn (p, d))) m) else Err ValueError
        | _ => Err ValueError
        end) = Ok (pos_set p d m).
Proof.
  intros HN Hp. cbv zeta. unfold render_dim. cbn [cd_len cd_name cd_shift fst snd].
  destruct p; try contradiction; cbn [plen].
  - (* Left *) destruct (Nat.eqb_spec N (N + 1)); [lia|]. destruct (Nat.eqb_spec (S N) N); [lia|].
    rewrite Nat.eqb_refl. reflexivity.
  - (* Right *) destruct (Nat.eqb_spec N (N + 1)); [lia|]. destruct (Nat.eqb_spec (S N) N); [lia|].
    rewrite Nat.eqb_refl. reflexivity.
  - (* Inner *) destruct (Nat.eqb_spec (N - 1) (N + 1)); [lia|].
    destruct (Nat.eqb_spec (S (N - 1)) N); [reflexivity|lia].
  - (* Outer *) rewrite Nat.eqb_refl. reflexivity.
Qed.

Lemma classify_loop a N sgn : forall rest m, 1 <= N -> ~ In Center (map fst rest) ->
  fold_left (fun (acc : res (list (pos * string))) (d : cdim) =>
        do m <- acc;
        if cd_len d =? N + 1 then Ok (pos_set Outer (cd_name d) m)
        else if S (cd_len d) =? N then Ok (pos_set Inner (cd_name d) m)
        else match cd_shift d with
             | SLeft => if cd_len d =? N then Ok (pos_set Left (cd_name d) m) else Err ValueError
             | SRight => if cd_len d =? N then Ok (pos_set Right (cd_name d) m) else Err ValueError
             | _ => Err ValueError
             end) (map (render_dim a N sgn) rest) (Ok m)
  = Ok (fold_left (fun m (pd : pos * string) => pos_set (fst pd) (snd pd) m) rest m).
Proof.
  induction rest as [|[p d] rest IH]; intros m HN Hc; [reflexivity|].
  cbn [map fold_left bind].
  rewrite (classify_step a N sgn p d m HN) by (intro E; apply Hc; left; simpl; congruence).
  rewrite IH; [reflexivity|exact HN|]. intro H. apply Hc. right. exact H.
Qed.

Lemma lookup_fold_set p : forall rest m, NoDup (map fst rest) ->
  lookupP p (fold_left (fun m (pd : pos * string) => pos_set (fst pd) (snd pd) m) rest m)
  = match lookupP p rest with Some d => Some d | None => lookupP p m end.
Proof.
  induction rest as [|[q d] rest IH]; intros m ND; [reflexivity|].
  inversion ND as [|? ? Hn ND']; subst. simpl fold_left. rewrite IH by exact ND'.
  unfold lookupP at 2. simpl. fold (@lookupP string).
  destruct (pos_eqb p q) eqn:E.
  - apply pos_eqb_spec in E. subst q.
    assert (lookupP p rest = None) as ->.
    { destruct (lookupP p rest) eqn:L; [|reflexivity].
      apply (lookup_In pos_eqb pos_eqb_spec) in L. exfalso. apply Hn.
      change p with (fst (p, s)). apply in_map, L. }
    rewrite lookupP_pos_set. destruct (pos_eqb p p) eqn:E'; [reflexivity|].
    destruct p; discriminate.
  - destruct (lookupP p rest); [reflexivity|]. rewrite lookupP_pos_set, E. reflexivity.
Qed.

Lemma falsy_render a N sgn pd : shift_falsy (cd_shift (render_dim a N sgn pd)) = pos_eqb (fst pd) Center.
Proof. destruct pd as [p d]. destruct p; simpl; try reflexivity; destruct (sgn _); reflexivity. Qed.

Lemma filter_app_mid {T} (f : T -> bool) l1 x l2 :
  (forall y, In y l1 -> f y = false) -> (forall y, In y l2 -> f y = false) -> f x = true ->
  filter f (l1 ++ x :: l2) = [x].
Proof.
  intros H1 H2 Hx. rewrite filter_app. simpl. rewrite Hx.
  assert (E1 : filter f l1 = []).
  { clear - H1. induction l1 as [|y l IH]; [reflexivity|]. simpl. rewrite (H1 y (or_introl eq_refl)).
    apply IH. intros z Hz. apply H1. right; exact Hz. }
  assert (E2 : filter f l2 = []).
  { clear - H2. induction l2 as [|y l IH]; [reflexivity|]. simpl. rewrite (H2 y (or_introl eq_refl)).
    apply IH. intros z Hz. apply H2. right; exact Hz. }
  rewrite E1, E2. reflexivity.
Qed.

Lemma lookupP_app p (l1 l2 : list (pos * string)) :
  lookupP p (l1 ++ l2) = match lookupP p l1 with Some d => Some d | None => lookupP p l2 end.
Proof.
  unfold lookupP. induction l1 as [|[q d] l IH]; simpl; [reflexivity|].
  destruct (pos_eqb p q); [reflexivity|exact IH].
Qed.

Lemma lookupP_notin p (l : list (pos * string)) : ~ In p (map fst l) -> lookupP p l = None.
Proof.
  unfold lookupP. induction l as [|[q d] l IH]; simpl; intros H; [reflexivity|].
  destruct (pos_eqb p q) eqn:E; [apply pos_eqb_spec in E; subst; exfalso; apply H; left; reflexivity|].
  apply IH. intro H'. apply H. right. exact H'.
Qed.

(* C14, COMODO: for every axis, every set of positions containing center (in whatever
   order the dimensions appear in the dataset), every cell count N >= 1, either sign of the
   shift on inner/outer coordinates and arbitrary distinct dimension names: parsing the
   dataset annotated according to the table yields exactly that position-to-dimension
   assignment. *)
Theorem comodo_roundtrip (ds : list cdim) a N sgn l1 dc l2 :
  1 <= N ->
  NoDup (map fst (l1 ++ (Center, dc) :: l2)) -> NoDup (map snd (l1 ++ (Center, dc) :: l2)) ->
  filter (fun d => match cd_axis d with Some x => String.eqb x a | None => false end) ds
  = map (render_dim a N sgn) (l1 ++ (Center, dc) :: l2) ->
  exists m, comodo_axis ds a = Ok m /\ forall p, lookupP p m = lookupP p (l1 ++ (Center, dc) :: l2).
Proof.
  intros HN NDp NDd Hf. unfold comodo_axis. rewrite Hf. clear Hf.
  set (ent := l1 ++ (Center, dc) :: l2) in *.
  assert (Hne : map (render_dim a N sgn) ent <> []) by (unfold ent; destruct l1; discriminate).
  destruct (map (render_dim a N sgn) ent) as [|c0 cs] eqn:Em; [contradiction|]. rewrite <- Em. clear c0 cs Em Hne.
  (* the only coordinate without shift is the centre *)
  assert (Hnc1 : ~ In Center (map fst l1) /\ ~ In Center (map fst l2)).
  { unfold ent in NDp. rewrite map_app in NDp. simpl in NDp. apply NoDup_remove_2 in NDp.
    split; intro H; apply NDp; apply in_or_app; [left|right]; exact H. }
  destruct Hnc1 as [Hc1 Hc2].
  assert (Hfil : filter (fun d => shift_falsy (cd_shift d)) (map (render_dim a N sgn) ent)
                 = [render_dim a N sgn (Center, dc)]).
  { unfold ent. rewrite map_app. simpl map. apply filter_app_mid.
    - intros y Hy. apply in_map_iff in Hy. destruct Hy as (pd & <- & Hpd). rewrite falsy_render.
      destruct (pos_eqb (fst pd) Center) eqn:E; [|reflexivity]. apply pos_eqb_spec in E.
      exfalso. apply Hc1. rewrite <- E. apply in_map, Hpd.
    - intros y Hy. apply in_map_iff in Hy. destruct Hy as (pd & <- & Hpd). rewrite falsy_render.
      destruct (pos_eqb (fst pd) Center) eqn:E; [|reflexivity]. apply pos_eqb_spec in E.
      exfalso. apply Hc2. rewrite <- E. apply in_map, Hpd.
    - rewrite falsy_render. reflexivity. }
  rewrite Hfil. cbn [cd_len cd_name render_dim fst snd plen].
  (* the remaining coordinates *)
  assert (Hrest : filter (fun d => negb (String.eqb (cd_name d) dc)) (map (render_dim a N sgn) ent)
                  = map (render_dim a N sgn) (l1 ++ l2)).
  { unfold ent in *. rewrite !map_app in *. simpl map in *. rewrite filter_app. simpl filter.
    cbn [cd_name render_dim snd]. rewrite String.eqb_refl. cbn [negb]. f_equal.
    - apply NoDup_remove_2 in NDd. clear - NDd.
      induction l1 as [|[p d] l IH]; [reflexivity|]. simpl.
      destruct (String.eqb d dc) eqn:E.
      + apply String.eqb_eq in E. subst. exfalso. apply NDd. simpl. left. reflexivity.
      + simpl. f_equal. apply IH. intro H. apply NDd. simpl. right. exact H.
    - apply NoDup_remove_2 in NDd. clear - NDd.
      induction l2 as [|[p d] l IH]; [reflexivity|]. simpl.
      destruct (String.eqb d dc) eqn:E.
      + apply String.eqb_eq in E. subst. exfalso. apply NDd. apply in_or_app. right. left. reflexivity.
      + simpl. f_equal. apply IH. intro H. apply NDd. apply in_app_or in H. apply in_or_app.
        destruct H as [H|H]; [left; exact H|right; right; exact H]. }
  rewrite Hrest.
  rewrite (classify_loop a N sgn (l1 ++ l2) [(Center, dc)] HN).
  2:{ rewrite map_app. intro H. apply in_app_or in H. tauto. }
  eexists. split; [reflexivity|]. intros p.
  assert (NDr : NoDup (map fst (l1 ++ l2))).
  { unfold ent in NDp. rewrite map_app in *. simpl in NDp. apply NoDup_remove_1 in NDp. exact NDp. }
  rewrite (lookup_fold_set p (l1 ++ l2) [(Center, dc)] NDr).
  unfold ent. rewrite !lookupP_app.
  destruct (pos_eqb p Center) eqn:Ep.
  - apply pos_eqb_spec in Ep. subst p.
    rewrite (lookupP_notin Center l1 Hc1), (lookupP_notin Center l2 Hc2). reflexivity.
  - destruct (lookupP p l1) eqn:L1; [reflexivity|].
    assert (R1 : lookupP p ((Center, dc) :: l2) = lookupP p l2) by (unfold lookupP; simpl; rewrite Ep; reflexivity).
    assert (R2 : lookupP p [(Center, dc)] = None) by (unfold lookupP; simpl; rewrite Ep; reflexivity).
    rewrite R1, R2. destruct (lookupP p l2); reflexivity.
Qed.
