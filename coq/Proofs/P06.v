(* C06: chunked execution with overlaps equals execution on the whole padded array. *)
From Coq Require Import List Bool ZArith String Lia.
From XV Require Import Base.Res Base.Seq1D Model.Axis Model.Dask.
Import ListNotations.
Open Scope nat_scope.
Open Scope list_scope.

Section W.
  Context {A : Type} (g : A -> A -> A).

  Lemma window2_cons2 a b t : window2 g (a :: b :: t) = g a b :: window2 g (b :: t).
  Proof. reflexivity. Qed.

  (* the stencil over a concatenation: the left part seen together with the first entry of
     the right part, then the right part *)
  Lemma window2_app_r x : forall y, window2 g (x ++ y) = window2 g (x ++ firstn 1 y) ++ window2 g y.
  Proof.
    induction x as [|a x IH]; intros y.
    - cbn [app]. destruct y as [|h [|h2 t]]; reflexivity.
    - destruct x as [|b x].
      + cbn [app]. destruct y as [|h t]; [reflexivity|]. cbn [firstn app].
        rewrite window2_cons2. destruct t; reflexivity.
      + change ((a :: b :: x) ++ y) with (a :: b :: (x ++ y)).
        change ((a :: b :: x) ++ firstn 1 y) with (a :: b :: (x ++ firstn 1 y)).
        rewrite !window2_cons2. cbn [app]. f_equal.
        change (b :: x ++ y) with ((b :: x) ++ y). change (b :: x ++ firstn 1 y) with ((b :: x) ++ firstn 1 y).
        apply IH.
  Qed.

  (* ... or the left part, then the right part seen together with the last entry of the left *)
  Lemma window2_app_l x : forall y, window2 g (x ++ y) = window2 g x ++ window2 g (lastn 1 x ++ y).
  Proof.
    induction x as [|a x IH]; intros y.
    - reflexivity.
    - destruct x as [|b x].
      + cbn [app]. unfold lastn. cbn. reflexivity.
      + change ((a :: b :: x) ++ y) with (a :: b :: (x ++ y)).
        rewrite !window2_cons2. cbn [app]. f_equal.
        change (b :: x ++ y) with ((b :: x) ++ y). rewrite IH. f_equal. f_equal.
        unfold lastn. cbn [List.length]. replace (S (S (List.length x)) - 1) with (S (S (List.length x) - 1)) by lia.
        reflexivity.
  Qed.

  Lemma lastn_0 (x : list A) : lastn 0 x = [].
  Proof. unfold lastn. rewrite Nat.sub_0_r. apply skipn_all. Qed.

  Lemma firstn_1_concat (b : list A) r : b <> [] -> firstn 1 (b ++ r) = firstn 1 b.
  Proof. destruct b; [contradiction | reflexivity]. Qed.

  (* depth (0, 1): every block sees the first entry of its right neighbour *)
  Lemma overlap_right blocks : forall prev,
    Forall (fun b : list A => b <> []) blocks ->
    List.concat (map (window2 g) (overlap_from 0 1 prev blocks)) = window2 g (List.concat blocks).
  Proof.
    induction blocks as [|b r IH]; intros prev HF; [reflexivity|].
    inversion HF as [|? ? Hb Hr]; subst.
    cbn [overlap_from map List.concat]. rewrite lastn_0. cbn [app].
    rewrite (IH b Hr). rewrite (window2_app_r b (List.concat r)). f_equal. f_equal. f_equal.
    destruct r as [|b' r']; [reflexivity|].
    inversion Hr as [|? ? Hb' _]; subst. cbn [hd List.concat]. symmetry. apply firstn_1_concat. exact Hb'.
  Qed.

  (* depth (1, 0): every block sees the last entry of its left neighbour *)
  Lemma lastn1_short (p : list A) : List.length (lastn 1 p) <= 1.
  Proof. unfold lastn. rewrite skipn_length. lia. Qed.

  Lemma lastn1_app (s b : list A) : b <> [] -> lastn 1 (s ++ b) = lastn 1 b.
  Proof.
    intros Hb. unfold lastn. rewrite app_length.
    assert (1 <= List.length b) by (destruct b; [contradiction | cbn; lia]).
    replace (List.length s + List.length b - 1) with (List.length s + (List.length b - 1)) by lia.
    rewrite skipn_app. rewrite skipn_all2 by lia. cbn [app].
    replace (List.length s + (List.length b - 1) - List.length s) with (List.length b - 1) by lia.
    reflexivity.
  Qed.

  Lemma overlap_left blocks : forall prev,
    Forall (fun b : list A => b <> []) blocks ->
    List.concat (map (window2 g) (overlap_from 1 0 prev blocks)) = window2 g (lastn 1 prev ++ List.concat blocks).
  Proof.
    induction blocks as [|b r IH]; intros prev HF.
    - cbn [overlap_from map List.concat]. rewrite app_nil_r.
      pose proof (lastn1_short prev) as L. destruct (lastn 1 prev) as [|x [|y t]]; try reflexivity.
      cbn [List.length] in L. lia.
    - inversion HF as [|? ? Hb Hr]; subst.
      cbn [overlap_from map List.concat]. rewrite (IH b Hr). cbn [firstn]. rewrite app_nil_r.
      rewrite app_assoc. rewrite (window2_app_l (lastn 1 prev ++ b) (List.concat r)).
      rewrite (lastn1_app (lastn 1 prev) b Hb). reflexivity.
  Qed.
End W.

(* blocks of a list under a chunk pattern *)
Lemma concat_split {A} cs : forall (x : list A),
  List.length x = list_sum cs -> List.concat (split cs x) = x.
Proof.
  induction cs as [|c cs IH]; intros x H; cbn [split List.concat].
  - destruct x; [reflexivity | discriminate].
  - rewrite IH.
    + apply firstn_skipn.
    + rewrite skipn_length. simpl list_sum in H. lia.
Qed.

Lemma split_nonempty {A} cs : forall (x : list A),
  List.length x = list_sum cs -> Forall (fun c => 1 <= c) cs ->
  Forall (fun b : list A => b <> []) (split cs x).
Proof.
  induction cs as [|c cs IH]; intros x H HF; cbn [split]; [constructor|].
  inversion HF as [|? ? Hc Hr]; subst. simpl list_sum in H. constructor.
  - intros E. apply (f_equal (@List.length A)) in E. rewrite firstn_length in E. cbn in E. lia.
  - apply IH; [rewrite skipn_length; lia | exact Hr].
Qed.

Lemma removelast_last_sum (l : list nat) : l <> [] -> list_sum (removelast l) + last l 0 = list_sum l.
Proof.
  induction l as [|a [|b t] IH]; intros H; [contradiction | cbn; lia |].
  change (removelast (a :: b :: t)) with (a :: removelast (b :: t)).
  change (last (a :: b :: t) 0) with (last (b :: t) 0).
  change (list_sum (a :: removelast (b :: t))) with (a + list_sum (removelast (b :: t))).
  change (list_sum (a :: b :: t)) with (a + list_sum (b :: t)).
  rewrite <- (IH ltac:(discriminate)). lia.
Qed.

Lemma merge_boundary_sum cs lo hi : cs <> [] -> list_sum (merge_boundary cs lo hi) = lo + list_sum cs + hi.
Proof.
  intros H. destruct cs as [|f [|s r]]; [contradiction | cbn; lia |].
  remember (s :: r) as l eqn:El.
  assert (Hl : l <> []) by (subst l; discriminate).
  change (merge_boundary (f :: l) lo hi) with (match l with [] => [lo + f + hi] | _ => (f + lo) :: removelast l ++ [last l 0 + hi] end).
  destruct l as [|x l']; [contradiction|].
  change (list_sum ((f + lo) :: removelast (x :: l') ++ [last (x :: l') 0 + hi]))
    with (f + lo + list_sum (removelast (x :: l') ++ [last (x :: l') 0 + hi])).
  rewrite list_sum_app.
  change (list_sum [last (x :: l') 0 + hi]) with (last (x :: l') 0 + hi + 0).
  change (list_sum (f :: x :: l')) with (f + list_sum (x :: l')).
  pose proof (removelast_last_sum (x :: l') Hl). lia.
Qed.

Lemma removelast_pos (l : list nat) : Forall (fun c => 1 <= c) l -> Forall (fun c => 1 <= c) (removelast l).
Proof.
  induction l as [|a [|b t] IH]; intros H; [constructor | constructor |].
  change (removelast (a :: b :: t)) with (a :: removelast (b :: t)). inversion H; subst.
  constructor; [assumption | apply IH; assumption].
Qed.

Lemma last_pos (l : list nat) : l <> [] -> Forall (fun c => 1 <= c) l -> 1 <= last l 0.
Proof.
  induction l as [|a [|b t] IH]; intros Hne H; [contradiction | inversion H; assumption |].
  change (last (a :: b :: t) 0) with (last (b :: t) 0). inversion H; subst. apply IH; [discriminate | assumption].
Qed.

Lemma merge_boundary_pos cs lo hi : Forall (fun c => 1 <= c) cs -> Forall (fun c => 1 <= c) (merge_boundary cs lo hi).
Proof.
  intros H. destruct cs as [|f [|s r]]; [constructor | |].
  - inversion H; subst. constructor; [lia | constructor].
  - inversion H as [|? ? Hf Hr]; subst. unfold merge_boundary. constructor; [lia|].
    apply Forall_app. split; [apply removelast_pos; exact Hr|].
    constructor; [|constructor].
    pose proof (last_pos (s :: r) ltac:(discriminate) Hr). lia.
Qed.

(* The theorem: for every chunking of the operated dimension into non-empty chunks, the
   stencil run block by block on the padded, re-chunked array with depth = the boundary
   width gives, concatenated, exactly the stencil run on the whole padded array. *)
Theorem map_overlap_exact {A} (g : A -> A -> A) (lo hi : nat) (orig : chunks) (padded : list A) :
  (lo = 0 /\ hi = 1) \/ (lo = 1 /\ hi = 0) ->
  orig <> [] -> Forall (fun c => 1 <= c) orig ->
  List.length padded = lo + list_sum orig + hi ->
  List.concat (map_overlap (window2 g) lo hi orig padded) = window2 g padded.
Proof.
  intros Hw Hne Hpos Hlen. unfold map_overlap, overlap.
  assert (HS : List.length padded = list_sum (merge_boundary orig lo hi)).
  { rewrite merge_boundary_sum by exact Hne. exact Hlen. }
  destruct Hw as [[-> ->]|[-> ->]].
  - rewrite overlap_right.
    + rewrite concat_split by exact HS. reflexivity.
    + apply split_nonempty; [exact HS | apply merge_boundary_pos; exact Hpos].
  - rewrite overlap_left.
    + unfold lastn. cbn [List.length skipn app]. rewrite concat_split by exact HS. reflexivity.
    + apply split_nonempty; [exact HS | apply merge_boundary_pos; exact Hpos].
Qed.

(* the refusal: with map_overlap a signature is refused exactly when it has several
   outputs or involves an inner / outer position; without map_overlap never *)
Lemma overlap_check_spec mo n ps :
  overlap_check mo n ps = Err NotImplementedError <->
  mo = true /\ (1 < n \/ exists p, In p ps /\ (p = Inner \/ p = Outer)).
Proof.
  unfold overlap_check. destruct mo; [|split; [discriminate | intros [H _]; discriminate]].
  destruct (1 <? n) eqn:E1.
  - apply Nat.ltb_lt in E1. split; [intros _; split; [reflexivity | left; exact E1] | reflexivity].
  - apply Nat.ltb_ge in E1. destruct (existsb length_changing ps) eqn:E2.
    + split; [|reflexivity]. intros _. split; [reflexivity|]. right.
      apply existsb_exists in E2. destruct E2 as [p [Hp Hl]]. exists p. split; [exact Hp|].
      destruct p; try discriminate; [left | right]; reflexivity.
    + split; [discriminate|]. intros [_ [H|[p [Hp Hl]]]]; [lia|].
      assert (existsb length_changing ps = true).
      { apply existsb_exists. exists p. split; [exact Hp|]. destruct Hl; subst; reflexivity. }
      congruence.
Qed.

Lemma overlap_check_total mo n ps : overlap_check mo n ps = Ok tt \/ overlap_check mo n ps = Err NotImplementedError.
Proof.
  unfold overlap_check. destruct mo; [|left; reflexivity].
  destruct (1 <? n); [right; reflexivity|]. destruct (existsb length_changing ps); [right | left]; reflexivity.
Qed.

(* map_overlap is chosen exactly for data chunked along the operated dimension, cumsum excepted *)
Lemma dask_mode_overlap is_dask n fn before :
  snd (dask_mode is_dask n fn before) = true <-> 1 < n /\ fn <> "cumsum"%string.
Proof.
  unfold dask_mode. destruct (1 <? n) eqn:E; cbn [snd].
  - apply Nat.ltb_lt in E. rewrite negb_true_iff. split.
    + intros H. split; [exact E|]. apply String.eqb_neq. exact H.
    + intros [_ H]. apply String.eqb_neq. exact H.
  - apply Nat.ltb_ge in E. split; [discriminate | intros [H _]; lia].
Qed.
