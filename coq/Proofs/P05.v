(* C05: one (axis, side) step of the face-connection padding puts into the halo strip
   exactly the documented cells of the source face, and touches nothing else. *)
From Coq Require Import List Bool ZArith Lia Arith String.
From XV Require Import Base.Res Base.Assoc Base.Ops Base.Seq1D Base.Tensor
     Model.Axis Model.GridCtor Model.Pad Model.FaceConn Model.Dispatch Model.FacePad
     Spec.S05 Spec.S17 Proofs.TensorLemmas.
Import ListNotations.
Open Scope string_scope.
Open Scope nat_scope.
Open Scope list_scope.

Ltac env_eq :=
  let d := fresh "d" in
  intros d _; unfold upd;
  repeat match goal with
         | |- context [String.eqb ?a ?b] => destruct (String.eqb_spec a b); subst
         end; try congruence; try lia.

Section Step.
  Context {A : Type} (neg : A -> A) (dflt : A).

  (* where in the (pre-padded) source face a cell of the halo strip is read:
     h = 0.. W-1 is the position inside the strip along the padded dimension *)
  Definition src_start (W : nat) (is_right rev : bool) (ns : nat) : nat :=
    if is_right then (if rev then ns - 2 * W else W) else (if rev then W else ns - 2 * W).

  Definition src_env (W : nat) (is_right rev swap : bool) (td sdim : string) (ns ntS : nat)
             (h : nat) (e : env) : env :=
    let idx := src_start W is_right rev ns + (if rev then W - 1 - h else h) in
    if swap then
      fun d => if String.eqb d sdim then idx
               else if String.eqb d td then (if rev then e sdim else ntS - 1 - e sdim)
               else e d
    else upd e td idx.

  Definition step_sign (isvector : bool) (vectoraxis axname : string) (swap rev : bool) (v : A) : A :=
    let v := if rev && (isvector && String.eqb vectoraxis axname) then neg v else v in
    if (swap && negb rev) && (isvector && negb (String.eqb vectoraxis axname)) then neg v else v.

  Theorem connect_one_spec W (g : grid A) facedim nfaces isvector vectoraxis axname is_right
          sf saxis rev pre pre_partner td (target source : tensor A) sa sdim :
    let swap := negb (String.eqb axname saxis) in
    (0 <= sf < Z.of_nat nfaces)%Z ->
    (if isvector && swap
     then rename_positions g (isel_index facedim (Z.to_nat sf) pre_partner) target
     else Ok (isel_index facedim (Z.to_nat sf) pre)) = Ok source ->
    find_axis g saxis = Ok sa -> dim_on sa source = Ok sdim ->
    wf source -> wf target ->
    (swap = false -> sdim = td) -> (swap = true -> sdim <> td) ->
    W <= size td target ->
    exists res,
      connect_one neg W g facedim nfaces isvector vectoraxis axname is_right (sf, saxis, rev)
                  pre pre_partner td target = Ok res /\
      let nt := size td target in
      let ns := size sdim source in
      let ntS := size td source in
      (* the strip *)
      (forall e, (if is_right then nt - W <= e td < nt else e td < W) ->
         let h := if is_right then e td - (nt - W) else e td in
         get res e = step_sign isvector vectoraxis axname swap rev
                               (get source (src_env W is_right rev swap td sdim ns ntS h e))) /\
      (* the frame: nothing else changes *)
      (forall e, (if is_right then e td < nt - W else W <= e td) -> get res e = get target e).
  Proof.
    intros swap Hsf Hsrc Hsa Hsd Hwfs Hwft Hns Hsw HW.
    unfold connect_one. fold swap.
    assert (Hrange : ((sf <? 0)%Z || (Z.of_nat nfaces <=? sf)%Z) = false).
    { apply orb_false_iff. split; [apply Z.ltb_ge|apply Z.leb_gt]; lia. }
    rewrite Hrange, Hsrc. cbn [bind]. rewrite Hsa. cbn [bind]. rewrite Hsd. cbn [bind].
    eexists. split; [reflexivity|]. cbv zeta. unfold step_sign, src_env, src_start.
    assert (Hsw' : swap = true -> td <> sdim) by (intros H E; apply (Hsw H); congruence).
    split.
    - (* strip *)
      intros e He.
      destruct is_right, rev, swap; simpl in *;
        try (specialize (Hns eq_refl); subst sdim);
        try (specialize (Hsw eq_refl)); try (specialize (Hsw' eq_refl));
        match goal with
        | |- context [?a <? ?b] => destruct (Nat.ltb_spec0 a b); try lia
        end;
        repeat match goal with
               | |- context [isvector && ?b] => destruct (isvector && b); simpl
               end;
        repeat match goal with |- neg _ = neg _ => f_equal end; apply Hwfs; env_eq.
    - (* frame *)
      intros e He.
      destruct is_right; simpl in *;
        match goal with
        | |- context [?a <? ?b] => destruct (Nat.ltb_spec0 a b); try lia
        end; apply Hwft; env_eq.
  Qed.
End Step.

(* --- from strip positions to the property's words: depth k, along-edge position t ---- *)

Section Geometry.
  (* strip position h of a W-wide halo and depth k (1 = adjacent to the interior) *)
  Definition depth_of (is_right : bool) (W h : nat) : nat := if is_right then h + 1 else W - h.

  (* the source index read for strip position h is, in the source's unpadded frame, the
     cell k cells inward from the linked edge: ortho_index of the specification *)
  Lemma src_index_ortho W is_right rev ns h :
    h < W -> 3 * W <= ns ->
    src_start W is_right rev ns + (if rev then W - 1 - h else h)
    = W + ortho_index (negb is_right) rev (ns - 2 * W) (depth_of is_right W h).
  Proof.
    intros Hh Hns. unfold src_start, ortho_index, depth_of.
    destruct is_right, rev; simpl; lia.
  Qed.

  (* along-edge position: padded coordinate W + t of a face of N cells is read at padded
     coordinate W + (N-1-t) when mirrored *)
  Lemma tang_mirror W N t : t < N -> (N + 2 * W) - 1 - (W + t) = W + (N - 1 - t).
  Proof. lia. Qed.

  (* the halo of a link and the halo of its back-link see each other symmetrically:
     reading k cells inward from the edge the back-link sits on, and mirroring the
     along-edge position twice, is the identity *)
  Definition inward (N : nat) (side : nat) (k : nat) : nat :=
    match side with O => k - 1 | _ => N - k end.
  Lemma ortho_is_inward_from_back_side pos rev N k : (pos = 0 \/ pos = 1) ->
    ortho_index (Nat.eqb pos 0) rev N k = inward N (back_side pos rev) k.
  Proof. intros [-> | ->]; destruct rev; reflexivity. Qed.

  Definition along (swap rev : bool) (N t : nat) : nat := if swap && negb rev then N - 1 - t else t.
  Lemma along_involutive swap rev N t : t < N -> along swap rev N (along swap rev N t) = t.
  Proof. intros H. unfold along. destruct (swap && negb rev); lia. Qed.
End Geometry.

Lemma step_sign_vec_sign {A} (neg : A -> A) isvector vectoraxis axname swap rev (v : A) :
  step_sign neg isvector vectoraxis axname swap rev v
  = vec_sign neg isvector vectoraxis axname swap rev v.
Proof.
  unfold step_sign, vec_sign.
  destruct isvector, rev, swap, (String.eqb vectoraxis axname); reflexivity.
Qed.
