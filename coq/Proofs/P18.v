(* C18: soundness of the confinement check of Model/Heap.v -- a body that passes it never
   changes an object the caller can see, whatever the conditions and unknown bindings. *)
From Coq Require Import List Bool ZArith String Lia.
From XV Require Import Base.Assoc Model.Heap.
Import ListNotations.
Open Scope string_scope.
Open Scope nat_scope.
Open Scope list_scope.

Section Sound.
  Variable N : loc.     (* the caller can see exactly the locations below N *)

  Definition wf_heap (h : heap) : Prop :=
    (N <= h_next h /\ 0 < h_next h /\ forall x, h_env h x < h_next h) /\
    (forall l, h_in h l < h_next h) /\ (forall l, h_in h (h_in h l) = h_in h l).

  Definition inv (f : flags) (h : heap) : Prop :=
    wf_heap h /\
    (forall x, In x (f_self f) -> N <= h_env h x) /\
    (forall x, In x (f_deep f) -> N <= h_in h (h_env h x)).

  Lemma memS_In x l : memS x l = true <-> In x l.
  Proof. apply (memk_In String.eqb string_eqb_spec'). Qed.

  Lemma set_flag_In b x l y :
    In y (set_flag b x l) -> (y = x /\ b = true) \/ (y <> x /\ In y l).
  Proof.
    unfold set_flag. destruct b.
    - intros [H|H]; [left; split; [symmetry; exact H | reflexivity]|].
      destruct (String.eqb y x) eqn:E.
      + apply String.eqb_eq in E. left; split; [exact E | reflexivity].
      + apply String.eqb_neq in E. right; split; assumption.
    - intros H. apply filter_In in H. destruct H as [H1 H2]. right. split; [|exact H1].
      apply negb_true_iff in H2. apply String.eqb_neq in H2. exact H2.
  Qed.

  Lemma upd_env_eq e x l : upd_env e x l x = l.
  Proof. unfold upd_env. rewrite String.eqb_refl. reflexivity. Qed.
  Lemma upd_env_neq e x l y : y <> x -> upd_env e x l y = e y.
  Proof. intros H. unfold upd_env. apply String.eqb_neq in H. rewrite H. reflexivity. Qed.
  Lemma upd_nat_eq f l v : upd_nat f l v l = v.
  Proof. unfold upd_nat. rewrite Nat.eqb_refl. reflexivity. Qed.
  Lemma upd_nat_neq f l v k : k <> l -> upd_nat f l v k = f k.
  Proof. intros H. unfold upd_nat. apply Nat.eqb_neq in H. rewrite H. reflexivity. Qed.

  Lemma inv_subset f f' h :
    inv f h -> (forall x, In x (f_self f') -> In x (f_self f)) ->
    (forall x, In x (f_deep f') -> In x (f_deep f)) -> inv f' h.
  Proof.
    intros [W [Sf Df]] HS HD. split; [exact W|]. split; intros x Hx; [apply Sf, HS, Hx | apply Df, HD, Hx].
  Qed.

  Lemma exec1_if t e ch h :
    exec1 (AIf t e) ch h = match ch with
                           | 0 :: r => exec_list e r h
                           | _ :: r => exec_list t r h
                           | [] => exec_list e [] h
                           end.
  Proof. destruct ch as [|[|n] r]; reflexivity. Qed.

  Lemma check_if t e f :
    check (AIf t e) f = match check_list t f, check_list e f with
                        | Some ft, Some fe => Some (inter ft fe)
                        | _, _ => None
                        end.
  Proof. reflexivity. Qed.

  Lemma inter_inv ft fe h : inv ft h \/ inv fe h -> inv (inter ft fe) h.
  Proof.
    intros [H|H]; (eapply inv_subset; [exact H| |]); cbn [inter f_self f_deep]; intros z Hz;
      apply filter_In in Hz; destruct Hz as [Hz1 Hz2]; try exact Hz1; apply memS_In; exact Hz2.
  Qed.

  Definition sound1 (a : action) : Prop :=
    forall f h ch f', inv f h -> check a f = Some f' ->
      inv f' (fst (exec1 a ch h)) /\ forall l, l < N -> h_ver (fst (exec1 a ch h)) l = h_ver h l.
  Definition soundl (acts : list action) : Prop :=
    forall f h ch f', inv f h -> check_list acts f = Some f' ->
      inv f' (fst (exec_list acts ch h)) /\ forall l, l < N -> h_ver (fst (exec_list acts ch h)) l = h_ver h l.

  Lemma soundl_of_forall acts : Forall sound1 acts -> soundl acts.
  Proof.
    induction 1 as [|a acts Ha _ IH]; intros f h ch f' I HC.
    - cbn in *. inversion HC; subst. split; [exact I | reflexivity].
    - cbn [check_list] in HC. destruct (check a f) as [f1|] eqn:E1; [|discriminate].
      destruct (Ha f h ch f1 I E1) as [I1 V1].
      cbn [exec_list]. destruct (exec1 a ch h) as [h1 ch1] eqn:E. cbn [fst] in I1, V1.
      destruct (IH f1 h1 ch1 f' I1 HC) as [I2 V2]. split; [exact I2|].
      intros l Hl. rewrite (V2 l Hl). apply V1, Hl.
  Qed.

  (* induction over actions with nested lists *)
  Fixpoint action_sound (a : action) : sound1 a.
  Proof.
    destruct a as [x|x y|x y|x y|x|x|x|t e]; intros f h ch f' I HC;
      pose proof I as [[[WN [W0 WE]] [WB WI]] [Sf Df]].
    - (* fresh *)
      cbn [check] in HC. inversion HC; subst f'; clear HC.
      cbn [exec1 fst]. split; [|reflexivity].
      set (p := h_next h). set (c := S p).
      assert (IN : forall l, upd_nat (upd_nat (h_in h) p c) c c l =
                             if Nat.eqb l c then c else if Nat.eqb l p then c else h_in h l).
      { intros l. unfold upd_nat. reflexivity. }
      split; [split; [split; [|split]|split]|split].
      + cbn [h_next]. lia.
      + cbn [h_next]. lia.
      + intros z. cbn [h_env h_next]. unfold upd_env. destruct (String.eqb z x); [lia|].
        specialize (WE z). fold p in WE. lia.
      + intros l. cbn [h_in h_next]. rewrite IN.
        destruct (Nat.eqb l c); [lia|]. destruct (Nat.eqb l p); [lia|]. specialize (WB l). fold p in WB. lia.
      + intros l. cbn [h_in]. rewrite !IN.
        destruct (Nat.eqb l c) eqn:E1; [rewrite Nat.eqb_refl; reflexivity|].
        destruct (Nat.eqb l p) eqn:E2; [rewrite Nat.eqb_refl; reflexivity|].
        specialize (WB l). fold p in WB.
        assert (E3 : Nat.eqb (h_in h l) c = false) by (apply Nat.eqb_neq; unfold c; lia).
        assert (E4 : Nat.eqb (h_in h l) p = false) by (apply Nat.eqb_neq; lia).
        rewrite E3, E4. apply WI.
      + intros z Hz. cbn [h_env f_self] in *. destruct (String.eqb z x) eqn:E.
        * apply String.eqb_eq in E. subst z. rewrite upd_env_eq. unfold p. exact WN.
        * apply String.eqb_neq in E. rewrite upd_env_neq by exact E.
          destruct Hz as [Hz|Hz]; [congruence|]. apply Sf, Hz.
      + intros z Hz. cbn [h_env h_in f_deep] in *. rewrite IN. destruct (String.eqb z x) eqn:E.
        * apply String.eqb_eq in E. subst z. rewrite upd_env_eq.
          assert (E1 : Nat.eqb p c = false) by (apply Nat.eqb_neq; unfold c; lia).
          rewrite E1, Nat.eqb_refl. unfold c, p. lia.
        * apply String.eqb_neq in E. rewrite upd_env_neq by exact E.
          destruct Hz as [Hz|Hz]; [congruence|].
          destruct (Nat.eqb (h_env h z) c); [unfold c, p; lia|].
          destruct (Nat.eqb (h_env h z) p); [unfold c, p; lia|]. apply Df, Hz.
    - (* shallow *)
      cbn [check] in HC. inversion HC; subst f'; clear HC.
      cbn [exec1 fst]. split; [|reflexivity].
      set (p := h_next h). set (m := h_in h (h_env h y)).
      assert (Hm : m < p) by (unfold m, p; apply WB).
      split; [split; [split; [|split]|split]|split].
      + cbn [h_next]. lia.
      + cbn [h_next]. lia.
      + intros z. cbn [h_env h_next]. unfold upd_env. destruct (String.eqb z x); [lia|].
        specialize (WE z). fold p in WE. lia.
      + intros l. cbn [h_in h_next]. unfold upd_nat. destruct (Nat.eqb l p); [lia|].
        specialize (WB l). fold p in WB. lia.
      + intros l. cbn [h_in]. unfold upd_nat.
        destruct (Nat.eqb l p) eqn:E1.
        * assert (E2 : Nat.eqb m p = false) by (apply Nat.eqb_neq; lia). fold m. rewrite E2. apply WI.
        * specialize (WB l). fold p in WB.
          assert (E2 : Nat.eqb (h_in h l) p = false) by (apply Nat.eqb_neq; lia). rewrite E2. apply WI.
      + intros z Hz. cbn [h_env f_self] in *. destruct (String.eqb z x) eqn:E.
        * apply String.eqb_eq in E. subst z. rewrite upd_env_eq. unfold p. exact WN.
        * apply String.eqb_neq in E. rewrite upd_env_neq by exact E.
          destruct Hz as [Hz|Hz]; [congruence|]. apply Sf, Hz.
      + intros z Hz. cbn [h_env h_in f_deep] in *. apply set_flag_In in Hz.
        destruct Hz as [[Hz Hb]|[Hz1 Hz2]].
        * subst z. rewrite upd_env_eq, upd_nat_eq. apply memS_In in Hb. apply Df, Hb.
        * rewrite upd_env_neq by exact Hz1. specialize (Df z Hz2).
          specialize (WE z). fold p in WE. rewrite upd_nat_neq by lia. exact Df.
    - (* alias *)
      cbn [check] in HC. inversion HC; subst f'; clear HC.
      cbn [exec1 fst]. split; [|reflexivity].
      split; [split; [split; [exact WN | split; [exact W0|]] | split; [exact WB | exact WI]]|split].
      + intros z. cbn [h_env h_next]. unfold upd_env. destruct (String.eqb z x); apply WE.
      + intros z Hz. cbn [h_env f_self] in *. apply set_flag_In in Hz.
        destruct Hz as [[Hz Hb]|[Hz1 Hz2]].
        * subst z. rewrite upd_env_eq. apply memS_In in Hb. apply Sf, Hb.
        * rewrite upd_env_neq by exact Hz1. apply Sf, Hz2.
      + intros z Hz. cbn [h_env h_in f_deep] in *. apply set_flag_In in Hz.
        destruct Hz as [[Hz Hb]|[Hz1 Hz2]].
        * subst z. rewrite upd_env_eq. apply memS_In in Hb. apply Df, Hb.
        * rewrite upd_env_neq by exact Hz1. apply Df, Hz2.
    - (* part of *)
      cbn [check] in HC. inversion HC; subst f'; clear HC.
      cbn [exec1 fst]. split; [|reflexivity].
      split; [split; [split; [exact WN | split; [exact W0|]] | split; [exact WB | exact WI]]|split].
      + intros z. cbn [h_env h_next]. unfold upd_env. destruct (String.eqb z x); [apply WB | apply WE].
      + intros z Hz. cbn [h_env f_self] in *. apply set_flag_In in Hz.
        destruct Hz as [[Hz Hb]|[Hz1 Hz2]].
        * subst z. rewrite upd_env_eq. apply memS_In in Hb. apply Df, Hb.
        * rewrite upd_env_neq by exact Hz1. apply Sf, Hz2.
      + intros z Hz. cbn [h_env h_in f_deep] in *. apply set_flag_In in Hz.
        destruct Hz as [[Hz Hb]|[Hz1 Hz2]].
        * subst z. rewrite upd_env_eq, WI. apply memS_In in Hb. apply Df, Hb.
        * rewrite upd_env_neq by exact Hz1. apply Df, Hz2.
    - (* unknown *)
      cbn [check] in HC. inversion HC; subst f'; clear HC.
      cbn [exec1 fst]. split; [|reflexivity].
      split; [split; [split; [exact WN | split; [exact W0|]] | split; [exact WB | exact WI]]|split].
      + intros z. cbn [h_env h_next]. unfold upd_env. destruct (String.eqb z x); [|apply WE].
        destruct ch as [|c r]; [exact W0|]. destruct (Nat.ltb c (h_next h)) eqn:E; [|exact W0].
        apply Nat.ltb_lt in E. exact E.
      + intros z Hz. cbn [h_env f_self] in *. apply (set_flag_In false x (f_self f) z) in Hz.
        destruct Hz as [[_ Hb]|[Hz1 Hz2]]; [discriminate|].
        rewrite upd_env_neq by exact Hz1. apply Sf, Hz2.
      + intros z Hz. cbn [h_env h_in f_deep] in *. apply (set_flag_In false x (f_deep f) z) in Hz.
        destruct Hz as [[_ Hb]|[Hz1 Hz2]]; [discriminate|].
        rewrite upd_env_neq by exact Hz1. apply Df, Hz2.
    - (* mutate *)
      cbn [check] in HC. destruct (memS x (f_self f)) eqn:HA; [|discriminate]. inversion HC; subst f'; clear HC.
      cbn [exec1 fst]. apply memS_In in HA. specialize (Sf x HA).
      split; [exact I|]. intros l Hl. cbn [h_ver]. apply upd_nat_neq. lia.
    - (* mutate inside *)
      cbn [check] in HC. destruct (memS x (f_deep f)) eqn:HA; [|discriminate]. inversion HC; subst f'; clear HC.
      cbn [exec1 fst]. apply memS_In in HA. specialize (Df x HA).
      split; [exact I|]. intros l Hl. cbn [h_ver]. apply upd_nat_neq. lia.
    - (* if *)
      assert (St : soundl t).
      { apply soundl_of_forall.
        exact ((fix F (l : list action) : Forall sound1 l :=
                  match l with
                  | [] => Forall_nil _
                  | a :: r => Forall_cons _ (action_sound a) (F r)
                  end) t). }
      assert (Se : soundl e).
      { apply soundl_of_forall.
        exact ((fix F (l : list action) : Forall sound1 l :=
                  match l with
                  | [] => Forall_nil _
                  | a :: r => Forall_cons _ (action_sound a) (F r)
                  end) e). }
      rewrite check_if in HC.
      destruct (check_list t f) as [ft|] eqn:Et; [|discriminate].
      destruct (check_list e f) as [fe|] eqn:Ee; [|discriminate].
      inversion HC; subst f'; clear HC. rewrite exec1_if.
      destruct ch as [|[|n] r].
      + destruct (Se f h [] fe I Ee) as [I1 V1]. split; [apply inter_inv; right; exact I1 | exact V1].
      + destruct (Se f h r fe I Ee) as [I1 V1]. split; [apply inter_inv; right; exact I1 | exact V1].
      + destruct (St f h r ft I Et) as [I1 V1]. split; [apply inter_inv; left; exact I1 | exact V1].
  Qed.

  Lemma exec_sound acts : soundl acts.
  Proof. apply soundl_of_forall. induction acts as [|a acts IH]; [constructor | constructor; [apply action_sound | exact IH]]. Qed.

  (* The theorem: a body that passes the check, started in any well-formed store in which
     only the declared names denote objects the caller cannot see, leaves every
     caller-visible object unchanged -- under every outcome of its conditions and for
     every object an unknown call may have returned. *)
  Theorem confined_sound fresh_self fresh_deep acts h ch :
    wf_heap h ->
    (forall x, In x fresh_self -> N <= h_env h x) ->
    (forall x, In x fresh_deep -> N <= h_in h (h_env h x)) ->
    confined fresh_self fresh_deep acts = true ->
    forall l, l < N -> h_ver (exec acts ch h) l = h_ver h l.
  Proof.
    intros W HF HD HC. unfold confined in HC.
    destruct (check_list acts {| f_self := fresh_self; f_deep := fresh_deep |}) as [f'|] eqn:E; [|discriminate].
    unfold exec. eapply (exec_sound acts); [|exact E].
    split; [exact W|]. split; [exact HF | exact HD].
  Qed.
End Sound.
