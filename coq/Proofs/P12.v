(* C12: the order-free structure of the padding model -- the table of face links enters
   only through key lookups, the order of the axes only through the grid. *)
From Coq Require Import List Bool ZArith String Permutation.
From XV Require Import Base.Res Base.Assoc Base.Seq1D Base.Tensor Model.Axis Model.FaceConn Model.Dispatch
     Model.FacePad Model.Signature Proofs.P07.
Import ListNotations.
Open Scope string_scope.
Open Scope list_scope.

(* a Python dict read through its keys: listing the same entries in another order gives
   the same lookups *)
Lemma lookup_perm {K V} (keqb : K -> K -> bool) (keqb_spec : forall a b, keqb a b = true <-> a = b)
      (l l' : list (K * V)) k :
  NoDup (map fst l) -> Permutation l l' -> lookup keqb k l = lookup keqb k l'.
Proof.
  intros ND P.
  assert (ND' : NoDup (map fst l')) by (eapply Permutation_NoDup; [apply Permutation_map; exact P|exact ND]).
  destruct (lookup keqb k l) as [v|] eqn:E.
  - symmetry. apply (In_lookup_NoDup keqb keqb_spec); [exact ND'|].
    eapply Permutation_in; [exact P|]. apply (lookup_In keqb keqb_spec). exact E.
  - destruct (lookup keqb k l') as [v|] eqn:E'; [|reflexivity].
    apply (lookup_In keqb keqb_spec) in E'.
    assert (Hin : In (k, v) l) by (eapply Permutation_in; [apply Permutation_sym; exact P|exact E']).
    rewrite (In_lookup_NoDup keqb keqb_spec k v l ND Hin) in E. discriminate.
Qed.

(* two tables that answer every (face, axis) lookup alike *)
Definition conn_equiv (c c' : facetab) : Prop :=
  forall i, match lookupZ i c, lookupZ i c' with
            | Some cs, Some cs' => forall ax, lookupS ax cs = lookupS ax cs'
            | None, None => True
            | _, _ => False
            end.

Section Pad.
  Context {A : Type} (neg : A -> A) (dflt : A).

  (* C12: the padding of one face depends on the table only through its lookups *)
  Theorem pad_one_face_table_order W (g : grid A) facedim n c c' order isv vax pre prep i :
    conn_equiv c c' ->
    pad_one_face neg W g facedim n c order isv vax pre prep i
    = pad_one_face neg W g facedim n c' order isv vax pre prep i.
  Proof.
    intros H. unfold pad_one_face. specialize (H (Z.of_nat i)).
    destruct (lookupZ (Z.of_nat i) c) as [cs|], (lookupZ (Z.of_nat i) c') as [cs'|]; try contradiction; [|reflexivity].
    apply fold_left_ext. intros acc ax _. rewrite (H ax). reflexivity.
  Qed.

  (* the axes are visited in the grid's order: when every needed axis is a grid axis the
     order is a filter of grid.axes by MEMBERSHIP in the needed names, hence the same for
     every listing order of the links and of the widths *)
  Lemma filter_mem_perm (needed needed' : list string) (axes : list string) :
    (forall a, In a needed <-> In a needed') ->
    filter (fun ax => memS ax needed) axes = filter (fun ax => memS ax needed') axes.
  Proof.
    intros H. apply filter_ext. intros a. apply eq_true_iff_eq.
    unfold memS. rewrite !(memk_In String.eqb string_eqb_spec'). apply H.
  Qed.

  Theorem pad_axes_order_listing (g : grid A) c c' pw pw' :
    (forall a, In a (flat_map (fun e => map fst (snd e)) c ++ map fst pw) <->
               In a (flat_map (fun e => map fst (snd e)) c' ++ map fst pw')) ->
    (forall a, In a (flat_map (fun e => map fst (snd e)) c ++ map fst pw) -> In a (map (@ax_name A) g)) ->
    NoDup (map (@ax_name A) g) ->
    pad_axes_order g c pw = pad_axes_order g c' pw'.
  Proof.
    intros Hsame Hin ND. unfold pad_axes_order.
    set (needed := flat_map (fun e => map fst (snd e)) c ++ map fst pw) in *.
    set (needed' := flat_map (fun e => map fst (snd e)) c' ++ map fst pw') in *.
    rewrite (filter_mem_perm needed needed' _ Hsame).
    set (inorder := filter (fun ax => memS ax needed') (map (@ax_name A) g)).
    (* nothing is left over: every needed name is a grid axis, hence already in order *)
    assert (L : forall l, (forall a, In a l -> In a needed') ->
                filter (fun ax => negb (memS ax inorder)) l = []).
    { induction l as [|x l IH]; intros Hl; [reflexivity|]. simpl.
      assert (Hx : memS x inorder = true).
      { apply (memk_In String.eqb string_eqb_spec'). unfold inorder. apply filter_In. split.
        - apply Hin, Hsame, Hl. left; reflexivity.
        - apply (memk_In String.eqb string_eqb_spec'), Hl. left; reflexivity. }
      rewrite Hx. simpl. apply IH. intros a Ha. apply Hl. right; exact Ha. }
    assert (Dd : forall l a, In a (dedup l) -> In a l).
    { induction l as [|x l IH]; intros a Ha; [contradiction|]. simpl in Ha.
      destruct Ha as [<-|Ha]; [left; reflexivity|]. apply filter_In in Ha. right. apply IH, Ha. }
    rewrite (L (dedup needed)), (L (dedup needed')); [reflexivity| |].
    - intros a Ha. apply Dd, Ha.
    - intros a Ha. apply Hsame, Dd, Ha.
  Qed.
End Pad.

(* signature matching is symmetric (no zip of unordered sets is left) *)
Lemma nats_eqb_sym a b : nats_eqb a b = nats_eqb b a.
Proof.
  unfold nats_eqb. rewrite Nat.eqb_sym. f_equal.
  revert b. induction a as [|x a IH]; intros [|y b]; simpl; try reflexivity.
  rewrite Nat.eqb_sym, IH. reflexivity.
Qed.

(* ---- accept/reject of a face-connection table does not depend on the order in which
   its faces are listed (C17_iff: acceptance is the order-free predicate [accepted_spec]) ---- *)
From Coq Require Import Permutation.
From XV Require Import Model.FaceConn Spec.S17 Proofs.P17.

Lemma lookupZ_perm {V} (tbl tbl' : list (Z * V)) k :
  Permutation tbl tbl' -> NoDup (map fst tbl) -> lookupZ k tbl = lookupZ k tbl'.
Proof.
  intros HP ND.
  assert (ND' : NoDup (map fst tbl')).
  { eapply Permutation_NoDup; [apply Permutation_map; exact HP | exact ND]. }
  destruct (lookupZ k tbl) as [v|] eqn:E.
  - apply (lookup_In Z.eqb Z_eqb_spec') in E. symmetry.
    apply (In_lookup_NoDup Z.eqb Z_eqb_spec'); [exact ND'|].
    eapply Permutation_in; eassumption.
  - destruct (lookupZ k tbl') as [v'|] eqn:E'; [|reflexivity].
    apply (lookup_In Z.eqb Z_eqb_spec') in E'.
    assert (HI : In (k, v') tbl) by (eapply Permutation_in; [apply Permutation_sym; exact HP | exact E']).
    apply (In_lookup_NoDup Z.eqb Z_eqb_spec' k v' tbl ND) in HI. unfold lookupZ in E. congruence.
Qed.

Lemma reciprocal_perm tbl tbl' axes faces :
  Permutation tbl tbl' -> NoDup (map fst tbl) ->
  reciprocal tbl axes faces -> reciprocal tbl' axes faces.
Proof.
  intros HP ND HR fidx fal axis t pos l HI Ha Hpos Hs.
  assert (HI' : In (fidx, fal) tbl) by (eapply Permutation_in; [apply Permutation_sym; exact HP | exact HI]).
  destruct (HR fidx fal axis t pos l HI' Ha Hpos Hs) as [H1 [H2 H3]].
  split; [exact H1|]. split; [exact H2|].
  unfold link_reciprocated in *. destruct l as [[idx ax] rev].
  destruct H3 as [H3 [H4 [fa [t' [H5 [H6 H7]]]]]].
  split; [exact H3|]. split; [exact H4|]. exists fa, t'.
  rewrite <- (lookupZ_perm tbl tbl' idx HP ND). repeat split; assumption.
Qed.

Lemma axis_keys_perm tbl tbl' a :
  Permutation tbl tbl' -> In a (axis_keys tbl) -> In a (axis_keys tbl').
Proof.
  intros HP. unfold axis_keys. rewrite !in_flat_map. intros [e [He Ha]].
  exists e. split; [eapply Permutation_in; eassumption | exact Ha].
Qed.

Lemma accept_order fd tbl tbl' dsdims faces axes :
  Permutation tbl tbl' -> NoDup (map fst tbl) ->
  (assign {| fc_dict := [(fd, tbl)]; fc_dsdims := dsdims; fc_faces := faces; fc_axes := axes |} = Ok tt <->
   assign {| fc_dict := [(fd, tbl')]; fc_dsdims := dsdims; fc_faces := faces; fc_axes := axes |} = Ok tt).
Proof.
  intros HP ND.
  assert (ND' : NoDup (map fst tbl')).
  { eapply Permutation_NoDup; [apply Permutation_map; exact HP | exact ND]. }
  rewrite !assign_iff. unfold accepted_spec. cbn [fc_dict fc_dsdims fc_axes fc_faces].
  split; intros [fd0 [t0 [E [H1 [H2 H3]]]]]; inversion E; subst fd0 t0.
  - exists fd, tbl'. split; [reflexivity|]. split; [exact H1|]. split.
    + intros a Ha. apply H2. eapply axis_keys_perm; [apply Permutation_sym; exact HP | exact Ha].
    + eapply reciprocal_perm; eassumption.
  - exists fd, tbl. split; [reflexivity|]. split; [exact H1|]. split.
    + intros a Ha. apply H2. eapply axis_keys_perm; eassumption.
    + eapply reciprocal_perm; [apply Permutation_sym; exact HP | exact ND' | exact H3].
Qed.
