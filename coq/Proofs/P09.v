(* C09: cumsum is the running sum at the shifted position; diff inverts it. *)
From Coq Require Import List Bool ZArith Lia Arith String.
From XV Require Import Base.Res Base.Assoc Base.Ops Base.Seq1D Base.Tensor
     Model.Axis Model.GridCtor Model.Pad Model.GridOps Model.Dispatch Model.Cumsum
     Spec.S01 Spec.S09 Proofs.TensorLemmas Proofs.P02_pad Proofs.P01.
Import ListNotations.
Open Scope string_scope.
Open Scope nat_scope.
Open Scope list_scope.

Ltac Zify.zify_post_hook ::= Z.to_euclidean_division_equations.

Definition b2z (b : bool) : Z := if b then 1%Z else 0%Z.

(* acceptance predicate over an ARBITRARY shift table: geometry decides the leading
   pad, nothing is padded behind, and the trim makes the length come out right; shifts
   that are not one of the eight have no entry (the else branch raises) *)
Definition cs_entry_ok (from to : pos) (e : bool * (nat * nat)) : bool :=
  (snd (snd e) =? 0) && (fst (snd e) =? leading from to) &&
  (len_delta from - b2z (fst e) =? len_delta to - Z.of_nat (leading from to))%Z.

Definition all_pairs : list (pos * pos) :=
  flat_map (fun a => map (fun b => (a, b)) all_pos) all_pos.

Definition cs_table_ok (tbl : list ((pos * pos) * (bool * (nat * nat)))) : bool :=
  forallb (fun ft => match lookup_shift ft tbl with
                     | Some e => valid_shift (fst ft) (snd ft) && cs_entry_ok (fst ft) (snd ft) e
                     | None => negb (valid_shift (fst ft) (snd ft))
                     end) all_pairs.

Lemma shift_eqb_spec a b : shift_eqb a b = true <-> a = b.
Proof.
  destruct a as [a1 a2], b as [b1 b2]. unfold shift_eqb. simpl.
  rewrite andb_true_iff, !pos_eqb_spec. split; [intros [-> ->]; reflexivity|].
  intros H; inversion H; auto.
Qed.

Lemma count_before_lead from to k : valid_shift from to = true ->
  count_before from to (Z.of_nat (leading from to + k)) = Z.of_nat (k + 1).
Proof.
  unfold leading, count_before, coord2.
  destruct from, to; simpl valid_shift; intros H; try discriminate;
    match goal with |- context [if ?b then _ else _] => destruct b eqn:E end; lia.
Qed.

Section OneD.
  Context {A : Type} (o : Ops A).

  Lemma cumsum_from_length acc (x : list A) : List.length (cumsum_from o acc x) = List.length x.
  Proof. revert acc; induction x as [|a x IH]; intros acc; simpl; [reflexivity|]. rewrite IH. reflexivity. Qed.

  Lemma cumsum_length (x : list A) : List.length (cumsum o x) = List.length x.
  Proof. apply cumsum_from_length. Qed.

  Lemma cumsum_from_nth (x : list A) : forall acc j d, j < List.length x ->
    nth j (cumsum_from o acc x) d = fold_left (add o) (firstn (j + 1) x) acc.
  Proof.
    induction x as [|a x IH]; intros acc j d H; simpl in H; [lia|].
    destruct j as [|j]; simpl.
    - destruct x; reflexivity.
    - rewrite IH by lia. reflexivity.
  Qed.

  Lemma cumsum_nth (x : list A) j d : j < List.length x ->
    nth j (cumsum o x) d = running o x (j + 1).
  Proof. intros H. unfold cumsum, running. apply cumsum_from_nth, H. Qed.

  Lemma nth_removelast (x : list A) j d : j < List.length x - 1 ->
    nth j (removelast x) d = nth j x d.
  Proof.
    revert j; induction x as [|a [|b x] IH]; intros j H; simpl in H; try lia.
    change (removelast (a :: b :: x)) with (a :: removelast (b :: x)).
    destruct j as [|j]; [reflexivity|]. simpl nth. apply IH. simpl. lia.
  Qed.

  Lemma removelast_length (x : list A) : List.length (removelast x) = List.length x - 1.
  Proof.
    induction x as [|a [|b x] IH]; try reflexivity.
    change (removelast (a :: b :: x)) with (a :: removelast (b :: x)).
    simpl List.length in *. rewrite IH. lia.
  Qed.

  Definition trimmed (trim : bool) (y : list A) : list A := if trim then removelast y else y.

  (* the cumsum'd (and possibly trimmed) column is the list of running sums at the
     target points that have an input before them *)
  Lemma trimmed_cumsum_body from to trim lo hi N (x : list A) :
    valid_shift from to = true -> cs_entry_ok from to (trim, (lo, hi)) = true ->
    1 <= N -> List.length x = plen from N ->
    trimmed trim (cumsum o x) = body o x from to N.
  Proof.
    intros Hv Hok HN Hlen. unfold cs_entry_ok in Hok. simpl in Hok.
    apply andb_true_iff in Hok. destruct Hok as [Hok H3].
    apply andb_true_iff in Hok. destruct Hok as [H1 H2].
    apply Nat.eqb_eq in H1, H2. apply Z.eqb_eq in H3.
    pose proof (plen_delta from N HN) as Pf. pose proof (plen_delta to N HN) as Pt.
    assert (Hl : List.length (trimmed trim (cumsum o x)) = plen to N - leading from to).
    { unfold trimmed. destruct trim; rewrite ?removelast_length, cumsum_length; simpl b2z in H3; lia. }
    apply nth_ext with (d := zero o) (d' := zero o).
    - rewrite Hl. unfold body. rewrite map_length, seq_length. reflexivity.
    - intros k Hk. rewrite Hl in Hk. unfold body.
      set (F := fun j => running o x (Z.to_nat (count_before from to (Z.of_nat j)))).
      assert (R : nth k (map F (seq (leading from to) (plen to N - leading from to))) (zero o)
                  = F (leading from to + k)).
      { rewrite nth_indep with (d' := F 0) by (rewrite map_length, seq_length; exact Hk).
        rewrite (map_nth F). rewrite seq_nth by exact Hk. reflexivity. }
      rewrite R. unfold F. rewrite count_before_lead by exact Hv.
      rewrite Nat2Z.id.
      unfold trimmed. destruct trim.
      + rewrite nth_removelast by (rewrite cumsum_length; simpl b2z in H3; lia).
        apply cumsum_nth. simpl b2z in H3. lia.
      + apply cumsum_nth. simpl b2z in H3. lia.
  Qed.

  (* C09, 1-D: cumsum -> trim -> pad gives at every target point the sum of all inputs
     lying before it, and where none does, the value the boundary rule supplies *)
  Theorem cumsum_1d from to trim lo hi N r c (x : list A) d :
    valid_shift from to = true -> cs_entry_ok from to (trim, (lo, hi)) = true ->
    1 <= N -> List.length x = plen from N -> 1 <= plen to N - leading from to ->
    List.length (pad1 r c lo hi (trimmed trim (cumsum o x))) = plen to N /\
    forall j, j < plen to N ->
      nth j (pad1 r c lo hi (trimmed trim (cumsum o x))) d = spec_cumsum o r c x from to N j.
  Proof.
    intros Hv Hok HN Hlen Hpos.
    rewrite (trimmed_cumsum_body from to trim lo hi N x Hv Hok HN Hlen).
    unfold cs_entry_ok in Hok. simpl in Hok.
    apply andb_true_iff in Hok. destruct Hok as [Hok H3].
    apply andb_true_iff in Hok. destruct Hok as [H1 H2].
    apply Nat.eqb_eq in H1, H2. subst hi lo.
    assert (Hb : List.length (body o x from to N) = plen to N - leading from to).
    { unfold body. rewrite map_length, seq_length. reflexivity. }
    assert (Hl1 : leading from to <= 1).
    { unfold leading. destruct (count_before from to 0 =? 0)%Z; auto. }
    split.
    - rewrite pad1_length; rewrite Hb; lia.
    - intros j Hj. unfold spec_cumsum. apply pad1_nth; rewrite Hb; lia.
  Qed.

  Lemma running_succ (x : list A) j d : j < List.length x ->
    running o x (j + 1) = add o (running o x j) (nth j x d).
  Proof.
    intros H. unfold running.
    replace (firstn (j + 1) x) with (firstn j x ++ [nth j x d]).
    - rewrite fold_left_app. reflexivity.
    - revert j H. induction x as [|a x IH]; intros j H; simpl in H; [lia|].
      destruct j as [|j]; simpl; [destruct x; reflexivity|]. f_equal. apply IH. lia.
  Qed.

  (* the cumsum to the outer position with zero fill, as a list: entry j is the sum of
     the first j values *)
  Lemma cumsum_outer_nth (x : list A) j d : j <= List.length x ->
    nth j (pad1 Fill (zero o) 1 0 (cumsum o x)) d = running o x j.
  Proof.
    intros H. simpl pad1. destruct j as [|j]; [reflexivity|].
    simpl nth. rewrite app_nth1 by (rewrite cumsum_length; lia).
    rewrite cumsum_nth by lia. f_equal. lia.
  Qed.

  (* C09, inverse: differencing (outer -> center, no padding needed) the cumsum taken
     to the outer position with zero fill returns the original column, in any carrier
     where (a + b) - a = b *)
  Theorem diff_cumsum_outer (x : list A) :
    (forall a b, sub o (add o a b) a = b) ->
    window2 (fun a b => sub o b a) (pad1 Fill (zero o) 1 0 (cumsum o x)) = x.
  Proof.
    intros Hlaw.
    assert (Hlen : List.length (pad1 Fill (zero o) 1 0 (cumsum o x)) = List.length x + 1).
    { simpl. rewrite app_length, cumsum_length. simpl. lia. }
    apply nth_ext with (d := zero o) (d' := zero o).
    - rewrite window2_length, Hlen. lia.
    - intros j Hj. rewrite window2_length, Hlen in Hj.
      rewrite window2_nth by (rewrite Hlen; lia).
      rewrite !cumsum_outer_nth by lia.
      rewrite (running_succ x j (zero o)) by lia. apply Hlaw.
  Qed.

  (* the last value on outer (and right) targets is the total: what integrate sums *)
  Theorem cumsum_outer_last (x : list A) d :
    nth (List.length x) (pad1 Fill (zero o) 1 0 (cumsum o x)) d = fold_left (add o) x (zero o).
  Proof.
    rewrite cumsum_outer_nth by lia. unfold running. rewrite firstn_all. reflexivity.
  Qed.

  Theorem cumsum_right_last (x : list A) d : 1 <= List.length x ->
    nth (List.length x - 1) (cumsum o x) d = fold_left (add o) x (zero o).
  Proof.
    intros H. rewrite cumsum_nth by lia. unfold running.
    replace (List.length x - 1 + 1) with (List.length x) by lia.
    rewrite firstn_all. reflexivity.
  Qed.
End OneD.

Lemma Tie_cumsum_canon : cs_table_ok cumsum_table = true.
Proof. vm_compute. reflexivity. Qed.

(* --- one axis of an N-d array ---------------------------------------------------- *)

Local Arguments pad : simpl never.
Local Arguments resolve_one : simpl never.

Section Step.
  Context {A : Type} (o : Ops A).

  Lemma cs_table_lookup tbl from to : cs_table_ok tbl = true -> valid_shift from to = true ->
    exists e, lookup_shift (from, to) tbl = Some e /\ cs_entry_ok from to e = true.
  Proof.
    unfold cs_table_ok. rewrite forallb_forall. intros H Hv.
    assert (Hin : In (from, to) all_pairs) by (destruct from, to; simpl; tauto).
    specialize (H _ Hin). simpl in H.
    destruct (lookup_shift (from, to) tbl) as [e|].
    - exists e. apply andb_true_iff in H. tauto.
    - rewrite Hv in H. discriminate.
  Qed.

  (* C09, one axis of an N-d array, for ANY shift table passing the acceptance
     predicate: the result has the input's dimensions in the input's order with the axis
     dimension replaced by the target position's dimension and length, and at every
     point the running sum of the column through it. *)
  Theorem cumsum_step_spec tbl (g : grid A) dssizes (c : callcs (A:=A)) orig (t : tensor A) axn
          a from tp dim newdim r cf N :
    cs_table_ok tbl = true -> wf t ->
    find_axis g axn = Ok a -> get_position_name a orig = Ok (from, dim) ->
    target_pos a (cs_to c) from = Ok tp -> valid_shift from tp = true ->
    dhas dim (dims t) = true -> lookupP tp (ax_coords a) = Some newdim ->
    dhas newdim (dims t) = false ->
    words_known (complete_kwargs g (@ax_boundary A) (cs_boundary c)) = true ->
    (forall lo hi (t' : tensor A),
        resolve_one (zero o) g (dnames (dims t'))
                    (complete_kwargs g (@ax_boundary A) (cs_boundary c))
                    (complete_kwargs g (@ax_fill A) (cs_fill c)) (axn, (lo, hi))
        = Ok {| ps_dim := dim; ps_rule := r; ps_fill := cf; ps_lo := lo; ps_hi := hi |}) ->
    1 <= N -> 1 <= plen tp N - leading from tp ->
    size dim t = plen from N -> dsize newdim dssizes = plen tp N ->
    exists res, cumsum_step o tbl g dssizes c orig t axn = Ok res /\
      dims res = dreplace dim (newdim, plen tp N) (dims t) /\
      forall e, e newdim < plen tp N ->
        get res e = spec_cumsum o r cf (column t dim (upd e dim (e newdim))) from tp N (e newdim).
  Proof.
    intros Htbl Hwf Hax Hpos Htp Hv Hhas Hnew Hfresh Hknown Hres HN Hlead Hsize Hds.
    destruct (cs_table_lookup tbl from tp Htbl Hv) as ([trim [lo hi]] & Hlk & Hok).
    unfold cumsum_step. rewrite Hax. cbn [bind]. rewrite Hpos. cbn [bind fst snd].
    rewrite Htp. cbn [bind]. rewrite Hlk.
    (* the cumsum'd and trimmed array *)
    set (d1 := map_dim (zero o) dim dim (size dim t) (cumsum o) t).
    assert (Hwf1 : wf d1) by (apply wf_map_dim; assumption).
    assert (Hhas1 : dhas dim (dims d1) = true) by (unfold d1; rewrite map_dim_has; exact Hhas).
    assert (Hcol1 : forall e, column d1 dim e = cumsum o (column t dim e)).
    { intros e. apply column_map_dim; auto. rewrite cumsum_length, column_length. reflexivity. }
    assert (Hsz1 : size dim d1 = size dim t) by (apply map_dim_size_same, Hhas).
    set (d2 := if trim then map_dim (zero o) dim dim (size dim t - 1) (@removelast A) d1 else d1).
    assert (H2 : wf d2 /\ dhas dim (dims d2) = true /\
                 (forall e, column d2 dim e = trimmed trim (cumsum o (column t dim e))) /\
                 size dim d2 = size dim t - (if trim then 1 else 0)).
    { unfold d2. destruct trim.
      - split; [apply wf_map_dim; assumption|]. split; [rewrite map_dim_has; exact Hhas1|].
        split.
        + intros e. simpl trimmed. rewrite <- Hcol1. apply column_map_dim; auto.
          rewrite removelast_length, column_length, Hsz1. reflexivity.
        + apply map_dim_size_same, Hhas1.
      - repeat split; auto. lia. }
    destruct H2 as (Hwf2 & Hhas2 & Hcol2 & Hsz2).
    (* lengths *)
    pose proof Hok as Hok'. unfold cs_entry_ok in Hok'. simpl in Hok'.
    apply andb_true_iff in Hok'. destruct Hok' as [Hok' E3].
    apply andb_true_iff in Hok'. destruct Hok' as [E1 E2].
    apply Nat.eqb_eq in E1, E2. apply Z.eqb_eq in E3.
    pose proof (plen_delta from N HN) as Pf. pose proof (plen_delta tp N HN) as Pt.
    assert (Hl1 : leading from tp <= 1).
    { unfold leading. destruct (count_before from tp 0 =? 0)%Z; auto. }
    assert (Hlen2 : size dim d2 = plen tp N - leading from tp).
    { rewrite Hsz2, Hsize. destruct trim; simpl b2z in E3; lia. }
    set (p := {| ps_dim := dim; ps_rule := r; ps_fill := cf; ps_lo := lo; ps_hi := hi |}).
    assert (Hpok : ps_ok d2 p).
    { unfold ps_ok; simpl. rewrite Hlen2. repeat split; auto; lia. }
    assert (Hpad : exists padded,
               pad (zero o) g d2 (Some [(axn, (lo, hi))]) (cs_boundary c) (cs_fill c) = Ok padded /\
               dims padded = dreplace dim (dim, plen tp N) (dims t) /\ wf padded /\
               forall e, column padded dim e = pad1 r cf lo hi (column d2 dim e)).
    { assert (Hd2dims : dreplace dim (dim, lo + size dim d2 + hi) (dims d2)
                        = dreplace dim (dim, plen tp N) (dims t)).
      { replace (lo + size dim d2 + hi) with (plen tp N) by lia.
        unfold d2, d1. destruct trim; simpl; clear;
          induction (dims t) as [|[d' n] rr IH]; try reflexivity; simpl;
          destruct (String.eqb d' dim) eqn:E; simpl; rewrite ?String.eqb_refl, ?E; simpl;
          rewrite ?String.eqb_refl, ?E; try reflexivity; f_equal; exact IH. }
      unfold pad. rewrite Hknown. cbn [negb]. simpl forallb.
      destruct ((lo =? 0) && (hi =? 0) && true) eqn:Z0.
      - exists d2. apply andb_true_iff in Z0. destruct Z0 as [Z0 _].
        apply andb_true_iff in Z0. destruct Z0 as [Z1 Z2].
        apply Nat.eqb_eq in Z1, Z2.
        split; [reflexivity|]. split.
        + rewrite <- Hd2dims. rewrite Z1, Z2. simpl. rewrite Nat.add_0_r.
          clear - Hhas2. unfold size. induction (dims d2) as [|[d' n] rr IH]; [reflexivity|].
          simpl. destruct (String.eqb d' dim) eqn:E.
          * apply String.eqb_eq in E. subst. rewrite dsize_cons_eq. reflexivity.
          * apply String.eqb_neq in E. rewrite dsize_cons_neq by congruence.
            rewrite dhas_cons_neq in Hhas2 by congruence. rewrite <- IH by exact Hhas2. reflexivity.
        + split; [exact Hwf2|]. intros e. rewrite Z1, Z2, pad1_00. reflexivity.
      - cbn [resolve_all]. rewrite (Hres lo hi d2). cbn [bind]. exists (pad_dim (zero o) p d2).
        split; [reflexivity|]. split; [exact Hd2dims|]. split.
        + apply pad_dim_wf; assumption.
        + intros e. apply (column_pad_dim o p d2 e Hwf2 Hpok). }
    destruct Hpad as (padded & Hp & Hpd & Hwfp & Hpc).
    rewrite Hp. cbn [bind]. rewrite Hnew. cbn [bind].
    assert (Hsp : size dim padded = plen tp N)
      by (unfold size; rewrite Hpd; apply dsize_dreplace_same, Hhas).
    assert (Hrs : size newdim (rename_dim dim newdim padded) = plen tp N).
    { unfold size at 1, rename_dim. simpl. rewrite Hsp, Hpd.
      clear - Hhas Hfresh. induction (dims t) as [|[d' n] rr IH]; [rewrite dhas_nil in Hhas; discriminate|].
      simpl. destruct (String.eqb d' dim) eqn:E; simpl.
      - rewrite String.eqb_refl. apply dsize_cons_eq.
      - rewrite E. destruct (string_dec newdim d') as [->|Hne].
        + rewrite dhas_cons_eq in Hfresh. discriminate.
        + rewrite dsize_cons_neq by exact Hne. apply IH.
          * apply String.eqb_neq in E. rewrite dhas_cons_neq in Hhas by congruence. exact Hhas.
          * rewrite dhas_cons_neq in Hfresh by exact Hne. exact Hfresh. }
    rewrite Hrs, Hds, Nat.eqb_refl. cbn [negb].
    eexists. split; [reflexivity|]. split.
    - unfold rename_dim. simpl. rewrite Hsp, Hpd.
      clear. induction (dims t) as [|[d' n] rr IH]; [reflexivity|].
      simpl. destruct (String.eqb d' dim) eqn:E; simpl.
      + rewrite String.eqb_refl. reflexivity.
      + rewrite E. f_equal. exact IH.
    - intros e He. unfold rename_dim. simpl.
      set (e' := upd e dim (e newdim)).
      assert (He' : e' dim = e newdim) by (unfold e'; apply upd_same).
      replace (get padded e') with (nth (e' dim) (column padded dim e') (zero o)).
      + rewrite Hpc, Hcol2, He'.
        destruct (cumsum_1d o from tp trim lo hi N r cf (column t dim e') (zero o)) as [_ Hv'];
          auto.
        rewrite column_length. exact Hsize.
      + rewrite column_nth by (rewrite Hsp, He'; exact He).
        apply Hwfp. intros d0 _. unfold e'.
        destruct (string_dec d0 dim) as [->|Hne].
        * rewrite !upd_same. reflexivity.
        * rewrite !upd_other by exact Hne. reflexivity.
  Qed.
End Step.
