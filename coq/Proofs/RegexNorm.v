(* Normal form of regular expressions modulo associativity of concatenation and the unit
   Eps, with the proof that it preserves the language: used to compare the flat terms the
   translator produces from the pattern text with the structured canonical patterns. *)
From Coq Require Import List Bool Ascii.
From XV Require Import Base.Regex.
Import ListNotations.

Fixpoint mk_cat (l : list re) : re :=
  match l with
  | [] => Eps
  | [x] => x
  | x :: r => Cat x (mk_cat r)
  end.

Fixpoint items (r : re) : list re :=
  match r with
  | Eps => []
  | Cat a b => items a ++ items b
  | Alt a b => [Alt (mk_cat (items a)) (mk_cat (items b))]
  | Star a => [Star (mk_cat (items a))]
  | _ => [r]
  end.
Definition norm (r : re) : re := mk_cat (items r).

Definition leq (a b : re) : Prop := forall s, lang a s <-> lang b s.

Lemma lang_cat_eps_r a s : lang (Cat a Eps) s <-> lang a s.
Proof.
  split.
  - intros H. apply lang_cat_inv in H. destruct H as (s1 & s2 & -> & H1 & H2).
    apply lang_eps_inv in H2. subst. rewrite app_nil_r. exact H1.
  - intros H. rewrite <- (app_nil_r s). constructor; [exact H|constructor].
Qed.

Lemma lang_mk_cat_cons x l s : lang (mk_cat (x :: l)) s <-> lang (Cat x (mk_cat l)) s.
Proof. destruct l; [simpl; symmetry; apply lang_cat_eps_r|reflexivity]. Qed.

Lemma lang_mk_cat_app l1 l2 s : lang (mk_cat (l1 ++ l2)) s <-> lang (Cat (mk_cat l1) (mk_cat l2)) s.
Proof.
  revert s. induction l1 as [|x l1 IH]; intros s.
  - simpl. split.
    + intros H. change s with ([] ++ s). constructor; [constructor|exact H].
    + intros H. apply lang_cat_inv in H. destruct H as (s1 & s2 & -> & H1 & H2).
      apply lang_eps_inv in H1. subst. exact H2.
  - change ((x :: l1) ++ l2) with (x :: (l1 ++ l2)). rewrite lang_mk_cat_cons. split.
    + intros H. apply lang_cat_inv in H. destruct H as (s1 & s2 & -> & H1 & H2).
      apply IH in H2. apply lang_cat_inv in H2. destruct H2 as (s3 & s4 & -> & H3 & H4).
      rewrite app_assoc. constructor; [|exact H4]. apply lang_mk_cat_cons. constructor; assumption.
    + intros H. apply lang_cat_inv in H. destruct H as (s1 & s2 & -> & H1 & H2).
      apply lang_mk_cat_cons in H1. apply lang_cat_inv in H1. destruct H1 as (s3 & s4 & -> & H3 & H4).
      rewrite <- app_assoc. constructor; [exact H3|]. apply IH. constructor; assumption.
Qed.

Lemma leq_star a b : leq a b -> leq (Star a) (Star b).
Proof.
  intros H s. rewrite !lang_star_pieces. split; intros (ps & -> & F); exists ps; split; auto;
    eapply Forall_impl; [|exact F| |exact F]; intros x Hx; apply H; exact Hx.
Qed.

Theorem norm_lang r : leq (norm r) r.
Proof.
  unfold norm. induction r; intros s; simpl; try tauto.
  - (* Cat *)
    rewrite lang_mk_cat_app. split; intros H; apply lang_cat_inv in H;
      destruct H as (s1 & s2 & -> & H1 & H2); constructor;
      try (apply IHr1; exact H1); try (apply IHr2; exact H2).
  - split; intros H; apply lang_alt_inv in H; destruct H as [H|H];
      solve [apply L_altl, IHr1; exact H | apply L_altr, IHr2; exact H].
  - apply leq_star. exact IHr.
Qed.

(* two patterns with the same normal form denote the same language *)
Corollary norm_eq_leq a b : norm a = norm b -> leq a b.
Proof.
  intros H s. rewrite <- (norm_lang a s), <- (norm_lang b s), H. tauto.
Qed.
