(* Tie: every place of the anchored files where a statically set-typed expression is
   consumed in order (for / comprehension / list / zip / star / itertools ...) is one of the
   sites known to be insensitive to that order.  Reflection over the inventory regenerated
   from /repo on this run: a new set-iteration site makes this lemma fail. *)
From Coq Require Import List Bool String.
From XV Require Import Generated.G9.
Import ListNotations.
Open Scope string_scope.

Definition site_eqb (a b : string * string * string * string) : bool :=
  let '(a1, a2, a3, a4) := a in let '(b1, b2, b3, b4) := b in
  String.eqb a1 b1 && String.eqb a2 b2 && String.eqb a3 b3 && String.eqb a4 b4.

(* why each is benign is stated next to it *)
Definition benign_sites : list (string * string * string * string) :=
  [ (* frozenset( *overlap_metrics): the set holds exactly one tuple (one registry key per axes set) *)
    ("grid.py", "get_metric", "star", "overlap_metrics");
    (* in that branch the name is rebound to a list (the analysis is per name): the list of
       the registered metrics of every block of a partition, in the order of the blocks *)
    ("grid.py", "get_metric", "for", "possible_metric_vars");
    (* builds the list shown in an error message; emptiness is all that matters *)
    ("grid.py", "set_metrics", "comprehension", "metric_axes");
    (* any(...) over the positions: order-insensitive *)
    ("grid_ufunc.py", "_check_if_length_would_change", "comprehension", "all_ax_positions");
    (* list shown in an error message *)
    ("grid_ufunc.py", "as_grid_ufunc", "list", "kwargs.keys() - _allowedkwargs") ].

Lemma Tie_set_iteration_sites :
  forallb (fun s => existsb (site_eqb s) benign_sites) gen_set_iteration_sites = true.
Proof. vm_compute. reflexivity. Qed.
