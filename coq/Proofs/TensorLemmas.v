(* Characterising lemmas of the tensor primitives. *)
From Coq Require Import List Bool ZArith Lia Arith String.
From XV Require Import Base.Assoc Base.Seq1D Base.Tensor.
Import ListNotations.
Open Scope string_scope.
Open Scope nat_scope.
Open Scope list_scope.

Lemma upd_same e d i : upd e d i d = i.
Proof. unfold upd. rewrite String.eqb_refl. reflexivity. Qed.
Lemma upd_other e d i d' : d' <> d -> upd e d i d' = e d'.
Proof. unfold upd. intros H. apply String.eqb_neq in H. rewrite H. reflexivity. Qed.

Lemma dsize_cons_eq d n r : dsize d ((d, n) :: r) = n.
Proof. unfold dsize, lookupS. simpl. rewrite String.eqb_refl. reflexivity. Qed.
Lemma dsize_cons_neq d d' n r : d <> d' -> dsize d ((d', n) :: r) = dsize d r.
Proof. unfold dsize, lookupS. simpl. intros H. apply String.eqb_neq in H. rewrite H. reflexivity. Qed.
Lemma dhas_cons_eq d n r : dhas d ((d, n) :: r) = true.
Proof. unfold dhas, lookupS. simpl. rewrite String.eqb_refl. reflexivity. Qed.
Lemma dhas_cons_neq d d' n r : d <> d' -> dhas d ((d', n) :: r) = dhas d r.
Proof. unfold dhas, lookupS. simpl. intros H. apply String.eqb_neq in H. rewrite H. reflexivity. Qed.
Lemma dhas_nil d : dhas d [] = false.
Proof. reflexivity. Qed.

Lemma dhas_In d ds : dhas d ds = true <-> In d (dnames ds).
Proof.
  induction ds as [|[d' n] r IH]; simpl.
  - rewrite dhas_nil. split; [discriminate|tauto].
  - destruct (string_dec d d') as [->|Hne].
    + rewrite dhas_cons_eq. split; auto.
    + rewrite dhas_cons_neq by exact Hne. rewrite IH. split; [auto|].
      intros [H|H]; [congruence|exact H].
Qed.

Lemma dsize_dreplace_same d m ds : dhas d ds = true -> dsize d (dreplace d (d, m) ds) = m.
Proof.
  induction ds as [|[d' n] r IH]; simpl; intros H.
  - rewrite dhas_nil in H. discriminate.
  - destruct (String.eqb d' d) eqn:E.
    + apply dsize_cons_eq.
    + apply String.eqb_neq in E. rewrite dsize_cons_neq by congruence.
      apply IH. rewrite dhas_cons_neq in H by congruence. exact H.
Qed.

Lemma dsize_dreplace_other d d0 m ds : d0 <> d -> dsize d0 (dreplace d (d, m) ds) = dsize d0 ds.
Proof.
  intros Hne. induction ds as [|[d' n] r IH]; simpl; [reflexivity|].
  destruct (String.eqb d' d) eqn:E.
  - apply String.eqb_eq in E. subst d'. rewrite !dsize_cons_neq by exact Hne. reflexivity.
  - destruct (string_dec d0 d') as [->|H'].
    + rewrite !dsize_cons_eq. reflexivity.
    + rewrite !dsize_cons_neq by exact H'. exact IH.
Qed.

Lemma dnames_dreplace_same d m ds : dnames (dreplace d (d, m) ds) = dnames ds.
Proof.
  induction ds as [|[d' n] r IH]; simpl; [reflexivity|].
  destruct (String.eqb d' d) eqn:E; simpl.
  - apply String.eqb_eq in E. subst. reflexivity.
  - f_equal. exact IH.
Qed.

Lemma dhas_dreplace_same d0 d m ds : dhas d0 (dreplace d (d, m) ds) = dhas d0 ds.
Proof.
  apply eq_true_iff_eq. rewrite !dhas_In, dnames_dreplace_same. tauto.
Qed.

Section Lemmas.
  Context {A : Type} (dflt : A).

  Lemma column_length (t : tensor A) d e : List.length (column t d e) = size d t.
  Proof. unfold column. rewrite map_length, seq_length. reflexivity. Qed.

  Lemma column_nth (t : tensor A) d e i x : i < size d t ->
    nth i (column t d e) x = get t (upd e d i).
  Proof.
    intros H. unfold column.
    rewrite nth_indep with (d' := get t (upd e d 0)) by (rewrite map_length, seq_length; exact H).
    change (get t (upd e d 0)) with ((fun i => get t (upd e d i)) 0).
    rewrite map_nth. rewrite seq_nth by exact H. reflexivity.
  Qed.

  (* the column does not look at the environment's own value at d *)
  Lemma column_ext (t : tensor A) d e e' : wf t ->
    (forall d', d' <> d -> In d' (dnames (dims t)) -> e d' = e' d') ->
    column t d e = column t d e'.
  Proof.
    intros Hwf H. unfold column. apply map_ext. intros i. apply Hwf.
    intros d' Hd'. destruct (string_dec d' d) as [->|Hne].
    - rewrite !upd_same. reflexivity.
    - rewrite !upd_other by exact Hne. apply H; assumption.
  Qed.

  Lemma wf_map_dim d m f (t : tensor A) : wf t -> dhas d (dims t) = true ->
    wf (map_dim dflt d d m f t).
  Proof.
    intros Hwf Hd e e' H. simpl in *. rewrite dnames_dreplace_same in H.
    rewrite (H d) by (apply dhas_In; exact Hd).
    f_equal. f_equal. apply column_ext; [exact Hwf|]. intros d' _ Hin. apply H, Hin.
  Qed.

  Lemma map_dim_size_same d m f (t : tensor A) : dhas d (dims t) = true ->
    size d (map_dim dflt d d m f t) = m.
  Proof. intros H. unfold size, map_dim. simpl. apply dsize_dreplace_same, H. Qed.

  Lemma map_dim_has d0 d m f (t : tensor A) :
    dhas d0 (dims (map_dim dflt d d m f t)) = dhas d0 (dims t).
  Proof. unfold map_dim. simpl. apply dhas_dreplace_same. Qed.

  (* the column of a column-wise mapped array is the mapped column *)
  Lemma column_map_dim d m f (t : tensor A) e : wf t -> dhas d (dims t) = true ->
    List.length (f (column t d e)) = m ->
    column (map_dim dflt d d m f t) d e = f (column t d e).
  Proof.
    intros Hwf Hd Hlen.
    assert (Hcol : forall i, column t d (upd e d i) = column t d e).
    { intros i. apply column_ext; [exact Hwf|]. intros d' Hne _. apply upd_other, Hne. }
    apply nth_ext with (d := dflt) (d' := dflt).
    - rewrite column_length, map_dim_size_same by exact Hd. symmetry. exact Hlen.
    - intros k Hk. rewrite column_length, map_dim_size_same in Hk by exact Hd.
      rewrite column_nth by (rewrite map_dim_size_same by exact Hd; exact Hk).
      unfold map_dim. simpl. rewrite upd_same, Hcol. reflexivity.
  Qed.

  Lemma wf_of_list ds vals : wf (of_list dflt ds vals).
  Proof.
    intros e e' H. simpl in *. f_equal.
    induction ds as [|[d n] r IH]; simpl; [reflexivity|].
    rewrite (H d) by (left; reflexivity). f_equal. apply IH.
    intros d' Hd'. apply H. right. exact Hd'.
  Qed.
End Lemmas.
