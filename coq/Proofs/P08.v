(* C08: the translated linear kernel returns the piecewise-linear interpolant. *)
From Coq Require Import List Bool Arith Reals Lra Lia.
From XV Require Import Base.Res Base.Ops Base.ROps Base.Kernel Base.Seq1D Model.Transform Proofs.P07.
Import ListNotations.
Open Scope R_scope.

Lemma pl_end (a b d : R) : d <> 0 -> a = b + (a - b) * d / d.
Proof. intros. field. assumption. Qed.
Lemma pl_node (a c t d : R) : d <> 0 -> a = a + c * (t - t) / d.
Proof. intros. field. assumption. Qed.
Lemma pl_mid (a c x t d : R) : d <> 0 -> c / d * (x - t) + a = a + c * (x - t) / d.
Proof. intros. field. assumption. Qed.

Section PL.
  Variable nv : R.      (* whatever stands for NaN: the theorems hold for any marker *)

  Lemma not_nan_id (l : list R) : not_nan Rnotnan l = l.
  Proof. unfold not_nan, Rnotnan. induction l as [|a l IH]; [reflexivity|]. cbn [filter negb]. f_equal. exact IH. Qed.

  (* --- the search inside np.interp ------------------------------------------------- *)
  Lemma last_le_spec x : forall xp j0 best, increasing xp ->
    let j := last_le ROps x xp j0 best in
    (j = best /\ (xp = [] \/ x < hd 0 xp)) \/
    (exists k, (k < List.length xp)%nat /\ j = (j0 + k)%nat /\ nth k xp 0 <= x /\
               ((k + 1 < List.length xp)%nat -> x < nth (k + 1) xp 0)).
  Proof.
    induction xp as [|a xp IH]; intros j0 best Hinc; cbv zeta.
    - left. simpl. auto.
    - simpl last_le. destruct (Rle_dec a x) as [E|E].
      + 
        assert (Hinc' : increasing xp) by (destruct xp; simpl in *; tauto).
        destruct (IH (S j0) j0 Hinc') as [[Hj Hx]|(k & Hk & Hj & Hle & Hlt)].
        * right. exists 0%nat. simpl. split; [lia|]. split; [rewrite Hj; lia|]. split; [exact E|].
          intros Hlen. destruct Hx as [->|Hx]; [simpl in Hlen; lia|]. destruct xp; simpl in *; [lia|exact Hx].
        * right. exists (S k). simpl. split; [lia|]. split; [rewrite Hj; lia|]. split; [exact Hle|].
          intros Hlen. apply Hlt. lia.
      + apply Rnot_le_lt in E. left. split; [reflexivity|]. right. simpl. exact E.
  Qed.

  Lemma increasing_nth_lt xp i j : increasing xp -> (i < j)%nat -> (j < List.length xp)%nat ->
    nth i xp 0 < nth j xp 0.
  Proof.
    revert i j. induction xp as [|a [|b r] IH]; intros i j Hinc Hij Hj; simpl in Hj; try lia.
    destruct Hinc as [Hab Hinc]. destruct j as [|j]; [lia|]. destruct i as [|i].
    - simpl nth at 1. destruct j as [|j]; [simpl; exact Hab|].
      apply Rlt_trans with b; [exact Hab|]. apply (IH 0%nat (S j) Hinc); simpl; lia.
    - simpl. apply (IH i j Hinc); simpl in *; lia.
  Qed.

  Lemma last_is_nth (l : list R) : l <> [] -> last l 0 = nth (List.length l - 1) l 0.
  Proof.
    induction l as [|a [|b r] IH]; intros H; [contradiction|reflexivity|].
    change (last (a :: b :: r) 0) with (last (b :: r) 0). rewrite IH by discriminate.
    simpl. rewrite Nat.sub_0_r. reflexivity.
  Qed.

  (* the piecewise-linear interpolant through (theta_k, phi_k) *)
  Definition pl_at (theta phi : list R) (x v : R) : Prop :=
    exists k, (k + 1 < List.length theta)%nat /\
              nth k theta 0 <= x <= nth (k + 1) theta 0 /\
              v = nth k phi 0 + (nth (k + 1) phi 0 - nth k phi 0) * (x - nth k theta 0)
                                / (nth (k + 1) theta 0 - nth k theta 0).

  (* np.interp at one level, for a strictly increasing profile of at least two points *)
  Lemma interp1_spec theta phi x : increasing theta -> (2 <= List.length theta)%nat ->
    let v := interp1 ROps Rnotnan nv theta phi x in
    (x < nth 0 theta 0 -> v = nth 0 phi 0) /\
    (last theta 0 < x -> v = last phi 0) /\
    (nth 0 theta 0 <= x <= last theta 0 -> pl_at theta phi x v).
  Proof.
    intros Hinc Hlen. cbv zeta. unfold interp1, Rnotnan, idx, idx_last, gtb. simpl zero.
    destruct theta as [|t0 rest] eqn:Eth; [simpl in Hlen; lia|]. rewrite <- Eth in *.
    assert (H0 : nth 0 theta 0 = t0) by (rewrite Eth; reflexivity). rewrite H0.
    assert (Hne : theta <> []) by (rewrite Eth; discriminate).
    assert (Hfl : t0 < last theta 0).
    { rewrite last_is_nth by exact Hne. rewrite <- H0. apply increasing_nth_lt; [exact Hinc|lia|lia]. }
    destruct (ltb ROps x t0) eqn:E1.
    { apply Rltb_iff in E1. repeat split; intros; lra. }
    apply Rltb_false in E1.
    destruct (ltb ROps (last theta 0) x) eqn:E2.
    { apply Rltb_iff in E2. repeat split; intros; lra. }
    apply Rltb_false in E2.
    split; [intros; lra|]. split; [intros; lra|]. intros _.
    destruct (last_le_spec x theta 0%nat 0%nat Hinc) as [[_ [Hx|Hx]]|(k & Hk & Hj & Hle & Hlt)].
    - congruence.
    - rewrite Eth in Hx. simpl in Hx. lra.
    - simpl in Hj. rewrite Hj.
      destruct (Nat.eqb_spec k (List.length theta - 1)) as [Hlast|Hnl]; cbn [orb].
      + (* x = last node *)
        assert (Hx : x = nth k theta 0).
        { rewrite last_is_nth in E2 by exact Hne. rewrite <- Hlast in E2. lra. }
        exists (k - 1)%nat. replace (k - 1 + 1)%nat with k by lia. split; [lia|].
        assert (Hlt' : nth (k - 1) theta 0 < nth k theta 0) by (apply increasing_nth_lt; [exact Hinc|lia|lia]).
        split; [lra|]. rewrite Hx. apply pl_end. lra.
      + destruct (eqb ROps x (nth k theta 0)) eqn:E3.
        * apply Reqb_iff in E3. exists k. split; [lia|]. specialize (Hlt ltac:(lia)).
          assert (Hd : nth k theta 0 < nth (k + 1) theta 0) by (apply increasing_nth_lt; [exact Hinc|lia|lia]).
          split; [lra|]. rewrite E3. apply pl_node. lra.
        * apply Reqb_false in E3. exists k. split; [lia|]. specialize (Hlt ltac:(lia)).
          assert (Hd : nth k theta 0 < nth (k + 1) theta 0) by (apply increasing_nth_lt; [exact Hinc|lia|lia]).
          split; [lra|]. cbn [add sub mul div ROps]. apply pl_mid. lra.
  Qed.

  (* --- the masking loop ------------------------------------------------------------ *)
  Lemma mask_loop_nth (cond : nat -> bool) (out : list R) : forall k, (k <= List.length out)%nat ->
    let r := fold_left (fun (o : list R) i => if cond i then upd_set o i nv else o) (seq 0 k) out in
    List.length r = List.length out /\
    forall j, nth j r 0 = if Nat.ltb j k && cond j then nv else nth j out 0.
  Proof.
    induction k as [|k IH]; intros Hk; cbv zeta.
    - split; [reflexivity|]. intros j. reflexivity.
    - rewrite seq_S, fold_left_app. simpl fold_left.
      destruct (IH ltac:(lia)) as [L N]. cbv zeta in L, N.
      set (r := fold_left (fun (o : list R) i => if cond i then upd_set o i nv else o) (seq 0 k) out) in *.
      destruct (cond k) eqn:Ck.
      + split; [rewrite upd_set_length; exact L|]. intros j. rewrite upd_set_nth, L.
        destruct (Nat.eqb_spec j k) as [->|Hne]; simpl.
        * destruct (Nat.ltb_spec k (List.length out)); [|lia].
          destruct (Nat.ltb_spec k (S k)); [|lia]. rewrite Ck. reflexivity.
        * rewrite N. destruct (Nat.ltb_spec j k); destruct (Nat.ltb_spec j (S k)); try lia; reflexivity.
      + split; [exact L|]. intros j. rewrite N.
        destruct (Nat.eqb_spec j k) as [->|Hne].
        * destruct (Nat.ltb_spec k k); [lia|]. destruct (Nat.ltb_spec k (S k)); [|lia]. rewrite Ck. reflexivity.
        * destruct (Nat.ltb_spec j k); destruct (Nat.ltb_spec j (S k)); try lia; reflexivity.
  Qed.

  Lemma nanmax_increasing theta : increasing theta -> theta <> [] ->
    nanmax ROps Rnotnan nv theta = last theta 0.
  Proof.
    intros Hinc Hne. unfold nanmax. rewrite not_nan_id.
    destruct theta as [|a r]; [contradiction|]. clear Hne.
    revert a Hinc. induction r as [|b r IH]; intros a Hinc; [reflexivity|].
    destruct Hinc as [Hab Hinc]. cbn [fold_left].
    assert (E : gtb ROps b a = true) by (unfold gtb; apply Rltb_iff; exact Hab).
    rewrite E. change (last (a :: b :: r) 0) with (last (b :: r) 0). apply (IH b Hinc).
  Qed.

  Lemma nanmin_increasing theta : increasing theta -> theta <> [] ->
    nanmin ROps Rnotnan nv theta = nth 0 theta 0.
  Proof.
    intros Hinc Hne. unfold nanmin. rewrite not_nan_id.
    destruct theta as [|a r]; [contradiction|]. clear Hne. simpl nth.
    assert (G : forall l m, increasing (m :: l) \/ True -> (forall y, In y l -> m < y) ->
                fold_left (fun m v => if ltb ROps v m then v else m) l m = m).
    { induction l as [|y l IHl]; intros m _ H; [reflexivity|]. cbn [fold_left].
      destruct (ltb ROps y m) eqn:E.
      - apply Rltb_iff in E. specialize (H y (or_introl eq_refl)). lra.
      - apply IHl; [right; exact I|]. intros z Hz. apply H. right; exact Hz. }
    apply G; [right; exact I|]. intros y Hy. apply In_nth with (d := 0) in Hy.
    destruct Hy as (k & Hk & <-).
    change a with (nth 0 (a :: r) 0). change (nth k r 0) with (nth (S k) (a :: r) 0).
    apply increasing_nth_lt; [exact Hinc|lia|simpl; lia].
  Qed.

  (* C08: the kernel on a strictly increasing profile *)
  Theorem linear_kernel_increasing phi theta levels mask i :
    increasing theta -> (2 <= List.length theta)%nat -> (i < List.length levels)%nat ->
    let x := nth i levels 0 in
    let v := nth i (linear_call ROps Rnotnan nv phi theta levels mask false) 0 in
    (nth 0 theta 0 <= x <= last theta 0 -> pl_at theta phi x v) /\
    (x < nth 0 theta 0 -> v = if mask then nv else nth 0 phi 0) /\
    (last theta 0 < x -> v = if mask then nv else last phi 0).
  Proof.
    intros Hinc Hlen Hi. cbv zeta. unfold linear_call, linear_kernel. cbn [negb].
    rewrite not_nan_id.
    assert (Hne : theta <> []) by (destruct theta; [simpl in Hlen; lia|discriminate]).
    assert (Hfl : nth 0 theta 0 < last theta 0).
    { rewrite last_is_nth by exact Hne. apply increasing_nth_lt; [exact Hinc|lia|lia]. }
    assert (Hsign : ltb ROps (idx_last ROps theta) (idx ROps theta 0) = false).
    { apply Rltb_false. unfold idx_last, idx. simpl zero. lra. }
    rewrite Hsign.
    set (out := np_interp ROps Rnotnan nv levels theta phi).
    assert (Hout : nth i out 0 = interp1 ROps Rnotnan nv theta phi (nth i levels 0)).
    { unfold out, np_interp.
      rewrite nth_indep with (d' := interp1 ROps Rnotnan nv theta phi 0) by (rewrite map_length; exact Hi).
      apply map_nth. }
    destruct (interp1_spec theta phi (nth i levels 0) Hinc Hlen) as (A & B & Cc). cbv zeta in A, B, Cc.
    destruct mask.
    - rewrite (nanmax_increasing theta Hinc Hne), (nanmin_increasing theta Hinc Hne).
      set (cond := fun i => ltb ROps (idx ROps levels i) (nth 0 theta 0)
                            || gtb ROps (idx ROps levels i) (last theta 0)).
      destruct (mask_loop_nth cond out (List.length levels)) as [_ N].
      { unfold out, np_interp. rewrite map_length. lia. }
      cbv zeta in N.
      match goal with
      | |- context [fold_left ?f (seq 0 (List.length levels)) out] =>
        change (fold_left f (seq 0 (List.length levels)) out)
          with (fold_left (fun (o : list R) i => if cond i then upd_set o i nv else o)
                          (seq 0 (List.length levels)) out)
      end.
      rewrite N. destruct (Nat.ltb_spec i (List.length levels)); [|lia]. cbn [andb]. unfold cond.
      unfold idx, gtb. simpl zero.
      destruct (ltb ROps (nth i levels 0) (nth 0 theta 0)) eqn:E1.
      + apply Rltb_iff in E1. cbn [orb]. repeat split; intros; try lra; reflexivity.
      + apply Rltb_false in E1. cbn [orb].
        destruct (ltb ROps (last theta 0) (nth i levels 0)) eqn:E2.
        * apply Rltb_iff in E2. repeat split; intros; try lra; reflexivity.
        * apply Rltb_false in E2. rewrite Hout. repeat split; intros; try lra. apply Cc. lra.
    - rewrite Hout. repeat split; intros; auto.
  Qed.

  (* C08: a strictly decreasing profile is handled as the reversed (increasing) one *)
  Theorem linear_kernel_decreasing phi theta levels mask :
    increasing (rev theta) -> (2 <= List.length theta)%nat ->
    linear_call ROps Rnotnan nv phi theta levels mask false
    = linear_call ROps Rnotnan nv (rev phi) (rev theta) levels mask false.
  Proof.
    intros Hinc Hlen. unfold linear_call, linear_kernel. cbn [negb]. rewrite !not_nan_id.
    assert (Hne : rev theta <> []).
    { intro E. apply (f_equal (@List.length R)) in E. rewrite rev_length in E. simpl in E. lia. }
    assert (Hfl : nth 0 (rev theta) 0 < last (rev theta) 0).
    { rewrite last_is_nth by exact Hne. apply increasing_nth_lt; [exact Hinc| |]; rewrite rev_length; lia. }
    assert (H0 : nth 0 (rev theta) 0 = last theta 0).
    { rewrite rev_nth by lia. rewrite last_is_nth; [f_equal; lia|]. intro E; rewrite E in Hlen; simpl in Hlen; lia. }
    assert (H1 : last (rev theta) 0 = nth 0 theta 0).
    { rewrite last_is_nth by exact Hne. rewrite rev_nth by (rewrite rev_length; lia). rewrite rev_length.
      f_equal. lia. }
    assert (S1 : ltb ROps (idx_last ROps theta) (idx ROps theta 0) = true).
    { apply Rltb_iff. unfold idx_last, idx. simpl zero. lra. }
    assert (S2 : ltb ROps (idx_last ROps (rev theta)) (idx ROps (rev theta) 0) = false).
    { apply Rltb_false. unfold idx_last, idx. simpl zero. lra. }
    rewrite S1, S2. reflexivity.
  Qed.
End PL.
