(* C13, a fourth whole entry point: apply_as_grid_ufunc up to the call of the user's
   function (Model/UFunc.ufunc_received).  Three independent injective renamings: of the
   dimensions (r), of the grid's axes (ra) and of the dummy names of the signature (rd),
   which are bound variables of their own namespace. *)
From Coq Require Import List Bool ZArith String Lia.
From XV Require Import Base.Res Base.Assoc Base.Seq1D Base.Tensor Model.Axis Model.GridCtor Model.Pad
     Model.Signature Model.Dispatch Model.UFunc Proofs.TensorLemmas Proofs.P13.
Import ListNotations.
Open Scope string_scope.
Open Scope nat_scope.
Open Scope list_scope.

(* ---- generic facts about the error monad's traversals ---- *)
Lemma mapM_map {T T' U} (h : T -> T') (f : T' -> res U) l :
  mapM f (map h l) = mapM (fun x => f (h x)) l.
Proof. induction l as [|x l IH]; [reflexivity|]. cbn [map mapM]. rewrite IH. reflexivity. Qed.

Lemma mapM_ext {T U} (f g : T -> res U) l :
  (forall x, In x l -> f x = g x) -> mapM f l = mapM g l.
Proof.
  induction l as [|x l IH]; intros H; [reflexivity|]. cbn [mapM].
  rewrite (H x (or_introl eq_refl)), IH; [reflexivity|]. intros y Hy. apply H. right. exact Hy.
Qed.

Lemma mapM_map_res {T U V} (f : T -> res U) (k : U -> V) l :
  mapM (fun x => map_res k (f x)) l = map_res (map k) (mapM f l).
Proof.
  induction l as [|x l IH]; [reflexivity|]. cbn [mapM]. rewrite IH.
  destruct (f x) as [y|e]; [|reflexivity]. cbn [map_res bind].
  destruct (mapM f l) as [ys|e]; reflexivity.
Qed.

Lemma forM_map {T T'} (h : T -> T') (f : T' -> res unit) l :
  forM_ f (map h l) = forM_ (fun x => f (h x)) l.
Proof. induction l as [|x l IH]; [reflexivity|]. cbn [map forM_]. rewrite IH. reflexivity. Qed.

Lemma forM_ext {T} (f g : T -> res unit) l :
  (forall x, In x l -> f x = g x) -> forM_ f l = forM_ g l.
Proof.
  induction l as [|x l IH]; intros H; [reflexivity|]. cbn [forM_].
  rewrite (H x (or_introl eq_refl)), IH; [reflexivity|]. intros y Hy. apply H. right. exact Hy.
Qed.

Lemma combine_map_l {X Y X'} (f : X -> X') (a : list X) (b : list Y) :
  combine (map f a) b = map (fun p => (f (fst p), snd p)) (combine a b).
Proof.
  revert b; induction a as [|x a IH]; intros [|y b]; try reflexivity. cbn [map combine fst snd].
  f_equal. apply IH.
Qed.

Lemma existsb_map {X Y} (f : Y -> bool) (h : X -> Y) l : existsb f (map h l) = existsb (fun x => f (h x)) l.
Proof. induction l as [|x l IH]; [reflexivity|]. cbn [map existsb]. rewrite IH. reflexivity. Qed.

Lemma existsb_ext_in {X} (f g : X -> bool) l : (forall x, In x l -> f x = g x) -> existsb f l = existsb g l.
Proof.
  induction l as [|x l IH]; intros H; [reflexivity|]. cbn [existsb].
  rewrite (H x (or_introl eq_refl)), IH; [reflexivity|]. intros y Hy. apply H. right. exact Hy.
Qed.

Lemma Forall2_len {X Y} (P : X -> Y -> Prop) l1 l2 : Forall2 P l1 l2 -> List.length l1 = List.length l2.
Proof. induction 1; [reflexivity|]. cbn [List.length]. f_equal. assumption. Qed.

Section UFuncRename.
  Variable r ra rd : string -> string.
  Hypothesis r_inj : injective r.
  Hypothesis ra_inj : injective ra.
  Hypothesis rd_inj : injective rd.
  Context {A : Type} (dflt : A).

  Definition rename_sarg (a : sarg) : sarg := map (fun np : string * pos => (rd (fst np), snd np)) a.
  Definition rename_sig (s : sig) : sig :=
    {| s_in := map rename_sarg (s_in s); s_out := map rename_sarg (s_out s) |}.
  Definition rename_ucall (c : ucall (A:=A)) : ucall (A:=A) :=
    {| u_sig := rename_sig (u_sig c); u_axis := map (map ra) (u_axis c);
       u_bw := option_map (rename_keys rd) (u_bw c);
       u_boundary := rename_kw ra (u_boundary c); u_fill := rename_kw ra (u_fill c);
       u_pad_before := u_pad_before c |}.

  (* related arrays: the same up to renaming the dimensions *)
  Definition R (t1 t2 : tensor A) : Prop := teq t1 (rename_tensor r t2).

  Lemma names_rename (l : list sarg) : map (map fst) (map rename_sarg l) = map (map rd) (map (map fst) l).
  Proof.
    rewrite !map_map. apply map_ext. intros a. unfold rename_sarg. rewrite !map_map. reflexivity.
  Qed.

  Lemma pos_rename (l : list sarg) : map (map snd) (map rename_sarg l) = map (map snd) l.
  Proof.
    rewrite !map_map. apply map_ext. intros a. unfold rename_sarg. rewrite !map_map. reflexivity.
  Qed.

  Definition rename_d2r (m : list (string * string)) : list (string * string) :=
    map (fun p => (rd (fst p), ra (snd p))) m.

  Lemma lookup_d2r n m : lookupS (rd n) (rename_d2r m) = option_map ra (lookupS n m).
  Proof.
    unfold lookupS. induction m as [|[k v] m IH]; [reflexivity|].
    cbn [rename_d2r map lookup fst snd]. rewrite (eqb_rename rd rd_inj).
    destruct (String.eqb n k); [reflexivity | exact IH].
  Qed.

  Lemma out_ax_rename m (outnames : list (list string)) :
    mapM (mapM (fun n => match lookupS n (rename_d2r m) with Some x => Ok x | None => Err KeyError end))
         (map (map rd) outnames) =
    map_res (map (map ra))
            (mapM (mapM (fun n => match lookupS n m with Some x => Ok x | None => Err KeyError end)) outnames).
  Proof.
    rewrite mapM_map. rewrite <- mapM_map_res. apply mapM_ext. intros ns _.
    rewrite mapM_map. rewrite <- mapM_map_res. apply mapM_ext. intros n _.
    rewrite lookup_d2r. destruct (lookupS n m); reflexivity.
  Qed.

  Lemma dim_at_rename (g : grid A) n p :
    dim_at (rename_grid r ra g) (ra n) p = option_map r (dim_at g n p).
  Proof.
    unfold dim_at, rename_grid. rewrite (find_axis_rename r ra ra_inj g n).
    destruct (find_axis g n) as [a|e]; [|reflexivity]. cbn [rename_axis ax_coords].
    apply lookupP_rename.
  Qed.

  Lemma check_positions_rename (g : grid A) axis inpos (args : list (tensor A)) :
    check_positions (rename_grid r ra g) (map (map ra) axis) inpos (map (rename_tensor r) args) =
    check_positions g axis inpos args.
  Proof.
    unfold check_positions.
    rewrite (combine_map_l (map ra) axis inpos).
    rewrite (combine_map (fun p : list string * list pos => (map ra (fst p), snd p)) (rename_tensor r)).
    rewrite forM_map. apply forM_ext. intros [[ns ps] arg] _. cbn [fst snd].
    rewrite (combine_map_l ra ns ps). rewrite forM_map. apply forM_ext. intros [n p] _. cbn [fst snd].
    rewrite dim_at_rename. destruct (dim_at g n p) as [d|]; [|reflexivity]. cbn [option_map].
    cbn [rename_tensor dims]. rewrite (dhas_rename r r_inj). reflexivity.
  Qed.

  Lemma core_dims_rename (g : grid A) axis poss :
    core_dims (rename_grid r ra g) (map (map ra) axis) poss = map_res (map (map r)) (core_dims g axis poss).
  Proof.
    unfold core_dims. rewrite (combine_map_l (map ra) axis poss). rewrite mapM_map.
    rewrite <- mapM_map_res. apply mapM_ext. intros [ns ps] _. cbn [fst snd].
    rewrite (combine_map_l ra ns ps). rewrite mapM_map. rewrite <- mapM_map_res.
    apply mapM_ext. intros [n p] _. cbn [fst snd]. rewrite dim_at_rename.
    destruct (dim_at g n p); reflexivity.
  Qed.

  Lemma substitute_bw_rename bw m :
    substitute_bw (option_map (rename_keys rd) bw) (rename_d2r m) =
    map_res (rename_widths ra) (substitute_bw bw m).
  Proof.
    unfold substitute_bw.
    assert (D : map (fun dr : string * string => (snd dr, (0, 0))) (rename_d2r m) =
                rename_widths ra (map (fun dr : string * string => (snd dr, (0, 0))) m)).
    { unfold rename_d2r, rename_widths, rename_keys. rewrite !map_map. reflexivity. }
    destruct bw as [[|w l]|]; cbn [option_map rename_keys map]; try (rewrite D; reflexivity).
    change ((rd (fst w), snd w) :: map (fun p : string * (nat * nat) => (rd (fst p), snd p)) l)
      with (map (fun p : string * (nat * nat) => (rd (fst p), snd p)) (w :: l)).
    rewrite mapM_map. unfold rename_widths, rename_keys.
    rewrite <- (mapM_map_res _ (fun p : string * (nat * nat) => (ra (fst p), snd p))).
    apply mapM_ext. intros x _. cbn [fst snd]. rewrite lookup_d2r.
    destruct (lookupS (fst x) m); reflexivity.
  Qed.

  (* ---- the arrays: padded, checked against the excluded dimensions, transposed ---- *)
  Lemma R_dnames (t1 t2 : tensor A) : R t1 t2 -> dnames (dims t1) = map r (dnames (dims t2)).
  Proof. intros [H _]. rewrite H. cbn [rename_tensor dims]. apply dnames_rename. Qed.

  Lemma R_dhas (t1 t2 : tensor A) d : R t1 t2 -> dhas (r d) (dims t1) = dhas d (dims t2).
  Proof. intros [H _]. rewrite H. cbn [rename_tensor dims]. apply (dhas_rename r r_inj). Qed.

  Lemma pad_all_rename (g : grid A) bw b f (args : list (tensor A)) :
    Forall respects args ->
    match mapM (fun t => pad dflt (rename_grid r ra g) t (Some (rename_widths ra bw)) (rename_kw ra b) (rename_kw ra f))
               (map (rename_tensor r) args),
          mapM (fun t => pad dflt g t (Some bw) b f) args with
    | Ok l1, Ok l2 => Forall2 R l1 l2
    | Err e1, Err e2 => e1 = e2
    | _, _ => False
    end.
  Proof.
    induction args as [|t args IH]; intros H; [constructor|].
    inversion H as [|? ? Ht Hargs]; subst. cbn [map mapM].
    pose proof (pad_rename r ra r_inj ra_inj dflt g t (Some bw) b f Ht) as P. cbn [option_map] in P.
    destruct (pad dflt (rename_grid r ra g) (rename_tensor r t) _ _ _) as [p1|e1];
      destruct (pad dflt g t (Some bw) b f) as [p2|e2]; try contradiction; cbn [bind]; [|exact P].
    specialize (IH Hargs).
    destruct (mapM _ (map (rename_tensor r) args)) as [l1|e1];
      destruct (mapM _ args) as [l2|e2]; try contradiction; cbn [bind]; [|exact IH].
    constructor; [exact P | exact IH].
  Qed.

  Lemma args_related (args : list (tensor A)) : Forall2 R (map (rename_tensor r) args) args.
  Proof. induction args as [|t args IH]; constructor; [apply teq_refl | exact IH]. Qed.

  Lemma filter_notin_rename core l :
    filter (fun d => negb (memS d (map r core))) (map r l) = map r (filter (fun d => negb (memS d core)) l).
  Proof.
    induction l as [|x l IH]; [reflexivity|]. cbn [map filter]. rewrite (memS_rename r r_inj).
    destruct (memS x core); cbn [negb map]; rewrite IH; reflexivity.
  Qed.

  Lemma excluded_rename excl : forall cores (p1 p2 : list (tensor A)), Forall2 R p1 p2 ->
    existsb (fun ct : list string * tensor A =>
               existsb (fun d => memS d (map r excl) && negb (memS d (fst ct))) (dnames (dims (snd ct))))
            (combine (map (map r) cores) p1) =
    existsb (fun ct : list string * tensor A =>
               existsb (fun d => memS d excl && negb (memS d (fst ct))) (dnames (dims (snd ct))))
            (combine cores p2).
  Proof.
    induction cores as [|c cores IH]; intros p1 p2 H; [reflexivity|].
    destruct H as [|t1 t2 p1 p2 Ht Hp]; [reflexivity|]. cbn [map combine existsb fst snd].
    rewrite (IH _ _ Hp). f_equal. rewrite (R_dnames _ _ Ht), existsb_map.
    apply existsb_ext_in. intros d _. rewrite !(memS_rename r r_inj). reflexivity.
  Qed.

  Lemma broadcast_lists_rename : forall cores (p1 p2 : list (tensor A)), Forall2 R p1 p2 ->
    map (fun ct : list string * tensor A => filter (fun d => negb (memS d (fst ct))) (dnames (dims (snd ct))))
        (combine (map (map r) cores) p1) =
    map (map r) (map (fun ct : list string * tensor A =>
                        filter (fun d => negb (memS d (fst ct))) (dnames (dims (snd ct))))
                     (combine cores p2)).
  Proof.
    induction cores as [|c cores IH]; intros p1 p2 H; [reflexivity|].
    destruct H as [|t1 t2 p1 p2 Ht Hp]; [reflexivity|]. cbn [map combine fst snd].
    rewrite (IH _ _ Hp), (R_dnames _ _ Ht), filter_notin_rename. reflexivity.
  Qed.

  Lemma broadcast_dims_rename cores (p1 p2 : list (tensor A)) : Forall2 R p1 p2 ->
    broadcast_dims (map (map r) cores) p1 = map r (broadcast_dims cores p2).
  Proof.
    intros H. unfold broadcast_dims. rewrite (broadcast_lists_rename _ _ _ H), concat_map_map.
    apply (dedup_rename r r_inj).
  Qed.

  Lemma as_received_rename bdims core (t1 t2 : tensor A) : R t1 t2 ->
    R (as_received (map r bdims) (map r core) t1) (as_received bdims core t2).
  Proof.
    intros H. unfold as_received, R.
    assert (F : filter (fun d => dhas d (dims t1) && negb (memS d (map r core))) (map r bdims) =
                map r (filter (fun d => dhas d (dims t2) && negb (memS d core)) bdims)).
    { clear - H r_inj. induction bdims as [|x l IH]; [reflexivity|]. cbn [map filter].
      rewrite (R_dhas _ _ x H), (memS_rename r r_inj).
      destruct (dhas x (dims t2) && negb (memS x core)); cbn [map]; rewrite IH; reflexivity. }
    rewrite F, <- map_app.
    eapply teq_trans; [apply transpose_teq; exact H|].
    rewrite (transpose_rename r r_inj). apply teq_refl.
  Qed.

  Lemma received_all_rename bdims : forall cores (p1 p2 : list (tensor A)), Forall2 R p1 p2 ->
    Forall2 R (map (fun ct : list string * tensor A => as_received (map r bdims) (fst ct) (snd ct))
                   (combine (map (map r) cores) p1))
              (map (fun ct : list string * tensor A => as_received bdims (fst ct) (snd ct)) (combine cores p2)).
  Proof.
    induction cores as [|c cores IH]; intros p1 p2 H; [constructor|].
    destruct H as [|t1 t2 p1 p2 Ht Hp]; [constructor|]. cbn [map combine fst snd].
    constructor; [apply as_received_rename; exact Ht | apply IH; exact Hp].
  Qed.

  Lemma respects_pad_d (g : grid A) (t p : tensor A) bw b f :
    respects t -> pad dflt g t bw b f = Ok p -> respects p.
  Proof.
    intros Rt. unfold pad. destruct (negb _); [discriminate|].
    destruct bw as [ws|]; [|intros H; inversion H; subst; exact Rt].
    destruct (forallb _ ws); [intros H; inversion H; subst; exact Rt|].
    destruct (resolve_all _ _ _ _ _ ws) as [ps|e]; cbn [bind]; [|discriminate].
    intros H. inversion H; subst. clear H. revert t Rt. induction ps as [|q ps IH]; intros t Rt; [exact Rt|].
    unfold pad_dims. cbn [fold_left]. apply IH. apply respects_pad_dim. exact Rt.
  Qed.

  Lemma pad_all_respects (g : grid A) bw b f : forall (args p : list (tensor A)),
    Forall respects args -> mapM (fun t => pad dflt g t bw b f) args = Ok p -> Forall respects p.
  Proof.
    induction args as [|t args IH]; intros p H E; cbn [mapM] in E.
    - inversion E; subst. constructor.
    - inversion H as [|? ? Ht Ha]; subst.
      destruct (pad dflt g t bw b f) as [q|e] eqn:Eq; [|discriminate]. cbn [bind] in E.
      destruct (mapM _ args) as [qs|e] eqn:Eqs; [|discriminate]. cbn [bind] in E. inversion E; subst.
      constructor; [eapply respects_pad_d; eassumption | apply IH; [exact Ha | reflexivity]].
  Qed.

  Lemma received_respects bdims : forall cores (p : list (tensor A)), Forall respects p ->
    Forall respects (map (fun ct : list string * tensor A => as_received bdims (fst ct) (snd ct)) (combine cores p)).
  Proof.
    induction cores as [|c cores IH]; intros p H; [constructor|].
    destruct H as [|t p Ht Hp]; [constructor|]. cbn [map combine fst snd].
    constructor; [|apply IH; exact Hp]. unfold as_received. intros e e' He. cbn [transpose get]. apply Ht. exact He.
  Qed.

  (* THE theorem: what the user's function receives, on the renamed grid with the renamed
     arrays, the renamed axes in `axis`, a signature whose dummy names are renamed
     independently, boundary_width keyed by the renamed dummies and the other options keyed
     by the renamed axes: the same exception, or the same arrays up to renaming the
     dimensions (same numbers at every point), with the renamed core dimensions *)
  Theorem ufunc_received_rename (g : grid A) (c : ucall (A:=A)) (args : list (tensor A)) :
    Forall respects args ->
    match ufunc_received dflt (rename_grid r ra g) (rename_ucall c) (map (rename_tensor r) args),
          ufunc_received dflt g c args with
    | Ok (recv1, ic1, oc1, bw1), Ok (recv2, ic2, oc2, bw2) =>
      Forall2 R recv1 recv2 /\ ic1 = map (map r) ic2 /\ oc1 = map (map r) oc2 /\ bw1 = rename_widths ra bw2 /\
      Forall respects recv2
    | Err e1, Err e2 => e1 = e2
    | _, _ => False
    end.
  Proof.
    intros Hargs. unfold ufunc_received.
    cbn [rename_ucall u_sig u_axis u_bw u_boundary u_fill u_pad_before rename_sig s_in s_out].
    rewrite !map_length.
    destruct (negb (List.length args =? List.length (u_axis c))); [reflexivity|].
    rewrite !names_rename, !pos_rename.
    rewrite (dummy_to_real_rename rd ra rd_inj ra_inj).
    destruct (dummy_to_real (map (map fst) (s_in (u_sig c))) (u_axis c)) as [m|e]; [|reflexivity].
    cbn [bind]. change (map (fun p : string * string => (rd (fst p), ra (snd p))) m) with (rename_d2r m).
    rewrite out_ax_rename.
    destruct (mapM (mapM (fun n => match lookupS n m with Some x => Ok x | None => Err KeyError end))
                   (map (map fst) (s_out (u_sig c)))) as [out_ax|e]; [|reflexivity].
    cbn [map_res bind].
    rewrite check_positions_rename.
    destruct (check_positions g (u_axis c) (map (map snd) (s_in (u_sig c))) args) as [[]|e]; [|reflexivity].
    cbn [bind].
    rewrite !core_dims_rename.
    destruct (core_dims g (u_axis c) (map (map snd) (s_in (u_sig c)))) as [in_core|e]; [|reflexivity].
    cbn [map_res bind].
    destruct (core_dims g out_ax (map (map snd) (s_out (u_sig c)))) as [out_core|e]; [|reflexivity].
    cbn [map_res bind].
    rewrite substitute_bw_rename.
    destruct (substitute_bw (u_bw c) m) as [bw|e]; [|reflexivity].
    cbn [map_res bind].
    assert (P : match (if u_pad_before c
                       then mapM (fun t => pad dflt (rename_grid r ra g) t (Some (rename_widths ra bw))
                                               (rename_kw ra (u_boundary c)) (rename_kw ra (u_fill c)))
                                 (map (rename_tensor r) args)
                       else Ok (map (rename_tensor r) args)),
                      (if u_pad_before c
                       then mapM (fun t => pad dflt g t (Some bw) (u_boundary c) (u_fill c)) args
                       else Ok args) with
                | Ok l1, Ok l2 => Forall2 R l1 l2
                | Err e1, Err e2 => e1 = e2
                | _, _ => False
                end).
    { destruct (u_pad_before c); [apply pad_all_rename; exact Hargs | apply args_related]. }
    destruct (if u_pad_before c then mapM _ (map (rename_tensor r) args) else _) as [p1|e1];
      destruct (if u_pad_before c then mapM _ args else _) as [p2|e2] eqn:E2; try contradiction; cbn [bind]; [|exact P].
    assert (Hp2 : Forall respects p2).
    { destruct (u_pad_before c); [eapply pad_all_respects; eassumption | inversion E2; subst; exact Hargs]. }
    rewrite !concat_map_map, <- map_app.
    rewrite (excluded_rename _ in_core p1 p2 P).
    destruct (existsb _ (combine in_core p2)); [reflexivity|].
    rewrite (broadcast_dims_rename in_core p1 p2 P).
    split; [apply received_all_rename; exact P|]. repeat split; try reflexivity.
    apply received_respects. exact Hp2.
  Qed.

  (* ---- the whole call, for a user function that is itself indifferent to names ---- *)
  Lemma pad_teq_d (g : grid A) (t1 t2 : tensor A) bw b f : teq t1 t2 ->
    match pad dflt g t1 bw b f, pad dflt g t2 bw b f with
    | Ok a1, Ok a2 => teq a1 a2 | Err e1, Err e2 => e1 = e2 | _, _ => False end.
  Proof.
    intros T. unfold pad. destruct (negb _); [reflexivity|].
    destruct bw as [ws|]; [|exact T]. destruct (forallb _ ws); [exact T|].
    destruct T as [Hd Hg]. rewrite Hd. destruct (resolve_all _ _ _ _ _ ws) as [ps|e]; cbn [bind]; [|reflexivity].
    assert (T : teq t1 t2) by (split; assumption). clear Hd Hg.
    revert t1 t2 T. induction ps as [|q ps IH]; intros t1 t2 T; [exact T|].
    unfold pad_dims. cbn [fold_left]. apply IH. apply (pad_dim_teq dflt). exact T.
  Qed.

  Lemma pad_related (g : grid A) bw b f (t1 t2 : tensor A) : respects t2 -> R t1 t2 ->
    match pad dflt (rename_grid r ra g) t1 (Some (rename_widths ra bw)) (rename_kw ra b) (rename_kw ra f),
          pad dflt g t2 (Some bw) b f with
    | Ok a1, Ok a2 => R a1 a2 | Err e1, Err e2 => e1 = e2 | _, _ => False end.
  Proof.
    intros Hr H.
    pose proof (pad_teq_d (rename_grid r ra g) t1 (rename_tensor r t2) (Some (rename_widths ra bw))
                          (rename_kw ra b) (rename_kw ra f) H) as P1.
    pose proof (pad_rename r ra r_inj ra_inj dflt g t2 (Some bw) b f Hr) as P2. cbn [option_map] in P2.
    destruct (pad dflt (rename_grid r ra g) t1 _ _ _) as [a1|e1];
      destruct (pad dflt (rename_grid r ra g) (rename_tensor r t2) _ _ _) as [a|e];
      destruct (pad dflt g t2 (Some bw) b f) as [a2|e2]; try contradiction; try congruence.
    unfold R. eapply teq_trans; eassumption.
  Qed.

  Lemma pad_all_related (g : grid A) bw b f : forall (l1 l2 : list (tensor A)),
    Forall respects l2 -> Forall2 R l1 l2 ->
    match mapM (fun t => pad dflt (rename_grid r ra g) t (Some (rename_widths ra bw)) (rename_kw ra b) (rename_kw ra f)) l1,
          mapM (fun t => pad dflt g t (Some bw) b f) l2 with
    | Ok a1, Ok a2 => Forall2 R a1 a2 | Err e1, Err e2 => e1 = e2 | _, _ => False end.
  Proof.
    intros l1 l2 Hr H. induction H as [|t1 t2 l1 l2 Ht Hl IH]; [constructor|].
    inversion Hr as [|? ? Hr2 Hrl]; subst. cbn [mapM].
    pose proof (pad_related g bw b f t1 t2 Hr2 Ht) as P.
    destruct (pad dflt (rename_grid r ra g) t1 _ _ _) as [a1|e1];
      destruct (pad dflt g t2 (Some bw) b f) as [a2|e2]; try contradiction; cbn [bind]; [|exact P].
    specialize (IH Hrl).
    destruct (mapM _ l1) as [x1|e1]; destruct (mapM _ l2) as [x2|e2]; try contradiction; cbn [bind]; [|exact IH].
    constructor; assumption.
  Qed.

  Lemma R_dsize (t1 t2 : tensor A) d : R t1 t2 -> dsize (r d) (dims t1) = dsize d (dims t2).
  Proof. intros [H _]. rewrite H. cbn [rename_tensor dims]. apply (dsize_rename r r_inj). Qed.

  Lemma sizes_check_rename dssizes : forall out_core (l1 l2 : list (tensor A)), Forall2 R l1 l2 ->
    forM_ (fun oc : tensor A * list string =>
             forM_ (fun d => if dsize d (dims (fst oc)) =? dsize d (rename_dims r dssizes)
                             then Ok tt else Err ValueError) (snd oc))
          (combine l1 (map (map r) out_core)) =
    forM_ (fun oc : tensor A * list string =>
             forM_ (fun d => if dsize d (dims (fst oc)) =? dsize d dssizes
                             then Ok tt else Err ValueError) (snd oc))
          (combine l2 out_core).
  Proof.
    intros out_core l1 l2 H. revert out_core. induction H as [|t1 t2 l1 l2 Ht Hl IH]; intros out_core; [reflexivity|].
    destruct out_core as [|c out_core]; [reflexivity|]. cbn [map combine forM_ fst snd].
    rewrite IH. rewrite forM_map.
    assert (E : forM_ (fun x => if dsize (r x) (dims t1) =? dsize (r x) (rename_dims r dssizes) then Ok tt else Err ValueError) c =
                forM_ (fun d => if dsize d (dims t2) =? dsize d dssizes then Ok tt else Err ValueError) c).
    { apply forM_ext. intros d _. rewrite (R_dsize _ _ d Ht), (dsize_rename r r_inj). reflexivity. }
    rewrite E. reflexivity.
  Qed.

  (* a user function indifferent to names: related inputs (and renamed core dimensions)
     give related outputs; its outputs are determined by their named coordinates *)
  Definition indifferent (f f' : list (tensor A) -> list (list string) -> list (list string) -> list (tensor A)) : Prop :=
    forall recv1 recv2 ic oc, Forall2 R recv1 recv2 -> Forall respects recv2 ->
      Forall2 R (f' recv1 (map (map r) ic) (map (map r) oc)) (f recv2 ic oc) /\
      Forall respects (f recv2 ic oc).

  Theorem ufunc_apply_rename (g : grid A) dssizes (c : ucall (A:=A)) f f' (args : list (tensor A)) :
    Forall respects args -> indifferent f f' ->
    match ufunc_apply dflt (rename_grid r ra g) (rename_dims r dssizes) (rename_ucall c) f' (map (rename_tensor r) args),
          ufunc_apply dflt g dssizes c f args with
    | Ok (recv1, outs1), Ok (recv2, outs2) => Forall2 R recv1 recv2 /\ Forall2 R outs1 outs2
    | Err e1, Err e2 => e1 = e2
    | _, _ => False
    end.
  Proof.
    intros Hargs Hf. unfold ufunc_apply.
    pose proof (ufunc_received_rename g c args Hargs) as P.
    destruct (ufunc_received dflt (rename_grid r ra g) (rename_ucall c) (map (rename_tensor r) args))
      as [[[[recv1 ic1] oc1] bw1]|e1];
      destruct (ufunc_received dflt g c args) as [[[[recv2 ic2] oc2] bw2]|e2]; try contradiction;
      cbn [bind]; [|exact P].
    destruct P as (Hrecv & -> & -> & -> & Hresp).
    destruct (Hf recv1 recv2 ic2 oc2 Hrecv Hresp) as [Hout Hres].
    rewrite (Forall2_len _ _ _ Hout), map_length.
    destruct (negb (List.length (f recv2 ic2 oc2) =? List.length oc2)); [reflexivity|].
    cbn [rename_ucall u_pad_before u_boundary u_fill].
    assert (P : match (if u_pad_before c then Ok (f' recv1 (map (map r) ic2) (map (map r) oc2))
                       else mapM (fun t => pad dflt (rename_grid r ra g) t (Some (rename_widths ra bw2))
                                               (rename_kw ra (u_boundary c)) (rename_kw ra (u_fill c)))
                                 (f' recv1 (map (map r) ic2) (map (map r) oc2))),
                      (if u_pad_before c then Ok (f recv2 ic2 oc2)
                       else mapM (fun t => pad dflt g t (Some bw2) (u_boundary c) (u_fill c)) (f recv2 ic2 oc2)) with
                | Ok l1, Ok l2 => Forall2 R l1 l2 | Err e1, Err e2 => e1 = e2 | _, _ => False end).
    { destruct (u_pad_before c); [exact Hout | apply pad_all_related; assumption]. }
    destruct (if u_pad_before c then Ok (f' recv1 _ _) else _) as [p1|e1];
      destruct (if u_pad_before c then Ok (f recv2 ic2 oc2) else _) as [p2|e2]; try contradiction;
      cbn [bind]; [|exact P].
    rewrite (sizes_check_rename dssizes oc2 p1 p2 P).
    destruct (forM_ _ (combine p2 oc2)) as [[]|e]; cbn [bind]; [|reflexivity].
    split; assumption.
  Qed.

  (* non-vacuity of [indifferent]: handing back what was received *)
  Lemma identity_indifferent : indifferent (fun recv _ _ => recv) (fun recv _ _ => recv).
  Proof. intros recv1 recv2 ic oc H Hr. split; assumption. Qed.
End UFuncRename.
