(* C04: the value copied across a non-reversed link is the flux through the shared edge in
   the face's own +axis direction; the divergence is orientation-free. *)
From Coq Require Import List Bool ZArith Lia String Reals Lra.
From XV Require Import Base.Res Base.Assoc Base.Tensor Model.Axis Model.GridCtor Model.Pad
     Spec.S03 Spec.S05 Proofs.P03 Proofs.P05.
Open Scope Z_scope.

Section Edge.
  Context {A : Type} (Phi : Z * Z -> Z * Z -> A).   (* flux between cells of the undivided domain *)
  Variable dom : domain.
  Definition PhiG (a b : Z * Z) : A := Phi (gmod dom a) (gmod dom b).

  (* my cell next to the linked edge, and the halo cell just outside it (depth 1) *)
  Definition inner_pos (a_is_x is_left : bool) (N t : Z) : Z * Z :=
    let o := if is_left then 0 else N - 1 in if a_is_x then (o, t) else (t, o).

  Lemma back_source_is_inner a_is_x is_left swap N t :
    source_pos a_is_x (negb is_left) false swap N 1 (along_z swap false N t)
    = inner_pos a_is_x is_left N t.
  Proof.
    unfold source_pos, inner_pos, ortho_z, along_z.
    destruct a_is_x, is_left, swap; simpl; f_equal; lia.
  Qed.

  (* C04, shared edge: for a non-reversed link (f, a, side) -> (s, sa) and its back-link,
     both consistent with the charts, the flux from my last cell into the halo cell -- the
     missing edge value of my component along a -- equals the flux from the neighbour's
     halo cell into its first cell along ITS axis sa: the very value the padding copies
     (same component if sa = a, partner component otherwise, no sign change). *)
  Theorem shared_edge_flux cf cs a_is_x is_left sa_is_x N t :
    0 < dom_lx dom -> 0 < dom_ly dom ->
    let swap := negb (Bool.eqb a_is_x sa_is_x) in
    link_consistentb dom cf cs a_is_x is_left sa_is_x false N = true ->
    link_consistentb dom cs cf sa_is_x (negb is_left) a_is_x false N = true ->
    let t' := along_z swap false N t in
    PhiG (chart_apply cf (inner_pos a_is_x is_left N t))
         (chart_apply cf (halo_pos a_is_x is_left N 1 t))
    = PhiG (chart_apply cs (halo_pos sa_is_x (negb is_left) N 1 t'))
           (chart_apply cs (source_pos sa_is_x is_left false swap N 1 t)).
  Proof.
    intros Hx Hy swap H1 H2 t'. unfold PhiG.
    rewrite (link_unfolds dom cf cs a_is_x is_left sa_is_x false N Hx Hy H1 1 t).
    rewrite (link_unfolds dom cs cf sa_is_x (negb is_left) a_is_x false N Hx Hy H2 1 t').
    assert (E : negb (Bool.eqb sa_is_x a_is_x) = swap).
    { unfold swap. destruct a_is_x, sa_is_x; reflexivity. }
    rewrite E. unfold t'. rewrite back_source_is_inner. reflexivity.
  Qed.
End Edge.

(* the parallel component crosses a non-reversed link unchanged in sign *)
Lemma parallel_sign_nonreversed {A} (neg : A -> A) isvector ax swap (v : A) :
  step_sign neg isvector ax ax swap false v = v.
Proof. unfold step_sign. rewrite String.eqb_refl. simpl. rewrite !andb_false_r. reflexivity. Qed.

(* the four neighbours of a cell are the same set whatever signed permutation the chart
   applies: the sum of outward fluxes (the divergence) is orientation-free *)
Definition signed_perm (a b c d : Z) : Prop :=
  (a = 1 /\ b = 0 /\ c = 0 /\ d = 1) \/ (a = 0 /\ b = -1 /\ c = 1 /\ d = 0) \/
  (a = -1 /\ b = 0 /\ c = 0 /\ d = -1) \/ (a = 0 /\ b = 1 /\ c = -1 /\ d = 0) \/
  (a = -1 /\ b = 0 /\ c = 0 /\ d = 1) \/ (a = 1 /\ b = 0 /\ c = 0 /\ d = -1) \/
  (a = 0 /\ b = 1 /\ c = 1 /\ d = 0) \/ (a = 0 /\ b = -1 /\ c = -1 /\ d = 0).

Open Scope R_scope.
Theorem divergence_orientation_free (F : Z * Z -> R) (a b c d : Z) :
  signed_perm a b c d ->
  F (a * 1 + b * 0, c * 1 + d * 0)%Z + F (a * -1 + b * 0, c * -1 + d * 0)%Z +
  F (a * 0 + b * 1, c * 0 + d * 1)%Z + F (a * 0 + b * -1, c * 0 + d * -1)%Z
  = F (1, 0)%Z + F (-1, 0)%Z + F (0, 1)%Z + F (0, -1)%Z.
Proof.
  intros H. unfold signed_perm in H.
  repeat (destruct H as [(-> & -> & -> & ->)|H]); try destruct H as (-> & -> & -> & ->);
    simpl; lra.
Qed.
Close Scope R_scope.

(* C04, no face connections: the vector form is padded exactly like the component alone
   (the model of the two unpacking sites of pad()) *)
Section Simple.
  Context {A : Type} (dflt : A).
  Inductive pdata : Type := DScalar (t : tensor A) | DVector (ax : string) (t : tensor A).
  Definition unpack (d : pdata) : tensor A := match d with DScalar t | DVector _ t => t end.
  Definition pad_data (g : grid A) (d : pdata) bw boundary fill_value :=
    pad dflt g (unpack d) bw boundary fill_value.
  Lemma pad_vector_is_scalar g ax t bw b f :
    pad_data g (DVector ax t) bw b f = pad_data g (DScalar t) bw b f.
  Proof. reflexivity. Qed.
End Simple.
