(* Tie: the shift table regenerated from Grid.cumsum on this run passes the acceptance
   predicate assumed by the C09 theorems. *)
From Coq Require Import List Bool ZArith String.
From XV Require Import Model.Axis Model.Cumsum Spec.S09 Proofs.P09 Generated.G4.
Lemma Tie_cumsum_table : cs_table_ok gen_cumsum_table = true.
Proof. vm_compute. reflexivity. Qed.
