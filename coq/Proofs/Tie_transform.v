(* Tie: the kernels regenerated from /repo/xgcm/transform.py on this run are, as Gallina
   terms, the canonical kernels the C07/C08 theorems are about. *)
From Coq Require Import List Bool Arith.
From XV Require Import Base.Ops Base.Kernel Model.Transform Generated.G6.

Lemma Tie_conservative_kernel : forall A (o : Ops A) isnan,
  @gen_interp_1d_conservative A o isnan = @conservative_kernel A o isnan.
Proof. reflexivity. Qed.

Lemma Tie_linear_kernel : forall A (o : Ops A) isnan nanv,
  @gen_interp_1d_linear A o isnan nanv = @linear_kernel A o isnan nanv.
Proof. reflexivity. Qed.
