(* C02, tensor level: what a padded array contains. *)
From Coq Require Import List Bool ZArith Lia Arith String.
From XV Require Import Base.Res Base.Assoc Base.Seq1D Base.Tensor Model.Axis Model.GridCtor Model.Pad
     Spec.S02 Proofs.TensorLemmas.
Import ListNotations.
Open Scope string_scope.
Open Scope nat_scope.
Open Scope list_scope.

Ltac upd_simpl :=
  repeat first [ rewrite upd_same
               | rewrite upd_other by (assumption || congruence || (intro; congruence)) ].

Section PadProofs.
  Context {A : Type} (dflt : A).
  Notation padspec := (padspec (A:=A)).

  (* a request is admissible for an array: the dimension exists, is non-empty, and the
     widths do not exceed its length (the property's range 0..n) *)
  Definition ps_ok (t : tensor A) (p : padspec) : Prop :=
    dhas (ps_dim p) (dims t) = true /\ 1 <= size (ps_dim p) t /\
    ps_lo p <= size (ps_dim p) t /\ ps_hi p <= size (ps_dim p) t.

  Definition interior (t : tensor A) (p : padspec) (e : env) : Prop :=
    ps_lo p <= e (ps_dim p) < ps_lo p + size (ps_dim p) t.

  Lemma pad_dim_size_same p (t : tensor A) : dhas (ps_dim p) (dims t) = true ->
    size (ps_dim p) (pad_dim dflt p t) = ps_lo p + size (ps_dim p) t + ps_hi p.
  Proof. intros H. unfold size, pad_dim. simpl. apply dsize_dreplace_same, H. Qed.

  Lemma pad_dim_size_other p (t : tensor A) d : d <> ps_dim p ->
    size d (pad_dim dflt p t) = size d t.
  Proof. intros H. unfold size, pad_dim. simpl. apply dsize_dreplace_other, H. Qed.

  Lemma pad_dim_has p (t : tensor A) d : dhas d (dims (pad_dim dflt p t)) = dhas d (dims t).
  Proof. unfold pad_dim. simpl. apply dhas_dreplace_same. Qed.

  Lemma pad_dim_wf p (t : tensor A) : wf t -> dhas (ps_dim p) (dims t) = true ->
    wf (pad_dim dflt p t).
  Proof. intros. apply wf_map_dim; assumption. Qed.

  (* S1: one padding step reads the boundary extension of the column *)
  Lemma pad_dim_get p (t : tensor A) e : ps_ok t p ->
    e (ps_dim p) < ps_lo p + size (ps_dim p) t + ps_hi p ->
    get (pad_dim dflt p t) e =
    ext (ps_rule p) (ps_fill p) (column t (ps_dim p) e)
        (Z.of_nat (e (ps_dim p)) - Z.of_nat (ps_lo p)).
  Proof.
    intros (Hh & Hn & Hlo & Hhi) He. unfold pad_dim. simpl.
    apply pad1_nth; rewrite column_length; assumption.
  Qed.

  (* S2: in the interior it returns the original value *)
  Lemma pad_dim_get_interior p (t : tensor A) e : ps_ok t p -> interior t p e ->
    get (pad_dim dflt p t) e = get t (upd e (ps_dim p) (e (ps_dim p) - ps_lo p)).
  Proof.
    intros Hok [H1 H2]. rewrite pad_dim_get by (try exact Hok; destruct Hok as (_ & _ & _ & ?); lia).
    rewrite ext_inside with (d := dflt) by (rewrite column_length; lia).
    rewrite column_nth by lia. f_equal. f_equal. lia.
  Qed.

  Lemma shift_env_other (ps : list padspec) e d : ~ In d (map (@ps_dim A) ps) -> shift_env ps e d = e d.
  Proof.
    induction ps as [|p r IH]; simpl; intros H; [reflexivity|].
    rewrite upd_other by (intro; apply H; left; congruence).
    apply IH. intro; apply H; right; assumption.
  Qed.

  Definition ps_all_ok (t : tensor A) (ps : list padspec) : Prop :=
    NoDup (map (@ps_dim A) ps) /\ Forall (ps_ok t) ps.

  Lemma ps_ok_step p q (t : tensor A) : ps_dim q <> ps_dim p -> ps_ok t q ->
    ps_ok (pad_dim dflt p t) q.
  Proof.
    intros Hne (H1 & H2 & H3 & H4). unfold ps_ok.
    rewrite pad_dim_has, pad_dim_size_other by exact Hne. auto.
  Qed.

  Lemma ps_all_ok_step p ps (t : tensor A) : ps_all_ok t (p :: ps) ->
    ps_all_ok (pad_dim dflt p t) ps.
  Proof.
    intros [ND F]. inversion ND as [|? ? Hn ND']; subst. inversion F as [|? ? Hp F']; subst.
    split; [exact ND'|]. rewrite Forall_forall in *. intros q Hq.
    apply ps_ok_step; [|apply F', Hq].
    intro E. apply Hn. rewrite <- E. apply in_map, Hq.
  Qed.

  Lemma interior_step p q (t : tensor A) e : ps_dim q <> ps_dim p ->
    interior (pad_dim dflt p t) q e <-> interior t q e.
  Proof. intros H. unfold interior. rewrite pad_dim_size_other by exact H. tauto. Qed.

  (* L1: every requested dimension in its interior -> the original value *)
  Lemma pad_dims_interior (ps : list padspec) : forall (t : tensor A) e,
    ps_all_ok t ps -> (forall p, In p ps -> interior t p e) ->
    get (pad_dims dflt ps t) e = get t (shift_env ps e).
  Proof.
    induction ps as [|p ps IH]; intros t e Hok Hint; [reflexivity|].
    simpl. change (fold_left _ ps (pad_dim dflt p t)) with (pad_dims dflt ps (pad_dim dflt p t)).
    destruct Hok as [ND F]. inversion ND as [|? ? Hn ND']; subst.
    inversion F as [|? ? Hp F']; subst.
    rewrite IH.
    - assert (Hd : shift_env ps e (ps_dim p) = e (ps_dim p)) by (apply shift_env_other, Hn).
      rewrite pad_dim_get_interior.
      + reflexivity.
      + exact Hp.
      + unfold interior. rewrite Hd. apply Hint. left; reflexivity.
    - apply ps_all_ok_step. split; assumption.
    - intros q Hq. apply interior_step.
      + intro E. apply Hn. rewrite <- E. apply in_map, Hq.
      + apply Hint. right; exact Hq.
  Qed.

  (* L2: one request p0 arbitrary, all the others in their interior -> the boundary
     extension of the original column along p0's dimension *)
  Lemma pad_dims_one (ps : list padspec) : forall (t : tensor A) e p0,
    wf t -> ps_all_ok t ps -> In p0 ps ->
    (forall p, In p ps -> p <> p0 -> interior t p e) ->
    e (ps_dim p0) < ps_lo p0 + size (ps_dim p0) t + ps_hi p0 ->
    get (pad_dims dflt ps t) e =
    ext (ps_rule p0) (ps_fill p0) (column t (ps_dim p0) (shift_env ps e))
        (Z.of_nat (e (ps_dim p0)) - Z.of_nat (ps_lo p0)).
  Proof.
    induction ps as [|p ps IH]; intros t e p0 Hwf Hok Hin Hint He; [contradiction|].
    simpl pad_dims. change (fold_left _ ps (pad_dim dflt p t)) with (pad_dims dflt ps (pad_dim dflt p t)).
    pose proof Hok as [ND F]. inversion ND as [|? ? Hn ND']; subst.
    inversion F as [|? ? Hp F']; subst.
    destruct Hin as [->|Hin].
    - (* p0 is the first request *)
      rewrite pad_dims_interior.
      + rewrite pad_dim_get.
        * rewrite (shift_env_other ps e (ps_dim p0) Hn).
          f_equal. apply column_ext; [exact Hwf|].
          intros d' Hne _. simpl. rewrite upd_other by exact Hne. reflexivity.
        * exact Hp.
        * rewrite (shift_env_other ps e (ps_dim p0) Hn). exact He.
      + apply ps_all_ok_step, Hok.
      + intros q Hq. assert (Hne : ps_dim q <> ps_dim p0).
        { intro E. apply Hn. rewrite <- E. apply in_map, Hq. }
        apply interior_step; [exact Hne|]. apply Hint; [right; exact Hq|].
        intro E. subst. apply Hne. reflexivity.
    - (* p0 is a later request; p is in its interior *)
      assert (Hne : ps_dim p0 <> ps_dim p).
      { intro E. apply Hn. rewrite <- E. apply in_map, Hin. }
      assert (Hpne : p <> p0) by (intro E; subst; apply Hne; reflexivity).
      assert (Hip : interior t p e) by (apply Hint; [left; reflexivity|exact Hpne]).
      rewrite (IH (pad_dim dflt p t) e p0).
      + f_equal.
        (* the column of the once-padded array, read in p's interior, is the original column *)
        apply nth_ext with (d := dflt) (d' := dflt).
        * rewrite !column_length. apply pad_dim_size_other, Hne.
        * intros i Hi. rewrite column_length in Hi.
          rewrite pad_dim_size_other in Hi by exact Hne.
          rewrite !column_nth by (try rewrite pad_dim_size_other by exact Hne; exact Hi).
          assert (Hd : shift_env ps e (ps_dim p) = e (ps_dim p)) by (apply shift_env_other, Hn).
          rewrite pad_dim_get_interior.
          -- apply Hwf. intros d' _. simpl.
             destruct (string_dec d' (ps_dim p0)) as [->|H0].
             ++ upd_simpl. reflexivity.
             ++ destruct (string_dec d' (ps_dim p)) as [->|H1].
                ** upd_simpl. reflexivity.
                ** upd_simpl. reflexivity.
          -- exact Hp.
          -- unfold interior. rewrite upd_other by (intro; apply Hne; congruence).
             rewrite Hd. exact Hip.
      + apply pad_dim_wf; [exact Hwf|apply Hp].
      + apply ps_all_ok_step, Hok.
      + exact Hin.
      + intros q Hq Hq0. apply interior_step.
        * intro E. apply Hn. rewrite <- E. apply in_map, Hq.
        * apply Hint; [right; exact Hq|exact Hq0].
      + rewrite pad_dim_size_other by exact Hne. exact He.
  Qed.

  Lemma pad_dims_size (ps : list padspec) : forall (t : tensor A) d,
    ps_all_ok t ps ->
    size d (pad_dims dflt ps t) =
    match find (fun p => String.eqb (ps_dim p) d) ps with
    | Some p => ps_lo p + size d t + ps_hi p
    | None => size d t
    end.
  Proof.
    induction ps as [|p ps IH]; intros t d Hok; [reflexivity|].
    simpl pad_dims. change (fold_left _ ps (pad_dim dflt p t)) with (pad_dims dflt ps (pad_dim dflt p t)).
    pose proof Hok as [ND F]. inversion ND as [|? ? Hn ND']; subst.
    inversion F as [|? ? Hp F']; subst.
    rewrite IH by (apply ps_all_ok_step, Hok). simpl.
    destruct (String.eqb (ps_dim p) d) eqn:E.
    - apply String.eqb_eq in E. subst d.
      destruct (find _ ps) as [q|] eqn:Fq.
      + apply find_some in Fq. destruct Fq as [Hq Eq]. apply String.eqb_eq in Eq.
        exfalso. apply Hn. rewrite <- Eq. apply in_map, Hq.
      + apply pad_dim_size_same, Hp.
    - apply String.eqb_neq in E.
      rewrite pad_dim_size_other by congruence. reflexivity.
  Qed.

  Lemma pad_dims_names (ps : list padspec) : forall (t : tensor A),
    dnames (dims (pad_dims dflt ps t)) = dnames (dims t).
  Proof.
    induction ps as [|p ps IH]; intros t; [reflexivity|].
    simpl pad_dims. change (fold_left _ ps (pad_dim dflt p t)) with (pad_dims dflt ps (pad_dim dflt p t)).
    rewrite IH. unfold pad_dim. simpl. apply dnames_dreplace_same.
  Qed.
End PadProofs.

Section PadSpec.
  Context {A : Type} (dflt : A).
  Notation padspec := (padspec (A:=A)).

  Lemma in_halo_false_interior (t : tensor A) (p : padspec) e :
    in_halo p (size (ps_dim p) t) (e (ps_dim p)) = false <-> interior t p e.
  Proof.
    unfold in_halo, interior. rewrite orb_false_iff, Nat.ltb_ge, Nat.leb_gt. lia.
  Qed.

  Lemma filter_single {T} (f : T -> bool) l p : filter f l = [p] ->
    In p l /\ forall q, In q l -> q <> p -> f q = false.
  Proof.
    intros H. split.
    - assert (In p (filter f l)) by (rewrite H; left; reflexivity).
      apply filter_In in H0. tauto.
    - intros q Hq Hne. destruct (f q) eqn:E; [|reflexivity].
      assert (In q (filter f l)) by (apply filter_In; auto).
      rewrite H in H0. destruct H0 as [->|[]]. congruence.
  Qed.

  (* C02, values: wherever the specification constrains a cell of the padded array
     (every cell in the halo of at most one requested dimension), the model of
     _pad_basic holds exactly that value. *)
  Theorem pad_dims_spec (ps : list padspec) (t : tensor A) e v :
    wf t -> ps_all_ok t ps ->
    (forall p, In p ps -> e (ps_dim p) < ps_lo p + size (ps_dim p) t + ps_hi p) ->
    spec_pad_cell ps t e = Some v ->
    get (pad_dims dflt ps t) e = v.
  Proof.
    intros Hwf Hok Hr. unfold spec_pad_cell.
    destruct (filter _ ps) as [|p [|q rest]] eqn:F; intros H; inversion H; subst; clear H.
    - apply pad_dims_interior; [exact Hok|].
      intros p Hp. apply in_halo_false_interior.
      destruct (in_halo p _ _) eqn:E; [|reflexivity].
      assert (In p (filter (fun p => in_halo p (size (ps_dim p) t) (e (ps_dim p))) ps))
        by (apply filter_In; auto).
      rewrite F in H. contradiction.
    - apply filter_single in F. destruct F as [Hin Hoth].
      apply pad_dims_one; auto.
      intros q Hq Hne. apply in_halo_false_interior. apply Hoth; assumption.
  Qed.

  (* C02, sizes: each requested dimension grows by exactly lo + hi, no other changes,
     the dimension order is kept. *)
  Theorem pad_dims_dims (ps : list padspec) (t : tensor A) :
    ps_all_ok t ps ->
    dnames (dims (pad_dims dflt ps t)) = dnames (dims t) /\
    forall d, size d (pad_dims dflt ps t) =
              match find (fun p => String.eqb (ps_dim p) d) ps with
              | Some p => ps_lo p + size d t + ps_hi p
              | None => size d t
              end.
  Proof. intros H. split; [apply pad_dims_names|intros d; apply pad_dims_size, H]. Qed.
End PadSpec.
