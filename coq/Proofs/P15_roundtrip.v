(* C15 (A): every well-formed signature prints to a text that the grammar accepts and
   that parses back to the same signature.  Worked at the level of character lists. *)
From Coq Require Import List Bool ZArith String Ascii Lia.
From XV Require Import Base.Res Base.Regex Model.Axis Model.Signature.
Import ListNotations.
Open Scope list_scope.
Open Scope char_scope.

(* ---- list-level printers ---- *)
Definition lpair (p : string * pos) : list ascii := chars (fst p) ++ ":" :: chars (pos_name (snd p)).
Definition ltail (sep : ascii) (r : list (list ascii)) : list ascii :=
  List.concat (map (fun y => sep :: y) r).
Definition ljoin (sep : ascii) (l : list (list ascii)) : list ascii :=
  match l with [] => [] | x :: r => x ++ ltail sep r end.
Definition lcontent (a : sarg) : list ascii := ljoin "," (map lpair a).
Definition larg (a : sarg) : list ascii := "(" :: lcontent a ++ [")"].
Definition largs (l : list sarg) : list ascii := ljoin "," (map larg l).
Definition lsig (s : sig) : list ascii := largs (s_in s) ++ "-" :: ">" :: largs (s_out s).

(* ---- the printer of the model produces exactly these lists ---- *)
Lemma chars_app a b : chars (a ++ b)%string = chars a ++ chars b.
Proof. unfold chars. induction a as [|c a IH]; [reflexivity|]. cbn. rewrite IH. reflexivity. Qed.

Lemma chars_join_from (sep : ascii) r : forall x,
  chars (fold_left (fun acc y => (acc ++ String sep "" ++ y)%string) r x) =
  chars x ++ ltail sep (map chars r).
Proof.
  induction r as [|y r IH]; intros x; cbn [fold_left map ltail List.concat].
  - rewrite app_nil_r. reflexivity.
  - rewrite IH, !chars_app. cbn [chars list_ascii_of_string]. unfold ltail. cbn [map List.concat].
    rewrite <- app_assoc. reflexivity.
Qed.

Lemma chars_join (sep : ascii) l :
  chars (join (String sep "") l) = ljoin sep (map chars l).
Proof. destruct l as [|x r]; [reflexivity|]. cbn [join map ljoin]. apply chars_join_from. Qed.

Lemma chars_print_pair p : chars (print_pair p) = lpair p.
Proof. unfold print_pair, lpair. rewrite !chars_app. reflexivity. Qed.

Lemma chars_print_arg a : chars (print_arg a) = larg a.
Proof.
  unfold print_arg, larg, lcontent. rewrite !chars_app.
  change (chars "("%string) with ["("]. change (chars ")"%string) with [")"].
  change ","%string with (String "," ""). rewrite chars_join, map_map.
  cbn [app]. f_equal. f_equal. f_equal. apply map_ext. intros p. apply chars_print_pair.
Qed.

Lemma chars_print_args l : chars (print_args l) = largs l.
Proof.
  unfold print_args, largs. change ","%string with (String "," ""). rewrite chars_join, map_map.
  f_equal. apply map_ext. intros a. apply chars_print_arg.
Qed.

Lemma chars_print_sig s : chars (print_sig s) = lsig s.
Proof. unfold print_sig, lsig. rewrite !chars_app, !chars_print_args. reflexivity. Qed.

(* ---- well-formed signatures ---- *)
Definition wf_name (n : string) : Prop := chars n <> [] /\ forallb is_word (chars n) = true.
Definition wf_arg (a : sarg) : Prop := Forall (fun p => wf_name (fst p)) a.
Definition wf_sig (s : sig) : Prop :=
  s_in s <> [] /\ s_out s <> [] /\ Forall wf_arg (s_in s) /\ Forall wf_arg (s_out s).

Definition none_is (c : ascii) (l : list ascii) : Prop := forall x, In x l -> x <> c.

Lemma word_not c d : is_word d = false -> is_word c = true -> c <> d.
Proof. intros Hd Hc E. subst. congruence. Qed.

Lemma words_none c (l : list ascii) : is_word c = false -> forallb is_word l = true -> none_is c l.
Proof.
  intros Hc H x Hx. rewrite forallb_forall in H. apply (word_not x c Hc). apply H, Hx.
Qed.

Lemma pos_name_words p : forallb is_word (chars (pos_name p)) = true.
Proof. destruct p; reflexivity. Qed.

Lemma none_is_app c a b : none_is c a -> none_is c b -> none_is c (a ++ b).
Proof. intros Ha Hb x Hx. apply in_app_iff in Hx. destruct Hx; [apply Ha | apply Hb]; assumption. Qed.
Lemma none_is_cons c x l : x <> c -> none_is c l -> none_is c (x :: l).
Proof. intros Hx Hl y [Hy|Hy]; [subst; exact Hx | apply Hl, Hy]. Qed.
Lemma none_is_nil c : none_is c [].
Proof. intros x []. Qed.

Lemma none_is_ltail c sep r : sep <> c -> Forall (none_is c) r -> none_is c (ltail sep r).
Proof.
  intros Hs H. unfold ltail. induction H as [|y r Hy _ IH]; cbn [map List.concat]; [apply none_is_nil|].
  apply none_is_cons; [exact Hs|]. apply none_is_app; assumption.
Qed.
Lemma none_is_ljoin c sep l : sep <> c -> Forall (none_is c) l -> none_is c (ljoin sep l).
Proof.
  intros Hs H. destruct H as [|x r Hx Hr]; [apply none_is_nil|]. cbn [ljoin].
  apply none_is_app; [exact Hx | apply none_is_ltail; assumption].
Qed.

(* which characters a printed pair / content / argument list can contain *)
Lemma lpair_none c p : is_word c = false -> c <> ":" -> wf_name (fst p) -> none_is c (lpair p).
Proof.
  intros Hw Hc [_ Hn]. unfold lpair. apply none_is_app; [apply words_none; assumption|].
  apply none_is_cons; [congruence|]. apply words_none; [exact Hw | apply pos_name_words].
Qed.

Lemma lcontent_none c a : is_word c = false -> c <> ":" -> c <> "," -> wf_arg a -> none_is c (lcontent a).
Proof.
  intros Hw H1 H2 Ha. unfold lcontent. apply none_is_ljoin; [congruence|].
  apply Forall_map. eapply Forall_impl; [|exact Ha]. intros p Hp. apply lpair_none; assumption.
Qed.

Lemma largs_none c l : is_word c = false -> c <> ":" -> c <> "," -> c <> "(" -> c <> ")" ->
  Forall wf_arg l -> none_is c (largs l).
Proof.
  intros Hw H1 H2 H3 H4 Hl. unfold largs. apply none_is_ljoin; [congruence|].
  apply Forall_map. eapply Forall_impl; [|exact Hl]. intros a Ha. unfold larg.
  apply none_is_cons; [congruence|]. apply none_is_app; [apply lcontent_none; assumption|].
  apply none_is_cons; [congruence | apply none_is_nil].
Qed.

(* ---- the scanners ---- *)
Lemma eqb_false_of (x c : ascii) : x <> c -> Ascii.eqb x c = false.
Proof. apply Ascii.eqb_neq. Qed.

Lemma split_on_none sep x : forall cur, none_is sep x -> split_on sep cur x = [rev cur ++ x].
Proof.
  induction x as [|c x IH]; intros cur H; cbn [split_on]; [rewrite app_nil_r; reflexivity|].
  rewrite (eqb_false_of c sep) by (apply H; left; reflexivity).
  rewrite IH by (intros y Hy; apply H; right; exact Hy).
  cbn [rev]. rewrite <- app_assoc. reflexivity.
Qed.

Lemma split_on_piece sep x rest : forall cur, none_is sep x ->
  split_on sep cur (x ++ sep :: rest) = (rev cur ++ x) :: split_on sep [] rest.
Proof.
  induction x as [|c x IH]; intros cur H; cbn [app split_on].
  - rewrite Ascii.eqb_refl, app_nil_r. reflexivity.
  - rewrite (eqb_false_of c sep) by (apply H; left; reflexivity).
    rewrite IH by (intros y Hy; apply H; right; exact Hy).
    cbn [rev]. rewrite <- app_assoc. reflexivity.
Qed.

Lemma split_on_ljoin sep l : l <> [] -> Forall (none_is sep) l -> split_on sep [] (ljoin sep l) = l.
Proof.
  intros Hne H. destruct H as [|x r Hx Hr]; [contradiction|]. clear Hne. cbn [ljoin].
  revert x Hx. induction Hr as [|y r Hy Hr IH]; intros x Hx.
  - unfold ltail. cbn [map List.concat]. rewrite app_nil_r. rewrite split_on_none by exact Hx. reflexivity.
  - unfold ltail. cbn [map List.concat]. cbn [app]. rewrite (split_on_piece sep x) by exact Hx. cbn [rev app]. f_equal.
    apply IH. exact Hy.
Qed.

Lemma find_arguments_inside content rest : forall cur, none_is ")" content ->
  find_arguments (Some cur) (content ++ ")" :: rest) = (rev cur ++ content) :: find_arguments None rest.
Proof.
  induction content as [|c content IH]; intros cur H; cbn [app find_arguments].
  - rewrite Ascii.eqb_refl, app_nil_r. reflexivity.
  - rewrite (eqb_false_of c ")") by (apply H; left; reflexivity).
    rewrite IH by (intros y Hy; apply H; right; exact Hy).
    cbn [rev]. rewrite <- app_assoc. reflexivity.
Qed.

Lemma find_arguments_larg a rest : none_is ")" (lcontent a) ->
  find_arguments None (larg a ++ rest) = lcontent a :: find_arguments None rest.
Proof.
  intros H. unfold larg. cbn [app find_arguments]. rewrite Ascii.eqb_refl.
  rewrite <- app_assoc. cbn [app]. rewrite find_arguments_inside by exact H. reflexivity.
Qed.

Lemma find_arguments_largs l : Forall (fun a => none_is ")" (lcontent a)) l ->
  find_arguments None (largs l) = map lcontent l.
Proof.
  intros H. unfold largs. destruct H as [|a r Ha Hr]; [reflexivity|]. cbn [map ljoin].
  rewrite find_arguments_larg by exact Ha. f_equal.
  induction Hr as [|b r Hb Hr IH]; [reflexivity|].
  unfold ltail. cbn [map List.concat]. cbn [app find_arguments].
  change (Ascii.eqb "," "(") with false. cbv iota.
  change (List.concat (map (fun y => "," :: y) (map larg r))) with (ltail "," (map larg r)).
  rewrite find_arguments_larg by exact Hb. cbn [map]. f_equal. exact IH.
Qed.

Lemma split_arrow_at A B : forall acc, none_is "-" A ->
  split_arrow acc (A ++ "-" :: ">" :: B) = Some (rev acc ++ A, B).
Proof.
  induction A as [|c A IH]; intros acc H; cbn [app].
  - cbn [split_arrow]. rewrite app_nil_r. reflexivity.
  - assert (Hc : c <> "-") by (apply H; left; reflexivity).
    assert (E : split_arrow acc (c :: A ++ "-" :: ">" :: B) = split_arrow (c :: acc) (A ++ "-" :: ">" :: B)).
    { cbn [split_arrow]. destruct c as [b0 b1 b2 b3 b4 b5 b6 b7].
      destruct b0, b1, b2, b3, b4, b5, b6, b7; try reflexivity. exfalso. apply Hc. reflexivity. }
    rewrite E, IH by (intros y Hy; apply H; right; exact Hy).
    cbn [rev]. rewrite <- app_assoc. reflexivity.
Qed.

(* ---- pairs ---- *)
Lemma str_chars n : str (chars n) = n.
Proof. unfold str, chars. apply string_of_list_ascii_of_string. Qed.

Lemma pos_of_name_name p : pos_of_name (pos_name p) = Some p.
Proof. destruct p; reflexivity. Qed.

Lemma is_word_colon : is_word ":" = false. Proof. reflexivity. Qed.
Lemma is_word_comma : is_word "," = false. Proof. reflexivity. Qed.
Lemma is_word_lpar : is_word "(" = false. Proof. reflexivity. Qed.
Lemma is_word_rpar : is_word ")" = false. Proof. reflexivity. Qed.
Lemma is_word_dash : is_word "-" = false. Proof. reflexivity. Qed.
Lemma is_word_space : is_word " " = false. Proof. reflexivity. Qed.

Lemma split_pair_piece p : wf_name (fst p) ->
  split_on ":" [] (lpair p) = [chars (fst p); chars (pos_name (snd p))].
Proof.
  intros [_ Hn]. unfold lpair. rewrite split_on_piece by (apply words_none; [reflexivity | exact Hn]).
  rewrite split_on_none by (apply words_none; [reflexivity | apply pos_name_words]). reflexivity.
Qed.

Lemma lpair_nonempty p : lpair p <> [].
Proof. unfold lpair. destruct (chars (fst p)); discriminate. Qed.

Lemma split_pairs_content a : wf_arg a -> split_pairs (lcontent a) = a.
Proof.
  intros Ha. destruct a as [|p a]; [reflexivity|].
  unfold split_pairs. remember (lcontent (p :: a)) as content eqn:Ec.
  destruct content as [|c0 content0].
  - exfalso. unfold lcontent in Ec. cbn [map ljoin] in Ec. symmetry in Ec. apply app_eq_nil in Ec.
    destruct Ec as [E _]. exact (lpair_nonempty p E).
  - rewrite Ec. unfold lcontent.
    rewrite split_on_ljoin.
    + clear Ec. induction Ha as [|q r Hq _ IH]; [reflexivity|].
      cbn [map flat_map]. rewrite (split_pair_piece q Hq). rewrite str_chars, pos_of_name_name, str_chars.
      cbn [app]. destruct q as [n qp]. cbn [fst snd]. f_equal. exact IH.
    + discriminate.
    + apply Forall_map. eapply Forall_impl; [|exact Ha]. intros q Hq.
      apply lpair_none; [reflexivity | discriminate | exact Hq].
Qed.

(* ---- the grammar accepts the printed text ---- *)
Lemma lang_LitNE s : s <> [] -> lang (LitNE s) s.
Proof.
  induction s as [|c [|d r] IH]; intros H; [contradiction | constructor; apply Ascii.eqb_refl |].
  change (LitNE (c :: d :: r)) with (Cat (Chr (Ascii.eqb c)) (LitNE (d :: r))).
  change (c :: d :: r) with ([c] ++ d :: r). constructor; [constructor; apply Ascii.eqb_refl | apply IH; discriminate].
Qed.

Lemma lang_star_words l : forallb is_word l = true -> lang (Star (Chr is_word)) l.
Proof.
  induction l as [|c l IH]; intros H; [constructor|]. cbn [forallb] in H. apply andb_prop in H.
  destruct H as [Hc Hl]. change (c :: l) with ([c] ++ l). constructor; [constructor; exact Hc | apply IH, Hl].
Qed.

Lemma lang_name n : wf_name n -> lang AXIS_NAME (chars n).
Proof.
  intros [Hne Hw]. destruct (chars n) as [|c l]; [contradiction|]. cbn [forallb] in Hw.
  apply andb_prop in Hw. destruct Hw as [Hc Hl]. unfold AXIS_NAME, Plus.
  change (c :: l) with ([c] ++ l). constructor; [constructor; exact Hc | apply lang_star_words, Hl].
Qed.

Lemma lang_position p : lang AXIS_POSITION (chars (pos_name p)).
Proof.
  unfold AXIS_POSITION. destruct p; cbn [pos_name].
  - apply L_altl. apply lang_LitNE. discriminate.
  - apply L_altr, L_altl. apply lang_LitNE. discriminate.
  - apply L_altr, L_altr, L_altl. apply lang_LitNE. discriminate.
  - apply L_altr, L_altr, L_altr, L_altl. apply lang_LitNE. discriminate.
  - apply L_altr, L_altr, L_altr, L_altr. apply lang_LitNE. discriminate.
Qed.

Lemma lang_pair p : wf_name (fst p) -> lang PAIR (lpair p).
Proof.
  intros H. unfold PAIR, lpair. constructor; [apply lang_name, H|].
  change (":" :: chars (pos_name (snd p))) with ([":"] ++ chars (pos_name (snd p))).
  constructor; [constructor; reflexivity | apply lang_position].
Qed.

Lemma lang_tail (sep : ascii) (item : re) (r : list (list ascii)) :
  Forall (lang item) r -> lang (Star (Cat (Chr (Ascii.eqb sep)) item)) (ltail sep r).
Proof.
  intros H. unfold ltail. induction H as [|y r Hy _ IH]; cbn [map List.concat]; [constructor|].
  constructor; [|exact IH]. change (sep :: y) with ([sep] ++ y).
  constructor; [constructor; apply Ascii.eqb_refl | exact Hy].
Qed.

Lemma lang_content a : wf_arg a -> lang PAIR_LIST (lcontent a).
Proof.
  intros Ha. unfold PAIR_LIST, Opt, lcontent. destruct Ha as [|p r Hp Hr]; [apply L_altl; constructor|].
  apply L_altr. cbn [map ljoin]. constructor; [apply lang_pair, Hp|].
  apply lang_tail. apply Forall_map. eapply Forall_impl; [|exact Hr]. intros q. apply lang_pair.
Qed.

Lemma lang_arg a : wf_arg a -> lang ARGUMENT (larg a).
Proof.
  intros Ha. unfold ARGUMENT, larg. change ("(" :: lcontent a ++ [")"]) with (["("] ++ lcontent a ++ [")"]).
  constructor; [constructor; reflexivity|]. constructor; [apply lang_content, Ha | constructor; reflexivity].
Qed.

Lemma lang_args l : l <> [] -> Forall wf_arg l -> lang ARGUMENT_LIST (largs l).
Proof.
  intros Hne H. unfold ARGUMENT_LIST, largs. destruct H as [|a r Ha Hr]; [contradiction|].
  cbn [map ljoin]. constructor; [apply lang_arg, Ha|].
  apply lang_tail. apply Forall_map. eapply Forall_impl; [|exact Hr]. intros b. apply lang_arg.
Qed.

Lemma lang_sig s : wf_sig s -> lang SIGNATURE (lsig s).
Proof.
  intros (H1 & H2 & H3 & H4). unfold SIGNATURE, lsig.
  constructor; [apply lang_args; assumption|].
  change ("-" :: ">" :: largs (s_out s)) with (["-"; ">"] ++ largs (s_out s)).
  constructor; [apply (lang_LitNE ["-"; ">"]); discriminate | apply lang_args; assumption].
Qed.

(* ---- no blanks ---- *)
Lemma filter_none_is c l : none_is c l -> filter (fun x => negb (Ascii.eqb x c)) l = l.
Proof.
  induction l as [|x l IH]; intros H; [reflexivity|]. cbn [filter].
  rewrite (eqb_false_of x c) by (apply H; left; reflexivity). cbn [negb]. f_equal.
  apply IH. intros y Hy. apply H. right. exact Hy.
Qed.

(* ---- the round trip ---- *)
Theorem parse_print s : wf_sig s -> parse_string (print_sig s) = Ok s.
Proof.
  intros W. pose proof W as (H1 & H2 & H3 & H4).
  unfold parse_string. rewrite chars_print_sig.
  assert (NS : remove_spaces (lsig s) = lsig s).
  { unfold remove_spaces. apply filter_none_is. unfold lsig.
    apply none_is_app; [apply largs_none; try discriminate; [reflexivity | exact H3]|].
    apply none_is_cons; [discriminate|]. apply none_is_cons; [discriminate|].
    apply largs_none; try discriminate; [reflexivity | exact H4]. }
  rewrite NS.
  assert (M : matches SIGNATURE (lsig s) = true) by (apply matches_spec, lang_sig, W).
  rewrite M. cbn [negb]. unfold lsig.
  rewrite split_arrow_at by (apply largs_none; try discriminate; [reflexivity | exact H3]).
  cbn [rev app].
  assert (F : forall l, Forall wf_arg l -> map split_pairs (find_arguments None (largs l)) = l).
  { intros l Hl. rewrite find_arguments_largs.
    - rewrite map_map. rewrite <- (map_id l) at 2. apply map_ext_in. intros a Ha.
      apply split_pairs_content. rewrite Forall_forall in Hl. apply Hl, Ha.
    - eapply Forall_impl; [|exact Hl]. intros a Ha. apply lcontent_none; try discriminate; [reflexivity | exact Ha]. }
  rewrite (F _ H3), (F _ H4). destruct s as [si so]. cbn [s_in s_out] in *.
  destruct si; [contradiction | reflexivity].
Qed.

(* printing is injective on well-formed signatures: two different signatures never print
   to the same text *)
Corollary print_injective s1 s2 : wf_sig s1 -> wf_sig s2 -> print_sig s1 = print_sig s2 -> s1 = s2.
Proof.
  intros W1 W2 E. pose proof (parse_print s1 W1) as P1. rewrite E, (parse_print s2 W2) in P1.
  inversion P1. reflexivity.
Qed.
