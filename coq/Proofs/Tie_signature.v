(* Tie: the seven signature patterns regenerated from /repo/xgcm/grid_ufunc.py on this run
   denote the same languages as the structured canonical patterns of Model/Signature.v
   (same normal form modulo associativity of concatenation), and the whole-string
   anchoring (^ ... \Z) is in place. *)
From Coq Require Import List Bool Ascii String.
From XV Require Import Base.Regex Model.Signature Proofs.RegexNorm Generated.G3.

Lemma Tie_signature_patterns :
  norm gen_AXIS_NAME = norm AXIS_NAME /\
  norm gen_AXIS_POSITION = norm AXIS_POSITION /\
  norm gen_AXIS_NAME_POSITION_PAIR = norm PAIR /\
  norm gen_AXIS_NAME_POSITION_PAIR_LIST = norm PAIR_LIST /\
  norm gen_ARGUMENT = norm ARGUMENT /\
  norm gen_ARGUMENT_LIST = norm ARGUMENT_LIST /\
  norm gen_SIGNATURE = norm SIGNATURE /\
  gen_signature_start_anchor = true /\ gen_signature_end_anchor_Z = true.
Proof. repeat split; vm_compute; reflexivity. Qed.

Lemma Tie_signature_language : forall s, lang gen_SIGNATURE s <-> lang SIGNATURE s.
Proof. apply norm_eq_leq. apply Tie_signature_patterns. Qed.
