(* C10: the metric the model of get_metric picks obeys the selection rule. *)
From Coq Require Import List Bool ZArith String Lia.
From XV Require Import Base.Res Base.Assoc Model.Registry Model.Metrics Spec.S10 Proofs.P16.
Import ListNotations.
Open Scope string_scope.
Open Scope nat_scope.
Open Scope list_scope.

(* --- a variable is registered for exactly the requested set ------------------------ *)

Lemma find_fits_some ad (l : list varinfo) v : find (fits ad) l = Some v -> In v l /\ fits ad v = true.
Proof. apply find_some. Qed.

Lemma find_fits_none ad (l : list varinfo) : find (fits ad) l = None -> existsb (fits ad) l = false.
Proof.
  intros H. apply not_true_is_false. intro E. apply existsb_exists in E. destruct E as (x & Hx & Fx).
  pose proof (find_none _ _ H x Hx). congruence.
Qed.

(* names identify the variables of one key's list *)
Definition names_unique (l : list varinfo) : Prop := NoDup (map fst l).

Lemma find_by_name (l : list varinfo) v : names_unique l -> In v l ->
  find (fun w : varinfo => String.eqb (fst w) (fst v)) l = Some v.
Proof.
  unfold names_unique. induction l as [|w l IH]; intros ND Hin; [contradiction|].
  inversion ND as [|? ? Hn ND']; subst. simpl. destruct Hin as [->|Hin].
  - rewrite String.eqb_refl. reflexivity.
  - destruct (String.eqb (fst w) (fst v)) eqn:E.
    + apply String.eqb_eq in E. exfalso. apply Hn. rewrite E. apply in_map, Hin.
    + apply IH; assumption.
Qed.

(* C10, exact set: when a variable is registered for exactly the requested axes, the
   metric is the one located at the array's position if there is one, otherwise one of
   them, flagged as interpolated -- never a product *)
Theorem get_metric_exact axis_dims reg ad axes l e :
  find_key axes reg = Some l -> names_unique l ->
  get_metric axis_dims reg ad axes = Ok e ->
  admissible reg ad axes e = true.
Proof.
  intros Hk Hu H. unfold get_metric in H.
  destruct (forM_ _ (dedup_s axes)) as [[]|]; [|discriminate]. cbn [bind] in H. rewrite Hk in H.
  unfold admissible. rewrite Hk.
  destruct (find (fits ad) l) as [v|] eqn:F.
  - inversion H; subst. cbn [f_name f_interp]. apply find_fits_some in F. destruct F as [Hin Hf].
    rewrite (find_by_name l v Hu Hin). exact Hf.
  - destruct (rev l) as [|v r] eqn:R; [discriminate|]. inversion H; subst. cbn [f_name f_interp].
    assert (Hin : In v l) by (apply in_rev; rewrite R; left; reflexivity).
    rewrite (find_by_name l v Hu Hin). rewrite (find_fits_none ad l F). reflexivity.
Qed.

(* --- the enumeration of axis partitions, for grids of up to three axes --------------- *)

Definition is_partition (axes : list string) (blocks : list (list string)) : bool :=
  set_eqb (flat_map (fun k => k) blocks) axes && pairwise_disjoint blocks &&
  forallb (fun k => Nat.leb (List.length k) (List.length (hd [] blocks))) blocks &&
  forallb (fun k => negb (Nat.eqb (List.length k) 0)) blocks.

Lemma eqb_neq_false a b : a <> b -> String.eqb a b = false.
Proof. apply String.eqb_neq. Qed.

Ltac str_simpl :=
  repeat match goal with
         | H : ?a <> ?b |- context [String.eqb ?a ?b] => rewrite (eqb_neq_false a b H)
         | H : ?a <> ?b |- context [String.eqb ?b ?a] => rewrite (eqb_neq_false b a (not_eq_sym H))
         | |- context [String.eqb ?a ?a] => rewrite (String.eqb_refl a)
         end.

(* C10: every combination after the first (the whole set) is a partition of the
   requested axes into non-empty blocks, largest block first *)
Theorem combinations_are_partitions axes :
  NoDup axes -> List.length axes <= 3 ->
  forallb (is_partition axes) (tl (axis_combinations axes)) = true.
Proof.
  intros ND Hl. destruct axes as [|a [|b [|c [|d r]]]]; simpl in Hl; try lia.
  - reflexivity.
  - reflexivity.
  - inversion ND as [|? ? Ha ND1]; subst. assert (Hab : a <> b) by (intro; subst; apply Ha; left; reflexivity).
    unfold axis_combinations, is_partition, set_eqb, subsetS, memS, memk.
    repeat (progress (simpl; str_simpl)). reflexivity.
  - inversion ND as [|? ? Ha ND1]; subst. inversion ND1 as [|? ? Hb ND2]; subst.
    assert (Hab : a <> b) by (intro; subst; apply Ha; left; reflexivity).
    assert (Hac : a <> c) by (intro; subst; apply Ha; right; left; reflexivity).
    assert (Hbc : b <> c) by (intro; subst; apply Hb; left; reflexivity).
    unfold axis_combinations, is_partition, set_eqb, subsetS, memS, memk.
    repeat (progress (simpl; str_simpl)). reflexivity.
Qed.

(* --- the product branch: one factor per block, chosen block by block ------------------- *)

Lemma choose_block_spec ad l f :
  choose_block ad l = Some f ->
  (f_interp f = false /\ exists v, In v l /\ fst v = f_name f /\ fits ad v = true) \/
  (f_interp f = true /\ (forall v, In v l -> fits ad v = false) /\ exists v, In v l /\ fst v = f_name f).
Proof.
  unfold choose_block. destruct (find (fits ad) l) as [v|] eqn:F.
  - intros H. inversion H; subst. left. split; [reflexivity|]. apply find_some in F.
    exists v. split; [apply F|]. split; [reflexivity | apply F].
  - destruct (rev l) as [|v r] eqn:R; [discriminate|]. intros H. inversion H; subst. right.
    split; [reflexivity|]. split.
    + intros w Hw. apply (find_none _ _ F). exact Hw.
    + exists v. split; [|reflexivity]. apply in_rev. rewrite R. left. reflexivity.
Qed.

Lemma choose_blocks_spec ad : forall ls e, choose_blocks ad ls = Some e ->
  Forall2 (fun f l => choose_block ad l = Some f) e ls.
Proof.
  induction ls as [|l ls IH]; intros e H; simpl in H.
  - inversion H; subst. constructor.
  - destruct (choose_block ad l) as [f|] eqn:C; [|discriminate].
    destruct (choose_blocks ad ls) as [fs|]; [|discriminate]. inversion H; subst.
    constructor; [exact C | apply IH; reflexivity].
Qed.

Lemma scan_combinations_spec reg ad : forall cs e,
  scan_combinations reg ad cs = Some e ->
  exists c ls, In c cs /\ all_lookup reg c = Some ls /\ choose_blocks ad ls = Some e /\ e <> [].
Proof.
  induction cs as [|c cs IH]; intros e H; simpl in H; [discriminate|].
  destruct (all_lookup reg c) as [ls|] eqn:L.
  - destruct (choose_blocks ad ls) as [[|f fs]|] eqn:S.
    + destruct (IH e H) as (c' & ls' & Hc & R). exists c', ls'. split; [right; exact Hc | exact R].
    + inversion H; subst. exists c, ls. split; [left; reflexivity|]. split; [exact L|]. split; [exact S | discriminate].
    + destruct (IH e H) as (c' & ls' & Hc & R). exists c', ls'. split; [right; exact Hc | exact R].
  - destruct (IH e H) as (c' & ls' & Hc & R). exists c', ls'. split; [right; exact Hc | exact R].
Qed.

Lemma all_lookup_spec reg : forall c ls, all_lookup reg c = Some ls ->
  Forall2 (fun b l => find_key b reg = Some l) c ls.
Proof.
  induction c as [|b c IH]; intros ls H; simpl in H.
  - inversion H; subst. constructor.
  - destruct (find_key b reg) as [l|] eqn:F; [|discriminate].
    destruct (all_lookup reg c) as [ls'|]; [|discriminate]. inversion H; subst.
    constructor; [exact F|apply IH; reflexivity].
Qed.

Lemma products_spec {T} : forall (ls : list (list T)) p, In p (products ls) -> Forall2 (fun x l => In x l) p ls.
Proof.
  induction ls as [|l ls IH]; intros p H; simpl in H.
  - destruct H as [<-|[]]. constructor.
  - apply in_flat_map in H. destruct H as (x & Hx & Hp). apply in_map_iff in Hp.
    destruct Hp as (q & <- & Hq). constructor; [exact Hx|apply IH, Hq].
Qed.

(* C10, products: only when nothing is registered for exactly the requested set, the
   metric is a product with one factor per block of one of the enumerated combinations:
   for each block, the variable registered at the array's position if there is one (taken
   as it is), otherwise one of them (the last registered) flagged as interpolated *)
Theorem get_metric_product axis_dims reg ad axes e :
  find_key axes reg = None ->
  get_metric axis_dims reg ad axes = Ok e ->
  exists c ls, In c (axis_combinations axes) /\
    Forall2 (fun b l => find_key b reg = Some l) c ls /\
    Forall2 (fun f l =>
               (f_interp f = false /\ exists v, In v l /\ fst v = f_name f /\ fits ad v = true) \/
               (f_interp f = true /\ (forall v, In v l -> fits ad v = false) /\
                exists v, In v l /\ fst v = f_name f)) e ls.
Proof.
  intros Hk H. unfold get_metric in H.
  destruct (forM_ _ (dedup_s axes)) as [[]|]; [|discriminate]. cbn [bind] in H. rewrite Hk in H.
  destruct (scan_combinations reg ad (axis_combinations axes)) as [e'|] eqn:S; [|discriminate].
  inversion H; subst. destruct (scan_combinations_spec reg ad _ _ S) as (c & ls & Hc & L & Ch & _).
  exists c, ls. split; [exact Hc|]. split; [apply all_lookup_spec, L|].
  apply choose_blocks_spec in Ch. clear - Ch. induction Ch as [|f l fs ls' Hf _ IH]; constructor; [|exact IH].
  apply choose_block_spec. exact Hf.
Qed.

(* --- the combination used is the FIRST usable one in the enumerated order --------------- *)

(* a combination is usable when every block is a registered key with at least one variable *)
Definition usable (reg : registry) (c : list (list string)) : bool :=
  match all_lookup reg c with
  | Some (l :: ls) => forallb (fun l : list varinfo => match l with [] => false | _ => true end) (l :: ls)
  | _ => false
  end.

Lemma choose_block_none ad l : choose_block ad l = None <-> l = [].
Proof.
  unfold choose_block. split.
  - destruct (find (fits ad) l) as [v|]; [discriminate|].
    destruct (rev l) as [|v r] eqn:R; [|discriminate]. intros _.
    rewrite <- (rev_involutive l), R. reflexivity.
  - intros ->. reflexivity.
Qed.

Lemma choose_blocks_some_iff ad : forall ls,
  (exists e, choose_blocks ad ls = Some e) <->
  forallb (fun l : list varinfo => match l with [] => false | _ => true end) ls = true.
Proof.
  induction ls as [|l ls IH]; simpl.
  - split; [reflexivity | intros _; eexists; reflexivity].
  - split.
    + intros [e H]. destruct (choose_block ad l) as [f|] eqn:C; [|discriminate].
      destruct (choose_blocks ad ls) as [fs|] eqn:Cs; [|discriminate].
      apply andb_true_iff. split.
      * destruct l; [|reflexivity]. assert (X : @nil varinfo = []) by reflexivity.
        apply (proj2 (choose_block_none ad [])) in X. congruence.
      * apply IH. eexists; reflexivity.
    + intros H. apply andb_true_iff in H. destruct H as [Hl Hls].
      destruct (choose_block ad l) as [f|] eqn:C.
      * apply IH in Hls. destruct Hls as [fs ->]. eexists; reflexivity.
      * apply choose_block_none in C. subst. discriminate.
Qed.

Lemma choose_blocks_length ad : forall ls e, choose_blocks ad ls = Some e -> List.length e = List.length ls.
Proof.
  induction ls as [|l ls IH]; intros e H; simpl in H.
  - inversion H; reflexivity.
  - destruct (choose_block ad l); [|discriminate]. destruct (choose_blocks ad ls) as [fs|]; [|discriminate].
    inversion H; subst. simpl. f_equal. apply IH. reflexivity.
Qed.

Lemma usable_iff reg ad c :
  usable reg c = true <->
  exists ls f fs, all_lookup reg c = Some ls /\ choose_blocks ad ls = Some (f :: fs).
Proof.
  unfold usable. split.
  - destruct (all_lookup reg c) as [[|l ls]|] eqn:L; try discriminate. intros H.
    apply (choose_blocks_some_iff ad) in H. destruct H as [e He].
    pose proof (choose_blocks_length ad _ _ He) as Hl. destruct e as [|f fs]; [discriminate|].
    exists (l :: ls), f, fs. split; [reflexivity | exact He].
  - intros (ls & f & fs & L & C). rewrite L.
    pose proof (choose_blocks_length ad _ _ C) as Hl. destruct ls as [|l ls]; [discriminate|].
    apply (choose_blocks_some_iff ad). eexists; exact C.
Qed.

Lemma scan_combinations_first reg ad : forall cs e,
  scan_combinations reg ad cs = Some e ->
  exists pre c post ls,
    cs = pre ++ c :: post /\ (forall c', In c' pre -> usable reg c' = false) /\
    usable reg c = true /\ all_lookup reg c = Some ls /\ choose_blocks ad ls = Some e.
Proof.
  induction cs as [|c cs IH]; intros e H; simpl in H; [discriminate|].
  assert (Hskip : usable reg c = false -> scan_combinations reg ad cs = Some e ->
          exists pre c0 post ls, c :: cs = pre ++ c0 :: post /\ (forall c', In c' pre -> usable reg c' = false) /\
            usable reg c0 = true /\ all_lookup reg c0 = Some ls /\ choose_blocks ad ls = Some e).
  { intros Hu Hs. destruct (IH e Hs) as (pre & c0 & post & ls & -> & Hpre & R).
    exists (c :: pre), c0, post, ls. split; [reflexivity|]. split; [|exact R].
    intros c' [<-|Hin]; [exact Hu | apply Hpre, Hin]. }
  destruct (all_lookup reg c) as [ls|] eqn:L.
  - destruct (choose_blocks ad ls) as [[|f fs]|] eqn:S.
    + apply Hskip; [|exact H]. destruct (usable reg c) eqn:U; [|reflexivity].
      apply (usable_iff reg ad) in U. destruct U as (ls' & f & fs & L' & C'). congruence.
    + inversion H; subst. exists [], c, cs, ls. split; [reflexivity|]. split; [intros c' []|].
      split; [apply (usable_iff reg ad); exists ls, f, fs; split; assumption|]. split; assumption.
    + apply Hskip; [|exact H]. destruct (usable reg c) eqn:U; [|reflexivity].
      apply (usable_iff reg ad) in U. destruct U as (ls' & f & fs & L' & C'). congruence.
  - apply Hskip; [|exact H]. unfold usable. rewrite L. reflexivity.
Qed.

Lemma scan_combinations_none reg ad : forall cs,
  scan_combinations reg ad cs = None <-> forall c, In c cs -> usable reg c = false.
Proof.
  induction cs as [|c cs IH]; simpl.
  - split; [intros _ c [] | reflexivity].
  - split.
    + intros H c' [E|Hin].
      * subst c'. destruct (usable reg c) eqn:U; [|reflexivity]. apply (usable_iff reg ad) in U.
        destruct U as (ls & f & fs & L & C). rewrite L, C in H. discriminate.
      * revert c' Hin. apply IH. destruct (all_lookup reg c) as [ls|]; [|exact H].
        destruct (choose_blocks ad ls) as [[|f fs]|]; [exact H | discriminate | exact H].
    + intros H. assert (Hc := H c (or_introl eq_refl)).
      assert (Hr : scan_combinations reg ad cs = None) by (apply IH; intros c' Hin; apply H; right; exact Hin).
      destruct (all_lookup reg c) as [ls|] eqn:L; [|exact Hr].
      destruct (choose_blocks ad ls) as [[|f fs]|] eqn:C; [exact Hr | | exact Hr].
      assert (U : usable reg c = true) by (apply (usable_iff reg ad); exists ls, f, fs; split; assumption).
      congruence.
Qed.

(* C10: without an exact registration the product uses the FIRST combination, in the
   enumerated order (largest first block first), all of whose blocks are registered *)
Theorem get_metric_first axis_dims reg ad axes e :
  find_key axes reg = None ->
  get_metric axis_dims reg ad axes = Ok e ->
  exists pre c post ls,
    axis_combinations axes = pre ++ c :: post /\
    (forall c', In c' pre -> usable reg c' = false) /\ usable reg c = true /\
    all_lookup reg c = Some ls /\ choose_blocks ad ls = Some e.
Proof.
  intros Hk H. unfold get_metric in H.
  destruct (forM_ _ (dedup_s axes)) as [[]|]; [|discriminate]. cbn [bind] in H. rewrite Hk in H.
  destruct (scan_combinations reg ad (axis_combinations axes)) as [e'|] eqn:S; [|discriminate].
  inversion H; subst. apply scan_combinations_first. exact S.
Qed.

(* ... and when no combination is usable the request is refused: no metric is made up *)
Theorem get_metric_none_usable axis_dims reg ad axes :
  find_key axes reg = None ->
  (forall c, In c (axis_combinations axes) -> usable reg c = false) ->
  exists err, get_metric axis_dims reg ad axes = Err err.
Proof.
  intros Hk Hu. unfold get_metric.
  destruct (forM_ _ (dedup_s axes)) as [[]|err]; [|exists err; reflexivity]. cbn [bind]. rewrite Hk.
  apply (scan_combinations_none reg ad) in Hu. rewrite Hu. exists KeyError. reflexivity.
Qed.

(* --- C20 for the metric operations: a request naming an axis the grid lacks, or made for an
   array that lacks (or has two) dimensions of a requested axis, is refused --------------- *)
Lemma forM_err_in {T} (f : T -> res unit) l x e :
  In x l -> f x = Err e -> exists e', forM_ f l = Err e'.
Proof.
  induction l as [|y l IH]; intros Hin Hf; [contradiction|]. cbn [forM_].
  destruct Hin as [->|Hin].
  - rewrite Hf. exists e. reflexivity.
  - destruct (f y) as [[]|e0]; [apply IH; assumption | exists e0; reflexivity].
Qed.

Lemma in_dedup_s x : forall l, In x l -> In x (dedup_s l).
Proof.
  induction l as [|y l IH]; intros H; [contradiction|]. cbn [dedup_s].
  destruct (String.eqb x y) eqn:E.
  - apply String.eqb_eq in E. subst. left. reflexivity.
  - right. apply filter_In. split.
    + apply IH. destruct H as [H|H]; [subst; rewrite String.eqb_refl in E; discriminate | exact H].
    + rewrite E. reflexivity.
Qed.

Definition ill_posed_metric (axis_dims : list (string * list string)) (array_dims axes : list string) : bool :=
  existsb (fun ax => match lookupS ax axis_dims with
                     | None => true
                     | Some ds => negb (List.length (filter (fun d => memS d array_dims) ds) =? 1)
                     end) axes.

Theorem get_metric_refuses axis_dims reg ad axes :
  ill_posed_metric axis_dims ad axes = true ->
  exists e, get_metric axis_dims reg ad axes = Err e.
Proof.
  intros H. unfold ill_posed_metric in H. apply existsb_exists in H. destruct H as (ax & Hin & Hax).
  unfold get_metric.
  match goal with |- context [forM_ ?f0 (dedup_s axes)] => set (f := f0) end.
  assert (F : exists e, f ax = Err e).
  { subst f. cbv beta. destruct (lookupS ax axis_dims) as [ds|]; [|exists KeyError; reflexivity].
    destruct (filter (fun d => memS d ad) ds) as [|d0 [|d1 l]]; try (exists ValueError; reflexivity).
    discriminate. }
  destruct F as [e F].
  destruct (forM_err_in f (dedup_s axes) ax e (in_dedup_s ax axes Hin) F) as [e' E].
  rewrite E. exists e'. reflexivity.
Qed.
