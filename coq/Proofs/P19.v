(* C19: the labels of a result (Model/Coords.v). *)
From Coq Require Import List Bool ZArith String Lia.
From XV Require Import Base.Res Base.Assoc Base.Tensor Model.Axis Model.GridCtor Model.Coords.
Import ListNotations.
Open Scope string_scope.
Open Scope nat_scope.
Open Scope list_scope.

(* what the property prescribes for a result with dimensions D *)
Definition prescribed (dscoords : list coordv) (keep : bool) (D : list string) (c : coordv) : Prop :=
  In c dscoords /\ fits D c = true /\ (keep = true \/ is_dim_coord D c = true).

(* the input carries only coordinates of the grid dataset, each fitting its dimensions *)
Definition carries_only (dscoords : list coordv) (l : labels) : Prop :=
  forall c, In c (l_coords l) -> In c dscoords /\ fits (l_dims l) c = true.

Lemma memS_In x l : memS x l = true <-> In x l.
Proof. apply (memk_In String.eqb string_eqb_spec'). Qed.

Lemma memS_false x l : memS x l = false <-> ~ In x l.
Proof.
  split; intros H.
  - intros HI. apply memS_In in HI. congruence.
  - destruct (memS x l) eqn:E; [|reflexivity]. apply memS_In in E. contradiction.
Qed.

Lemma fits_spec D c : fits D c = true <-> forall d, In d (cv_dims c) -> In d D.
Proof.
  unfold fits. rewrite forallb_forall. split; intros H d Hd.
  - apply memS_In. apply H. exact Hd.
  - apply memS_In. apply H. exact Hd.
Qed.

(* reattach on labels whose own coordinates are dataset coordinates that fit *)
Lemma reattach_spec dscoords keep l :
  carries_only dscoords l ->
  let r := reattach dscoords keep l in
  l_dims r = l_dims l /\ l_name r = l_name l /\
  forall c, In c (l_coords r) <-> prescribed dscoords keep (l_dims l) c.
Proof.
  intros HC r. split; [reflexivity|]. split; [reflexivity|].
  assert (M : forall c, In c (assign_coords (filter (fits (l_dims l)) dscoords) (l_coords l)) <->
                        In c dscoords /\ fits (l_dims l) c = true).
  { intros c. unfold assign_coords. rewrite in_app_iff, !filter_In. split.
    - intros [[H1 H2]|H]; [|exact H].
      destruct (HC c H1) as [H3 H4]. split; assumption.
    - intros H. right. exact H. }
  intros c. unfold r, reattach. cbn [l_coords]. unfold prescribed. destruct keep.
  - rewrite M. split; [intros [H1 H2]; repeat split; auto | intros [H1 [H2 _]]; split; assumption].
  - rewrite filter_In, M. split.
    + intros [[H1 H2] H3]. repeat split; auto.
    + intros [H1 [H2 [H3|H3]]]; [discriminate|]. repeat split; assumption.
Qed.

Lemma filter_neq_In d x (l : list string) :
  In x (filter (fun y => negb (String.eqb y d)) l) <-> In x l /\ x <> d.
Proof.
  rewrite filter_In. split; intros [H1 H2]; split; try exact H1.
  - intros E. subst. rewrite String.eqb_refl in H2. discriminate.
  - apply negb_true_iff. apply String.eqb_neq. exact H2.
Qed.

(* one axis of diff / interp / min / max, padded or not *)
Lemma step_labels_spec dscoords keep pads d d' l :
  carries_only dscoords l ->
  let r := step_labels dscoords keep pads d d' l in
  l_dims r = filter (fun x => negb (String.eqb x d)) (l_dims l) ++ [d'] /\
  l_name r = l_name l /\
  (forall c, In c (l_coords r) <-> prescribed dscoords keep (l_dims r) c) /\
  carries_only dscoords r.
Proof.
  intros HC r.
  set (l2 := apply_labels d d' (pad_labels pads l)).
  assert (HC2 : carries_only dscoords l2).
  { intros c Hc. unfold l2, apply_labels in Hc. cbn [l_coords] in Hc. apply filter_In in Hc.
    destruct Hc as [Hc Hd]. assert (Hc' : In c (l_coords l)).
    { unfold pad_labels in Hc. destruct pads; [destruct Hc | exact Hc]. }
    destruct (HC c Hc') as [H1 H2]. split; [exact H1|].
    apply fits_spec. intros x Hx. unfold l2, apply_labels. cbn [l_dims].
    apply in_app_iff. left. apply filter_neq_In. split.
    - rewrite fits_spec in H2. specialize (H2 x Hx).
      unfold pad_labels. destruct pads; exact H2.
    - intros E. subst x. apply negb_true_iff in Hd. apply memS_false in Hd. contradiction. }
  destruct (reattach_spec dscoords keep l2 HC2) as [R1 [R2 R3]].
  assert (D2 : l_dims l2 = filter (fun x => negb (String.eqb x d)) (l_dims l) ++ [d']).
  { unfold l2, apply_labels, pad_labels. destruct pads; reflexivity. }
  assert (N2 : l_name l2 = l_name l).
  { unfold l2, apply_labels, pad_labels. destruct pads; reflexivity. }
  unfold r, step_labels. fold l2.
  split; [rewrite R1; exact D2|]. split; [rewrite R2; exact N2|]. split.
  - intros c. rewrite R1. apply R3.
  - intros c Hc. apply R3 in Hc. destruct Hc as [H1 [H2 _]]. split; [exact H1|]. rewrite R1. exact H2.
Qed.

(* any number of axes: the coordinates are the prescribed ones for the final dimensions *)
Lemma steps_labels_spec dscoords keep sh : forall l,
  carries_only dscoords l -> sh <> [] ->
  let r := steps_labels dscoords keep sh l in
  l_name r = l_name l /\
  (forall c, In c (l_coords r) <-> prescribed dscoords keep (l_dims r) c).
Proof.
  induction sh as [|[[d d'] pads] sh IH]; intros l HC Hne; [contradiction|].
  unfold steps_labels. cbn [fold_left fst snd].
  destruct (step_labels_spec dscoords keep pads d d' l HC) as [S1 [S2 [S3 S4]]].
  destruct sh as [|s sh'].
  - cbn [fold_left]. split; [exact S2 | exact S3].
  - assert (Hne' : s :: sh' <> []) by discriminate.
    destruct (IH _ S4 Hne') as [I1 I2]. unfold steps_labels in I1, I2.
    split; [rewrite I1; exact S2 | exact I2].
Qed.

(* cumsum: every coordinate is dropped and the dataset's are attached; no hypothesis on
   what the input carried *)
Lemma cumsum_step_labels_spec dscoords keep d d' l :
  let r := cumsum_step_labels dscoords keep d d' l in
  l_dims r = map (fun x => if String.eqb x d then d' else x) (l_dims l) /\
  l_name r = l_name l /\
  (forall c, In c (l_coords r) <-> prescribed dscoords keep (l_dims r) c) /\
  carries_only dscoords r.
Proof.
  intros r.
  set (l2 := {| l_dims := map (fun x => if String.eqb x d then d' else x) (l_dims l);
                l_coords := []; l_name := l_name l |}).
  assert (HC2 : carries_only dscoords l2) by (intros c []).
  destruct (reattach_spec dscoords keep l2 HC2) as [R1 [R2 R3]].
  unfold r, cumsum_step_labels. fold l2.
  split; [exact R1|]. split; [exact R2|]. split.
  - intros c. rewrite R1. apply R3.
  - intros c Hc. apply R3 in Hc. destruct Hc as [H1 [H2 _]]. split; [exact H1 | rewrite R1; exact H2].
Qed.

(* consequences spelled out as in the property *)
Lemma new_dim_coordinate dscoords keep D c :
  In c dscoords -> cv_dims c = [cv_name c] -> In (cv_name c) D ->
  prescribed dscoords keep D c.
Proof.
  intros H1 H2 H3. split; [exact H1|]. split.
  - apply fits_spec. rewrite H2. intros x [Hx|[]]. subst. exact H3.
  - right. unfold is_dim_coord. apply memS_In. exact H3.
Qed.

Lemma no_abandoned_dim dscoords keep D c d :
  prescribed dscoords keep D c -> ~ In d D -> ~ In d (cv_dims c).
Proof.
  intros [_ [H _]] Hn Hd. rewrite fits_spec in H. apply Hn. apply H. exact Hd.
Qed.

Lemma keep_false_only_dim_coords dscoords D c :
  prescribed dscoords false D c -> In (cv_name c) D.
Proof.
  intros [_ [_ [H|H]]]; [discriminate|]. apply memS_In. exact H.
Qed.
