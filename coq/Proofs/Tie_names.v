(* Tie: every place of the name-handling files where the spelling of a string could
   matter (string methods that look inside a string, ordering, regular expressions,
   concatenation, length of something called a name or dim) is one of the sites reviewed
   below.  Reflection over the inventory regenerated from /repo on this run (G13): a new
   such site, or a change to a reviewed one, makes the lemma fail. *)
From Coq Require Import List Bool String.
From XV Require Import Generated.G13.
Import ListNotations.
Open Scope string_scope.

Definition nsite_eqb (a b : string * string * string * string) : bool :=
  let '(a1, a2, a3, a4) := a in let '(b1, b2, b3, b4) := b in
  String.eqb a1 b1 && String.eqb a2 b2 && String.eqb a3 b3 && String.eqb a4 b4.

Definition reviewed_sites : list (string * string * string * string) :=
  [ (* splits the constant 'center|left|right|inner|outer', not a user name *)
    ("axis.py", "__init__", "str.split", "VALID_POSITION_NAMES.split('|')");
    ("grid.py", "_create_1d_grid_ufunc_signatures", "str.split", "VALID_POSITION_NAMES.split('|')");
    (* number of coordinates / matching dims / candidate ufuncs / arguments: lengths of lists *)
    ("comodo.py", "get_axis_positions_and_coords", "len-of-name", "len(coord_names)");
    ("grid.py", "_get_dims_from_axis", "len-of-name", "len(matching_dim)");
    ("grid.py", "_select_grid_ufunc", "len-of-name", "len(name_matching_ufuncs)");
    ("grid_ufunc.py", "_check_if_length_would_change", "len-of-name", "len(signature.out_ax_names)");
    ("grid_ufunc.py", "_identify_dummy_axes_with_real_axes", "len-of-name", "len(sig_in_dummy_ax_names)");
    ("grid_ufunc.py", "apply_as_grid_ufunc", "len-of-name", "len(sig.out_ax_names)");
    (* names of the functions in gridops.py against 'diff' / 'interp' / ...: not user names *)
    ("grid.py", "_select_grid_ufunc", "str.startswith", "name.startswith(funcname)");
    (* the signature grammar: modelled by Model/Signature.v and tied by Tie_signature (C15);
       names are \w+ tokens, positions a fixed alternation *)
    ("grid_ufunc.py", "_parse_signature_from_string", "re.findall", "re.findall(_ARGUMENT, in_txt)");
    ("grid_ufunc.py", "_parse_signature_from_string", "re.findall", "re.findall(_ARGUMENT, out_txt)");
    ("grid_ufunc.py", "_parse_signature_from_string", "re.match", "re.match(_SIGNATURE, signature)");
    ("grid_ufunc.py", "_parse_signature_from_string", "str.replace", "signature.replace(' ', '')");
    ("grid_ufunc.py", "_parse_signature_from_string", "str.split", "signature.split('->')");
    ("grid_ufunc.py", "_parse_signature_from_type_hints", "re.match", "re.match(_SIGNATURE, str_signature)");
    ("grid_ufunc.py", "_split_axis_name_position_pairs", "re.findall", "re.findall(f'({_AXIS_NAME}):({_AXIS_POSITION})', arg)");
    (* text of an xarray error message *)
    ("grid_ufunc.py", "_reattach_coords", "str.startswith", "str(err).startswith('conflicting sizes')");
    (* canonical order for the SET of parsed axis names (C12): any fixed order will do, the
       Grid's behaviour does not depend on the order of its axes *)
    ("metadata_parsers.py", "parse_sgrid", "sorted", "sorted(sgrid_ax_names)");
    (* numbers *)
    ("metrics.py", "iterate_axis_combinations", "min", "min(nright, nleft)");
    ("padding.py", "_pad_face_connections._max_boundary_width", "max", "max(all_widths)");
    ("transform.py", "_interp_1d_conservative", "max", "max(theta_min, theta_hat_1[j])");
    ("transform.py", "_interp_1d_conservative", "min", "min(theta_max, theta_hat_2[j])");
    (* the one-letter kind of a NumPy dtype (integer / unsigned / boolean), not a user name *)
    ("padding.py", "_pad_basic", "substring-test", "da_padded.dtype.kind in 'iub'");
    (* position of a face label (an integer) in the LIST of face labels: list.index, compares whole items *)
    ("padding.py", "_pad_face_connections", "str.index", "face_labels.index(source_face)");
    (* temporary dimension names, made different from every dimension present *)
    ("padding.py", "_maybe_swap_dimension_names", "concat", "'_' + temp_name");
    ("padding.py", "_maybe_swap_dimension_names", "concat", "to_name + 'dummy'");
    ("transform.py", "input_handling.wrapper_input_handling", "concat", "'_' + temp_dim");
    ("transform.py", "input_handling.wrapper_input_handling", "concat", "'_' + temp_dim2");
    ("transform.py", "conservative_interpolation", "concat", "'_' + remapped");
    (* the SGRID attribute grammar 'dim: dim (padding: kind)': tokens are compared whole
       (==) after splitting on blanks and ':'; identifiers contain neither *)
    ("sgrid.py", "get_axis_positions_and_coords", "len-of-name", "len(dim)");
    ("sgrid.py", "get_axis_positions_and_coords", "str.replace", "cell_dim.replace(':', ' ')");
    ("sgrid.py", "get_axis_positions_and_coords", "str.replace", "cell_dim[dim[0] + 2].replace(')', '')");
    ("sgrid.py", "get_axis_positions_and_coords", "str.replace", "vert_dim.replace(':', ' ')");
    ("sgrid.py", "get_axis_positions_and_coords", "str.replace", "vert_dim[3].replace(')', '')");
    ("sgrid.py", "get_axis_positions_and_coords", "str.split", "cell_dim.replace(':', ' ').split()");
    ("sgrid.py", "get_axis_positions_and_coords", "str.split", "ds[sgrid_grid_name].attrs['node_dimensions'].split()");
    ("sgrid.py", "get_axis_positions_and_coords", "str.split", "vert_dim.replace(':', ' ').split()") ].

Lemma Tie_name_sites_available : G13_available = true.
Proof. reflexivity. Qed.

Lemma Tie_name_sites :
  forallb (fun s => existsb (nsite_eqb s) reviewed_sites) gen_name_sensitive_sites = true.
Proof. vm_compute. reflexivity. Qed.
