(* C20: ill-posed requests are refused by every model entry point. *)
From Coq Require Import List Bool ZArith String Lia.
From XV Require Import Base.Res Base.Assoc Base.Ops Base.Seq1D Base.Tensor
     Model.Axis Model.GridCtor Model.Pad Model.GridOps Model.GridOpsTable Model.Dispatch Model.Cumsum
     Model.Signature Model.UFunc Model.Transform Model.Refuse Proofs.P11.
Import ListNotations.
Open Scope string_scope.
Open Scope nat_scope.
Open Scope list_scope.

Definition refused {T} (r : res T) : Prop := exists e, r = Err e.

Lemma refused_bind_l {T U} (r : res T) (f : T -> res U) : refused r -> refused (bind r f).
Proof. intros [e H]. subst. exists e. reflexivity. Qed.
Lemma refused_bind_r {T U} (r : res T) (f : T -> res U) :
  (forall x, refused (f x)) -> refused (bind r f).
Proof. intros H. destruct r as [x|e]; [apply H | exists e; reflexivity]. Qed.
Lemma refused_err {T} e : refused (@Err T e).
Proof. exists e; reflexivity. Qed.

Lemma mapM_refused {T U} (f : T -> res U) l x : In x l -> refused (f x) -> refused (mapM f l).
Proof.
  induction l as [|a l IH]; intros HI Hx; [destruct HI|]. simpl.
  destruct HI as [HI|HI].
  - subst a. apply refused_bind_l. exact Hx.
  - apply refused_bind_r. intros y. apply refused_bind_l. apply IH; assumption.
Qed.

(* the predefined table never offers a shift onto the same position, and every entry of
   the stencil operations pads before calling the function *)
Definition table_refuses (tbl : list gentry) : bool :=
  forallb (fun e => negb (pos_eqb (ge_from e) (ge_to e))) tbl.
Definition table_pads (fn : string) (tbl : list gentry) : bool :=
  forallb (fun e => implb (is_prefix fn (ge_name e)) (ge_pad_before e)) tbl.

Lemma canon_table_refuses :
  table_refuses canon_gridops = true /\
  forallb (fun fn => table_pads fn canon_gridops) ["diff"; "interp"; "min"; "max"] = true.
Proof. vm_compute. split; reflexivity. Qed.

Lemma select_same_position fn p tbl :
  table_refuses tbl = true -> select fn p p tbl = Err NotImplementedError.
Proof.
  intros H. unfold select.
  destruct (filter (fun e => is_prefix fn (ge_name e)) tbl) as [|e0 named] eqn:E; [reflexivity|].
  rewrite <- E.
  assert (F : filter (fun e => pos_eqb (ge_from e) p && pos_eqb (ge_to e) p)
                     (filter (fun e => is_prefix fn (ge_name e)) tbl) = []).
  { clear E. induction tbl as [|e tbl IH]; [reflexivity|].
    simpl in H. apply andb_prop in H. destruct H as [He H]. simpl.
    destruct (is_prefix fn (ge_name e)); [|apply IH; exact H].
    simpl. destruct (pos_eqb (ge_from e) p) eqn:E1, (pos_eqb (ge_to e) p) eqn:E2; simpl;
      try (apply IH; exact H).
    apply pos_eqb_spec in E1, E2.
    rewrite E1, E2 in He. assert (pos_eqb p p = true) by (apply pos_eqb_spec; reflexivity).
    rewrite H0 in He. discriminate. }
  rewrite F. reflexivity.
Qed.

Lemma select_pads tbl fn from tp e :
  table_pads fn tbl = true -> select fn from tp tbl = Ok e -> ge_pad_before e = true.
Proof.
  intros H. unfold select.
  destruct (filter (fun e => is_prefix fn (ge_name e)) tbl) as [|e0 named] eqn:E; [discriminate|].
  rewrite <- E.
  destruct (filter _ (filter _ tbl)) as [|e1 [|e2 r]] eqn:F; try discriminate.
  intros H1. inversion H1; subst e1.
  assert (HI : In e tbl /\ is_prefix fn (ge_name e) = true).
  { assert (In e (filter (fun e => pos_eqb (ge_from e) from && pos_eqb (ge_to e) tp)
                         (filter (fun e => is_prefix fn (ge_name e)) tbl))) by (rewrite F; left; reflexivity).
    apply filter_In in H0. destruct H0 as [H0 _]. apply filter_In in H0. exact H0. }
  destruct HI as [HI HP].
  unfold table_pads in H. rewrite forallb_forall in H. specialize (H e HI).
  rewrite HP in H. exact H.
Qed.

Section Ops.
  Context {A : Type} (o : Ops A) (ofZ : Z -> A).

  (* ---- get_position_name refuses unless exactly one dimension lies on the axis ---- *)
  Lemma position_name_refused (a : axis A) dadims :
    List.length (filter (fun d => memS d (map snd (ax_coords a))) (nodup string_dec dadims)) <> 1 ->
    refused (get_position_name a dadims).
  Proof.
    unfold get_position_name. intros H.
    destruct (filter _ (nodup string_dec dadims)) as [|x [|y r]]; simpl in H.
    - apply refused_err.
    - exfalso. apply H. reflexivity.
    - apply refused_err.
  Qed.

  (* ---- one failing axis makes the whole multi-axis call fail ---- *)
  Lemma steps_refused tbl (g : grid A) dssizes c orig axes ax :
    In ax axes -> (forall t', refused (step o ofZ tbl g dssizes c orig t' ax)) ->
    forall t, refused (steps o ofZ tbl g dssizes c orig t axes).
  Proof.
    intros HI Hax. induction axes as [|a axes IH]; [destruct HI|]. intros t. simpl.
    destruct HI as [HI|HI].
    - subst a. apply refused_bind_l. apply Hax.
    - apply refused_bind_r. intros t'. apply IH. exact HI.
  Qed.

  Lemma grid_op_refused_sig tbl (g : grid A) dssizes c t ax :
    In ax (k_axes c) -> refused (signature_of g (dnames (dims t)) (k_to c) ax) ->
    refused (grid_op o ofZ tbl g dssizes c t).
  Proof.
    intros HI H. unfold grid_op. apply refused_bind_l. eapply mapM_refused; eassumption.
  Qed.

  Lemma grid_op_refused_step tbl (g : grid A) dssizes c t ax :
    In ax (k_axes c) ->
    (forall t', refused (step o ofZ tbl g dssizes c (dnames (dims t)) t' ax)) ->
    refused (grid_op o ofZ tbl g dssizes c t).
  Proof.
    intros HI H. unfold grid_op. apply refused_bind_r. intros _. apply refused_bind_l.
    eapply steps_refused; eassumption.
  Qed.

  (* an axis the grid lacks *)
  Lemma op_axis_missing tbl (g : grid A) dssizes c t ax :
    In ax (k_axes c) -> (forall a, In a g -> ax_name a <> ax) ->
    refused (grid_op o ofZ tbl g dssizes c t).
  Proof.
    intros HI Hn. eapply grid_op_refused_sig; [exact HI|].
    unfold signature_of. apply refused_bind_l. unfold find_axis.
    destruct (find (fun a => String.eqb (ax_name a) ax) g) as [a|] eqn:E; [|apply refused_err].
    apply find_some in E. destruct E as [E1 E2]. apply String.eqb_eq in E2.
    exfalso. exact (Hn a E1 E2).
  Qed.

  (* data lacking, or having two, dimensions of the axis *)
  Lemma op_dims_wrong tbl (g : grid A) dssizes c t ax a :
    In ax (k_axes c) -> find_axis g ax = Ok a ->
    List.length (filter (fun d => memS d (map snd (ax_coords a)))
                        (nodup string_dec (dnames (dims t)))) <> 1 ->
    refused (grid_op o ofZ tbl g dssizes c t).
  Proof.
    intros HI Ha Hn. eapply grid_op_refused_sig; [exact HI|].
    unfold signature_of. rewrite Ha. cbn [bind]. apply refused_bind_l.
    apply position_name_refused. exact Hn.
  Qed.

  (* a shift the axis cannot make: onto the same position, or onto a position it lacks *)
  Lemma op_shift_impossible tbl (g : grid A) dssizes c t ax a from tp :
    table_refuses tbl = true -> In ax (k_axes c) ->
    signature_of g (dnames (dims t)) (k_to c) ax = Ok (a, from, tp) ->
    tp = from \/ lookupP tp (ax_coords a) = None ->
    refused (grid_op o ofZ tbl g dssizes c t).
  Proof.
    intros Ht HI Hs Hbad. eapply grid_op_refused_step; [exact HI|]. intros t'.
    unfold step. rewrite Hs. cbn [bind].
    destruct Hbad as [Hb|Hb].
    - subst tp. rewrite (select_same_position _ _ _ Ht). apply refused_err.
    - apply refused_bind_r. intros e. apply refused_bind_r. intros din.
      destruct (negb (memS din (dnames (dims t')))); [apply refused_err|].
      rewrite Hb. apply refused_err.
  Qed.

  (* an unknown boundary word among the rules in force *)
  Lemma op_unknown_boundary tbl (g : grid A) dssizes c t ax a from tp :
    table_pads (k_func c) tbl = true -> In ax (k_axes c) ->
    signature_of g (dnames (dims t)) (k_to c) ax = Ok (a, from, tp) ->
    words_known (complete_kwargs g (@ax_boundary A) (k_boundary c)) = false ->
    refused (grid_op o ofZ tbl g dssizes c t).
  Proof.
    intros Ht HI Hs Hw. eapply grid_op_refused_step; [exact HI|]. intros t'.
    unfold step. rewrite Hs. cbn [bind].
    destruct (select (k_func c) from tp tbl) as [e|k] eqn:Es; [|apply refused_err]. cbn [bind].
    apply refused_bind_r. intros din.
    destruct (negb (memS din (dnames (dims t')))); [apply refused_err|].
    apply refused_bind_r. intros dout.
    rewrite (select_pads _ _ _ _ _ Ht Es).
    apply refused_bind_l. unfold pad. rewrite Hw. apply refused_err.
  Qed.

  (* a supplied unknown word always ends up among the rules in force *)
  Lemma assoc_set_keeps {V} k (v : V) l k' v' :
    In (k', v') l -> k' <> k -> In (k', v') (assoc_set k v l).
  Proof.
    induction l as [|[a b] l IH]; intros HI Hn; [destruct HI|]. simpl.
    destruct (String.eqb k a) eqn:E.
    - apply String.eqb_eq in E. subst a. destruct HI as [HI|HI]; [inversion HI; subst; contradiction|].
      right; exact HI.
    - destruct HI as [HI|HI]; [left; exact HI | right; apply IH; assumption].
  Qed.
  Lemma assoc_set_has {V} k (v : V) l : In (k, v) (assoc_set k v l).
  Proof.
    induction l as [|[a b] l IH]; simpl; [left; reflexivity|].
    destruct (String.eqb k a); [left; reflexivity | right; exact IH].
  Qed.
  Lemma fold_assoc_set_has {V} (m : list (string * option V)) acc k v :
    NoDup (map fst m) -> In (k, v) m ->
    In (k, v) (fold_left (fun (acc : list (string * option V)) q => assoc_set (fst q) (snd q) acc) m acc).
  Proof.
    revert acc. induction m as [|[a b] m IH]; intros acc ND HI; [destruct HI|].
    inversion ND as [|? ? Hn ND']; subst. simpl. destruct HI as [HI|HI].
    - inversion HI; subst. clear IH HI.
      assert (G : forall acc', In (k, v) acc' ->
                  In (k, v) (fold_left (fun (acc : list (string * option V)) q =>
                                          assoc_set (fst q) (snd q) acc) m acc')).
      { clear ND. induction m as [|[a b] m IH]; intros acc' H; [exact H|]. simpl.
        apply IH.
        - intros HI. apply Hn. right; exact HI.
        - inversion ND' ; assumption.
        - apply assoc_set_keeps; [exact H|]. intros E. apply Hn. left. simpl. symmetry; exact E. }
      apply G. apply assoc_set_has.
    - apply IH; assumption.
  Qed.

  Lemma unknown_word_in_force (g : grid A) (b : kw bword) :
    g <> [] -> NoDup (map (@ax_name A) g) ->
    match b with
    | KScalar v => v = Some BUnknown
    | KMap m => NoDup (map fst m) /\ exists k, In (k, Some BUnknown) m
    end ->
    words_known (complete_kwargs g (@ax_boundary A) b) = false.
  Proof.
    intros Hg HND Hb.
    assert (HI : exists k, In (k, Some BUnknown) (complete_kwargs g (@ax_boundary A) b)).
    { unfold complete_kwargs. destruct b as [v|m].
      - subst v. destruct g as [|a g]; [contradiction|]. exists (ax_name a).
        apply fold_assoc_set_has; [|left; reflexivity].
        unfold map_kwargs_over_axes. rewrite map_map. cbn [fst]. rewrite map_id. exact HND.
      - destruct Hb as [ND [k Hk]]. exists k. apply fold_assoc_set_has; assumption. }
    destruct HI as [k HI]. unfold words_known.
    destruct (forallb _ (complete_kwargs g (@ax_boundary A) b)) eqn:E; [|reflexivity].
    rewrite forallb_forall in E. specialize (E _ HI). discriminate.
  Qed.

  (* ---- raw arguments: unknown position words, non-numeric fill values ---- *)
  Lemma raw_unknown_position tbl cstbl (g : grid A) dssizes (c : rawcall (A:=A)) t :
    r_axes c <> [] -> decode_to (to_used c) = None ->
    refused (raw_op o ofZ tbl cstbl g dssizes c t).
  Proof.
    intros Ha Hd. unfold raw_op. destruct (r_axes c) as [|a r] eqn:E; [contradiction|].
    rewrite Hd. apply refused_bind_r. intros _. apply refused_err.
  Qed.

  Lemma raw_nonnumeric_fill tbl cstbl (g : grid A) dssizes (c : rawcall (A:=A)) t :
    r_axes c <> [] -> fill_numeric (r_fill c) = false ->
    refused (raw_op o ofZ tbl cstbl g dssizes c t).
  Proof.
    intros Ha Hf. unfold raw_op. destruct (r_axes c) as [|a r] eqn:E; [contradiction|].
    destruct (decode_to (to_used c)).
    - apply refused_bind_r. intros x. rewrite Hf. apply refused_err.
    - apply refused_bind_r. intros _. apply refused_err.
  Qed.

  (* every refusal of the typed operation is a refusal of the raw call *)
  Lemma raw_op_refused tbl cstbl (g : grid A) dssizes (c : rawcall (A:=A)) t to :
    r_axes c <> [] -> String.eqb (r_func c) "cumsum" = false ->
    decode_to (r_to c) = Some to ->
    refused (grid_op o ofZ tbl g dssizes
                     {| k_func := r_func c; k_axes := r_axes c; k_to := to;
                        k_boundary := r_boundary c; k_fill := decode_fill o (r_fill c) |} t) ->
    refused (raw_op o ofZ tbl cstbl g dssizes c t).
  Proof.
    intros Ha Hc Hd Hr. unfold raw_op. destruct (r_axes c) as [|a r] eqn:E; [contradiction|].
    destruct (decode_to (to_used c)).
    - rewrite Hd, Hc. apply refused_bind_l. exact Hr.
    - apply refused_bind_r. intros _. apply refused_err.
  Qed.
End Ops.

(* ---- Grid.transform ---- *)
Section Transform.
  Context {A : Type} (o : Ops A) (isnan : A -> bool) (nanv : A) (ln : A -> A) (half : A -> A).

  Lemma transform_periodic (c : tcall (A:=A)) :
    tc_periodic c = true -> grid_transform o isnan nanv ln half c = Err ValueError.
  Proof. intros H. unfold grid_transform. rewrite H. reflexivity. Qed.

  Lemma transform_no_outer (c : tcall (A:=A)) :
    tc_method c = "conservative" -> lookupP Outer (tc_coords c) = None ->
    refused (grid_transform o isnan nanv ln half c).
  Proof.
    intros Hm Ho. unfold grid_transform.
    destruct (tc_periodic c); [apply refused_err|].
    destruct (filter _ _) as [|dim [|d2 r]]; try apply refused_err.
    rewrite Hm. cbn [String.eqb Ascii.eqb Bool.eqb orb]. rewrite Ho. apply refused_err.
  Qed.

  Lemma transform_dims_wrong (c : tcall (A:=A)) :
    List.length (filter (fun d => memS d (axis_dims c)) (dnames (dims (tc_da c)))) <> 1 ->
    refused (grid_transform o isnan nanv ln half c).
  Proof.
    intros H. unfold grid_transform. destruct (tc_periodic c); [apply refused_err|].
    destruct (filter _ _) as [|d [|d2 r]]; [apply refused_err | exfalso; apply H; reflexivity | apply refused_err].
  Qed.

  Definition strictly (lt : A -> A -> bool) (l : list A) : bool :=
    forallb (fun d => lt d (zero o)) (window2 (fun a b => sub o b a) l).

  (* bins that neither increase nor decrease strictly are refused for every column *)
  Lemma conservative_col_refused phi theta bins :
    forallb (fun d => ltb o d (zero o)) (window2 (fun a b => sub o b a) bins) = false ->
    forallb (fun d => ltb o (zero o) d) (window2 (fun a b => sub o b a) bins) = false ->
    refused (conservative_col o isnan phi theta bins).
  Proof.
    intros H1 H2. unfold conservative_col.
    destruct (negb _); [apply refused_err|]. rewrite H1, H2. apply refused_err.
  Qed.

  Lemma conservative_interpolation_refused phi theta bins pd td tg :
    forallb (fun d => ltb o d (zero o)) (window2 (fun a b => sub o b a) bins) = false ->
    forallb (fun d => ltb o (zero o) d) (window2 (fun a b => sub o b a) bins) = false ->
    refused (conservative_interpolation o isnan phi theta bins pd td tg).
  Proof.
    intros H1 H2. unfold conservative_interpolation.
    destruct (conservative_col_refused (column phi pd env0) (column theta td env0) bins H1 H2) as [e E].
    rewrite E. apply refused_err.
  Qed.
End Transform.

(* ---- grid ufuncs ---- *)
Section UFuncRefuse.
  Context {A : Type} (dflt : A).

  Lemma ufunc_wrong_number (g : grid A) (c : ucall (A:=A)) args :
    List.length args <> List.length (u_axis c) ->
    ufunc_received dflt g c args = Err ValueError.
  Proof.
    intros H. unfold ufunc_received. apply Nat.eqb_neq in H. rewrite H. reflexivity.
  Qed.

  Lemma ufunc_axis_mismatch (g : grid A) (c : ucall (A:=A)) args :
    List.length args = List.length (u_axis c) ->
    (List.length (u_axis c) <> List.length (s_in (u_sig c)) \/
     forallb (fun p : list string * list string => List.length (fst p) =? List.length (snd p))
             (combine (u_axis c) (map (map fst) (s_in (u_sig c)))) = false) ->
    ufunc_received dflt g c args = Err ValueError.
  Proof.
    intros HL H. unfold ufunc_received. rewrite HL, Nat.eqb_refl. cbn [negb].
    unfold dummy_to_real. destruct H as [H|H].
    - apply Nat.eqb_neq in H. rewrite (map_length (map fst) (s_in (u_sig c))).
      match goal with |- context [negb ?b] => replace b with false end. reflexivity.
    - destruct (negb (List.length (u_axis c) =? List.length (map (map fst) (s_in (u_sig c)))));
        [reflexivity|].
      rewrite H. reflexivity.
  Qed.
End UFuncRefuse.

(* ---- the constructor ---- *)
Section CtorRefuse.
  Context {A : Type} (zero : A).

  Lemma mk_axes_refused dsdims coords bd fd sd name cs :
    In (name, cs) coords ->
    refused (mk_axis (A:=A) dsdims name cs
                     (match get_or_none name sd with Some s => s | None => [] end)
                     (get_or_none name bd) (get_or_none name fd) zero) ->
    refused (mk_axes zero dsdims coords bd fd sd).
  Proof.
    induction coords as [|[n c] coords IH]; intros HI Hr; [destruct HI|]. simpl.
    destruct HI as [HI|HI].
    - inversion HI; subst. apply refused_bind_l. exact Hr.
    - apply refused_bind_r. intros a. apply refused_bind_l. apply IH; assumption.
  Qed.

  (* a dimension the dataset lacks *)
  Lemma mk_axis_dim_missing dsdims name cs us b f :
    forallb (fun pd : pos * string => memS (snd pd) dsdims) cs = false ->
    refused (mk_axis (A:=A) dsdims name cs us b f zero).
  Proof. intros H. unfold mk_axis. rewrite H. apply refused_err. Qed.

  (* an unknown boundary word *)
  Lemma mk_axis_unknown_boundary dsdims name cs us f :
    refused (mk_axis (A:=A) dsdims name cs us (Some BUnknown) f zero).
  Proof.
    unfold mk_axis. destruct (negb _); [apply refused_err|].
    apply refused_bind_r. intros sh. apply refused_err.
  Qed.

  (* a default shift onto the same position *)
  Lemma mk_shifts_same fb coords user todo p d :
    In (p, d) todo -> lookupP p user = Some p ->
    refused (mk_shifts_go fb coords user todo).
  Proof.
    induction todo as [|[q dq] todo IH]; intros HI Hu; [destruct HI|]. simpl.
    destruct HI as [HI|HI].
    - inversion HI; subst. rewrite Hu.
      assert (E : pos_eqb p p = true) by (apply pos_eqb_spec; reflexivity).
      rewrite E. apply refused_err.
    - destruct (match lookupP q user with Some q0 => Some q0 | None => _ end) as [s|].
      + destruct (pos_eqb s q); [apply refused_err|]. apply refused_bind_l. apply IH; assumption.
      + apply IH; assumption.
  Qed.

  Lemma mk_axis_shift_same dsdims name cs us b f p d :
    In (p, d) cs -> lookupP p us = Some p ->
    refused (mk_axis (A:=A) dsdims name cs us b f zero).
  Proof.
    intros HI Hu. unfold mk_axis. destruct (negb _); [apply refused_err|].
    apply refused_bind_l. unfold mk_shifts. eapply mk_shifts_same; eassumption.
  Qed.
End CtorRefuse.
