(* Tie lemmas: the tables regenerated from /repo on this run satisfy the predicates the
   C01/C02 theorems assume.  Proved by reflection (vm_compute) over whatever the source
   now contains. *)
From Coq Require Import List Bool ZArith String.
From XV Require Import Base.Res Base.Assoc Base.Seq1D Model.Axis Model.GridOps Model.GridOpsTable
     Spec.S01 Proofs.P01 Generated.G1 Generated.G2.
Import ListNotations.
Open Scope string_scope.

Lemma Tie_gridops : table_ok gen_gridops = true.
Proof. vm_compute. reflexivity. Qed.

Lemma Tie_gridops_canon : table_ok canon_gridops = true.
Proof. vm_compute. reflexivity. Qed.

Lemma Tie_fallback_shifts : gen_fallback_shifts = fallback_shifts.
Proof. reflexivity. Qed.

(* boundary word -> pad mode, as a finite map compared key by key *)
Definition word_of (b : option bword) : option string :=
  match b with
  | None => None
  | Some BPeriodic => Some "periodic" | Some BFill => Some "fill" | Some BExtend => Some "extend"
  | Some BUnknown => Some "?"
  end.
Definition okey_eqb (a b : option string) : bool :=
  match a, b with
  | None, None => true
  | Some x, Some y => String.eqb x y
  | _, _ => false
  end.
Definition gen_mode (k : option string) : option rule :=
  match find (fun kv => okey_eqb (fst kv) k) gen_pad_modes with
  | Some kv => Some (snd kv)
  | None => None
  end.
Lemma Tie_pad_modes :
  forallb (fun b => match pad_mode b, gen_mode (word_of b) with
                    | Ok r, Some r' => rule_eqb r r'
                    | Err _, None => true
                    | _, _ => false
                    end)
          [None; Some BPeriodic; Some BFill; Some BExtend; Some BUnknown] = true
  /\ List.length gen_pad_modes = 4%nat.
Proof. split; vm_compute; reflexivity. Qed.

Lemma Tie_valid_positions : gen_valid_positions = map pos_name all_pos.
Proof. reflexivity. Qed.
