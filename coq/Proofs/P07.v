(* C07: the translated conservative kernel is the overlap-weight specification, and the
   specification conserves, merges, is monotone and reverses with the bins -- over R. *)
From Coq Require Import List Bool Arith Reals Lra Lia.
From XV Require Import Base.Res Base.Ops Base.ROps Base.Kernel Base.Seq1D Model.Transform Spec.S07.
Import ListNotations.
Open Scope R_scope.

(* --- finite sums -------------------------------------------------------------------- *)

Fixpoint Rsum (l : list R) : R := match l with [] => 0 | a :: r => a + Rsum r end.

Lemma fold_left_Rplus l a : fold_left Rplus l a = a + Rsum l.
Proof. revert a; induction l as [|x l IH]; intros a; simpl; [lra|]. rewrite IH. lra. Qed.

Lemma sum_Rsum l : sum ROps l = Rsum l.
Proof. unfold sum. simpl. rewrite fold_left_Rplus. lra. Qed.

Lemma Rsum_app a b : Rsum (a ++ b) = Rsum a + Rsum b.
Proof. induction a as [|x a IH]; simpl; [lra|]. rewrite IH. lra. Qed.

Lemma Rsum_map_plus {T} (f g : T -> R) l :
  Rsum (map (fun i => f i + g i) l) = Rsum (map f l) + Rsum (map g l).
Proof. induction l as [|x l IH]; simpl; [lra|]. rewrite IH. lra. Qed.

Lemma Rsum_map_scal {T} c (f : T -> R) l : Rsum (map (fun i => c * f i) l) = c * Rsum (map f l).
Proof. induction l as [|x l IH]; simpl; [lra|]. rewrite IH. lra. Qed.

Lemma Rsum_map_ext {T} (f g : T -> R) l : (forall i, In i l -> f i = g i) ->
  Rsum (map f l) = Rsum (map g l).
Proof.
  induction l as [|x l IH]; intros H; simpl; [reflexivity|].
  rewrite (H x (or_introl eq_refl)), IH; [reflexivity|]. intros i Hi. apply H. right; exact Hi.
Qed.

Lemma Rsum_exchange {T U} (F : T -> U -> R) (li : list T) (lj : list U) :
  Rsum (map (fun j => Rsum (map (fun i => F i j) li)) lj)
  = Rsum (map (fun i => Rsum (map (fun j => F i j) lj)) li).
Proof.
  induction lj as [|j lj IH]; simpl.
  - induction li as [|i li IHi]; simpl; [reflexivity|]. rewrite <- IHi. lra.
  - rewrite IH. rewrite <- Rsum_map_plus. reflexivity.
Qed.

Lemma Rsum_nonneg {T} (f : T -> R) l : (forall i, In i l -> 0 <= f i) -> 0 <= Rsum (map f l).
Proof.
  induction l as [|x l IH]; intros H; simpl; [lra|].
  assert (0 <= f x) by (apply H; left; reflexivity).
  assert (0 <= Rsum (map f l)) by (apply IH; intros i Hi; apply H; right; exact Hi). lra.
Qed.

(* --- the weight of a cell in a bin --------------------------------------------------- *)

Definition Rclip (lo hi x : R) : R := Rmax lo (Rmin hi x).

Lemma smax_Rmax a b : smax ROps a b = Rmax a b.
Proof. unfold smax. rbool; [rewrite Rmax_right by lra|rewrite Rmax_left by lra]; reflexivity. Qed.
Lemma smin_Rmin a b : smin ROps a b = Rmin a b.
Proof. unfold smin. rbool; [rewrite Rmin_right by lra|rewrite Rmin_left by lra]; reflexivity. Qed.
Lemma clip_Rclip lo hi x : clip ROps lo hi x = Rclip lo hi x.
Proof. unfold clip, Rclip. rewrite smax_Rmax, smin_Rmin. reflexivity. Qed.

Lemma Rclip_mono lo hi x y : lo <= hi -> x <= y -> Rclip lo hi x <= Rclip lo hi y.
Proof.
  intros. unfold Rclip, Rmin. destruct (Rle_dec hi x), (Rle_dec hi y); unfold Rmax;
    repeat match goal with |- context [Rle_dec ?a ?b] => destruct (Rle_dec a b) end; lra.
Qed.
Lemma Rclip_below lo hi x : lo <= hi -> x <= lo -> Rclip lo hi x = lo.
Proof.
  intros. unfold Rclip, Rmin. destruct (Rle_dec hi x); unfold Rmax;
    repeat match goal with |- context [Rle_dec ?a ?b] => destruct (Rle_dec a b) end; lra.
Qed.
Lemma Rclip_above lo hi x : lo <= hi -> hi <= x -> Rclip lo hi x = hi.
Proof.
  intros. unfold Rclip, Rmin. destruct (Rle_dec hi x); unfold Rmax;
    repeat match goal with |- context [Rle_dec ?a ?b] => destruct (Rle_dec a b) end; lra.
Qed.

Lemma Rclip_inside lo hi x : lo <= x -> x <= hi -> Rclip lo hi x = x.
Proof.
  intros. unfold Rclip. rewrite Rmin_right by lra. rewrite Rmax_right by lra. reflexivity.
Qed.

(* the weight over R, in readable form *)
Lemma weight_inhomogeneous lo hi a b last : lo < hi ->
  weight ROps lo hi a b last = (Rclip lo hi b - Rclip lo hi a) / (hi - lo).
Proof.
  intros H. unfold weight. destruct (eqb ROps lo hi) eqn:E.
  - apply Reqb_iff in E. lra.
  - rewrite !clip_Rclip. reflexivity.
Qed.

Lemma weight_homogeneous v a b last :
  weight ROps v v a b last =
  if (leb ROps a v && ltb ROps v b) || (last && leb ROps a v && eqb ROps v b) then 1 else 0.
Proof.
  unfold weight. destruct (eqb ROps v v) eqn:E; [reflexivity|]. apply Reqb_false in E. lra.
Qed.

Theorem weight_nonneg lo hi a b last : lo <= hi -> a <= b -> 0 <= weight ROps lo hi a b last.
Proof.
  intros H1 H2. destruct (Rle_lt_or_eq_dec lo hi H1) as [Hlt|Heq].
  - rewrite weight_inhomogeneous by exact Hlt.
    pose proof (Rclip_mono lo hi a b H1 H2).
    apply Rmult_le_pos; [lra|]. apply Rlt_le, Rinv_0_lt_compat. lra.
  - subst. rewrite weight_homogeneous.
    destruct (_ || _); simpl; lra.
Qed.

(* merging two adjacent bins sums their weights *)
Theorem weight_merge lo hi a b c last : lo <= hi -> a < b -> b < c ->
  weight ROps lo hi a c last = weight ROps lo hi a b false + weight ROps lo hi b c last.
Proof.
  intros H1 H2 H3. destruct (Rle_lt_or_eq_dec lo hi H1) as [Hlt|Heq].
  - rewrite !weight_inhomogeneous by exact Hlt. field. lra.
  - subst. rewrite !weight_homogeneous.
    destruct last; rbool; simpl; try lra.
Qed.

(* --- the weights of one cell over increasing bins add up to one --------------------- *)

Fixpoint increasing (bins : list R) : Prop :=
  match bins with
  | a :: ((b :: _) as t) => a < b /\ increasing t
  | _ => True
  end.

Definition is_nil {T} (l : list T) : bool := match l with [] => true | _ => false end.

Fixpoint wsum (lo hi : R) (bins : list R) : R :=
  match bins with
  | a :: ((b :: r) as t) => weight ROps lo hi a b (is_nil r) + wsum lo hi t
  | _ => 0
  end.

Lemma wsum_inhomogeneous lo hi bins d : lo < hi ->
  wsum lo hi bins = (Rclip lo hi (last bins d) - Rclip lo hi (hd d bins)) / (hi - lo).
Proof.
  intros H. induction bins as [|a [|b r] IH].
  - simpl. field. lra.
  - simpl. field. lra.
  - change (wsum lo hi (a :: b :: r)) with (weight ROps lo hi a b (is_nil r) + wsum lo hi (b :: r)).
    rewrite IH, weight_inhomogeneous by exact H.
    change (last (a :: b :: r) d) with (last (b :: r) d). simpl hd. field. lra.
Qed.

Lemma increasing_head_le_last a t d : increasing (a :: t) -> a <= last (a :: t) d.
Proof.
  revert a; induction t as [|b r IH]; intros a H; simpl; [lra|].
  destruct H as [H1 H2]. specialize (IH b H2). simpl in IH. destruct r; simpl in *; lra.
Qed.

Lemma wsum_zero_below v bins : increasing bins -> (forall d, v < hd d bins) -> bins <> [] ->
  wsum v v bins = 0.
Proof.
  induction bins as [|a [|b r] IH]; intros Hinc Hv Hne; try reflexivity.
  change (wsum v v (a :: b :: r)) with (weight ROps v v a b (is_nil r) + wsum v v (b :: r)).
  destruct Hinc as [Hab Hinc]. specialize (Hv 0). simpl in Hv.
  rewrite IH; [|exact Hinc|intros d; simpl; lra|discriminate].
  rewrite weight_homogeneous. rbool; simpl; try lra. destruct (is_nil r); simpl; lra.
Qed.

Lemma wsum_homogeneous v bins d : increasing bins -> (2 <= List.length bins)%nat ->
  hd d bins <= v -> v <= last bins d -> wsum v v bins = 1.
Proof.
  induction bins as [|a [|b r] IH]; intros Hinc Hlen Hlo Hhi; simpl in Hlen; try lia.
  change (wsum v v (a :: b :: r)) with (weight ROps v v a b (is_nil r) + wsum v v (b :: r)).
  destruct Hinc as [Hab Hinc]. simpl in Hlo.
  change (last (a :: b :: r) d) with (last (b :: r) d) in Hhi.
  rewrite weight_homogeneous.
  destruct (Rlt_le_dec v b) as [Hvb|Hbv].
  - (* v in [a, b) *)
    rewrite wsum_zero_below; [|exact Hinc|intros; simpl; lra|discriminate].
    rbool; simpl; try lra.
  - destruct r as [|c r].
    + (* the last bin, closed at the top *)
      simpl in Hhi. change (wsum v v [b]) with 0. change (is_nil (@nil R)) with true.
      rbool; simpl; lra.
    + rewrite IH; [|exact Hinc|simpl; lia|simpl; lra|exact Hhi].
      change (is_nil (c :: r)) with false. rbool; simpl; lra.
Qed.

(* C07: every cell whose two bounding values lie within the span of the bins is
   distributed completely *)
Theorem wsum_total lo hi bins d : increasing bins -> (2 <= List.length bins)%nat ->
  lo <= hi -> hd d bins <= lo -> hi <= last bins d -> wsum lo hi bins = 1.
Proof.
  intros Hinc Hlen H1 H2 H3. destruct (Rle_lt_or_eq_dec lo hi H1) as [Hlt|Heq].
  - rewrite (wsum_inhomogeneous lo hi bins d Hlt).
    rewrite Rclip_above, Rclip_below by lra. field. lra.
  - subst. apply (wsum_homogeneous hi bins d); assumption.
Qed.

(* --- from indexed bins to the recursive sum ------------------------------------------- *)

Lemma idx_cons (a : R) l j : idx ROps (a :: l) (S j) = idx ROps l j.
Proof. reflexivity. Qed.

Lemma wsum_index lo hi bins :
  wsum lo hi bins =
  Rsum (map (fun j => weight ROps lo hi (idx ROps bins j) (idx ROps bins (j + 1))
                             (Nat.eqb j (List.length bins - 1 - 1)))
            (seq 0 (List.length bins - 1))).
Proof.
  induction bins as [|a [|b r] IH]; try reflexivity.
  change (wsum lo hi (a :: b :: r)) with (weight ROps lo hi a b (is_nil r) + wsum lo hi (b :: r)).
  rewrite IH. clear IH.
  replace (List.length (a :: b :: r) - 1)%nat with (S (List.length r)) by (simpl; lia).
  replace (List.length (b :: r) - 1)%nat with (List.length r) by (simpl; lia).
  rewrite <- cons_seq, <- seq_shift. simpl map at 1. simpl Rsum.
  f_equal.
  - change (idx ROps (a :: b :: r) 0) with a. change (idx ROps (a :: b :: r) (0 + 1)) with b.
    f_equal. destruct r; reflexivity.
  - rewrite map_map. apply Rsum_map_ext. intros j Hj. apply in_seq in Hj.
    replace (S j + 1)%nat with (S (j + 1)) by lia. rewrite !idx_cons.
    f_equal. apply eq_true_iff_eq. rewrite !Nat.eqb_eq. lia.
Qed.

Lemma map_idx_seq (l : list R) : map (idx ROps l) (seq 0 (List.length l)) = l.
Proof.
  induction l as [|a l IH]; [reflexivity|].
  simpl List.length. rewrite <- cons_seq, <- seq_shift, map_cons, map_map. f_equal. exact IH.
Qed.

(* C07, conservation: if every bounding value of the column lies within the span of
   strictly increasing bins, the bins receive in total exactly what the cells hold *)
Theorem spec_conserves phi theta bins d :
  increasing bins -> (2 <= List.length bins)%nat ->
  (forall i, (i <= List.length phi)%nat -> hd d bins <= idx ROps theta i <= last bins d) ->
  Rsum (spec_increasing ROps phi theta bins) = Rsum phi.
Proof.
  intros Hinc Hlen Hspan. unfold spec_increasing, spec_bin.
  rewrite (Rsum_map_ext _ (fun j => Rsum (map (fun i =>
      idx ROps phi i * weight ROps (smin ROps (idx ROps theta i) (idx ROps theta (i + 1)))
                                   (smax ROps (idx ROps theta i) (idx ROps theta (i + 1)))
                                   (idx ROps bins j) (idx ROps bins (j + 1))
                                   (Nat.eqb j (List.length bins - 1 - 1)))
      (seq 0 (List.length phi))))) by (intros; apply sum_Rsum).
  rewrite Rsum_exchange.
  rewrite (Rsum_map_ext _ (fun i => idx ROps phi i)).
  - rewrite map_idx_seq. reflexivity.
  - intros i Hi. apply in_seq in Hi. rewrite Rsum_map_scal.
    rewrite <- (wsum_index _ _ bins).
    rewrite (wsum_total _ _ bins d); try assumption; rewrite ?smin_Rmin, ?smax_Rmax.
    + lra.
    + apply Rle_trans with (idx ROps theta i); [apply Rmin_l|apply Rmax_l].
    + destruct (Hspan i) as [A _]; [lia|]. destruct (Hspan (i + 1)%nat) as [B _]; [lia|].
      apply Rmin_glb; assumption.
    + destruct (Hspan i) as [_ A]; [lia|]. destruct (Hspan (i + 1)%nat) as [_ B]; [lia|].
      apply Rmax_lub; assumption.
Qed.

(* C07, non-negativity *)
Theorem spec_nonneg phi theta bins j :
  increasing bins -> (forall i, 0 <= idx ROps phi i) -> (j + 1 < List.length bins)%nat ->
  0 <= spec_bin ROps phi theta (idx ROps bins j) (idx ROps bins (j + 1))
                (Nat.eqb j (List.length bins - 1 - 1)).
Proof.
  intros Hinc Hphi Hj. unfold spec_bin. rewrite sum_Rsum. apply Rsum_nonneg. intros i _.
  apply Rmult_le_pos; [apply Hphi|]. apply weight_nonneg.
  - rewrite smin_Rmin, smax_Rmax. apply Rle_trans with (idx ROps theta i); [apply Rmin_l|apply Rmax_l].
  - clear - Hinc Hj. revert j Hj. induction bins as [|a [|b r] IH]; intros j Hj; simpl in Hj; try lia.
    destruct Hinc as [Hab Hinc]. destruct j as [|j].
    + simpl. unfold idx. simpl. lra.
    + replace (S j + 1)%nat with (S (j + 1)) by lia. rewrite !idx_cons. apply IH; [exact Hinc|simpl; lia].
Qed.

(* C07, merging two adjacent bins sums their contents *)
Theorem spec_merge phi theta a b c last : a < b -> b < c ->
  spec_bin ROps phi theta a c last
  = spec_bin ROps phi theta a b false + spec_bin ROps phi theta b c last.
Proof.
  intros H1 H2. unfold spec_bin. rewrite !sum_Rsum, <- Rsum_map_plus.
  apply Rsum_map_ext. intros i _.
  rewrite (weight_merge _ _ a b c last); [cbv [mul ROps]; ring| |assumption|assumption].
  rewrite smin_Rmin, smax_Rmax. apply Rle_trans with (idx ROps theta i); [apply Rmin_l|apply Rmax_l].
Qed.

(* --- the translated kernel is the specification ---------------------------------------- *)

Lemma fold_left_ext {S T} (f g : S -> T -> S) l : (forall a x, In x l -> f a x = g a x) ->
  forall a, fold_left f l a = fold_left g l a.
Proof.
  induction l as [|x l IH]; intros H a; simpl; [reflexivity|].
  rewrite (H a x (or_introl eq_refl)). apply IH. intros a' y Hy. apply H. right; exact Hy.
Qed.

Lemma upd_set_length (x : list R) i v : List.length (upd_set x i v) = List.length x.
Proof. revert i; induction x as [|a x IH]; intros [|i]; simpl; auto. Qed.

Lemma upd_set_nth (x : list R) i v j d :
  nth j (upd_set x i v) d = if Nat.eqb j i && Nat.ltb i (List.length x) then v else nth j x d.
Proof.
  revert i j; induction x as [|a x IH]; intros i j; simpl.
  - destruct i, j; simpl; try reflexivity; rewrite ?andb_false_r; reflexivity.
  - destruct i as [|i], j as [|j]; simpl; try reflexivity.
    rewrite IH. reflexivity.
Qed.

(* adding zero leaves the array as it is *)
Lemma upd_add_zero (x : list R) i : upd_add ROps x i 0 = x.
Proof.
  unfold upd_add. apply nth_ext with (d := 0) (d' := 0); [apply upd_set_length|].
  intros j Hj. rewrite upd_set_nth. destruct (Nat.eqb_spec j i); simpl; [|reflexivity].
  destruct (Nat.ltb_spec i (List.length x)); [|reflexivity]. subst. unfold idx. simpl. lra.
Qed.

(* the contribution of cell (lo, hi, phi) to bin [a, b], as the code computes it *)
Definition contrib (lo hi phii a b : R) (jlast : bool) : R :=
  if gtb ROps a hi || ltb ROps b lo then 0
  else if eqb ROps hi lo then (if ltb ROps lo b || jlast then phii else 0)
  else (py_min ROps hi b - py_max ROps lo a) / (hi - lo) * phii.

Lemma contrib_weight lo hi phii a b jlast : lo <= hi -> a < b ->
  contrib lo hi phii a b jlast = phii * weight ROps lo hi a b jlast.
Proof.
  intros H1 H2. unfold contrib, gtb.
  destruct (Rle_lt_or_eq_dec lo hi H1) as [Hlt|Heq].
  - rewrite weight_inhomogeneous by exact Hlt.
    unfold py_min, py_max, gtb.
    rbool; simpl; try lra;
      repeat (first [ rewrite (Rclip_below lo hi) by lra
                    | rewrite (Rclip_above lo hi) by lra
                    | rewrite (Rclip_inside lo hi) by lra ]);
      try (field; lra);
      try (assert (Hb : b = lo) by lra; rewrite Hb; field; lra);
      try (assert (Ha : a = hi) by lra; rewrite Ha; field; lra).
  - subst. rewrite weight_homogeneous. rbool; simpl; try lra; destruct jlast; simpl; lra.
Qed.

(* one pass of the inner loop adds the contributions to the bins *)
Lemma inner_loop_nth (f : nat -> R) (out : list R) : forall k, (k <= List.length out)%nat ->
  let r := fold_left (fun (o : list R) j => upd_add ROps o j (f j)) (seq 0 k) out in
  List.length r = List.length out /\
  forall j, nth j r 0 = if Nat.ltb j k then nth j out 0 + f j else nth j out 0.
Proof.
  induction k as [|k IH]; intros Hk; cbv zeta.
  - split; [reflexivity|]. intros j. reflexivity.
  - rewrite seq_S, fold_left_app. simpl fold_left.
    destruct (IH ltac:(lia)) as [L N]. cbv zeta in L, N.
    set (r := fold_left (fun (o : list R) j => upd_add ROps o j (f j)) (seq 0 k) out) in *.
    unfold upd_add. split; [rewrite upd_set_length; exact L|].
    intros j. rewrite upd_set_nth, L.
    destruct (Nat.eqb_spec j k) as [->|Hne]; simpl.
    + destruct (Nat.ltb_spec k (List.length out)); [|lia].
      destruct (Nat.ltb_spec k (S k)); [|lia].
      unfold idx. simpl zero. rewrite N. destruct (Nat.ltb_spec k k); [lia|]. reflexivity.
    + rewrite N. destruct (Nat.ltb_spec j k); destruct (Nat.ltb_spec j (S k)); try lia; reflexivity.
Qed.

Lemma inner_loop (f : nat -> R) : forall m (out : list R), List.length out = m ->
  fold_left (fun (o : list R) j => upd_add ROps o j (f j)) (seq 0 m) out
  = map (fun j => nth j out 0 + f j) (seq 0 m).
Proof.
  intros m out Hlen. destruct (inner_loop_nth f out m ltac:(lia)) as [L N]. cbv zeta in L, N.
  apply nth_ext with (d := 0) (d' := 0).
  - rewrite L, map_length, seq_length. exact Hlen.
  - intros j Hj. rewrite L, Hlen in Hj. rewrite N.
    destruct (Nat.ltb_spec j m); [|lia].
    set (F := fun j => nth j out 0 + f j).
    assert (R : nth j (map F (seq 0 m)) 0 = F j).
    { rewrite nth_indep with (d' := F 0%nat) by (rewrite map_length, seq_length; lia).
      rewrite (map_nth F). rewrite seq_nth by lia. reflexivity. }
    rewrite R. reflexivity.
Qed.

Lemma outer_loop (c : nat -> nat -> R) m : forall n (out0 : list R), List.length out0 = m ->
  fold_left (fun (out : list R) i =>
               fold_left (fun (o : list R) j => upd_add ROps o j (c i j)) (seq 0 m) out)
            (seq 0 n) out0
  = map (fun j => fold_left Rplus (map (fun i => c i j) (seq 0 n)) (nth j out0 0)) (seq 0 m).
Proof.
  induction n as [|n IH]; intros out0 Hlen.
  - simpl. apply nth_ext with (d := 0) (d' := 0); [rewrite map_length, seq_length; exact Hlen|].
    intros j Hj. rewrite Hlen in Hj. set (F := fun j => nth j out0 0).
    assert (R : nth j (map F (seq 0 m)) 0 = F j).
    { rewrite nth_indep with (d' := F 0%nat) by (rewrite map_length, seq_length; lia).
      rewrite (map_nth F). rewrite seq_nth by lia. reflexivity. }
    rewrite R. reflexivity.
  - rewrite seq_S, fold_left_app, IH by exact Hlen. simpl fold_left.
    rewrite inner_loop by (rewrite map_length, seq_length; reflexivity).
    apply map_ext_in. intros j Hj. apply in_seq in Hj.
    set (F := fun j => fold_left Rplus (map (fun i => c i j) (seq 0 n)) (nth j out0 0)).
    assert (R : nth j (map F (seq 0 m)) 0 = F j).
    { rewrite nth_indep with (d' := F 0%nat) by (rewrite map_length, seq_length; lia).
      rewrite (map_nth F). rewrite seq_nth by lia. reflexivity. }
    rewrite R. unfold F. rewrite map_app, fold_left_app. reflexivity.
Qed.

Lemma smin_le_smax a b : smin ROps a b <= smax ROps a b.
Proof. rewrite smin_Rmin, smax_Rmax. apply Rle_trans with a; [apply Rmin_l|apply Rmax_l]. Qed.

(* the kernel at the reals, with the NaN branches gone and the four copies of the inner
   loop folded into one: every step adds [contrib] *)
Lemma kernel_compact phi t1 t2 h1 h2 out :
  conservative_kernel ROps Rnotnan phi t1 t2 h1 h2 out =
  fold_left (fun (out : list R) i =>
     fold_left (fun (o : list R) j =>
        upd_add ROps o j
          (contrib (smin ROps (idx ROps t1 i) (idx ROps t2 i)) (smax ROps (idx ROps t1 i) (idx ROps t2 i))
                   (idx ROps phi i) (idx ROps h1 j) (idx ROps h2 j)
                   (Nat.eqb j (List.length h1 - 1))))
        (seq 0 (List.length h1)) out)
    (seq 0 (List.length t1)) (zeros_like ROps out).
Proof.
  unfold conservative_kernel. cbv zeta. apply fold_left_ext. intros acc i _.
  unfold Rnotnan. cbn [andb].
  assert (Body : forall lo hi (o : list R) j,
    (if gtb ROps (idx ROps h1 j) hi || ltb ROps (idx ROps h2 j) lo then o
     else if eqb ROps hi lo
          then (if ltb ROps lo (idx ROps h2 j) || Nat.eqb j (List.length h1 - 1)
                then upd_add ROps o j (idx ROps phi i) else o)
          else upd_add ROps o j
                 (mul ROps (div ROps (sub ROps (py_min ROps hi (idx ROps h2 j)) (py_max ROps lo (idx ROps h1 j)))
                                     (sub ROps hi lo)) (idx ROps phi i)))
    = upd_add ROps o j (contrib lo hi (idx ROps phi i) (idx ROps h1 j) (idx ROps h2 j)
                                (Nat.eqb j (List.length h1 - 1)))).
  { intros lo hi o j. unfold contrib.
    destruct (gtb ROps (idx ROps h1 j) hi || ltb ROps (idx ROps h2 j) lo); [rewrite upd_add_zero; reflexivity|].
    destruct (eqb ROps hi lo); [|reflexivity].
    destruct (ltb ROps lo (idx ROps h2 j) || Nat.eqb j (List.length h1 - 1));
      [reflexivity|rewrite upd_add_zero; reflexivity]. }
  destruct (ltb ROps (idx ROps t1 i) (idx ROps t2 i)) eqn:E.
  - apply Rltb_iff in E. apply fold_left_ext. intros o j _. rewrite Body.
    unfold smin, smax. rbool; try lra. reflexivity.
  - apply Rltb_false in E. apply fold_left_ext. intros o j _. rewrite Body.
    unfold smin, smax. rbool; try lra; try reflexivity.
    (* t1 = t2: both orders name the same interval *)
    assert (Heq : idx ROps t1 i = idx ROps t2 i) by lra. rewrite Heq. reflexivity.
Qed.

(* C07: for all real inputs (any column length, any profile -- monotonic or not, repeated
   values, values on bin edges --, any bins with lower edge below upper edge), the kernel
   computes, bin by bin, the sum over the cells of data times overlap weight. *)
Theorem kernel_is_spec phi t1 t2 h1 h2 :
  List.length h2 = List.length h1 ->
  (forall j, (j < List.length h1)%nat -> idx ROps h1 j < idx ROps h2 j) ->
  conservative_call ROps Rnotnan phi t1 t2 h1 h2 =
  map (fun j => sum ROps (map (fun i =>
         mul ROps (idx ROps phi i)
             (weight ROps (smin ROps (idx ROps t1 i) (idx ROps t2 i))
                          (smax ROps (idx ROps t1 i) (idx ROps t2 i))
                          (idx ROps h1 j) (idx ROps h2 j) (Nat.eqb j (List.length h1 - 1))))
         (seq 0 (List.length t1))))
      (seq 0 (List.length h1)).
Proof.
  intros Hlen Hbin. unfold conservative_call. rewrite kernel_compact.
  rewrite (outer_loop (fun i j =>
     contrib (smin ROps (idx ROps t1 i) (idx ROps t2 i)) (smax ROps (idx ROps t1 i) (idx ROps t2 i))
             (idx ROps phi i) (idx ROps h1 j) (idx ROps h2 j) (Nat.eqb j (List.length h1 - 1)))
     (List.length h1)).
  - apply map_ext_in. intros j Hj. apply in_seq in Hj. unfold sum. simpl zero.
    assert (Z : nth j (zeros_like ROps (map (fun _ : R => 0) h1)) 0 = 0).
    { unfold zeros_like. rewrite map_map.
      destruct (nth_in_or_default j (map (fun _ : R => zero ROps) h1) 0) as [H|H]; [|exact H].
      apply in_map_iff in H. destruct H as (x & Hx & _). rewrite <- Hx. reflexivity. }
    rewrite Z. f_equal. apply map_ext. intros i.
    apply contrib_weight; [apply smin_le_smax|apply Hbin; lia].
  - unfold zeros_like. rewrite !map_length. reflexivity.
Qed.

(* --- end to end: interp_1d_conservative on one column conserves ----------------------- *)

Lemma increasing_idx bins j : increasing bins -> (j + 1 < List.length bins)%nat ->
  idx ROps bins j < idx ROps bins (j + 1).
Proof.
  revert j. induction bins as [|a [|b r] IH]; intros j Hinc Hj; simpl in Hj; try lia.
  destruct Hinc as [Hab Hinc]. destruct j as [|j].
  - unfold idx. simpl. lra.
  - replace (S j + 1)%nat with (S (j + 1)) by lia. rewrite !idx_cons. apply IH; [exact Hinc|simpl; lia].
Qed.

Lemma idx_removelast (l : list R) j : (j + 1 < List.length l)%nat ->
  idx ROps (removelast l) j = idx ROps l j.
Proof.
  revert j; induction l as [|a [|b r] IH]; intros j Hj; simpl in Hj; try lia.
  change (removelast (a :: b :: r)) with (a :: removelast (b :: r)).
  destruct j as [|j]; [reflexivity|]. rewrite !idx_cons. apply IH. simpl. lia.
Qed.

Lemma idx_tl (l : list R) j : idx ROps (tl l) j = idx ROps l (j + 1).
Proof. destruct l as [|a l]; [destruct j; reflexivity|]. replace (j + 1)%nat with (S j) by lia. reflexivity. Qed.

Lemma removelast_len (l : list R) : List.length (removelast l) = (List.length l - 1)%nat.
Proof.
  induction l as [|a [|b r] IH]; try reflexivity.
  change (removelast (a :: b :: r)) with (a :: removelast (b :: r)). simpl List.length in *. rewrite IH. lia.
Qed.

Lemma tl_len (l : list R) : List.length (tl l) = (List.length l - 1)%nat.
Proof. destruct l; simpl; lia. Qed.

Lemma diffs_increasing bins : increasing bins ->
  forallb (fun d => ltb ROps (zero ROps) d) (window2 (fun a b => sub ROps b a) bins) = true.
Proof.
  induction bins as [|a [|b r] IH]; intros H; try reflexivity.
  destruct H as [Hab H].
  change (window2 (fun a b => sub ROps b a) (a :: b :: r))
    with (sub ROps b a :: window2 (fun a b => sub ROps b a) (b :: r)).
  cbn [forallb]. rewrite (IH H), andb_true_r. apply Rltb_iff. simpl. lra.
Qed.

Lemma diffs_not_decreasing bins : increasing bins -> (2 <= List.length bins)%nat ->
  forallb (fun d => ltb ROps d (zero ROps)) (window2 (fun a b => sub ROps b a) bins) = false.
Proof.
  destruct bins as [|a [|b r]]; intros H Hl; simpl in Hl; try lia.
  destruct H as [Hab H].
  change (window2 (fun a b => sub ROps b a) (a :: b :: r))
    with (sub ROps b a :: window2 (fun a b => sub ROps b a) (b :: r)).
  cbn [forallb]. apply andb_false_iff. left. apply Rltb_false. simpl. lra.
Qed.

(* C07: for every column length, every profile on the bounds (monotonic or not, repeated
   values, values on bin edges), every strictly increasing bin set spanning it and all
   data: interp_1d_conservative returns normally and the sum over the bins equals the
   sum over the cells. *)
Theorem conservative_col_conserves phi theta bins d :
  increasing bins -> (2 <= List.length bins)%nat ->
  List.length theta = (List.length phi + 1)%nat ->
  (forall i, (i <= List.length phi)%nat -> hd d bins <= idx ROps theta i <= last bins d) ->
  exists out, conservative_col ROps Rnotnan phi theta bins = Ok out /\
              out = spec_increasing ROps phi theta bins /\ Rsum out = Rsum phi.
Proof.
  intros Hinc Hlen Hth Hspan. unfold conservative_col.
  assert (E : (List.length phi =? List.length theta - 1)%nat = true) by (apply Nat.eqb_eq; lia).
  rewrite E. cbn [negb].
  rewrite (diffs_not_decreasing bins Hinc Hlen), (diffs_increasing bins Hinc).
  eexists. split; [reflexivity|].
  assert (S : conservative_call ROps Rnotnan phi (removelast theta) (tl theta) (removelast bins) (tl bins)
              = spec_increasing ROps phi theta bins).
  { rewrite kernel_is_spec.
    - unfold spec_increasing, spec_bin. rewrite !removelast_len.
      replace (List.length theta - 1)%nat with (List.length phi) by lia.
      apply map_ext_in. intros j Hj. apply in_seq in Hj.
      rewrite idx_removelast, idx_tl by lia. f_equal. apply map_ext_in. intros i Hi. apply in_seq in Hi.
      rewrite idx_removelast, idx_tl by lia. reflexivity.
    - rewrite removelast_len, tl_len. reflexivity.
    - intros j Hj. rewrite removelast_len in Hj. rewrite idx_removelast, idx_tl by lia.
      apply increasing_idx; [exact Hinc|lia]. }
  split; [exact S|]. rewrite S. apply (spec_conserves phi theta bins d); assumption.
Qed.
