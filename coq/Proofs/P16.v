(* C16: the concrete registry refines the abstract last-writer-wins map. *)
From Coq Require Import List Bool ZArith Lia Arith String.
From XV Require Import Base.Res Base.Assoc Model.Registry Spec.S16.
Import ListNotations.
Open Scope string_scope.
Open Scope nat_scope.
Open Scope list_scope.

(* --- set equality on name lists is an equivalence -------------------------------- *)

Lemma memS_iff k l : memS k l = true <-> In k l.
Proof. apply memk_In, string_eqb_spec'. Qed.

Lemma subsetS_iff a b : subsetS a b = true <-> (forall x, In x a -> In x b).
Proof.
  unfold subsetS. rewrite forallb_forall. split; intros H x Hx.
  - apply memS_iff, H, Hx.
  - apply memS_iff, H, Hx.
Qed.

Lemma set_eqb_iff a b : set_eqb a b = true <-> (forall x, In x a <-> In x b).
Proof.
  unfold set_eqb. rewrite andb_true_iff, !subsetS_iff. split.
  - intros [H1 H2] x. split; auto.
  - intros H. split; intros x; apply H.
Qed.

Lemma set_eqb_refl a : set_eqb a a = true.
Proof. apply set_eqb_iff. tauto. Qed.
Lemma set_eqb_sym a b : set_eqb a b = set_eqb b a.
Proof. unfold set_eqb. apply andb_comm. Qed.
Lemma set_eqb_trans a b c : set_eqb a b = true -> set_eqb b c = true -> set_eqb a c = true.
Proof. rewrite !set_eqb_iff. intros H1 H2 x. rewrite H1. apply H2. Qed.

(* if a ~ b then comparing with a or with b is the same *)
Lemma set_eqb_congr a b c : set_eqb a b = true -> set_eqb c a = set_eqb c b.
Proof.
  intros H. apply eq_true_iff_eq. split; intros H'.
  - eapply set_eqb_trans; eauto.
  - eapply set_eqb_trans; eauto. rewrite set_eqb_sym. exact H.
Qed.

Lemma slot_eqb_refl s : slot_eqb s s = true.
Proof. unfold slot_eqb. rewrite !set_eqb_refl. reflexivity. Qed.
Lemma slot_eqb_congr a b c : slot_eqb a b = true -> slot_eqb c a = slot_eqb c b.
Proof.
  unfold slot_eqb. rewrite andb_true_iff. intros [H1 H2].
  rewrite (set_eqb_congr _ _ (fst c) H1), (set_eqb_congr _ _ (snd c) H2). reflexivity.
Qed.
Lemma slot_eqb_sym a b : slot_eqb a b = slot_eqb b a.
Proof. unfold slot_eqb. rewrite (set_eqb_sym (fst a)), (set_eqb_sym (snd a)). reflexivity. Qed.

(* --- the abstract map: functional update ----------------------------------------- *)

Lemma aget_aset s s' v m :
  aget s (aset s' v m) = if slot_eqb s s' then Some v else aget s m.
Proof.
  induction m as [|[s0 v0] r IH]; simpl.
  - destruct (slot_eqb s s'); reflexivity.
  - destruct (slot_eqb s' s0) eqn:E0; simpl.
    + rewrite (slot_eqb_congr s' s0 s E0). destruct (slot_eqb s s0); reflexivity.
    + destruct (slot_eqb s s0) eqn:E1.
      * destruct (slot_eqb s s') eqn:E2; [|reflexivity].
        exfalso. rewrite slot_eqb_sym in E2. rewrite (slot_eqb_congr s s0 s' E1) in E2.
        congruence.
      * exact IH.
Qed.

(* --- one key's list --------------------------------------------------------------- *)

(* the variable registered for a dimension set in one key's list *)
Fixpoint lget (d : list string) (l : list varinfo) : option string :=
  match l with
  | [] => None
  | v :: r => if set_eqb d (snd v) then Some (fst v) else lget d r
  end.

(* no two entries of a key's list have the same dimension set *)
Fixpoint Inv_l (l : list varinfo) : Prop :=
  match l with
  | [] => True
  | v :: r => lget (snd v) r = None /\ Inv_l r
  end.

Lemma lget_congr d d' l : set_eqb d d' = true -> lget d l = lget d' l.
Proof.
  intros H. induction l as [|v r IH]; simpl; [reflexivity|].
  rewrite (set_eqb_sym d), (set_eqb_sym d'), (set_eqb_congr d d' (snd v) H), IH. reflexivity.
Qed.

Lemma lget_app d l v : lget d (l ++ [v]) =
  match lget d l with Some x => Some x | None => if set_eqb d (snd v) then Some (fst v) else None end.
Proof.
  induction l as [|w r IH]; simpl; [reflexivity|].
  destruct (set_eqb d (snd w)); [reflexivity|exact IH].
Qed.

(* scan when nothing in the list has v's dimension set: nothing happens *)
Lemma scan_absent v ow l : lget (snd v) l = None -> scan v ow l = (l, false, Ok tt).
Proof.
  induction l as [|w r IH]; simpl; intros H; [reflexivity|].
  destruct (set_eqb (snd v) (snd w)); [discriminate|]. rewrite (IH H). reflexivity.
Qed.

Lemma scan_spec (v : varinfo) (ow : bool) (l : list varinfo) : Inv_l l ->
  match lget (snd v) l with
  | None => scan v ow l = (l, false, Ok tt)
  | Some _ =>
    if ow then exists l', scan v ow l = (l', true, Ok tt) /\ Inv_l l' /\
                          List.length l' = List.length l /\
                          forall d, lget d l' = if set_eqb d (snd v) then Some (fst v) else lget d l
    else scan v ow l = (l, false, Err ValueError)
  end.
Proof.
  induction l as [|w r IH]; simpl; intros Hinv; [reflexivity|].
  destruct Hinv as [Hw Hr].
  destruct (set_eqb (snd v) (snd w)) eqn:E.
  - destruct ow; [|reflexivity].
    (* the rest of the list has no further match *)
    assert (Hn : lget (snd v) r = None) by (rewrite (lget_congr _ _ r E); exact Hw).
    rewrite (scan_absent v true r Hn). eexists. split; [reflexivity|]. split.
    + simpl. split; [exact Hn|exact Hr].
    + split; [reflexivity|]. intros d. simpl.
      destruct (set_eqb d (snd v)) eqn:Ed.
      * reflexivity.
      * assert (set_eqb d (snd w) = false) as ->.
        { rewrite <- (set_eqb_congr _ _ d E). exact Ed. }
        reflexivity.
  - specialize (IH Hr). destruct (lget (snd v) r) as [x|] eqn:G.
    + destruct ow.
      * destruct IH as (l' & Hs & Hi & Hlen & Hg). rewrite Hs. eexists. split; [reflexivity|].
        split.
        -- simpl. split; [|exact Hi]. rewrite Hg.
           rewrite set_eqb_sym, E. exact Hw.
        -- split; [simpl; rewrite Hlen; reflexivity|]. intros d. simpl.
           destruct (set_eqb d (snd w)) eqn:Ed.
           ++ destruct (set_eqb d (snd v)) eqn:Ev; [|reflexivity].
              exfalso. rewrite set_eqb_sym in Ev. rewrite (set_eqb_congr _ _ (snd v) Ed) in Ev.
              congruence.
           ++ apply Hg.
      * rewrite IH. reflexivity.
    + rewrite IH. reflexivity.
Qed.

(* register_one: functional update of the key's list, or refusal leaving it unchanged *)
Lemma register_one_spec (v : varinfo) (ow : bool) (l : list varinfo) : Inv_l l ->
  match lget (snd v) l, ow with
  | Some _, false => register_one v ow l = (l, Err ValueError)
  | _, _ => exists l', register_one v ow l = (l', Ok tt) /\ Inv_l l' /\
                       forall d, lget d l' = if set_eqb d (snd v) then Some (fst v) else lget d l
  end.
Proof.
  intros Hinv. pose proof (scan_spec v ow l Hinv) as H. unfold register_one.
  destruct (lget (snd v) l) as [x|] eqn:G.
  - destruct ow.
    + destruct H as (l' & Hs & Hi & _ & Hg). rewrite Hs. exists l'. auto.
    + rewrite H. reflexivity.
  - rewrite H. exists (l ++ [v]). split; [destruct ow; reflexivity|]. split.
    + clear H. induction l as [|w r IH]; simpl.
      * auto.
      * simpl in Hinv, G. destruct Hinv as [Hw Hr].
        destruct (set_eqb (snd v) (snd w)) eqn:E; [discriminate|].
        split; [|apply IH; assumption].
        rewrite lget_app, Hw. rewrite set_eqb_sym, E. reflexivity.
    + intros d. rewrite lget_app. destruct (lget d l) as [y|] eqn:Gd.
      * destruct (set_eqb d (snd v)) eqn:Ed; [|reflexivity].
        rewrite (lget_congr _ _ l Ed) in Gd. congruence.
      * reflexivity.
Qed.

Lemma lget_none_iff d l : lget d l = None <-> Forall (fun w : varinfo => set_eqb d (snd w) = false) l.
Proof.
  induction l as [|w r IH]; simpl; [split; auto|].
  destruct (set_eqb d (snd w)) eqn:E.
  - split; [discriminate|]. intros H. inversion H; subst. congruence.
  - rewrite IH. split; [intros H; constructor; assumption|intros H; inversion H; assumption].
Qed.

Lemma Inv_l_snoc l v : Inv_l l -> lget (snd v) l = None -> Inv_l (l ++ [v]).
Proof.
  induction l as [|w r IH]; simpl; intros Hinv G; [auto|].
  destruct Hinv as [Hw Hr]. destruct (set_eqb (snd v) (snd w)) eqn:E; [discriminate|].
  split; [|apply IH; assumption]. rewrite lget_app, Hw, set_eqb_sym, E. reflexivity.
Qed.

(* registering variables none of which has a dimension set already present, nor shared
   with another one of the batch, appends them in order *)
Lemma register_all_app ow : forall vs l, Inv_l l -> Inv_l vs ->
  (forall v, In v vs -> lget (snd v) l = None) ->
  register_all vs ow l = (l ++ vs, Ok tt).
Proof.
  induction vs as [|v r IH]; intros l Hl Hvs Hfresh; simpl.
  - rewrite app_nil_r. reflexivity.
  - destruct Hvs as [Hv Hr].
    assert (G : lget (snd v) l = None) by (apply Hfresh; left; reflexivity).
    unfold register_one. rewrite (scan_absent v ow l G). simpl.
    rewrite IH.
    + rewrite <- app_assoc. reflexivity.
    + apply Inv_l_snoc; assumption.
    + exact Hr.
    + intros w Hw. rewrite lget_app. rewrite (Hfresh w (or_intror Hw)).
      apply lget_none_iff in Hv. rewrite Forall_forall in Hv. specialize (Hv w Hw).
      rewrite set_eqb_sym, Hv. reflexivity.
Qed.

(* --- one key's list against the abstract map ------------------------------------- *)

(* m agrees with list l on key k *)
Definition agrees_on (k : list string) (m : amap) (l : list varinfo) : Prop :=
  forall d, aget (k, d) m = lget d l.

Lemma slot_same_key k d d' : slot_eqb (k, d) (k, d') = set_eqb d d'.
Proof. unfold slot_eqb. simpl. rewrite set_eqb_refl. reflexivity. Qed.

Lemma slot_other_key k k' d d' : set_eqb k' k = false -> slot_eqb (k', d') (k, d) = false.
Proof. unfold slot_eqb. simpl. intros ->. reflexivity. Qed.

Lemma register_all_refines k ow : forall vs l m,
  Inv_l l -> agrees_on k m l ->
  let '(l', out) := register_all vs ow l in
  let '(m', out') := spec_all k ow m vs in
  out = out' /\ Inv_l l' /\ agrees_on k m' l' /\
  (forall k' d, set_eqb k' k = false -> aget (k', d) m' = aget (k', d) m).
Proof.
  induction vs as [|v r IH]; intros l m Hinv Hag; simpl.
  - repeat split; auto.
  - pose proof (register_one_spec v ow l Hinv) as H1.
    unfold spec_one. rewrite (Hag (snd v)).
    destruct (lget (snd v) l) as [x|] eqn:G.
    + destruct ow.
      * destruct H1 as (l1 & Hr1 & Hi1 & Hg1). rewrite Hr1.
        specialize (IH l1 (aset (k, snd v) (fst v) m) Hi1).
        assert (Hag1 : agrees_on k (aset (k, snd v) (fst v) m) l1).
        { intros d. rewrite aget_aset, slot_same_key, Hg1, (Hag d). reflexivity. }
        specialize (IH Hag1).
        destruct (register_all r true l1) as [l' out].
        destruct (spec_all k true (aset (k, snd v) (fst v) m) r) as [m' out'].
        destruct IH as (E & Hi & Ha & Ho). repeat split; auto.
        intros k' d Hne. rewrite (Ho k' d Hne), aget_aset, (slot_other_key k k' (snd v) d Hne).
        reflexivity.
      * rewrite H1. repeat split; auto.
    + assert (H1' : exists l', register_one v ow l = (l', Ok tt) /\ Inv_l l' /\
                    forall d, lget d l' = if set_eqb d (snd v) then Some (fst v) else lget d l)
        by (destruct ow; exact H1).
      destruct H1' as (l1 & Hr1 & Hi1 & Hg1). rewrite Hr1.
      specialize (IH l1 (aset (k, snd v) (fst v) m) Hi1).
      assert (Hag1 : agrees_on k (aset (k, snd v) (fst v) m) l1).
      { intros d. rewrite aget_aset, slot_same_key, Hg1, (Hag d). reflexivity. }
      specialize (IH Hag1).
      destruct (register_all r ow l1) as [l' out].
      destruct (spec_all k ow (aset (k, snd v) (fst v) m) r) as [m' out'].
      destruct IH as (E & Hi & Ha & Ho). repeat split; auto.
      intros k' d Hne. rewrite (Ho k' d Hne), aget_aset, (slot_other_key k k' (snd v) d Hne).
      reflexivity.
Qed.

(* --- the whole registry ------------------------------------------------------------ *)

Fixpoint Inv (reg : registry) : Prop :=
  match reg with
  | [] => True
  | (k, l) :: r => find_key k r = None /\ Inv_l l /\ Inv r
  end.

Lemma find_key_congr k k' reg : set_eqb k k' = true -> find_key k reg = find_key k' reg.
Proof.
  intros H. induction reg as [|[k0 l0] r IH]; simpl; [reflexivity|].
  rewrite (set_eqb_sym k), (set_eqb_sym k'), (set_eqb_congr k k' k0 H), IH. reflexivity.
Qed.

Lemma aget_app s m1 m2 :
  aget s (m1 ++ m2) = match aget s m1 with Some v => Some v | None => aget s m2 end.
Proof.
  induction m1 as [|[s0 v0] r IH]; simpl; [reflexivity|].
  destruct (slot_eqb s s0); [reflexivity|exact IH].
Qed.

Lemma aget_key_block k d k0 (l0 : list varinfo) :
  aget (k, d) (map (fun v : varinfo => ((k0, snd v), fst v)) l0) =
  if set_eqb k k0 then lget d l0 else None.
Proof.
  induction l0 as [|v r IH]; simpl; [destruct (set_eqb k k0); reflexivity|].
  unfold slot_eqb. simpl. destruct (set_eqb k k0); simpl; [|exact IH].
  destruct (set_eqb d (snd v)); [reflexivity|exact IH].
Qed.

(* under the invariant, reading the abstraction is reading the key's list *)
Lemma aget_abs reg k d : Inv reg ->
  aget (k, d) (abs reg) = match find_key k reg with Some l => lget d l | None => None end.
Proof.
  induction reg as [|[k0 l0] r IH]; simpl; intros Hinv; [reflexivity|].
  destruct Hinv as (Hk & Hl & Hr). rewrite aget_app, aget_key_block.
  destruct (set_eqb k k0) eqn:E.
  - destruct (lget d l0); [reflexivity|].
    rewrite (IH Hr), (find_key_congr k k0 r E), Hk. reflexivity.
  - apply IH, Hr.
Qed.

Lemma find_key_set_key k' k l reg :
  find_key k' (set_key k l reg) = if set_eqb k' k then Some l else find_key k' reg.
Proof.
  induction reg as [|[k0 l0] r IH]; simpl.
  - destruct (set_eqb k' k); reflexivity.
  - destruct (set_eqb k k0) eqn:E0; simpl.
    + rewrite (set_eqb_congr k k0 k' E0). destruct (set_eqb k' k0); reflexivity.
    + destruct (set_eqb k' k0) eqn:E1.
      * destruct (set_eqb k' k) eqn:E2; [|reflexivity].
        exfalso. rewrite set_eqb_sym in E2. rewrite (set_eqb_congr k' k0 k E1) in E2. congruence.
      * exact IH.
Qed.

Lemma Inv_set_key k l reg : Inv reg -> Inv_l l -> Inv (set_key k l reg).
Proof.
  induction reg as [|[k0 l0] r IH]; simpl; intros Hinv Hl; [auto|].
  destruct Hinv as (Hk & Hl0 & Hr).
  destruct (set_eqb k k0) eqn:E; simpl.
  - auto.
  - split; [|split; [exact Hl0|apply IH; assumption]].
    rewrite find_key_set_key. rewrite set_eqb_sym, E. exact Hk.
Qed.

Lemma find_key_app k' reg k l :
  find_key k' (reg ++ [(k, l)]) =
  match find_key k' reg with Some x => Some x | None => if set_eqb k' k then Some l else None end.
Proof.
  induction reg as [|[k0 l0] r IH]; simpl; [reflexivity|].
  destruct (set_eqb k' k0); [reflexivity|exact IH].
Qed.

Lemma Inv_app reg k l : Inv reg -> find_key k reg = None -> Inv_l l -> Inv (reg ++ [(k, l)]).
Proof.
  induction reg as [|[k0 l0] r IH]; simpl; intros Hinv Hf Hl; [auto|].
  destruct Hinv as (Hk & Hl0 & Hr). destruct (set_eqb k k0) eqn:E; [discriminate|].
  split; [|split; [exact Hl0|apply IH; assumption]].
  rewrite find_key_app, Hk, set_eqb_sym, E. reflexivity.
Qed.

(* the refinement relation between a concrete registry and an abstract map *)
Definition refines (reg : registry) (m : amap) : Prop :=
  Inv reg /\ forall s, aget s (abs reg) = aget s m.

(* a call as the property quantifies them: its variables sit at pairwise different
   positions (dimension sets) *)
Definition call_ok (env : reg_env) (c : reg_call) : Prop :=
  match infos env (rc_names c) with Some vs => Inv_l vs | None => True end.

Theorem set_metrics_refines env reg m c :
  refines reg m -> call_ok env c ->
  refines (fst (set_metrics env reg c)) (fst (spec_call env m c)) /\
  snd (set_metrics env reg c) = snd (spec_call env m c).
Proof.
  intros [Hinv Hag] Hok. unfold set_metrics, spec_call, call_ok in *.
  destruct (negb (forallb _ (rc_key c))); [split; [split|]; auto|].
  destruct (infos env (rc_names c)) as [vs|]; [|split; [split|]; auto].
  set (k := rc_key c). set (ow := rc_overwrite c).
  destruct (find_key k reg) as [l|] eqn:Fk.
  - (* existing key *)
    assert (Hl : Inv_l l).
    { clear - Hinv Fk. induction reg as [|[k0 l0] r IH]; simpl in *; [discriminate|].
      destruct Hinv as (_ & Hl0 & Hr). destruct (set_eqb k k0); [inversion Fk; subst; exact Hl0|].
      apply IH; assumption. }
    assert (Hagk : agrees_on k m l).
    { intros d. rewrite <- Hag, (aget_abs reg k d Hinv), Fk. reflexivity. }
    pose proof (register_all_refines k ow vs l m Hl Hagk) as R.
    destruct (register_all vs ow l) as [l' out]. destruct (spec_all k ow m vs) as [m' out'].
    destruct R as (E & Hi & Ha & Ho). simpl. split; [|exact E]. split.
    + apply Inv_set_key; assumption.
    + intros [k' d]. rewrite (aget_abs _ k' d (Inv_set_key k l' reg Hinv Hi)), find_key_set_key.
      destruct (set_eqb k' k) eqn:E'.
      * rewrite <- (Ha d). unfold slot_eqb.
        (* reading slot (k', d) is reading slot (k, d) *)
        assert (Hs : slot_eqb (k', d) (k, d) = true)
          by (unfold slot_eqb; simpl; rewrite E', set_eqb_refl; reflexivity).
        clear - Hs. induction m' as [|[s0 v0] r IH]; simpl; [reflexivity|].
        rewrite (slot_eqb_sym (k', d)), (slot_eqb_sym (k, d)).
        rewrite <- (slot_eqb_congr (k', d) (k, d) s0 Hs). destruct (slot_eqb s0 (k', d)); [reflexivity|exact IH].
      * rewrite (Ho k' d E'), <- Hag, (aget_abs reg k' d Hinv). reflexivity.
  - (* fresh key: the variables are stored as given *)
    assert (Hagk : agrees_on k m []).
    { intros d. rewrite <- Hag, (aget_abs reg k d Hinv), Fk. reflexivity. }
    pose proof (register_all_refines k ow vs [] m I Hagk) as R.
    rewrite (register_all_app ow vs [] I Hok) in R by (intros; reflexivity). simpl in R.
    destruct (spec_all k ow m vs) as [m' out']. destruct R as (E & Hi & Ha & Ho).
    simpl. split; [|exact E]. split.
    + apply Inv_app; assumption.
    + intros [k' d]. rewrite (aget_abs _ k' d (Inv_app reg k vs Hinv Fk Hok)), find_key_app.
      destruct (find_key k' reg) as [l1|] eqn:F1.
      * assert (E' : set_eqb k' k = false).
        { destruct (set_eqb k' k) eqn:E'; [|reflexivity].
          rewrite (find_key_congr k' k reg E') in F1. congruence. }
        rewrite (Ho k' d E'), <- Hag, (aget_abs reg k' d Hinv), F1. reflexivity.
      * destruct (set_eqb k' k) eqn:E'.
        -- rewrite <- (Ha d).
           assert (Hs : slot_eqb (k', d) (k, d) = true)
             by (unfold slot_eqb; simpl; rewrite E', set_eqb_refl; reflexivity).
           clear - Hs. induction m' as [|[s0 v0] r IH]; simpl; [reflexivity|].
           rewrite (slot_eqb_sym (k', d)), (slot_eqb_sym (k, d)).
           rewrite <- (slot_eqb_congr (k', d) (k, d) s0 Hs). destruct (slot_eqb s0 (k', d)); [reflexivity|exact IH].
        -- rewrite (Ho k' d E'), <- Hag, (aget_abs reg k' d Hinv), F1. reflexivity.
Qed.

(* C16, every history: by induction over the list of calls *)
Theorem history_refines env : forall cs reg m,
  refines reg m -> Forall (call_ok env) cs ->
  refines (fst (run_history env reg cs)) (fst (spec_history env m cs)) /\
  snd (run_history env reg cs) = snd (spec_history env m cs).
Proof.
  induction cs as [|c r IH]; intros reg m Href Hok; simpl; [auto|].
  inversion Hok as [|? ? Hc Hr]; subst.
  destruct (set_metrics_refines env reg m c Href Hc) as [R E].
  destruct (set_metrics env reg c) as [reg' out]. destruct (spec_call env m c) as [m' out'].
  simpl in R, E. specialize (IH reg' m' R Hr).
  destruct (run_history env reg' r) as [reg'' outs]. destruct (spec_history env m' r) as [m'' outs'].
  simpl in *. destruct IH as [R' E']. split; [exact R'|]. rewrite E, E'. reflexivity.
Qed.

Lemma refines_empty : refines [] [].
Proof. split; [exact I|reflexivity]. Qed.

(* --- batching ---------------------------------------------------------------------- *)

Lemma set_key_set_key k l l' reg : set_key k l' (set_key k l reg) = set_key k l' reg.
Proof.
  induction reg as [|[k0 l0] r IH]; simpl.
  - rewrite set_eqb_refl. reflexivity.
  - destruct (set_eqb k k0) eqn:E; simpl; rewrite E; [reflexivity|]. f_equal. exact IH.
Qed.

Lemma set_key_app_fresh k l l' reg : find_key k reg = None ->
  set_key k l' (reg ++ [(k, l)]) = reg ++ [(k, l')].
Proof.
  induction reg as [|[k0 l0] r IH]; simpl; intros H.
  - rewrite set_eqb_refl. reflexivity.
  - destruct (set_eqb k k0); [discriminate|]. f_equal. apply IH, H.
Qed.

(* C16, batching: a call naming n :: ns (all known variables, pairwise different
   positions) behaves exactly like the call naming n followed -- unless that one was
   refused -- by the call naming ns: same registry (as a concrete ordered structure, so
   every later query sees the same thing) and same outcome. *)
Theorem batch_unfold env reg key n ns ow v vs :
  call_ok env {| rc_key := key; rc_names := n :: ns; rc_overwrite := ow |} ->
  infos env (n :: ns) = Some (v :: vs) ->
  set_metrics env reg {| rc_key := key; rc_names := n :: ns; rc_overwrite := ow |} =
  let '(r1, o1) := set_metrics env reg {| rc_key := key; rc_names := [n]; rc_overwrite := ow |} in
  match o1 with
  | Err e => (r1, Err e)
  | Ok _ => set_metrics env r1 {| rc_key := key; rc_names := ns; rc_overwrite := ow |}
  end.
Proof.
  intros Hok Hinf. unfold call_ok in Hok. cbn [rc_names] in Hok. rewrite Hinf in Hok.
  assert (Hn : infos env [n] = Some [v] /\ infos env ns = Some vs).
  { simpl in Hinf |- *. destruct (lookupS n (re_vars env)) as [ds|]; [|discriminate].
    destruct (infos env ns) as [l|]; [|discriminate]. inversion Hinf; subst. auto. }
  destruct Hn as [Hn1 Hn2].
  unfold set_metrics. simpl rc_key. simpl rc_names. simpl rc_overwrite.
  destruct (negb (forallb (fun a => memS a (re_axes env)) key)) eqn:Hax; [reflexivity|].
  rewrite Hinf, Hn1.
  destruct (find_key key reg) as [l|] eqn:Fk.
  - (* existing key *)
    simpl register_all.
    destruct (register_one v ow l) as [l1 o1]. destruct o1 as [[]|e]; [|reflexivity].
    unfold set_metrics. cbn [rc_key rc_names rc_overwrite].
    rewrite ?Hax, Hn2, find_key_set_key, set_eqb_refl.
    destruct (register_all vs ow l1) as [l' out]. rewrite set_key_set_key. reflexivity.
  - (* fresh key *)
    unfold set_metrics. cbn [rc_key rc_names rc_overwrite].
    rewrite ?Hax, Hn2, find_key_app, Fk, set_eqb_refl.
    destruct Hok as [Hv Hvs].
    rewrite (register_all_app ow vs [v]).
    + rewrite set_key_app_fresh by exact Fk. reflexivity.
    + simpl. auto.
    + exact Hvs.
    + intros w Hw. simpl. apply lget_none_iff in Hv. rewrite Forall_forall in Hv.
      specialize (Hv w Hw). rewrite set_eqb_sym, Hv. reflexivity.
Qed.

(* refusal: registering into an occupied slot without overwrite raises ValueError and
   leaves the registry exactly as it was *)
Theorem occupied_refused env reg key n v l :
  Inv reg -> forallb (fun a => memS a (re_axes env)) key = true ->
  infos env [n] = Some [v] -> find_key key reg = Some l -> lget (snd v) l <> None ->
  set_metrics env reg {| rc_key := key; rc_names := [n]; rc_overwrite := false |} =
  (set_key key l reg, Err ValueError).
Proof.
  intros Hinv Hax Hinf Fk Hocc. unfold set_metrics. simpl. rewrite Hax. simpl.
  simpl in Hinf. rewrite Hinf, Fk.
  assert (Hl : Inv_l l).
  { clear - Hinv Fk. induction reg as [|[k0 l0] r IH]; simpl in *; [discriminate|].
    destruct Hinv as (_ & Hl0 & Hr). destruct (set_eqb key k0); [inversion Fk; subst; exact Hl0|].
    apply IH; assumption. }
  pose proof (register_one_spec v false l Hl) as H.
  destruct (lget (snd v) l); [|congruence]. simpl. rewrite H. reflexivity.
Qed.

Lemma set_key_same k l reg : find_key k reg = Some l -> set_key k l reg = reg.
Proof.
  induction reg as [|[k0 l0] r IH]; simpl; intros H; [discriminate|].
  destruct (set_eqb k k0); [inversion H; reflexivity|]. f_equal. apply IH, H.
Qed.
