(* C03: a link that matches the charts at three halo positions matches them at all,
   so the halo of the face unfolds onto the undivided domain. *)
From Coq Require Import List Bool ZArith Lia String.
From XV Require Import Spec.S03.
Open Scope Z_scope.

(* the undivided domain's cell addressed by a global position: periodic directions wrap *)
Definition gmod (dom : domain) (q : Z * Z) : Z * Z :=
  ((if dom_perx dom then fst q mod dom_lx dom else fst q),
   (if dom_pery dom then snd q mod dom_ly dom else snd q)).

(* delta is affine in (k, t): determined by its values at (1,0), (2,0), (1,1) *)
Lemma delta_affine cf cs a_is_x is_left sa_is_x rev N k t :
  let d := delta cf cs a_is_x is_left sa_is_x rev N in
  fst (d k t) = fst (d 1 0) + (k - 1) * (fst (d 2 0) - fst (d 1 0)) + t * (fst (d 1 1) - fst (d 1 0)) /\
  snd (d k t) = snd (d 1 0) + (k - 1) * (snd (d 2 0) - snd (d 1 0)) + t * (snd (d 1 1) - snd (d 1 0)).
Proof.
  unfold delta, chart_apply, halo_pos, source_pos, ortho_z, along_z.
  destruct a_is_x, is_left, sa_is_x, rev; simpl; split; ring.
Qed.

Lemma period_ok_mod L per d x : 0 < L -> period_ok L per d = true ->
  (if per then (x + d) mod L else x + d) = (if per then x mod L else x).
Proof.
  intros HL H. unfold period_ok in H. apply orb_true_iff in H. destruct H as [H|H].
  - apply Z.eqb_eq in H. subst. rewrite Z.add_0_r. reflexivity.
  - apply andb_true_iff in H. destruct H as [-> H]. apply orb_true_iff in H.
    destruct H as [H|H]; apply Z.eqb_eq in H; subst.
    + replace (x + L) with (x + 1 * L) by ring. apply Z.mod_add. lia.
    + replace (x + - L) with (x + (-1) * L) by ring. apply Z.mod_add. lia.
Qed.

(* C03: for a consistent link, EVERY halo position (any depth, any along-edge position)
   of the face unfolds to the same cell of the undivided domain as the position of the
   neighbouring face the link kind reads. *)
Theorem link_unfolds dom cf cs a_is_x is_left sa_is_x rev N :
  0 < dom_lx dom -> 0 < dom_ly dom ->
  link_consistentb dom cf cs a_is_x is_left sa_is_x rev N = true ->
  forall k t,
    gmod dom (chart_apply cf (halo_pos a_is_x is_left N k t)) =
    gmod dom (chart_apply cs (source_pos sa_is_x is_left rev (negb (Bool.eqb a_is_x sa_is_x)) N k t)).
Proof.
  intros Hx Hy H k t. unfold link_consistentb in H.
  apply andb_true_iff in H. destruct H as [H H11].
  apply andb_true_iff in H. destruct H as [H H20].
  apply andb_true_iff in H. destruct H as [Hpx Hpy].
  unfold pair_eqb in H20, H11.
  apply andb_true_iff in H20. destruct H20 as [A1 A2]. apply Z.eqb_eq in A1, A2.
  apply andb_true_iff in H11. destruct H11 as [B1 B2]. apply Z.eqb_eq in B1, B2.
  destruct (delta_affine cf cs a_is_x is_left sa_is_x rev N k t) as [D1 D2].
  cbv zeta in D1, D2. rewrite A1, B1 in D1. rewrite A2, B2 in D2.
  rewrite !Z.sub_diag, !Z.mul_0_r, !Z.add_0_r in D1, D2.
  set (h := chart_apply cf (halo_pos a_is_x is_left N k t)) in *.
  set (s := chart_apply cs (source_pos sa_is_x is_left rev (negb (Bool.eqb a_is_x sa_is_x)) N k t)) in *.
  set (d0 := delta cf cs a_is_x is_left sa_is_x rev N 1 0) in *.
  assert (X1 : fst (delta cf cs a_is_x is_left sa_is_x rev N k t) = fst h - fst s) by reflexivity.
  assert (X2 : snd (delta cf cs a_is_x is_left sa_is_x rev N k t) = snd h - snd s) by reflexivity.
  assert (E1 : fst h = fst s + fst d0) by lia.
  assert (E2 : snd h = snd s + snd d0) by lia.
  unfold gmod. rewrite E1, E2.
  rewrite (period_ok_mod _ _ _ (fst s) Hx Hpx), (period_ok_mod _ _ _ (snd s) Hy Hpy). reflexivity.
Qed.

(* --- bridge to C05: the documented source cell IS the unfolded one ----------------------- *)
From XV Require Import Spec.S05 Proofs.P05.
Open Scope Z_scope.

(* C05 describes the source cell of a halo cell with natural-number indices into the
   neighbour (ortho_index: k cells inward from the linked edge; along: kept or mirrored);
   these are exactly the local coordinates source_pos assigns *)
Lemma ortho_index_is_ortho_z is_left rev (N k : nat) : (1 <= k <= N)%nat ->
  Z.of_nat (ortho_index is_left rev N k) = ortho_z is_left rev (Z.of_nat N) (Z.of_nat k).
Proof. intros H. unfold ortho_index, ortho_z. destruct (xorb is_left rev); lia. Qed.

Lemma along_is_along_z swap rev (N t : nat) : (t < N)%nat ->
  Z.of_nat (along swap rev N t) = along_z swap rev (Z.of_nat N) (Z.of_nat t).
Proof. intros H. unfold along, along_z. destruct (swap && negb rev); lia. Qed.

(* Hence: across a link that matches the charts, the cell C05 documents as the source of
   the halo cell at depth k, along-edge position t is the cell of the undivided domain
   lying k cells beyond the face's edge at that along-edge position *)
Theorem documented_cell_is_global dom cf cs a_is_x is_left sa_is_x rev (N k t : nat) :
  (0 < dom_lx dom)%Z -> (0 < dom_ly dom)%Z ->
  link_consistentb dom cf cs a_is_x is_left sa_is_x rev (Z.of_nat N) = true ->
  (1 <= k <= N)%nat -> (t < N)%nat ->
  let swap := negb (Bool.eqb a_is_x sa_is_x) in
  let o := Z.of_nat (ortho_index is_left rev N k) in
  let t' := Z.of_nat (along swap rev N t) in
  gmod dom (chart_apply cs (if sa_is_x then (o, t') else (t', o))) =
  gmod dom (chart_apply cf (halo_pos a_is_x is_left (Z.of_nat N) (Z.of_nat k) (Z.of_nat t))).
Proof.
  intros Hx Hy Hc Hk Ht swap o t'. subst o t'.
  rewrite (ortho_index_is_ortho_z _ _ _ _ Hk), (along_is_along_z _ _ _ _ Ht).
  symmetry. apply (link_unfolds dom cf cs a_is_x is_left sa_is_x rev (Z.of_nat N) Hx Hy Hc).
Qed.
