(* C02, resolution of the rule and fill value in force. *)
From Coq Require Import List Bool ZArith Lia Arith String.
From XV Require Import Base.Res Base.Assoc Base.Seq1D Base.Tensor Model.Axis Model.GridCtor Model.Pad
     Spec.S02.
Import ListNotations.
Open Scope string_scope.
Open Scope nat_scope.
Open Scope list_scope.

Lemma lookupS_cons_eq {V} k (v : V) l : lookupS k ((k, v) :: l) = Some v.
Proof. unfold lookupS. simpl. rewrite String.eqb_refl. reflexivity. Qed.
Lemma lookupS_cons_neq {V} k k' (v : V) l : k <> k' -> lookupS k ((k', v) :: l) = lookupS k l.
Proof. unfold lookupS. simpl. intros H. apply String.eqb_neq in H. rewrite H. reflexivity. Qed.

Lemma lookupS_assoc_set {V} k k' (v : V) l :
  lookupS k (assoc_set k' v l) = if String.eqb k k' then Some v else lookupS k l.
Proof.
  unfold lookupS. induction l as [|[k0 v0] r IH]; simpl.
  - destruct (String.eqb k k'); reflexivity.
  - destruct (String.eqb k' k0) eqn:E0; simpl.
    + apply String.eqb_eq in E0; subst k0. destruct (String.eqb k k'); reflexivity.
    + destruct (String.eqb k k0) eqn:E1.
      * apply String.eqb_eq in E1; subst k0. rewrite String.eqb_sym in E0. rewrite E0.
        reflexivity.
      * exact IH.
Qed.

Lemma get_or_none_assoc_set {V} k k' (v : option V) l :
  get_or_none k (assoc_set k' v l) = if String.eqb k k' then v else get_or_none k l.
Proof. unfold get_or_none. rewrite lookupS_assoc_set. destruct (String.eqb k k'); reflexivity. Qed.

Lemma lookupS_map_const {V} k (v : V) axes :
  lookupS k (map (fun a => (a, v)) axes) = if memS k axes then Some v else None.
Proof.
  unfold lookupS, memS, memk. induction axes as [|a r IH]; simpl; [reflexivity|].
  destruct (String.eqb k a); simpl; [reflexivity|exact IH].
Qed.

Lemma memS_true_In k l : memS k l = true <-> In k l.
Proof. apply memk_In, string_eqb_spec'. Qed.

(* the loop that turns `periodic` into boundary words: the first periodic entry of an
   axis decides, and only when no word is there yet *)
Lemma fill_in_periodic_get name pd : forall bd,
  get_or_none name (fill_in_periodic bd pd) =
  match get_or_none name bd with
  | Some b => Some b
  | None => match lookupS name pd with
            | Some p => Some (if p then BPeriodic else BFill)
            | None => None
            end
  end.
Proof.
  induction pd as [|[k p] r IH]; intros bd.
  - simpl. destruct (get_or_none name bd); reflexivity.
  - unfold fill_in_periodic. simpl fold_left. fold (fill_in_periodic
      (match get_or_none k bd with
       | None => assoc_set k (Some (if p then BPeriodic else BFill)) bd
       | Some _ => bd end) r).
    rewrite IH. destruct (string_dec name k) as [->|Hne].
    + rewrite lookupS_cons_eq. destruct (get_or_none k bd) as [b|] eqn:G.
      * rewrite G. reflexivity.
      * rewrite get_or_none_assoc_set, String.eqb_refl. reflexivity.
    + rewrite lookupS_cons_neq by exact Hne.
      destruct (get_or_none k bd) as [b|] eqn:G; [reflexivity|].
      rewrite get_or_none_assoc_set. apply String.eqb_neq in Hne. rewrite Hne. reflexivity.
Qed.

Lemma explicit_map_kwargs {V} (k : kw V) axes name : In name axes ->
  get_or_none name (map_kwargs_over_axes k axes) = explicit k name.
Proof.
  intros H. destruct k as [v|m]; simpl; [|reflexivity].
  unfold get_or_none. rewrite lookupS_map_const.
  apply memS_true_In in H. rewrite H. reflexivity.
Qed.

Section Resolve.
  Context {A : Type} (zero : A).

  (* Spellings of `periodic` for which the constructor follows the property on axis
     [name]; the excluded one is the known finding (periodic given as a list that does
     not name the axis, with no explicit boundary for it). *)
  Definition periodic_spelling_ok (c : ctor_args A) (name : string) : Prop :=
    match c_periodic c with
    | PList l => In name l \/ explicit (c_boundary c) name <> None
    | _ => True
    end.

  Lemma boundary_resolved (c : ctor_args A) name :
    In name (map fst (c_coords c)) -> periodic_spelling_ok c name ->
    match get_or_none name
            (fill_in_periodic (map_kwargs_over_axes (c_boundary c) (map fst (c_coords c)))
                              (periodic_dict (c_periodic c) (map fst (c_coords c)))) with
    | None => BPeriodic | Some b => b
    end = grid_rule c name.
  Proof.
    intros Hin Hsp. rewrite fill_in_periodic_get, explicit_map_kwargs by exact Hin.
    unfold grid_rule. destruct (explicit (c_boundary c) name) as [b|] eqn:E; [reflexivity|].
    unfold periodic_spelling_ok in Hsp. unfold axis_periodic, periodic_dict.
    destruct (c_periodic c) as [b|l|m].
    - rewrite lookupS_map_const. apply memS_true_In in Hin. rewrite Hin. destruct b; reflexivity.
    - destruct Hsp as [Hl|Hl]; [|congruence].
      rewrite lookupS_map_const. apply memS_true_In in Hl. rewrite Hl. reflexivity.
    - destruct (lookupS name m) as [[|]|]; reflexivity.
  Qed.

  Lemma mk_axes_spec dsdims bd fd sd : forall coords (g : grid A),
    mk_axes zero dsdims coords bd fd sd = Ok g ->
    map (@ax_name A) g = map fst coords /\
    forall a, In a g ->
      ax_boundary a = match get_or_none (ax_name a) bd with None => BPeriodic | Some b => b end /\
      ax_fill a = match get_or_none (ax_name a) fd with None => zero | Some v => v end /\
      In (ax_name a, ax_coords a) coords.
  Proof.
    induction coords as [|[name cs] r IH]; intros g H; simpl in H.
    - inversion H; subst. split; [reflexivity|intros a []].
    - destruct (mk_axis dsdims name cs _ _ _ zero) as [a|e] eqn:Ha; simpl in H; [|discriminate].
      destruct (mk_axes zero dsdims r bd fd sd) as [rest|e] eqn:Hr; simpl in H; [|discriminate].
      inversion H; subst. destruct (IH rest eq_refl) as [IH1 IH2].
      unfold mk_axis in Ha.
      destruct (negb _); [discriminate|].
      destruct (mk_shifts _ _ _) as [sh|]; simpl in Ha; [|discriminate].
      assert (Hax : ax_name a = name /\ ax_coords a = cs /\
                    ax_boundary a = match get_or_none name bd with None => BPeriodic | Some b => b end /\
                    ax_fill a = match get_or_none name fd with None => zero | Some v => v end).
      { destruct (get_or_none name bd) as [[| | |]|]; inversion Ha; subst; simpl; auto. }
      destruct Hax as (N1 & N2 & N3 & N4).
      split; [simpl; rewrite N1, IH1; reflexivity|].
      intros a' [<-|Hin].
      + rewrite N1. repeat split; auto. left. rewrite N2. reflexivity.
      + destruct (IH2 a' Hin) as (B1 & B2 & B3). repeat split; auto. right; exact B3.
  Qed.

  (* C02, constructor: every axis of the constructed Grid carries the rule and fill
     value the property prescribes. *)
  Theorem grid_ctor_spec (c : ctor_args A) (g : grid A) :
    grid_ctor zero c = Ok g ->
    map (@ax_name A) g = map fst (c_coords c) /\
    forall a, In a g -> periodic_spelling_ok c (ax_name a) ->
      ax_boundary a = grid_rule c (ax_name a) /\ ax_fill a = grid_fill zero c (ax_name a).
  Proof.
    unfold grid_ctor. intros H. apply mk_axes_spec in H. destruct H as [Hn Ha].
    split; [exact Hn|]. intros a Hin Hsp. destruct (Ha a Hin) as (B1 & B2 & B3).
    assert (Hname : In (ax_name a) (map fst (c_coords c))).
    { rewrite <- Hn. apply in_map, Hin. }
    split.
    - rewrite B1. apply boundary_resolved; assumption.
    - rewrite B2. rewrite explicit_map_kwargs by exact Hname. reflexivity.
  Qed.

  (* The known finding, as a theorem about the faithful model: with periodic=['X'] the
     unnamed axis Y comes out periodic although the property prescribes fill. *)
  Definition refuting_ctor : ctor_args A :=
    {| c_dsdims := ["x"; "y"]; c_coords := [("X", [(Center, "x")]); ("Y", [(Center, "y")])];
       c_periodic := PList ["X"]; c_boundary := KScalar None; c_fill := KScalar None;
       c_shifts := KScalar None |}.
  Theorem grid_ctor_periodic_list_refuted :
    exists g a, grid_ctor zero refuting_ctor = Ok g /\ In a g /\
                ax_boundary a <> grid_rule refuting_ctor (ax_name a).
  Proof.
    eexists. eexists. split; [reflexivity|]. split; [right; left; reflexivity|].
    simpl. discriminate.
  Qed.

  (* per-call completion: `defaults | user` *)
  Lemma complete_fold_lookup {V} name (m : list (string * option V)) : forall d,
    NoDup (map fst m) ->
    lookupS name (fold_left (fun (acc : list (string * option V)) (q : string * option V) =>
                               assoc_set (fst q) (snd q) acc) m d) =
    match lookupS name m with Some v => Some v | None => lookupS name d end.
  Proof.
    induction m as [|[k v] r IH]; intros d ND; [reflexivity|].
    inversion ND as [|? ? Hn ND']; subst. simpl fold_left. rewrite IH by exact ND'.
    destruct (string_dec name k) as [->|Hne].
    - rewrite lookupS_cons_eq.
      assert (lookupS k r = None) as ->.
      { destruct (lookupS k r) eqn:E; [|reflexivity].
        apply (lookup_In String.eqb string_eqb_spec') in E.
        exfalso. apply Hn. change k with (fst (k, o)). apply in_map, E. }
      rewrite lookupS_assoc_set, String.eqb_refl. reflexivity.
    - rewrite lookupS_cons_neq by exact Hne.
      destruct (lookupS name r); [reflexivity|].
      rewrite lookupS_assoc_set. apply String.eqb_neq in Hne. rewrite Hne. reflexivity.
  Qed.

  Lemma lookupS_defaults {V} (g : grid A) (proj : axis A -> V) a :
    NoDup (map (@ax_name A) g) -> In a g ->
    lookupS (ax_name a) (map (fun a => (ax_name a, Some (proj a))) g) = Some (Some (proj a)).
  Proof.
    unfold lookupS. induction g as [|b r IH]; intros ND Hin; [contradiction|].
    inversion ND as [|? ? Hn ND']; subst. simpl.
    destruct Hin as [->|Hin].
    - rewrite String.eqb_refl. reflexivity.
    - destruct (String.eqb (ax_name a) (ax_name b)) eqn:E.
      + apply String.eqb_eq in E. exfalso. apply Hn. rewrite <- E. apply in_map, Hin.
      + apply IH; assumption.
  Qed.

  (* C02, per call: the completed mapping gives, for every axis of the grid, the
     per-call value when there is one and the axis' own setting otherwise. A mapping
     entry that is literally None is passed through as None (pad mode: wrap). *)
  Theorem complete_kwargs_spec {V} (g : grid A) (proj : axis A -> V) (user : kw V) a :
    NoDup (map (@ax_name A) g) -> In a g ->
    match user with KMap m => NoDup (map fst m) | _ => True end ->
    lookupS (ax_name a) (complete_kwargs g proj user) =
    match user with
    | KScalar None => Some (Some (proj a))
    | KScalar (Some v) => Some (Some v)
    | KMap m => match lookupS (ax_name a) m with
                | Some v => Some v
                | None => Some (Some (proj a))
                end
    end.
  Proof.
    intros ND Hin Hm. unfold complete_kwargs. destruct user as [[v|]|m].
    - rewrite complete_fold_lookup.
      + simpl. rewrite lookupS_map_const.
        assert (memS (ax_name a) (map (@ax_name A) g) = true) as ->
          by (apply memS_true_In, in_map, Hin). reflexivity.
      + simpl. rewrite map_map. simpl. rewrite map_id. exact ND.
    - apply lookupS_defaults; assumption.
    - rewrite complete_fold_lookup by exact Hm. simpl.
      destruct (lookupS (ax_name a) m); [reflexivity|]. apply lookupS_defaults; assumption.
  Qed.

  (* scalar and total per-axis spellings of the same choice are interchangeable *)
  Theorem complete_kwargs_spellings {V} (g : grid A) (proj : axis A -> V) (v : V) a :
    NoDup (map (@ax_name A) g) -> In a g ->
    lookupS (ax_name a) (complete_kwargs g proj (KScalar (Some v))) =
    lookupS (ax_name a) (complete_kwargs g proj (KMap (map (fun b => (ax_name b, Some v)) g))).
  Proof.
    intros ND Hin. rewrite !complete_kwargs_spec; auto.
    - replace (map (fun b : axis A => (ax_name b, Some v)) g)
        with (map (fun n => (n, Some v)) (map (@ax_name A) g)) by (rewrite map_map; reflexivity).
      rewrite lookupS_map_const.
      assert (memS (ax_name a) (map (@ax_name A) g) = true) as ->
        by (apply memS_true_In, in_map, Hin). reflexivity.
    - rewrite map_map. simpl. exact ND.
  Qed.

  (* the constructor never refuses the spellings the property lists *)
  Lemma mk_shifts_go_ok coords : forall todo,
    exists sh, mk_shifts_go fallback_shifts coords [] todo = Ok sh.
  Proof.
    induction todo as [|[p d] r [sh IH]]; [eexists; reflexivity|].
    simpl. destruct p; simpl;
      repeat (match goal with |- context [memP ?a ?b] => destruct (memP a b) end; simpl);
      rewrite ?IH; simpl; eexists; reflexivity.
  Qed.
End Resolve.

Section CallRule.
  Context {A : Type} (zero : A).

  (* a per-call "scalar or mapping" argument as a Python caller writes it: mapping keys
     are unique and no entry is literally None *)
  Definition kw_wf {V} (k : kw V) : Prop :=
    match k with
    | KMap m => NoDup (map fst m) /\ forall ax, lookupS ax m <> Some None
    | KScalar _ => True
    end.

  Lemma find_axis_In (g : grid A) a : NoDup (map (@ax_name A) g) -> In a g ->
    find_axis g (ax_name a) = Ok a.
  Proof.
    unfold find_axis. induction g as [|b r IH]; intros ND Hin; [contradiction|].
    inversion ND as [|? ? Hn ND']; subst. simpl.
    destruct Hin as [->|Hin]; [rewrite String.eqb_refl; reflexivity|].
    destruct (String.eqb (ax_name b) (ax_name a)) eqn:E.
    - apply String.eqb_eq in E. exfalso. apply Hn. rewrite E. apply in_map, Hin.
    - apply IH; assumption.
  Qed.

  Lemma completed_value {V} (g : grid A) (proj : axis A -> V) (user : kw V) a :
    NoDup (map (@ax_name A) g) -> In a g -> kw_wf user ->
    lookupS (ax_name a) (complete_kwargs g proj user) =
    Some (Some (match explicit user (ax_name a) with Some v => v | None => proj a end)).
  Proof.
    intros ND Hin Hwf. rewrite complete_kwargs_spec; auto.
    - destruct user as [[v|]|m]; simpl; try reflexivity.
      destruct Hwf as [_ Hnn]. unfold get_or_none. specialize (Hnn (ax_name a)).
      destruct (lookupS (ax_name a) m) as [[v|]|]; try reflexivity. congruence.
    - destruct user; [exact I|apply Hwf].
  Qed.

  (* C02: the request handed to the padding primitive for an axis carries the rule and
     fill value in force (per call, else Grid level, else periodic/fill-0 default) and
     exactly the requested widths. *)
  Theorem resolve_one_spec (c : ctor_args A) (g : grid A) a dadims callb callf lo hi p :
    grid_ctor zero c = Ok g -> In a g -> NoDup (map fst (c_coords c)) ->
    periodic_spelling_ok c (ax_name a) -> kw_wf callb -> kw_wf callf ->
    resolve_one zero g dadims (complete_kwargs g (@ax_boundary A) callb)
                (complete_kwargs g (@ax_fill A) callf) (ax_name a, (lo, hi)) = Ok p ->
    ps_rule p = rule_of_bword (call_rule c callb (ax_name a)) /\
    (ps_rule p = Fill -> ps_fill p = call_fill zero c callf (ax_name a)) /\
    ps_lo p = lo /\ ps_hi p = hi /\
    exists q, get_position_name a dadims = Ok (q, ps_dim p).
  Proof.
    intros Hc Hin ND Hsp Hb Hf H.
    destruct (grid_ctor_spec zero c g Hc) as [Hnames Hax].
    assert (NDg : NoDup (map (@ax_name A) g)) by (rewrite Hnames; exact ND).
    destruct (Hax a Hin Hsp) as [HB HF].
    unfold resolve_one in H. rewrite (find_axis_In g a NDg Hin) in H. simpl in H.
    destruct (get_position_name a dadims) as [[q d]|] eqn:G; simpl in H; [|discriminate].
    rewrite (completed_value g (@ax_boundary A) callb a NDg Hin Hb) in H.
    rewrite (completed_value g (@ax_fill A) callf a NDg Hin Hf) in H.
    assert (Hr : (match explicit callb (ax_name a) with Some v => v | None => ax_boundary a end)
                 = call_rule c callb (ax_name a)).
    { unfold call_rule. destruct (explicit callb (ax_name a)); [reflexivity|exact HB]. }
    assert (Hv : (match explicit callf (ax_name a) with Some v => v | None => ax_fill a end)
                 = call_fill zero c callf (ax_name a)).
    { unfold call_fill. destruct (explicit callf (ax_name a)); [reflexivity|exact HF]. }
    rewrite Hr, Hv in H.
    destruct (call_rule c callb (ax_name a)); simpl in H; inversion H; subst; simpl;
      repeat split; try discriminate; try reflexivity; eexists; reflexivity.
  Qed.
End CallRule.
