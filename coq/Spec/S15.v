(* C15: the grammar of signatures as the property states it, as a recursive-descent
   recogniser that is independent of the regular expressions; and "consistent renaming"
   as the pairwise condition it means. *)
From Coq Require Import List Bool Ascii String Arith.
From XV Require Import Base.Res Base.Assoc Model.Axis Model.Signature.
Import ListNotations.
Open Scope char_scope.
Open Scope list_scope.

(* name ':' position-word *)
Definition spec_pair (piece : list ascii) : option (string * pos) :=
  match split_on ":" [] piece with
  | [n; p] => if negb (Nat.eqb (List.length n) 0) && forallb is_word n
              then match pos_of_name (str p) with Some q => Some (str n, q) | None => None end
              else None
  | _ => None
  end.

Fixpoint all_some {T} (l : list (option T)) : option (list T) :=
  match l with
  | [] => Some []
  | Some x :: r => match all_some r with Some xs => Some (x :: xs) | None => None end
  | None :: _ => None
  end.

(* '(' [pair (',' pair)*] ')' given without the parentheses *)
Definition spec_arg (content : list ascii) : option sarg :=
  match content with
  | [] => Some []
  | _ => all_some (map spec_pair (split_on "," [] content))
  end.

(* split "(..),(..),(..)" into the contents of its groups; None if it is not of that form *)
Fixpoint spec_groups (st : nat) (cur : list ascii) (s : list ascii) : option (list (list ascii)) :=
  (* st: 0 = expecting '(', 1 = inside a group, 2 = after ')', expecting ',' or the end *)
  match s with
  | [] => match st with 2 => Some [] | _ => None end
  | c :: r =>
    match st with
    | 0 => if Ascii.eqb c "(" then spec_groups 1 [] r else None
    | 1 => if Ascii.eqb c ")" then
             match spec_groups 2 [] r with Some gs => Some (rev cur :: gs) | None => None end
           else if Ascii.eqb c "(" then None
           else spec_groups 1 (c :: cur) r
    | _ => if Ascii.eqb c "," then spec_groups 0 [] r else None
    end
  end%nat.

Definition spec_arglist (s : list ascii) : option (list sarg) :=
  match spec_groups 0 [] s with
  | Some gs => all_some (map spec_arg gs)
  | None => None
  end.

Definition spec_parse (text : string) : option sig :=
  let s := remove_spaces (chars text) in
  match split_arrow [] s with
  | Some (a, b) =>
    match spec_arglist a, spec_arglist b with
    | Some ins, Some outs => Some {| s_in := ins; s_out := outs |}
    | _, _ => None
    end
  | None => None
  end.

(* one signature is a consistent renaming of the other's dummy names: same shape, and the
   correspondence between names at equal places is a bijection *)
Definition spec_equivalent (a b : sig) : bool :=
  shape_eqb (fst (shape a)) (fst (shape b)) && shape_eqb (snd (shape a)) (snd (shape b)) &&
  let na := all_names a in let nb := all_names b in
  forallb (fun p => forallb (fun q =>
             Bool.eqb (String.eqb (fst p) (fst q)) (String.eqb (snd p) (snd q)))
          (combine na nb)) (combine na nb).
