(* C17: the property's sentence as a declarative predicate, and as an executable oracle. *)
From Coq Require Import List Bool ZArith String.
From XV Require Import Base.Res Base.Assoc Model.FaceConn.
Import ListNotations.
Open Scope string_scope.

(* A link found at side [pos] of (face fidx, axis) -- pos = 0 is the left entry of the
   pair, 1 the right entry.  The neighbour must hold the back-link on the side implied by
   the reverse flag: normally my left meets its right (and vice versa); reversed, my left
   meets its left. *)
Definition back_side (pos : nat) (rev : bool) : nat :=
  match pos, rev with
  | O, false => 1 | O, true => 0
  | _, false => 0 | _, true => 1
  end%nat.

Definition link_reciprocated (tbl : facetab) (axes : list string) (faces : list Z)
           (fidx : Z) (axis : string) (pos : nat) (l : link) : Prop :=
  let '(idx, ax, rev) := l in
  In ax axes /\ In idx faces /\
  exists fa t, lookupZ idx tbl = Some fa /\ lookupS ax fa = Some t /\
               side_at t (back_side pos rev) = Some (fidx, axis, rev).

Definition reciprocal (tbl : facetab) (axes : list string) (faces : list Z) : Prop :=
  forall fidx fal axis t pos l,
    In (fidx, fal) tbl -> In (axis, t) fal -> (pos = 0 \/ pos = 1)%nat ->
    side_at t pos = Some l ->
    In fidx faces /\ In axis axes /\
    link_reciprocated tbl axes faces fidx axis pos l.

(* Executable oracle of the same sentence. *)
Definition link_eqb (a b : link) : bool :=
  let '(i, x, r) := a in let '(j, y, s) := b in
  Z.eqb i j && String.eqb x y && Bool.eqb r s.

Definition link_reciprocatedb tbl axes faces fidx axis pos (l : link) : bool :=
  let '(idx, ax, rev) := l in
  memS ax axes && memZ idx faces &&
  match lookupZ idx tbl with
  | None => false
  | Some fa => match lookupS ax fa with
               | None => false
               | Some t => match side_at t (back_side pos rev) with
                           | None => false
                           | Some b => link_eqb b (fidx, axis, rev)
                           end
               end
  end.

Definition side_okb tbl axes faces fidx axis (t : sides) (pos : nat) : bool :=
  match side_at t pos with
  | None => true
  | Some l => memZ fidx faces && memS axis axes &&
              link_reciprocatedb tbl axes faces fidx axis pos l
  end.

Definition reciprocalb (tbl : facetab) axes faces : bool :=
  forallb (fun e => forallb (fun a =>
     side_okb tbl axes faces (fst e) (fst a) (snd a) 0 &&
     side_okb tbl axes faces (fst e) (fst a) (snd a) 1) (snd e)) tbl.

(* The acceptance criterion of the property for a whole constructor call. *)
Definition accepted_spec (inp : fc_input) : Prop :=
  exists facedim tbl, fc_dict inp = [(facedim, tbl)] /\ In facedim (fc_dsdims inp) /\
    (forall a, In a (axis_keys tbl) -> In a (fc_axes inp)) /\
    reciprocal tbl (fc_axes inp) (fc_faces inp).

Definition accepted_specb (inp : fc_input) : bool :=
  match fc_dict inp with
  | [(facedim, tbl)] =>
      memS facedim (fc_dsdims inp) &&
      forallb (fun a => memS a (fc_axes inp)) (axis_keys tbl) &&
      reciprocalb tbl (fc_axes inp) (fc_faces inp)
  | _ => false
  end.
