(* C03: charts of a decomposition, the transition of each link kind in local face
   coordinates, consistency of a link with the charts, and the undivided-domain oracle. *)
From Coq Require Import List Bool ZArith String.
From XV Require Import Base.Res Base.Assoc Base.Ops Base.Seq1D Base.Tensor Model.Axis Model.FaceConn
     Spec.S01.
Import ListNotations.
Open Scope string_scope.
Open Scope Z_scope.

(* chart p = origin + M p on local (x, y) cell indices *)
Record chart : Type := { ch_ox : Z; ch_oy : Z; ch_a : Z; ch_b : Z; ch_c : Z; ch_d : Z }.
Definition chart_apply (ch : chart) (p : Z * Z) : Z * Z :=
  (ch_ox ch + ch_a ch * fst p + ch_b ch * snd p, ch_oy ch + ch_c ch * fst p + ch_d ch * snd p).

Record domain : Type := { dom_lx : Z; dom_ly : Z; dom_perx : bool; dom_pery : bool }.

(* position of a global cell after periodic wrapping, if it exists *)
Definition wrap1 (L : Z) (per : bool) (x : Z) : option Z :=
  if (0 <=? x) && (x <? L) then Some x else if per then Some (x mod L) else None.
Definition wrap (dom : domain) (q : Z * Z) : option (Z * Z) :=
  match wrap1 (dom_lx dom) (dom_perx dom) (fst q), wrap1 (dom_ly dom) (dom_pery dom) (snd q) with
  | Some x, Some y => Some (x, y)
  | _, _ => None
  end.

(* halo position of a face (local coordinates): axis a, side, depth k >= 1, along-edge t *)
Definition halo_pos (a_is_x is_left : bool) (N k t : Z) : Z * Z :=
  let o := if is_left then - k else N - 1 + k in
  if a_is_x then (o, t) else (t, o).

(* where the link kind sends it in the neighbour's local coordinates *)
Definition ortho_z (is_left rev : bool) (N k : Z) : Z := if xorb is_left rev then N - k else k - 1.
Definition along_z (swap rev : bool) (N t : Z) : Z := if swap && negb rev then N - 1 - t else t.
Definition source_pos (sa_is_x is_left rev swap : bool) (N k t : Z) : Z * Z :=
  let o := ortho_z is_left rev N k in
  let t' := along_z swap rev N t in
  if sa_is_x then (o, t') else (t', o).

(* the link (side of face f on axis a) -> (neighbour, sa, rev) matches the charts when the
   halo positions of f and the source positions of the neighbour unfold to the same global
   cells up to a constant whole number of periods *)
Definition delta (cf cs : chart) (a_is_x is_left sa_is_x rev : bool) (N k t : Z) : Z * Z :=
  let h := chart_apply cf (halo_pos a_is_x is_left N k t) in
  let s := chart_apply cs (source_pos sa_is_x is_left rev (negb (Bool.eqb a_is_x sa_is_x)) N k t) in
  (fst h - fst s, snd h - snd s).

Definition pair_eqb (a b : Z * Z) : bool := (fst a =? fst b) && (snd a =? snd b).

Definition period_ok (L : Z) (per : bool) (d : Z) : bool :=
  (d =? 0) || (per && ((d =? L) || (d =? - L))).

Definition link_consistentb (dom : domain) (cf cs : chart) (a_is_x is_left sa_is_x rev : bool) (N : Z) : bool :=
  let d0 := delta cf cs a_is_x is_left sa_is_x rev N 1 0 in
  period_ok (dom_lx dom) (dom_perx dom) (fst d0) && period_ok (dom_ly dom) (dom_pery dom) (snd d0) &&
  pair_eqb (delta cf cs a_is_x is_left sa_is_x rev N 2 0) d0 &&
  pair_eqb (delta cf cs a_is_x is_left sa_is_x rev N 1 1) d0.

Definition is_x (ax : string) : bool := String.eqb ax "X".

(* every link of the table is consistent with the atlas *)
Definition atlas_consistentb (dom : domain) (charts : list chart) (N : Z) (tbl : facetab) : bool :=
  forallb (fun fe =>
    match nth_error charts (Z.to_nat (fst fe)) with
    | None => false
    | Some cf =>
      forallb (fun ae =>
        let chk (is_left : bool) (l : option link) :=
            match l with
            | None => true
            | Some (sf, sa, rev) =>
              match nth_error charts (Z.to_nat sf) with
              | None => false
              | Some cs => link_consistentb dom cf cs (is_x (fst ae)) is_left (is_x sa) rev N
              end
            end in
        chk true (fst (snd ae)) && chk false (snd (snd ae))) (snd fe)
    end) tbl.
