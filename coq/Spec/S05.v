(* C05: which cell a halo cell across a face link must come from (the transition map of
   the link kind), as an executable oracle independent of the slicing code. *)
From Coq Require Import List Bool ZArith String.
From XV Require Import Base.Res Base.Assoc Base.Seq1D Base.Tensor Model.Axis Model.FaceConn.
Import ListNotations.
Open Scope string_scope.
Open Scope nat_scope.
Open Scope list_scope.

Section Spec.
  Context {A : Type} (neg : A -> A).

  Definition axis_dim (g : grid A) (ax : string) (t : tensor A) : option string :=
    match find_axis g ax with
    | Ok a => match get_position_name a (dnames (dims t)) with
              | Ok pd => Some (snd pd)
              | Err _ => None
              end
    | Err _ => None
    end.

  Inductive where_ : Type := Interior (i : nat) | HaloL (k : nat) | HaloR (k : nat).

  Definition classify (lo n i : nat) : where_ :=
    if i <? lo then HaloL (lo - i)
    else if i <? lo + n then Interior (i - lo)
    else HaloR (i - lo - n + 1).

  (* a requested axis: name, dimension of the array on it, widths, unpadded length,
     rule and fill value in force on its unlinked edges *)
  Record req : Type := { rq_axis : string; rq_dim : string; rq_lo : nat; rq_hi : nat;
                         rq_n : nat; rq_rule : rule; rq_fill : A }.

  (* the environment with every requested dimension shifted back to the unpadded frame
     (meaningful where the cell is interior along that dimension) *)
  Fixpoint unshift (rs : list req) (e : env) : env :=
    match rs with
    | [] => e
    | r :: rest => let e' := unshift rest e in upd e' (rq_dim r) (e' (rq_dim r) - rq_lo r)
    end.

  Definition halo_axes (rs : list req) (e : env) : list (req * where_) :=
    filter (fun rw => match snd rw with Interior _ => false | _ => true end)
           (map (fun r => (r, classify (rq_lo r) (rq_n r) (e (rq_dim r)))) rs).

  (* orthogonal index in the source face, k cells inward from the linked edge *)
  Definition ortho_index (is_left rev : bool) (nsrc k : nat) : nat :=
    if xorb is_left rev then nsrc - k else k - 1.

  Definition vec_sign (isvector : bool) (vectoraxis axname : string) (swap rev : bool) (v : A) : A :=
    if isvector && ((rev && String.eqb vectoraxis axname) ||
                    (swap && negb rev && negb (String.eqb vectoraxis axname)))
    then neg v else v.

  Definition spec_fc_cell (g : grid A) (facedim : string) (conn : facetab)
             (isvector : bool) (vectoraxis : string) (da partner : tensor A)
             (rs : list req) (e : env) : option A :=
    let e0 := unshift rs e in
    match halo_axes rs e with
    | [] => Some (get da e0)
    | [(r, w)] =>
      let '(is_left, k) := match w with HaloL k => (true, k) | HaloR k => (false, k) | Interior _ => (true, 0) end in
      let link := match lookupZ (Z.of_nat (e facedim)) conn with
                  | Some cs => match lookupS (rq_axis r) cs with
                               | Some lr => if is_left then fst lr else snd lr
                               | None => None
                               end
                  | None => None
                  end in
      match link with
      | None =>
        Some (ext (rq_rule r) (rq_fill r) (column da (rq_dim r) e0)
                  (Z.of_nat (e (rq_dim r)) - Z.of_nat (rq_lo r)))
      | Some (sf, sa, rev) =>
        let swap := negb (String.eqb (rq_axis r) sa) in
        let src := if isvector && swap then partner else da in
        match axis_dim g sa src with
        | None => None
        | Some sdim =>
          let o := ortho_index is_left rev (size sdim src) k in
          let e1 := upd (upd e0 facedim (Z.to_nat sf)) sdim o in
          if negb swap then
            Some (vec_sign isvector vectoraxis (rq_axis r) swap rev (get src e1))
          else
            (* axis-swapping link: the along-edge position runs along the source's
               dimension on MY axis; mirrored unless the link is reversed *)
            match axis_dim g sa da, axis_dim g (rq_axis r) src with
            | Some tb_dim, Some sadim =>
              let t := e0 tb_dim in
              let t' := if rev then t else size sadim src - 1 - t in
              Some (vec_sign isvector vectoraxis (rq_axis r) swap rev (get src (upd e1 sadim t')))
            | _, _ => None
            end
        end
      end
    | _ => None
    end.
End Spec.
