(* C01: the staggered-grid geometry decides which two input values are adjacent to each
   target point; the code's tables are never the specification. *)
From Coq Require Import List Bool ZArith String.
From XV Require Import Base.Res Base.Assoc Base.Ops Base.Seq1D Base.Tensor Model.Axis.
Import ListNotations.
Open Scope string_scope.
Open Scope nat_scope.
Open Scope list_scope.

(* index of the input point just below target point j: coord2 from i = coord2 to j - 1 *)
Definition lower_index (from to : pos) (j : Z) : Z :=
  ((coord2 to j - 1 - coord2 from 0) / 2)%Z.

(* the eight shifts of the property *)
Definition valid_shift (from to : pos) : bool :=
  match from, to with
  | Center, (Left | Right | Inner | Outer) | (Left | Right | Inner | Outer), Center => true
  | _, _ => false
  end.

Section Spec.
  Context {A : Type}.

  (* value at target point j: f of the two adjacent input values, beyond the ends the
     boundary rule supplies them *)
  Definition spec_op (f : A -> A -> A) (r : rule) (c : A) (x : list A) (from to : pos) (j : Z) : A :=
    f (ext r c x (lower_index from to j)) (ext r c x (lower_index from to j + 1)).

  (* the whole result along one axis of an N-d array: only the axis dimension is replaced
     (name and length), in place *)
  Definition spec_axis (f : A -> A -> A) (r : rule) (c : A) (from to : pos)
             (d d' : string) (N : nat) (t : tensor A) : tensor A :=
    {| dims := dreplace d (d', plen to N) (dims t);
       get := fun e => spec_op f r c (column t d e) from to (Z.of_nat (e d')) |}.
End Spec.

Definition op_fun {A} (o : Ops A) (ofZ : Z -> A) (funcname : string) : option (A -> A -> A) :=
  if String.eqb funcname "diff" then Some (fun a b => sub o b a)
  else if String.eqb funcname "interp" then Some (fun a b => div o (add o a b) (ofZ 2%Z))
  else if String.eqb funcname "min" then Some (omin o)
  else if String.eqb funcname "max" then Some (omax o)
  else None.

(* length change of a position relative to the cell count *)
Definition len_delta (p : pos) : Z := match p with Outer => 1 | Inner => -1 | _ => 0 end%Z.

(* the padding widths the geometry demands for a shift (independent of any table) *)
Definition width_ok (from to : pos) (lo hi : nat) : bool :=
  (Z.of_nat lo =? - lower_index from to 0)%Z &&
  (Z.of_nat (lo + hi) =? 1 + len_delta to - len_delta from)%Z.

Definition shifts8 : list (pos * pos) :=
  [(Center, Left); (Center, Right); (Center, Inner); (Center, Outer);
   (Left, Center); (Right, Center); (Inner, Center); (Outer, Center)].
Definition ops4 : list string := ["diff"; "interp"; "min"; "max"].
