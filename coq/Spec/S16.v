(* C16: the abstract registry -- a finite map from (axes set, dimension set) slots to the
   registered variable, last writer wins, occupied slots refuse without overwrite. *)
From Coq Require Import List Bool ZArith String.
From XV Require Import Base.Res Base.Assoc Model.Registry.
Import ListNotations.
Open Scope string_scope.
Open Scope nat_scope.
Open Scope list_scope.

Definition slot : Type := (list string * list string)%type.
Definition slot_eqb (a b : slot) : bool := set_eqb (fst a) (fst b) && set_eqb (snd a) (snd b).
Definition amap : Type := list (slot * string).

Fixpoint aget (s : slot) (m : amap) : option string :=
  match m with
  | [] => None
  | (s', v) :: r => if slot_eqb s s' then Some v else aget s r
  end.
Fixpoint aset (s : slot) (v : string) (m : amap) : amap :=
  match m with
  | [] => [(s, v)]
  | (s', v') :: r => if slot_eqb s s' then (s', v) :: r else (s', v') :: aset s v r
  end.

Definition spec_one (key : list string) (overwrite : bool) (m : amap) (v : varinfo)
  : amap * res unit :=
  match aget (key, snd v) m with
  | Some _ => if overwrite then (aset (key, snd v) (fst v) m, Ok tt) else (m, Err ValueError)
  | None => (aset (key, snd v) (fst v) m, Ok tt)
  end.

Fixpoint spec_all (key : list string) (overwrite : bool) (m : amap) (vs : list varinfo)
  : amap * res unit :=
  match vs with
  | [] => (m, Ok tt)
  | v :: r => let '(m', out) := spec_one key overwrite m v in
              match out with Err e => (m', Err e) | Ok _ => spec_all key overwrite m' r end
  end.

Definition spec_call (env : reg_env) (m : amap) (c : reg_call) : amap * res unit :=
  if negb (forallb (fun a => memS a (re_axes env)) (rc_key c)) then (m, Err KeyError) else
  match infos env (rc_names c) with
  | None => (m, Err KeyError)
  | Some vs => spec_all (rc_key c) (rc_overwrite c) m vs
  end.

Fixpoint spec_history (env : reg_env) (m : amap) (cs : list reg_call) : amap * list (res unit) :=
  match cs with
  | [] => (m, [])
  | c :: r => let '(m', out) := spec_call env m c in
              let '(m'', outs) := spec_history env m' r in (m'', out :: outs)
  end.

(* abstraction of a concrete registry *)
Definition abs (reg : registry) : amap :=
  flat_map (fun kl => map (fun v : varinfo => ((fst kl, snd v), fst v)) (snd kl)) reg.
