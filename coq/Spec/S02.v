(* C02: which rule and fill value are in force, and what a padded array must contain. *)
From Coq Require Import List Bool ZArith String.
From XV Require Import Base.Res Base.Assoc Base.Seq1D Base.Tensor Model.Axis Model.GridCtor Model.Pad.
Import ListNotations.
Open Scope string_scope.
Open Scope nat_scope.
Open Scope list_scope.

(* the value a "scalar or per-axis mapping" argument gives for one axis, if any *)
Definition explicit {V} (k : kw V) (ax : string) : option V :=
  match k with KScalar v => v | KMap m => get_or_none ax m end.

(* an axis is non-periodic if `periodic` is False or a list that does not name it *)
Definition axis_periodic (p : periodic_arg) (ax : string) : bool :=
  match p with
  | PBool b => b
  | PList l => memS ax l
  | PMap m => match lookupS ax m with Some b => b | None => true end
  end.

Section Spec.
  Context {A : Type} (zero : A).

  (* Grid-level rule: the Grid-level setting, else periodic wrap for a periodic axis and
     fill for a non-periodic one; Grid-level fill value: the setting, else 0 *)
  Definition grid_rule (c : ctor_args A) (ax : string) : bword :=
    match explicit (c_boundary c) ax with
    | Some b => b
    | None => if axis_periodic (c_periodic c) ax then BPeriodic else BFill
    end.
  Definition grid_fill (c : ctor_args A) (ax : string) : A :=
    match explicit (c_fill c) ax with Some v => v | None => zero end.

  (* rule in force for a call: the per-call argument, else the Grid-level one *)
  Definition call_rule (c : ctor_args A) (call : kw bword) (ax : string) : bword :=
    match explicit call ax with Some b => b | None => grid_rule c ax end.
  Definition call_fill (c : ctor_args A) (call : kw A) (ax : string) : A :=
    match explicit call ax with Some v => v | None => grid_fill c ax end.

  Definition rule_of_bword (b : bword) : rule :=
    match b with BFill => Fill | BExtend => Extend | _ => Periodic end.

  (* What a padded array must contain.  [ps] are the resolved requests.  A cell is
     constrained when it lies in the halo of at most one requested dimension. *)
  Definition in_halo (p : padspec (A:=A)) (n : nat) (i : nat) : bool :=
    (i <? ps_lo p) || (ps_lo p + n <=? i).

  (* the environment read in the unpadded array: every padded dimension shifted by its
     lower width *)
  Fixpoint shift_env (ps : list (padspec (A:=A))) (e : env) : env :=
    match ps with
    | [] => e
    | p :: r => let e' := shift_env r e in upd e' (ps_dim p) (e' (ps_dim p) - ps_lo p)
    end.

  Definition spec_pad_cell (ps : list (padspec (A:=A))) (t : tensor A) (e : env) : option A :=
    match filter (fun p => in_halo p (size (ps_dim p) t) (e (ps_dim p))) ps with
    | [] => Some (get t (shift_env ps e))
    | [p] => Some (ext (ps_rule p) (ps_fill p) (column t (ps_dim p) (shift_env ps e))
                       (Z.of_nat (e (ps_dim p)) - Z.of_nat (ps_lo p)))
    | _ => None
    end.

  Definition spec_pad_dims (ps : list (padspec (A:=A))) (ds : dimlist) : dimlist :=
    map (fun dn => match find (fun p => String.eqb (ps_dim p) (fst dn)) ps with
                   | Some p => (fst dn, ps_lo p + snd dn + ps_hi p)
                   | None => dn
                   end) ds.
End Spec.
