(* C09: cumsum is the running sum of all input values lying before the target point. *)
From Coq Require Import List Bool ZArith String.
From XV Require Import Base.Res Base.Assoc Base.Ops Base.Seq1D Base.Tensor Model.Axis Spec.S01.
Import ListNotations.
Open Scope string_scope.
Open Scope nat_scope.
Open Scope list_scope.

(* number of input points i >= 0 with coord2 from i < coord2 to j *)
Definition count_before (from to : pos) (j : Z) : Z :=
  Z.max 0 ((coord2 to j - coord2 from 0 + 1) / 2).

(* how many leading target points have no input value before them (0 or 1) *)
Definition leading (from to : pos) : nat :=
  if (count_before from to 0 =? 0)%Z then 1 else 0.

Section Spec.
  Context {A : Type} (o : Ops A).

  (* sum of the first k values, added left to right starting from zero *)
  Definition running (x : list A) (k : nat) : A := fold_left (add o) (firstn k x) (zero o).

  (* the running sums at the target points that have at least one input before them *)
  Definition body (x : list A) (from to : pos) (N : nat) : list A :=
    map (fun j => running x (Z.to_nat (count_before from to (Z.of_nat j))))
        (seq (leading from to) (plen to N - leading from to)).

  (* full result: where nothing lies before the target point the boundary rule applied
     to the running sums supplies the value *)
  Definition spec_cumsum (r : rule) (c : A) (x : list A) (from to : pos) (N : nat) (j : nat) : A :=
    ext r c (body x from to N) (Z.of_nat j - Z.of_nat (leading from to)).

  Definition spec_cumsum_axis (r : rule) (c : A) (from to : pos) (d d' : string) (N : nat)
             (t : tensor A) : tensor A :=
    {| dims := dreplace d (d', plen to N) (dims t);
       get := fun e => spec_cumsum r c (column t d e) from to N (e d') |}.
End Spec.
