(* C07: the conservative transform as overlap weights -- an independent formulation of
   what each cell contributes to each bin. *)
From Coq Require Import List Bool Arith.
From XV Require Import Base.Ops Base.Kernel Base.Seq1D.
Import ListNotations.
Open Scope nat_scope.
Open Scope list_scope.

Section Spec.
  Context {A : Type} (o : Ops A).

  Definition smax (a b : A) : A := if ltb o a b then b else a.
  Definition smin (a b : A) : A := if ltb o b a then b else a.
  (* x clipped into [lo, hi] *)
  Definition clip (lo hi x : A) : A := smax lo (smin hi x).

  (* share of a cell spanning [lo, hi] of target_data that falls into bin [a, b];
     a homogeneous cell (lo = hi) belongs to exactly one bin: bins are half-open, the
     last one closed *)
  Definition weight (lo hi a b : A) (is_last : bool) : A :=
    if eqb o lo hi then
      if (leb o a lo && ltb o lo b) || (is_last && leb o a lo && eqb o lo b) then one o else zero o
    else div o (sub o (clip lo hi b) (clip lo hi a)) (sub o hi lo).

  Definition sum (l : list A) : A := fold_left (add o) l (zero o).

  (* increasing bin edges b_0 < ... < b_m; cell i is bounded by theta_i, theta_{i+1} *)
  Definition spec_bin (phi theta : list A) (a b : A) (is_last : bool) : A :=
    sum (map (fun i => let t1 := idx o theta i in let t2 := idx o theta (i + 1) in
                       mul o (idx o phi i) (weight (smin t1 t2) (smax t1 t2) a b is_last))
             (seq 0 (List.length phi))).

  Definition spec_increasing (phi theta bins : list A) : list A :=
    let m := List.length bins - 1 in
    map (fun j => spec_bin phi theta (idx o bins j) (idx o bins (j + 1)) (j =? m - 1)) (seq 0 m).

  Definition strictly_increasing (bins : list A) : bool :=
    forallb (fun p => ltb o (fst p) (snd p)) (combine (removelast bins) (tl bins)).
  Definition strictly_decreasing (bins : list A) : bool :=
    forallb (fun p => ltb o (snd p) (fst p)) (combine (removelast bins) (tl bins)).

  (* listing the bins in decreasing order only reverses the output *)
  Definition spec_conservative (phi theta bins : list A) : option (list A) :=
    if strictly_increasing bins && (2 <=? List.length bins) then Some (spec_increasing phi theta bins)
    else if strictly_decreasing bins && (2 <=? List.length bins)
         then Some (rev (spec_increasing phi theta (rev bins)))
    else None.
End Spec.
