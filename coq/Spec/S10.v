(* C10: which metrics are admissible for an array and a set of axes (executable form of
   the property's selection rule). *)
From Coq Require Import List Bool ZArith String.
From XV Require Import Base.Res Base.Assoc Model.Registry Model.Metrics.
Import ListNotations.
Open Scope string_scope.
Open Scope nat_scope.
Open Scope list_scope.

(* the registry key under which a variable name is registered *)
Fixpoint key_of (reg : registry) (n : string) : option (list string * varinfo) :=
  match reg with
  | [] => None
  | (k, l) :: r => match find (fun v : varinfo => String.eqb (fst v) n) l with
                   | Some v => Some (k, v)
                   | None => key_of r n
                   end
  end.

Definition disjoint (a b : list string) : bool := forallb (fun x => negb (memS x b)) a.
Fixpoint pairwise_disjoint (ks : list (list string)) : bool :=
  match ks with
  | [] => true
  | k :: r => forallb (disjoint k) r && pairwise_disjoint r
  end.

(* can [axes] be split into blocks each of which has something registered?  (fuel: the
   number of axes) *)
Fixpoint coverable (fuel : nat) (reg : registry) (axes : list string) : bool :=
  match axes with
  | [] => true
  | _ =>
    match fuel with
    | O => false
    | S fuel' =>
      existsb (fun kl : list string * list varinfo =>
                 let k := fst kl in
                 negb (Nat.eqb (List.length k) 0) && subsetS k axes &&
                 coverable fuel' reg (filter (fun a => negb (memS a k)) axes)) reg
    end
  end.

(* "largest block first": no registered key inside the requested axes, larger than the
   first block used, could have started a partition *)
Definition no_larger_start (reg : registry) (axes : list string) (first_len : nat) : bool :=
  negb (existsb (fun kl : list string * list varinfo =>
                   let k := fst kl in
                   Nat.ltb first_len (List.length k) && subsetS k axes &&
                   coverable (List.length axes) reg (filter (fun a => negb (memS a k)) axes)) reg).

Definition admissible (reg : registry) (array_dims axes : list string) (e : mexpr) : bool :=
  match find_key axes reg with
  | Some l =>
    (* a variable registered for exactly that set: the one at the array's position if
       there is one, otherwise one of them, interpolated *)
    match e with
    | [f] => match find (fun v : varinfo => String.eqb (fst v) (f_name f)) l with
             | Some v => if f_interp f then negb (existsb (fits array_dims) l) else fits array_dims v
             | None => false
             end
    | _ => false
    end
  | None =>
    (* only then: the product over a partition of the axes, largest block first, every
       factor at the array's position or else interpolated *)
    match e with
    | [] => false
    | _ =>
      match (fix go (fs : list factor) : option (list (list string * varinfo)) :=
               match fs with
               | [] => Some []
               | f :: r => match key_of reg (f_name f), go r with
                           | Some kv, Some kvs => Some (kv :: kvs)
                           | _, _ => None
                           end
               end) e with
      | None => false
      | Some kvs =>
        let keys := map fst kvs in
        set_eqb (flat_map (fun k => k) keys) axes && pairwise_disjoint keys &&
        no_larger_start reg axes (List.length (hd [] keys)) &&
        forallb (fun k => Nat.leb (List.length k) (List.length (hd [] keys))) keys &&
        forallb (fun fk : factor * (list string * varinfo) =>
                   if f_interp (fst fk)
                   then (* interpolated only when nothing registered for that block is at the
                           array's position *)
                        match find_key (fst (snd fk)) reg with
                        | Some l => negb (existsb (fits array_dims) l)
                        | None => false
                        end
                   else fits array_dims (snd (snd fk))) (combine e kvs)
      end
    end
  end.
