(* C12 -- Results do not depend on the hash seed or on table ordering.
   Statements only; each proof is one [exact] of a lemma in Proofs/. *)
From Coq Require Import List Bool ZArith String Permutation.
From XV Require Import Base.Res Base.Assoc Base.Tensor Model.Axis Model.FaceConn Model.FacePad Model.Signature
     Proofs.P12 Proofs.P15_equiv Proofs.Tie_sets Generated.G9.
Import ListNotations.
Open Scope string_scope.
Open Scope list_scope.

(* The inventory, regenerated from /repo on this run, of every place in the anchored
   files where a statically set-typed expression is consumed in order (for,
   comprehension, list/tuple/zip/star, itertools ...) contains only the sites known to be
   insensitive to that order.  (On the pinned tree it also listed the axis set of the
   padding, the two dummy-name sets zipped by equivalent(), the parsed axis-name sets and
   the frozenset of iterate_axis_combinations -- now repaired.) *)
Theorem C12_no_set_iteration :
  forallb (fun s => existsb (site_eqb s) benign_sites) gen_set_iteration_sites = true.
Proof. exact Tie_set_iteration_sites. Qed.

(* A dict is read through its keys: any listing order of the same entries answers every
   lookup alike ... *)
Theorem C12_lookup_order : forall {K V} (keqb : K -> K -> bool)
  (keqb_spec : forall a b, keqb a b = true <-> a = b) (l l' : list (K * V)) k,
  NoDup (map fst l) -> Permutation l l' -> lookup keqb k l = lookup keqb k l'.
Proof. intros K V. exact (@lookup_perm K V). Qed.

(* ... and the padding of a face (every cell, halo corners included) depends on the
   table of face links only through those lookups: listing the same links in a different
   order changes nothing. *)
Theorem C12_table_order : forall {A} (neg : A -> A) W (g : grid A) facedim n c c' order isv vax pre prep i,
  conn_equiv c c' ->
  pad_one_face neg W g facedim n c order isv vax pre prep i
  = pad_one_face neg W g facedim n c' order isv vax pre prep i.
Proof. intros A. exact (@pad_one_face_table_order A). Qed.

(* The order in which the axes are visited -- which decides the halo corner cells -- is
   a function of the grid's own axis order and of WHICH axes are needed, not of how the
   links or the widths are listed. *)
Theorem C12_axis_order : forall {A} (g : grid A) c c' pw pw',
  (forall a, In a (flat_map (fun e => map fst (snd e)) c ++ map fst pw) <->
             In a (flat_map (fun e => map fst (snd e)) c' ++ map fst pw')) ->
  (forall a, In a (flat_map (fun e => map fst (snd e)) c ++ map fst pw) -> In a (map (@ax_name A) g)) ->
  NoDup (map (@ax_name A) g) ->
  pad_axes_order g c pw = pad_axes_order g c' pw'.
Proof. intros A. exact (@pad_axes_order_listing A). Qed.

(* Signature matching: the numbering is computed from the name LISTS in order of first
   appearance (C15_equiv characterises it); comparing the numberings is symmetric. *)
Theorem C12_equiv_symmetric : forall a b, nats_eqb a b = nats_eqb b a.
Proof. exact nats_eqb_sym. Qed.

(* Accept/reject: listing the same faces of a face-connection table in another order
   never turns a rejected table into an accepted one or vice versa -- malformed tables
   included (by C17_iff acceptance is an order-free predicate of the table). *)
Theorem C12_accept_order : forall fd tbl tbl' dsdims faces axes,
  Permutation tbl tbl' -> NoDup (map fst tbl) ->
  (assign {| fc_dict := [(fd, tbl)]; fc_dsdims := dsdims; fc_faces := faces; fc_axes := axes |} = Ok tt <->
   assign {| fc_dict := [(fd, tbl')]; fc_dsdims := dsdims; fc_faces := faces; fc_axes := axes |} = Ok tt).
Proof. exact accept_order. Qed.

Print Assumptions C12_no_set_iteration.
Print Assumptions C12_accept_order.
Print Assumptions C12_lookup_order.
Print Assumptions C12_table_order.
Print Assumptions C12_axis_order.
Print Assumptions C12_equiv_symmetric.

(* Non-vacuity: the two listings of one table are lookup-equivalent. *)
Example C12_nonvacuous :
  conn_equiv [ (0%Z, [("X", (None, Some (1%Z, "X", false))); ("Y", (None, None))]); (1%Z, [("X", (Some (0%Z, "X", false), None))]) ]
             [ (1%Z, [("X", (Some (0%Z, "X", false), None))]); (0%Z, [("Y", (None, None)); ("X", (None, Some (1%Z, "X", false)))]) ].
Proof.
  intros i. destruct (Z.eqb_spec i 0) as [->|H0]; [simpl; intros ax; unfold lookupS; simpl;
    destruct (String.eqb ax "X") eqn:E; destruct (String.eqb ax "Y") eqn:E'; try reflexivity;
    apply String.eqb_eq in E, E'; congruence|].
  destruct (Z.eqb_spec i 1) as [->|H1]; [simpl; intros ax; reflexivity|].
  unfold lookupZ. simpl. apply Z.eqb_neq in H0, H1. rewrite H0, H1. exact I.
Qed.
