(* C15 -- Grid-ufunc signatures: parse/print are inverse; equivalence is renaming.
   Statements only; each proof is one [exact] of a lemma in Proofs/ or Base/. *)
From Coq Require Import List Bool Ascii String Arith.
From XV Require Import Base.Res Base.Assoc Base.Regex Model.Axis Model.Signature Spec.S15
     Proofs.RegexNorm Proofs.Tie_signature Proofs.P15_equiv Proofs.P15_roundtrip Generated.G3.
Import ListNotations.
Open Scope list_scope.

(* The seven patterns regenerated from the source on this run denote the languages of the
   structured canonical patterns, anchored at both ends of the string. *)
Theorem C15_tie : forall s, lang gen_SIGNATURE s <-> lang SIGNATURE s.
Proof. exact Tie_signature_language. Qed.

(* The derivative matcher that stands for re.match decides membership in the denotation,
   for every pattern and every string. *)
Theorem C15_matcher : forall r s, matches r s = true <-> lang r s.
Proof. exact matches_spec. Qed.

(* Equivalence, for all lists of dummy names of equal length (any number of arguments,
   pairs and names): the first-appearance numberings coincide exactly when equal names sit
   at the same places in both -- i.e. exactly when one is a consistent, bijective
   renaming of the other. *)
Theorem C15_equiv : forall na nb, List.length na = List.length nb ->
  (fst (number_names na []) = fst (number_names nb []) <->
   forall p q, In p (combine na nb) -> In q (combine na nb) -> (fst p = fst q <-> snd p = snd q)).
Proof. exact numbering_iff_pattern. Qed.

(* (A) every well-formed signature (at least one input and one output argument, names
   non-empty words) prints to a text that parses back to exactly that signature -- for any
   number of arguments, pairs and names; hence different signatures never print alike. *)
Theorem C15_roundtrip : forall s, wf_sig s -> parse_string (print_sig s) = Ok s.
Proof. exact parse_print. Qed.

Theorem C15_print_injective : forall s1 s2, wf_sig s1 -> wf_sig s2 -> print_sig s1 = print_sig s2 -> s1 = s2.
Proof. exact print_injective. Qed.

(* (B) a text outside the grammar (blanks aside) is rejected with ValueError, whatever it is. *)
Theorem C15_reject : forall text,
  ~ lang SIGNATURE (remove_spaces (chars text)) -> parse_string text = Err ValueError.
Proof.
  intros text H. unfold parse_string.
  destruct (matches SIGNATURE (remove_spaces (chars text))) eqn:E; [|reflexivity].
  exfalso. apply H. apply matches_spec. exact E.
Qed.

Print Assumptions C15_tie.
Print Assumptions C15_roundtrip.
Print Assumptions C15_print_injective.
Print Assumptions C15_reject.
Print Assumptions C15_matcher.
Print Assumptions C15_equiv.

(* Non-vacuity *)
Example C15_nonvacuous :
  parse_string "(X:center, Y:left),(Z:inner)->(X:outer)" =
    Ok {| s_in := [[("X"%string, Center); ("Y"%string, Left)]; [("Z"%string, Inner)]];
          s_out := [[("X"%string, Outer)]] |} /\
  parse_string "(X:centerY:left)->()" = Err ValueError /\
  equivalent {| s_in := [[("t"%string, Center); ("e"%string, Left)]]; s_out := [[("e"%string, Center)]] |}
             {| s_in := [[("X"%string, Center); ("Y"%string, Left)]]; s_out := [[("Y"%string, Center)]] |} = true /\
  equivalent {| s_in := [[("t"%string, Center); ("e"%string, Left)]]; s_out := [[("e"%string, Center)]] |}
             {| s_in := [[("X"%string, Center); ("Y"%string, Left)]]; s_out := [[("X"%string, Center)]] |} = false.
Proof. repeat split; vm_compute; reflexivity. Qed.
