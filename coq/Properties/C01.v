(* C01 -- Staggered stencil operators are exact on simple grids.
   Statements only; each proof is one [exact] of a lemma in Proofs/. *)
From Coq Require Import List Bool ZArith String.
From XV Require Import Base.Res Base.Assoc Base.Ops Base.Seq1D Base.Tensor
     Model.Axis Model.GridCtor Model.Pad Model.GridOps Model.Dispatch
     Spec.S01 Proofs.P01 Proofs.Tie_gridops Generated.G1.
Import ListNotations.
Open Scope string_scope.
Open Scope nat_scope.
Open Scope list_scope.

(* The table of predefined grid ufuncs regenerated from /repo/xgcm/gridops.py on this
   run passes the acceptance predicate: for diff/interp/min/max and each of the eight
   shifts exactly one entry is selected, with the widths the geometry demands, the
   window-2 body of the operator, and no definition-time override. *)
Theorem C01_table : table_ok gen_gridops = true.
Proof. exact Tie_gridops. Qed.

Section C01.
  Context {A : Type} (o : Ops A) (ofZ : Z -> A).

  (* 1-D core, for every carrier, every pairwise function f, every rule and fill value,
     every cell count N >= 1 and every column on the `from` position: padding by the
     geometric widths and applying the window-2 map gives at every target point f of
     the two adjacent values of the boundary-extended column; the result has the
     target position's length. *)
  Theorem C01_stencil_1d :
    forall (f : A -> A -> A) r (c : A) x from to lo hi N d,
    1 <= N -> 1 <= List.length x -> List.length x = plen from N ->
    width_ok from to lo hi = true -> lo <= List.length x -> hi <= List.length x ->
    List.length (window2 f (pad1 r c lo hi x)) = plen to N /\
    forall j, j < plen to N ->
      nth j (window2 f (pad1 r c lo hi x)) d = spec_op f r c x from to (Z.of_nat j).
  Proof. exact (@stencil_1d A). Qed.

  (* One axis of an N-d array (any number, order and size of extra dimensions: they are
     the environment e and the tail of dims t), for ANY table passing the acceptance
     predicate: the model of the dispatch + apply_as_grid_ufunc returns an array whose
     axis dimension is replaced by the target position's dimension and length (moved
     last, as xarray.apply_ufunc does; Grid restores the order afterwards), and whose
     value at every point is f of the two adjacent values of the column through that
     point, boundary values supplied by the rule in force. *)
  Theorem C01_stencil :
    forall tbl (g : grid A) dssizes (c : call01 (A:=A)) orig (t : tensor A) axn
           a from tp f din dout r cf N,
    table_ok tbl = true -> wf t ->
    signature_of g orig (k_to c) axn = Ok (a, from, tp) ->
    In (from, tp) shifts8 -> In (k_func c) ops4 -> op_fun o ofZ (k_func c) = Some f ->
    lookupP from (ax_coords a) = Some din -> dhas din (dims t) = true ->
    lookupP tp (ax_coords a) = Some dout ->
    words_known (complete_kwargs g (@ax_boundary A) (k_boundary c)) = true ->
    (forall lo hi,
        resolve_one (zero o) g (dnames (dims t))
                    (complete_kwargs g (@ax_boundary A) (k_boundary c))
                    (complete_kwargs g (@ax_fill A) (k_fill c)) (axn, (lo, hi))
        = Ok {| ps_dim := din; ps_rule := r; ps_fill := cf; ps_lo := lo; ps_hi := hi |}) ->
    1 <= N -> 1 <= plen from N -> size din t = plen from N -> dsize dout dssizes = plen tp N ->
    exists res, step o ofZ tbl g dssizes c orig t axn = Ok res /\
      dims res = dremove din (dims t) ++ [(dout, plen tp N)] /\
      forall e, e dout < plen tp N ->
        get res e = spec_op f r cf (column t din e) from tp (Z.of_nat (e dout)).
  Proof. exact (step_spec o ofZ). Qed.
  (* Several axes: the call is the single-axis steps applied one after another in the
     given order (any split of the axis list), followed only by the transposition that
     restores the order of the dimensions. *)
  Theorem C01_sequence : forall tbl (g : grid A) dssizes c orig axes1 axes2 (t : tensor A),
    steps o ofZ tbl g dssizes c orig t (axes1 ++ axes2) =
    match steps o ofZ tbl g dssizes c orig t axes1 with
    | Ok t' => steps o ofZ tbl g dssizes c orig t' axes2
    | Err e => Err e
    end.
  Proof. exact (steps_app o ofZ). Qed.

  Theorem C01_call : forall tbl (g : grid A) dssizes c (t : tensor A) r,
    grid_op o ofZ tbl g dssizes c t = Ok r ->
    exists u, steps o ofZ tbl g dssizes c (dnames (dims t)) t (k_axes c) = Ok u /\
              restore_order g (dnames (dims t)) (k_axes c) u = Ok r.
  Proof. exact (grid_op_sequence o ofZ). Qed.

  (* The result keeps the input's dimensions in the input's order: as many dimensions as the
     input, and every dimension that belongs to no operated axis at the same place under the
     same name (the dimension of an operated axis is replaced, in place, by the dimension of
     that axis the result lies on) -- for any number of axes. *)
  Theorem C01_dim_order : forall tbl (g : grid A) dssizes c (t : tensor A) r,
    grid_op o ofZ tbl g dssizes c t = Ok r ->
    List.length (dims r) = List.length (dims t) /\
    forall i d, nth_error (dnames (dims t)) i = Some d ->
      (forall axn a pd, In axn (k_axes c) -> find_axis g axn = Ok a ->
                        get_position_name a (dnames (dims t)) = Ok pd -> snd pd <> d) ->
      nth_error (dnames (dims r)) i = Some d.
  Proof. exact (grid_op_dim_order o ofZ). Qed.
End C01.

Print Assumptions C01_table.
Print Assumptions C01_stencil_1d.
Print Assumptions C01_stencil.
Print Assumptions C01_sequence.
Print Assumptions C01_call.
Print Assumptions C01_dim_order.

(* Non-vacuity: interp from center to outer, extend rule, on [1;5;2] (N = 3): the
   geometric widths are (1,1) and the four outer values are (1+1)/2, (1+5)/2, (5+2)/2,
   (2+2)/2 -- in Z with f the sum, to stay in integers. *)
Example C01_nonvacuous :
  width_ok Center Outer 1 1 = true /\
  window2 Z.add (pad1 Extend 0%Z 1 1 [1; 5; 2]%Z) = [2; 6; 7; 4]%Z /\
  map (fun j => spec_op Z.add Extend 0%Z [1; 5; 2]%Z Center Outer (Z.of_nat j)) [0; 1; 2; 3]
  = [2; 6; 7; 4]%Z.
Proof. repeat split; reflexivity. Qed.
