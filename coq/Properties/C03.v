(* C03 -- Scalar operations are invariant to how the domain is cut into faces.
   Statements only; each proof is one [exact] of a lemma in Proofs/. *)
From Coq Require Import List Bool ZArith String.
From XV Require Import Spec.S03 Proofs.P03.
Open Scope Z_scope.

(* A link that matches the charts of the decomposition (checked at three halo positions,
   which is decidable) matches them at EVERY halo position: whatever the depth k and the
   along-edge position t, the halo position of the face and the position the link kind
   reads in the neighbouring face (C05: k cells inward from the linked edge, along-edge
   position kept or mirrored) address the same cell of the undivided domain, periodic
   directions wrapping.  Hence the padded face equals the undivided field seen through
   the face's own chart on every non-corner halo cell, and the window-2 stencils of C01
   applied to it are the operation on the undivided domain. *)
Theorem C03_unfold : forall dom cf cs a_is_x is_left sa_is_x rev N,
  0 < dom_lx dom -> 0 < dom_ly dom ->
  link_consistentb dom cf cs a_is_x is_left sa_is_x rev N = true ->
  forall k t,
    gmod dom (chart_apply cf (halo_pos a_is_x is_left N k t)) =
    gmod dom (chart_apply cs (source_pos sa_is_x is_left rev (negb (Bool.eqb a_is_x sa_is_x)) N k t)).
Proof. exact link_unfolds. Qed.

(* the transition is affine in (k, t): the three-point check loses nothing *)
Theorem C03_affine : forall cf cs a_is_x is_left sa_is_x rev N k t,
  let d := delta cf cs a_is_x is_left sa_is_x rev N in
  fst (d k t) = fst (d 1 0) + (k - 1) * (fst (d 2 0) - fst (d 1 0)) + t * (fst (d 1 1) - fst (d 1 0)) /\
  snd (d k t) = snd (d 1 0) + (k - 1) * (snd (d 2 0) - snd (d 1 0)) + t * (snd (d 1 1) - snd (d 1 0)).
Proof. exact delta_affine. Qed.

(* The cell C05 documents as the source of a halo cell (k cells inward from the linked edge
   of the neighbour, along-edge position kept or mirrored) is, across a link that matches
   the charts, the cell of the undivided domain k cells beyond this face's edge: padding
   by the face-connection rule reads the undivided domain's neighbour values, so the
   stencil operators, which read only the array and its halo, give the undivided answer. *)
Theorem C03_documented_cell_is_global : forall dom cf cs a_is_x is_left sa_is_x rev (N k t : nat),
  0 < dom_lx dom -> 0 < dom_ly dom ->
  link_consistentb dom cf cs a_is_x is_left sa_is_x rev (Z.of_nat N) = true ->
  (1 <= k <= N)%nat -> (t < N)%nat ->
  let swap := negb (Bool.eqb a_is_x sa_is_x) in
  let o := Z.of_nat (S05.ortho_index is_left rev N k) in
  let t' := Z.of_nat (P05.along swap rev N t) in
  gmod dom (chart_apply cs (if sa_is_x then (o, t') else (t', o))) =
  gmod dom (chart_apply cf (halo_pos a_is_x is_left (Z.of_nat N) (Z.of_nat k) (Z.of_nat t))).
Proof. exact documented_cell_is_global. Qed.

Print Assumptions C03_unfold.
Print Assumptions C03_documented_cell_is_global.
Print Assumptions C03_affine.

(* Non-vacuity: a periodic 1 x 2 domain of 3 x 3 faces, face 0 turned by 270 degrees and
   face 1 by 180 degrees; the X-right edge of face 0 meets face 1 through an axis-swapping
   non-reversed link (1, Y, false). *)
Example C03_nonvacuous :
  let dom := {| dom_lx := 3; dom_ly := 6; dom_perx := true; dom_pery := true |} in
  let c0 := {| ch_ox := 0; ch_oy := 2; ch_a := 0; ch_b := 1; ch_c := -1; ch_d := 0 |} in
  let c1 := {| ch_ox := 2; ch_oy := 5; ch_a := -1; ch_b := 0; ch_c := 0; ch_d := -1 |} in
  link_consistentb dom c0 c1 true false false false 3 = true.
Proof. vm_compute. reflexivity. Qed.
