(* C19 -- outputs are labelled with the grid's coordinates for the new position.
   Statements only; each proof is one [exact] of a lemma in Proofs/P19.v.
   [prescribed dscoords keep D c]: c is a coordinate of the grid dataset, every one of its
   dimensions is a dimension of the result (D), and it is a dimension coordinate of the
   result or keep_coords is true.  A coordinate is (name, dims, identity), the identity
   standing for its values and attributes. *)
From Coq Require Import List Bool ZArith String.
From XV Require Import Base.Res Base.Assoc Base.Tensor Model.Axis Model.GridCtor Model.Coords Proofs.P19.
Import ListNotations.
Open Scope string_scope.
Open Scope list_scope.

(* One axis of diff / interp / min / max, on the padded and on the unpadded path alike:
   the result keeps the name, its dimensions are the input's with the abandoned one
   replaced (appended last, before the final transposition) and its coordinates are
   EXACTLY the prescribed ones. *)
Theorem C19_step : forall dscoords keep pads d d' l,
  carries_only dscoords l ->
  let r := step_labels dscoords keep pads d d' l in
  l_dims r = filter (fun x => negb (String.eqb x d)) (l_dims l) ++ [d'] /\
  l_name r = l_name l /\
  (forall c, In c (l_coords r) <-> prescribed dscoords keep (l_dims r) c) /\
  carries_only dscoords r.
Proof. exact step_labels_spec. Qed.

(* Any number of axes in any order. *)
Theorem C19_steps : forall dscoords keep sh l,
  carries_only dscoords l -> sh <> [] ->
  let r := steps_labels dscoords keep sh l in
  l_name r = l_name l /\
  (forall c, In c (l_coords r) <-> prescribed dscoords keep (l_dims r) c).
Proof. exact steps_labels_spec. Qed.

(* The cumsum path, whatever coordinates the input carried. *)
Theorem C19_cumsum : forall dscoords keep d d' l,
  let r := cumsum_step_labels dscoords keep d d' l in
  l_dims r = map (fun x => if String.eqb x d then d' else x) (l_dims l) /\
  l_name r = l_name l /\
  (forall c, In c (l_coords r) <-> prescribed dscoords keep (l_dims r) c) /\
  carries_only dscoords r.
Proof. exact cumsum_step_labels_spec. Qed.

(* What "prescribed" gives: the dataset's coordinate of the new dimension (and of every
   untouched one) is there whatever keep_coords says; nothing lives on a dimension the
   result does not have; with keep_coords false only dimension coordinates remain. *)
Theorem C19_new_dimension : forall dscoords keep D c,
  In c dscoords -> cv_dims c = [cv_name c] -> In (cv_name c) D -> prescribed dscoords keep D c.
Proof. exact new_dim_coordinate. Qed.

Theorem C19_abandoned : forall dscoords keep D c d,
  prescribed dscoords keep D c -> ~ In d D -> ~ In d (cv_dims c).
Proof. exact no_abandoned_dim. Qed.

Theorem C19_keep_false : forall dscoords D c, prescribed dscoords false D c -> In (cv_name c) D.
Proof. exact keep_false_only_dim_coords. Qed.

Print Assumptions C19_step.
Print Assumptions C19_steps.
Print Assumptions C19_cumsum.
Print Assumptions C19_new_dimension.
Print Assumptions C19_abandoned.
Print Assumptions C19_keep_false.

(* Non-vacuity: an input carrying the dataset's coordinates of its own dimensions, shifted
   from xc to xl on the padded path. *)
Definition ex_ds : list coordv :=
  [ {| cv_name := "xc"; cv_dims := ["xc"]; cv_id := 0 |}; {| cv_name := "xl"; cv_dims := ["xl"]; cv_id := 1 |};
    {| cv_name := "t"; cv_dims := ["t"]; cv_id := 2 |}; {| cv_name := "lon"; cv_dims := ["t"; "xl"]; cv_id := 3 |};
    {| cv_name := "depth"; cv_dims := ["xc"]; cv_id := 4 |}; {| cv_name := "ref"; cv_dims := []; cv_id := 5 |} ].
Definition ex_in : labels :=
  {| l_dims := ["xc"; "t"];
     l_coords := [ {| cv_name := "xc"; cv_dims := ["xc"]; cv_id := 0 |}; {| cv_name := "depth"; cv_dims := ["xc"]; cv_id := 4 |};
                   {| cv_name := "t"; cv_dims := ["t"]; cv_id := 2 |} ];
     l_name := Some "temp" |}.
Example C19_nonvacuous :
  carries_only ex_ds ex_in /\
  map cv_name (l_coords (step_labels ex_ds true true "xc" "xl" ex_in)) = ["xl"; "t"; "lon"; "ref"] /\
  map cv_name (l_coords (step_labels ex_ds false false "xc" "xl" ex_in)) = ["xl"; "t"].
Proof.
  split; [|split; reflexivity].
  intros c [H|[H|[H|[]]]]; subst c; (split; [simpl; tauto | reflexivity]).
Qed.
