(* C11 -- grid ufuncs receive padded core dims last and return declared positions.
   Statements only; each proof is one [exact] of a lemma in Proofs/P11.v.  The padded
   arrays named here are those of Model/Pad.v, whose sizes and values C02_pad_sizes and
   C02_pad_values characterise. *)
From Coq Require Import List Bool ZArith String.
From XV Require Import Base.Res Base.Assoc Base.Seq1D Base.Tensor
     Model.Axis Model.GridCtor Model.Pad Model.Signature Model.Dispatch Model.UFunc Proofs.P11.
Import ListNotations.
Open Scope string_scope.
Open Scope nat_scope.
Open Scope list_scope.

(* Options: an option bound at definition time acts exactly as if passed at call time,
   a call-time value overrides it, and with neither the documented default applies. *)
Theorem C11_options : forall {V} (d v : V) (call : option V),
  resolve_option d (Some v) call = resolve_option d None (Some (resolve_option v None call))
  /\ (forall b w, resolve_option d b (Some w) = w)
  /\ resolve_option d None None = d.
Proof.
  intros; split; [apply resolve_bound_as_call | split; [intros; apply resolve_call_wins | apply resolve_default]].
Qed.

(* Binding: every consistent (bijective) assignment of real axes to the dummy names is
   accepted, and each dummy name stands for the real axis given where it first appears. *)
Theorem C11_binding : forall dummy axis,
  List.length axis = List.length dummy ->
  forallb (fun p => List.length (fst p) =? List.length (snd p)) (combine axis dummy) = true ->
  consistent (combine (List.concat dummy) (List.concat axis)) ->
  exists m, dummy_to_real dummy axis = Ok m /\
            forall d r, In (d, r) (combine (List.concat dummy) (List.concat axis)) ->
                        lookupS d m = Some r.
Proof. exact dummy_to_real_spec. Qed.

Section C11.
  Context {A : Type} (dflt : A).

  (* Inputs, for every user function (the function is not even mentioned: this is the
     state at the moment it is called): input k arrives with the values of the k-th
     argument padded by the declared widths (re-keyed from dummy to real axes) under the
     rule and fill in force, its own loop dimensions first and its signature dimensions
     last, in signature order. *)
  Theorem C11_args : forall (g : grid A) (c : ucall) args recv in_core out_core bw,
    ufunc_received dflt g c args = Ok (recv, in_core, out_core, bw) ->
    exists d2r out_ax padded,
      List.length args = List.length (u_axis c) /\
      dummy_to_real (map (map fst) (s_in (u_sig c))) (u_axis c) = Ok d2r /\
      mapM (mapM (fun n => match lookupS n d2r with Some r => Ok r | None => Err KeyError end))
           (map (map fst) (s_out (u_sig c))) = Ok out_ax /\
      check_positions g (u_axis c) (map (map snd) (s_in (u_sig c))) args = Ok tt /\
      core_dims g (u_axis c) (map (map snd) (s_in (u_sig c))) = Ok in_core /\
      core_dims g out_ax (map (map snd) (s_out (u_sig c))) = Ok out_core /\
      substitute_bw (u_bw c) d2r = Ok bw /\
      (if u_pad_before c
       then mapM (fun t => pad dflt g t (Some bw) (u_boundary c) (u_fill c)) args = Ok padded
       else padded = args) /\
      forall k r, nth_error recv k = Some r ->
        exists core p, nth_error in_core k = Some core /\ nth_error padded k = Some p /\
          get r = get p /\
          exists lead, dnames (dims r) = lead ++ core /\
                       (forall d, In d lead -> ~ In d core /\ dhas d (dims p) = true) /\
                       forall d, In d (lead ++ core) -> size d r = size d p.
  Proof. exact (ufunc_received_spec dflt). Qed.

  (* Core dimensions are the grid's dimensions at the named positions. *)
  Theorem C11_core_dims : forall (g : grid A) axis poss core,
    core_dims g axis poss = Ok core ->
    forall j ns ps cj, nth_error axis j = Some ns -> nth_error poss j = Some ps ->
      nth_error core j = Some cj ->
      List.length cj = List.length (combine ns ps) /\
      forall i n p d, nth_error ns i = Some n -> nth_error ps i = Some p -> nth_error cj i = Some d ->
        dim_at g n p = Some d.
  Proof. exact core_dims_spec. Qed.

  (* Outputs: with padding before the function, what comes back is what the function
     returned, one array per output of the signature, each with the grid's length on
     every declared output dimension. *)
  Theorem C11_outputs : forall (g : grid A) dssizes (c : ucall) f args recv outs,
    ufunc_apply dflt g dssizes c f args = Ok (recv, outs) ->
    exists in_core out_core bw,
      ufunc_received dflt g c args = Ok (recv, in_core, out_core, bw) /\
      List.length outs = List.length out_core /\
      (u_pad_before c = true -> outs = f recv in_core out_core) /\
      forall j o core, nth_error outs j = Some o -> nth_error out_core j = Some core ->
        forall d, In d core -> size d o = dsize d dssizes.
  Proof. exact (ufunc_apply_spec dflt). Qed.

  (* Rejection: the position check passes exactly when every input carries the dimension
     of every (axis, position) of its signature entry, fails only with ValueError, and a
     call with a misplaced input never reaches the user function. *)
  Theorem C11_position_check : forall (g : grid A) axis inpos args,
    (check_positions g axis inpos args = Ok tt <->
     forall ns ps arg, In (ns, ps, arg) (combine (combine axis inpos) args) ->
       forall np, In np (combine ns ps) -> on_position g np arg) /\
    (forall e, check_positions g axis inpos args = Err e -> e = ValueError).
  Proof. exact check_positions_spec. Qed.

  Theorem C11_reject : forall (g : grid A) (c : ucall) args d2r out_ax,
    List.length args = List.length (u_axis c) ->
    dummy_to_real (map (map fst) (s_in (u_sig c))) (u_axis c) = Ok d2r ->
    mapM (mapM (fun n => match lookupS n d2r with Some r => Ok r | None => Err KeyError end))
         (map (map fst) (s_out (u_sig c))) = Ok out_ax ->
    (exists ns ps arg np,
        In (ns, ps, arg) (combine (combine (u_axis c) (map (map snd) (s_in (u_sig c)))) args) /\
        In np (combine ns ps) /\ ~ on_position g np arg) ->
    ufunc_received dflt g c args = Err ValueError.
  Proof. exact (misplaced_rejected dflt). Qed.
End C11.

Print Assumptions C11_options.
Print Assumptions C11_binding.
Print Assumptions C11_args.
Print Assumptions C11_core_dims.
Print Assumptions C11_outputs.
Print Assumptions C11_position_check.
Print Assumptions C11_reject.

(* Non-vacuity: a two-input call on a concrete grid succeeds, the second input arrives
   padded by (1, 1) under 'extend' with its signature dimension last. *)
Definition ex_grid : grid Z :=
  [ {| ax_name := "X"; ax_coords := [(Center, "xc"); (Left, "xl")]; ax_shifts := [(Center, Left); (Left, Center)];
       ax_boundary := BExtend; ax_fill := 0%Z |} ].
Definition ex_call : ucall (A:=Z) :=
  {| u_sig := {| s_in := [[("D", Center)]; [("D", Left)]]; s_out := [[("D", Left)]] |};
     u_axis := [["X"]; ["X"]]; u_bw := Some [("D", (1, 1))];
     u_boundary := KScalar None; u_fill := KScalar None; u_pad_before := true |}.
Definition ex_args : list (tensor Z) :=
  [ of_list 0%Z [("xc", 3)] [1; 2; 3]%Z; of_list 0%Z [("xl", 3); ("t", 2)] [1; 2; 3; 4; 5; 6]%Z ].
Example C11_nonvacuous :
  match ufunc_received 0%Z ex_grid ex_call ex_args with
  | Ok (recv, in_core, out_core, bw) =>
    map (fun t => (dims t, tabulate t)) recv =
      [ ([("xc", 5)], [1; 1; 2; 3; 3]%Z);
        ([("t", 2); ("xl", 5)], [1; 1; 3; 5; 5; 2; 2; 4; 6; 6]%Z) ] /\
    in_core = [["xc"]; ["xl"]] /\ out_core = [["xl"]] /\ bw = [("X", (1, 1))]
  | Err _ => False
  end.
Proof. vm_compute. repeat split; reflexivity. Qed.
