(* C16 -- The metric registry reflects exactly what was registered, in any batching.
   Statements only; each proof is one [exact] of a lemma in Proofs/. *)
From Coq Require Import List Bool ZArith String.
From XV Require Import Base.Res Base.Assoc Model.Registry Spec.S16 Proofs.P16.
Import ListNotations.
Open Scope string_scope.
Open Scope list_scope.

(* Every history (any length) of constructor entries and set_metrics calls, each naming
   variables at pairwise different positions: the concrete registry refines the abstract
   last-writer-wins map slot by slot (and keeps its invariant: one list per axes set, one
   variable per dimension set), and every call returns or raises exactly as the abstract
   map prescribes (occupied slot without overwrite -> ValueError, slot unchanged). *)
Theorem C16_refine : forall env cs reg m,
  refines reg m -> Forall (call_ok env) cs ->
  refines (fst (run_history env reg cs)) (fst (spec_history env m cs)) /\
  snd (run_history env reg cs) = snd (spec_history env m cs).
Proof. exact history_refines. Qed.

Theorem C16_refine_from_empty : forall env cs,
  Forall (call_ok env) cs ->
  refines (fst (run_history env [] cs)) (fst (spec_history env [] cs)) /\
  snd (run_history env [] cs) = snd (spec_history env [] cs).
Proof. intros env cs H. exact (history_refines env cs [] [] refines_empty H). Qed.

(* Registering several variables in one call equals registering the first, then the
   rest (hence, by induction, one at a time in the same order, in any grouping): the
   same concrete registry -- so get_metric, which reads only the registry, cannot tell
   the batchings apart -- and the same outcome. *)
Theorem C16_batch : forall env reg key n ns ow v vs,
  call_ok env {| rc_key := key; rc_names := n :: ns; rc_overwrite := ow |} ->
  infos env (n :: ns) = Some (v :: vs) ->
  set_metrics env reg {| rc_key := key; rc_names := n :: ns; rc_overwrite := ow |} =
  let '(r1, o1) := set_metrics env reg {| rc_key := key; rc_names := [n]; rc_overwrite := ow |} in
  match o1 with
  | Err e => (r1, Err e)
  | Ok _ => set_metrics env r1 {| rc_key := key; rc_names := ns; rc_overwrite := ow |}
  end.
Proof. exact batch_unfold. Qed.

(* Registering into an occupied slot without overwrite=True is refused and leaves the
   registry as it was. *)
Theorem C16_refuse : forall env reg key n v l,
  Inv reg -> forallb (fun a => memS a (re_axes env)) key = true ->
  infos env [n] = Some [v] -> find_key key reg = Some l -> lget (snd v) l <> None ->
  set_metrics env reg {| rc_key := key; rc_names := [n]; rc_overwrite := false |} =
  (reg, Err ValueError).
Proof.
  intros env reg key n v l Hi Ha Hn Hf Ho.
  rewrite (occupied_refused env reg key n v l Hi Ha Hn Hf Ho), (set_key_same key l reg Hf).
  reflexivity.
Qed.

Print Assumptions C16_refine.
Print Assumptions C16_refine_from_empty.
Print Assumptions C16_batch.
Print Assumptions C16_refuse.

(* Non-vacuity: a three-call history with a batch, an overwrite and a refusal. *)
Definition ex_env : reg_env :=
  {| re_axes := ["X"; "Y"];
     re_vars := [("dx_c", ["xc"]); ("dx_l", ["xl"]); ("dx_c2", ["xc"])] |}.
Definition ex_hist : list reg_call :=
  [ {| rc_key := ["X"]; rc_names := ["dx_c"; "dx_l"]; rc_overwrite := false |};
    {| rc_key := ["X"]; rc_names := ["dx_c2"]; rc_overwrite := false |};
    {| rc_key := ["X"]; rc_names := ["dx_c2"]; rc_overwrite := true |} ].
Example C16_nonvacuous :
  Forall (call_ok ex_env) ex_hist /\
  run_history ex_env [] ex_hist =
  ([(["X"], [("dx_c2", ["xc"]); ("dx_l", ["xl"])])], [Ok tt; Err ValueError; Ok tt]).
Proof.
  split; [|reflexivity].
  repeat constructor; unfold call_ok; simpl; auto.
Qed.
