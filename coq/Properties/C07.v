(* C07 -- The conservative transform neither creates nor destroys the transformed quantity.
   Statements only; each proof is one [exact] of a lemma in Proofs/.  Real arithmetic:
   the data are "treated symbolically"; NaN does not exist over R. *)
From Coq Require Import List Bool Arith Reals.
From XV Require Import Base.Res Base.Ops Base.ROps Base.Kernel Base.Seq1D Model.Transform Spec.S07
     Proofs.P07 Proofs.Tie_transform Generated.G6.
Import ListNotations.
Open Scope R_scope.

(* The kernel regenerated from /repo/xgcm/transform.py on this run is the kernel the
   theorems below are about (syntactic identity of the translated terms). *)
Theorem C07_tie : forall A (o : Ops A) isnan,
  @gen_interp_1d_conservative A o isnan = @conservative_kernel A o isnan.
Proof. exact Tie_conservative_kernel. Qed.

(* For all real inputs -- any column length, any profile (monotonic or not, repeated
   values, values exactly on bin edges), any bins whose lower edge is below the upper one,
   all data -- the kernel computes, bin by bin, the sum over the cells of data times the
   overlap weight of the cell's target_data interval with the bin. *)
Theorem C07_overlap : forall phi t1 t2 h1 h2,
  List.length h2 = List.length h1 ->
  (forall j, (j < List.length h1)%nat -> idx ROps h1 j < idx ROps h2 j) ->
  conservative_call ROps Rnotnan phi t1 t2 h1 h2 =
  map (fun j => sum ROps (map (fun i =>
         mul ROps (idx ROps phi i)
             (weight ROps (smin ROps (idx ROps t1 i) (idx ROps t2 i))
                          (smax ROps (idx ROps t1 i) (idx ROps t2 i))
                          (idx ROps h1 j) (idx ROps h2 j) (Nat.eqb j (List.length h1 - 1))))
         (seq 0 (List.length t1))))
      (seq 0 (List.length h1)).
Proof. exact kernel_is_spec. Qed.

(* Conservation, end to end through interp_1d_conservative on one column: for every
   n >= 0, every profile on the n+1 bounds, every strictly increasing bin set spanning it
   and all data, the call returns normally and the sum over the bins equals the sum over
   the cells. *)
Theorem C07_conserve : forall phi theta bins d,
  increasing bins -> (2 <= List.length bins)%nat ->
  List.length theta = (List.length phi + 1)%nat ->
  (forall i, (i <= List.length phi)%nat -> hd d bins <= idx ROps theta i <= last bins d) ->
  exists out, conservative_col ROps Rnotnan phi theta bins = Ok out /\
              out = spec_increasing ROps phi theta bins /\ Rsum out = Rsum phi.
Proof. exact conservative_col_conserves. Qed.

(* every cell within the span is distributed completely (its weights add up to one) *)
Theorem C07_total_weight : forall lo hi bins d,
  increasing bins -> (2 <= List.length bins)%nat ->
  lo <= hi -> hd d bins <= lo -> hi <= last bins d -> wsum lo hi bins = 1.
Proof. exact wsum_total. Qed.

(* merging adjacent bins sums their contents *)
Theorem C07_merge : forall phi theta a b c last, a < b -> b < c ->
  spec_bin ROps phi theta a c last
  = spec_bin ROps phi theta a b false + spec_bin ROps phi theta b c last.
Proof. exact spec_merge. Qed.

(* non-negative inputs give non-negative outputs *)
Theorem C07_nonneg : forall phi theta bins j,
  increasing bins -> (forall i, 0 <= idx ROps phi i) -> (j + 1 < List.length bins)%nat ->
  0 <= spec_bin ROps phi theta (idx ROps bins j) (idx ROps bins (j + 1))
                (Nat.eqb j (List.length bins - 1 - 1)).
Proof. exact spec_nonneg. Qed.

Print Assumptions C07_tie.
Print Assumptions C07_overlap.
Print Assumptions C07_conserve.
Print Assumptions C07_total_weight.
Print Assumptions C07_merge.
Print Assumptions C07_nonneg.

(* Non-vacuity, on the profile that used to be double counted (a homogeneous cell on an
   interior bin edge): phi = [1;2;3], theta = [0;1;1;3], bins = [0;1;3] gives [1; 5]. *)
From Coq Require Import QArith.
From XV Require Import Base.Tensor.
Example C07_nonvacuous :
  match conservative_col QOps (fun _ => false) [1; 2; 3]%Q [0; 1; 1; 3]%Q [0; 1; 3]%Q with
  | Ok out => list_eqb Qeq_bool out [1; 5]%Q
  | Err _ => false
  end = true.
Proof. vm_compute. reflexivity. Qed.
