(* C09 -- cumsum is the running sum at the shifted position and inverts diff.
   Statements only; each proof is one [exact] of a lemma in Proofs/. *)
From Coq Require Import List Bool ZArith Reals Lra String.
From XV Require Import Base.Res Base.Assoc Base.Ops Base.Seq1D Base.Tensor
     Model.Axis Model.GridCtor Model.Pad Model.GridOps Model.Dispatch Model.Cumsum
     Base.ROps Spec.S01 Spec.S09 Proofs.P09 Proofs.Tie_cumsum Generated.G4.
Import ListNotations.
Open Scope string_scope.
Open Scope nat_scope.
Open Scope list_scope.

(* The (from,to) -> (trim, widths) chain regenerated from Grid.cumsum on this run is the
   one the geometry demands: leading pad iff no input lies before the first target
   point, nothing padded behind, trim so that the length is the target position's; every
   other shift raises. *)
Theorem C09_table : cs_table_ok gen_cumsum_table = true.
Proof. exact Tie_cumsum_table. Qed.

Section C09.
  Context {A : Type} (o : Ops A).

  (* 1-D, any carrier with an addition, all 8 shifts, every rule and fill value, every
     N >= 1: each target point holds the sum (added left to right) of all inputs lying
     before it; the leading point of targets that start before the first input holds
     the value the boundary rule supplies from the running sums. *)
  Theorem C09_running_1d :
    forall from to trim lo hi N r c (x : list A) d,
    valid_shift from to = true -> cs_entry_ok from to (trim, (lo, hi)) = true ->
    1 <= N -> List.length x = plen from N -> 1 <= plen to N - leading from to ->
    List.length (pad1 r c lo hi (trimmed trim (cumsum o x))) = plen to N /\
    forall j, j < plen to N ->
      nth j (pad1 r c lo hi (trimmed trim (cumsum o x))) d = spec_cumsum o r c x from to N j.
  Proof. exact (cumsum_1d o). Qed.

  (* One axis of an N-d array with any extra dimensions in any order, for ANY shift table
     passing the acceptance predicate. *)
  Theorem C09_running :
    forall tbl (g : grid A) dssizes (c : callcs (A:=A)) orig (t : tensor A) axn
           a from tp dim newdim r cf N,
    cs_table_ok tbl = true -> wf t ->
    find_axis g axn = Ok a -> get_position_name a orig = Ok (from, dim) ->
    target_pos a (cs_to c) from = Ok tp -> valid_shift from tp = true ->
    dhas dim (dims t) = true -> lookupP tp (ax_coords a) = Some newdim ->
    dhas newdim (dims t) = false ->
    words_known (complete_kwargs g (@ax_boundary A) (cs_boundary c)) = true ->
    (forall lo hi (t' : tensor A),
        resolve_one (zero o) g (dnames (dims t'))
                    (complete_kwargs g (@ax_boundary A) (cs_boundary c))
                    (complete_kwargs g (@ax_fill A) (cs_fill c)) (axn, (lo, hi))
        = Ok {| ps_dim := dim; ps_rule := r; ps_fill := cf; ps_lo := lo; ps_hi := hi |}) ->
    1 <= N -> 1 <= plen tp N - leading from tp ->
    size dim t = plen from N -> dsize newdim dssizes = plen tp N ->
    exists res, cumsum_step o tbl g dssizes c orig t axn = Ok res /\
      dims res = dreplace dim (newdim, plen tp N) (dims t) /\
      forall e, e newdim < plen tp N ->
        get res e = spec_cumsum o r cf (column t dim (upd e dim (e newdim))) from tp N (e newdim).
  Proof. exact (cumsum_step_spec o). Qed.

  (* diff (outer -> center) of the cumsum taken to outer with zero fill is the identity,
     in every carrier where (a + b) - a = b *)
  Theorem C09_inverse : forall (x : list A),
    (forall a b, sub o (add o a b) a = b) ->
    window2 (fun a b => sub o b a) (pad1 Fill (zero o) 1 0 (cumsum o x)) = x.
  Proof. exact (diff_cumsum_outer o). Qed.

  (* the last value on outer and right targets is the plain sum of the column -- what
     integrate computes once the data are multiplied by the metric (cumint) *)
  Theorem C09_last_outer : forall (x : list A) d,
    nth (List.length x) (pad1 Fill (zero o) 1 0 (cumsum o x)) d = fold_left (add o) x (zero o).
  Proof. exact (cumsum_outer_last o). Qed.
  Theorem C09_last_right : forall (x : list A) d, 1 <= List.length x ->
    nth (List.length x - 1) (cumsum o x) d = fold_left (add o) x (zero o).
  Proof. exact (cumsum_right_last o). Qed.
End C09.

(* the cancellation law holds over the reals and the integers *)
Theorem C09_inverse_R : forall x : list R,
  window2 (fun a b => sub ROps b a) (pad1 Fill (zero ROps) 1 0 (cumsum ROps x)) = x.
Proof. intros x. apply C09_inverse. intros a b. simpl. lra. Qed.
Theorem C09_inverse_Z : forall x : list Z,
  window2 (fun a b => sub ZOps b a) (pad1 Fill (zero ZOps) 1 0 (cumsum ZOps x)) = x.
Proof. intros x. apply C09_inverse. intros a b. simpl. apply Z.add_simpl_l. Qed.

(* The documented exception to order-independence, as a witness in the model: with a
   non-zero fill value the two axis orders differ (center -> left on a 3x3 array). *)
Definition cs_left (fillv : Z) (d : string) (t : tensor Z) : tensor Z :=
  map_dim 0%Z d d (size d t) (fun x => pad1 Fill fillv 1 0 (removelast (cumsum ZOps x))) t.
Definition ex_t : tensor Z := of_list 0%Z [("y", 3); ("x", 3)] [1; 2; 3; 4; 5; 6; 7; 8; 9]%Z.
Theorem C09_commute_refuted_nonzero_fill :
  tabulate (cs_left 3 "x" (cs_left 3 "y" ex_t)) <> tabulate (cs_left 3 "y" (cs_left 3 "x" ex_t)).
Proof. vm_compute. discriminate. Qed.
(* (a test, not the theorem: with zero fill the same array commutes) *)
Example C09_commute_zero_fill_example :
  tabulate (cs_left 0 "x" (cs_left 0 "y" ex_t)) = tabulate (cs_left 0 "y" (cs_left 0 "x" ex_t)).
Proof. reflexivity. Qed.

Print Assumptions C09_table.
Print Assumptions C09_running_1d.
Print Assumptions C09_running.
Print Assumptions C09_inverse.
Print Assumptions C09_last_outer.
Print Assumptions C09_last_right.
Print Assumptions C09_inverse_R.
Print Assumptions C09_inverse_Z.
Print Assumptions C09_commute_refuted_nonzero_fill.

(* Non-vacuity of C09_running_1d: center -> left, N = 3, periodic. *)
Example C09_nonvacuous :
  cs_entry_ok Center Left (true, (1, 0)) = true /\
  pad1 Periodic 0%Z 1 0 (trimmed true (cumsum ZOps [5; 1; 2]%Z)) = [6; 5; 6]%Z /\
  map (spec_cumsum ZOps Periodic 0%Z [5; 1; 2]%Z Center Left 3) [0; 1; 2] = [6; 5; 6]%Z.
Proof. repeat split; reflexivity. Qed.
