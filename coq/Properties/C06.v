(* C06 -- lazy (dask) execution equals in-memory execution for every chunking.
   Statements only; each proof is one [exact] of a lemma in Proofs/P06.v.
   What is proved is the arithmetic of the chunked execution (Model/Dask.v): the chunk
   pattern after padding, dask.array.map_overlap with depth = the boundary width, and the
   decision rule.  That dask itself builds graphs without computing and schedules them
   faithfully is observed, not proved. *)
From Coq Require Import List Bool ZArith String.
From XV Require Import Base.Res Base.Seq1D Model.Axis Model.Dask Proofs.P06.
Import ListNotations.
Open Scope nat_scope.
Open Scope list_scope.

(* For EVERY composition of the operated dimension into non-empty chunks and every
   two-point stencil g (diff, interp, min, max are such stencils: Tie_gridops), running
   the stencil block by block on the padded, re-chunked array with each block extended by
   the boundary width gives, concatenated, exactly the stencil on the whole padded array. *)
Theorem C06_overlap : forall {A} (g : A -> A -> A) (lo hi : nat) (orig : chunks) (padded : list A),
  (lo = 0 /\ hi = 1) \/ (lo = 1 /\ hi = 0) ->
  orig <> [] -> Forall (fun c => 1 <= c) orig ->
  List.length padded = lo + list_sum orig + hi ->
  List.concat (map_overlap (window2 g) lo hi orig padded) = window2 g padded.
Proof. exact @map_overlap_exact. Qed.

(* The chunk pattern after padding covers the padded array exactly and has no empty chunk. *)
Theorem C06_chunks : forall cs lo hi, cs <> [] -> Forall (fun c => 1 <= c) cs ->
  list_sum (merge_boundary cs lo hi) = lo + list_sum cs + hi /\
  Forall (fun c => 1 <= c) (merge_boundary cs lo hi).
Proof. intros cs lo hi H1 H2. split; [apply merge_boundary_sum; exact H1 | apply merge_boundary_pos; exact H2]. Qed.

(* Decision rule: map_overlap is used exactly for data chunked along the operated dimension
   (cumsum excepted); with it, a signature is refused -- with NotImplementedError and with
   nothing else -- exactly when it has several outputs or an inner / outer position. *)
Theorem C06_mode : forall is_dask n fn before,
  snd (dask_mode is_dask n fn before) = true <-> 1 < n /\ fn <> "cumsum"%string.
Proof. exact dask_mode_overlap. Qed.

Theorem C06_refusal : forall mo n ps,
  (overlap_check mo n ps = Err NotImplementedError <->
   mo = true /\ (1 < n \/ exists p, In p ps /\ (p = Inner \/ p = Outer))) /\
  (overlap_check mo n ps = Ok tt \/ overlap_check mo n ps = Err NotImplementedError).
Proof. intros mo n ps. split; [apply overlap_check_spec | apply overlap_check_total]. Qed.

Print Assumptions C06_overlap.
Print Assumptions C06_chunks.
Print Assumptions C06_mode.
Print Assumptions C06_refusal.

(* Non-vacuity: a padded column of 7 entries cut as (1+1, 2, 3) with depth (1, 0). *)
Example C06_nonvacuous :
  map_overlap (window2 Z.sub) 1 0 [1; 2; 3] [0; 1; 3; 6; 10; 15; 21]%Z = [[-1]; [-2; -3]; [-4; -5; -6]]%Z /\
  window2 Z.sub [0; 1; 3; 6; 10; 15; 21]%Z = [-1; -2; -3; -4; -5; -6]%Z.
Proof. split; reflexivity. Qed.
