(* C18 -- operations never modify their arguments; results are history-independent.
   The statement is about a store model (Model/Heap.v): objects at locations, each with an
   interior; a function body is the list of actions the translator reads off the Python
   source on every run (Generated/G18.v): bindings by kind, in-place operations,
   conditionals.  [confined] is a static alias analysis of such a body. *)
From Coq Require Import List Bool String.
From XV Require Import Base.Assoc Model.Heap Generated.G18 Proofs.P18 Proofs.Tie_heap.
Import ListNotations.
Open Scope string_scope.

(* Soundness of the analysis, for every body, every store and every outcome of the
   conditions and unknown calls: a body that passes the check leaves the version of every
   object the caller can see (location below N) exactly as it was. *)
Theorem C18_confined_sound :
  forall (N : loc) fresh_self fresh_deep acts h ch,
  wf_heap N h ->
  (forall x, In x fresh_self -> N <= h_env h x) ->
  (forall x, In x fresh_deep -> N <= h_in h (h_env h x)) ->
  confined fresh_self fresh_deep acts = true ->
  forall l, l < N -> h_ver (exec acts ch h) l = h_ver h l.
Proof. exact confined_sound. Qed.

(* Every function body of the package as it stands in /repo on this run passes the check
   (with the call-local names declared and justified in Proofs/Tie_heap.v; Grid.set_metrics,
   the documented mutator of the Grid, is exempt). *)
Theorem C18_all_bodies_confined : G18_available = true /\ forallb body_ok gen_bodies = true.
Proof. exact (conj Tie_heap_available Tie_heap_confined). Qed.

(* History independence in the value models: every modelled operation is a function of its
   arguments alone -- the models have no state to carry from one call to the next, so this
   half is true of them by construction; for the implementation it follows from the two
   theorems above for everything the store model sees, and is sampled by the snapshot
   sequences of the correspondence check. *)

Print Assumptions C18_confined_sound.
Print Assumptions C18_all_bodies_confined.

(* Non-vacuity: the analysis accepts a body that copies before it changes and rejects the
   body of the repaired defect (pop from the caller's dictionary); and the store semantics
   really changes a caller-visible object when running the rejected body. *)
Definition good_body : list action := [ABindShallow "array" "data"; AMutate "array"; AIf [ABindFresh "d"; AMutateDeep "d"] []].
Definition bad_body : list action := [AIf [AMutate "other_component"] []].
Definition h0 : heap := {| h_env := fun _ => 0; h_ver := fun _ => 0; h_in := fun _ => 0; h_next := 1 |}.
Example C18_nonvacuous :
  confined [] [] good_body = true /\ confined [] [] bad_body = false /\
  h_ver (exec bad_body [1] h0) 0 = 1 /\ h_ver (exec good_body [1] h0) 0 = 0 /\ wf_heap 1 h0.
Proof.
  repeat split; try reflexivity; try (cbn; auto with arith).
Qed.
