(* C14 -- Metadata autoparsing recovers exactly the topology the conventions prescribe.
   Statements only; each proof is one [exact] of a lemma in Proofs/ or holds by computation. *)
From Coq Require Import List Bool ZArith String.
From XV Require Import Base.Res Base.Assoc Model.Axis Model.Comodo Model.Sgrid Proofs.P14.
Import ListNotations.
Open Scope string_scope.
Open Scope nat_scope.
Open Scope list_scope.

(* COMODO round trip, for every axis name, every set of positions containing center and
   every order in which the dimensions appear in the dataset (l1 ++ center :: l2 is that
   order), every N >= 1, either sign of c_grid_axis_shift on inner/outer coordinates,
   arbitrary distinct dimension names, any other dimensions interleaved: the parsed
   position-to-dimension assignment is exactly the one that was rendered. *)
Theorem C14_comodo : forall (ds : list cdim) a N sgn l1 dc l2,
  1 <= N ->
  NoDup (map fst (l1 ++ (Center, dc) :: l2)) -> NoDup (map snd (l1 ++ (Center, dc) :: l2)) ->
  filter (fun d => match cd_axis d with Some x => String.eqb x a | None => false end) ds
  = map (render_dim a N sgn) (l1 ++ (Center, dc) :: l2) ->
  exists m, comodo_axis ds a = Ok m /\ forall p, lookupP p m = lookupP p (l1 ++ (Center, dc) :: l2).
Proof. exact comodo_roundtrip. Qed.

(* SGRID: the padding word decides the node position as the table prescribes *)
Theorem C14_sgrid_table :
  pad2pos "high" = Some Left /\ pad2pos "low" = Some Right /\
  pad2pos "both" = Some Inner /\ pad2pos "none" = Some Outer.
Proof. repeat split. Qed.

(* SGRID is used when the dataset declares it, COMODO otherwise *)
Theorem C14_hierarchy : forall conv sg ds,
  parse_metadata conv sg ds =
  if declares_sgrid conv then match sg with Some a => parse_sgrid a | None => Err ValueError end
  else parse_comodo ds.
Proof. reflexivity. Qed.

(* user-supplied coords together with parsed ones are refused, never merged *)
Theorem C14_conflict : forall u p, ctor_coords (Some u) (Ok p) = Err ValueError.
Proof. reflexivity. Qed.

Print Assumptions C14_comodo.
Print Assumptions C14_sgrid_table.
Print Assumptions C14_hierarchy.
Print Assumptions C14_conflict.

(* Non-vacuity: a 2-D SGRID with both spellings of the colon, and a COMODO axis with an
   outer coordinate of negative shift listed before the centre. *)
Example C14_nonvacuous :
  parse_sgrid {| sg_ndim := 2; sg_node := Some "xi_psi eta_psi";
                 sg_face := Some "xi_rho: xi_psi (padding: both) eta_rho:eta_psi (padding:low)";
                 sg_volume := None; sg_vertical := None |}
  = Ok [("X", [(Center, "xi_rho"); (Inner, "xi_psi")]); ("Y", [(Center, "eta_rho"); (Right, "eta_psi")])]
  /\ comodo_axis [ {| cd_name := "xo"; cd_len := 4; cd_axis := Some "X"; cd_shift := SLeft |};
                   {| cd_name := "t"; cd_len := 2; cd_axis := None; cd_shift := SNone |};
                   {| cd_name := "xc"; cd_len := 3; cd_axis := Some "X"; cd_shift := SNone |} ] "X"
     = Ok [(Center, "xc"); (Outer, "xo")].
Proof. split; vm_compute; reflexivity. Qed.
