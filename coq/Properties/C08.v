(* C08 -- Linear and log transforms are exact piecewise-linear interpolation per column.
   Statements only; each proof is one [exact] of a lemma in Proofs/ (or holds by
   definition of the model).  Real arithmetic; [nv] stands for NaN and may be any value. *)
From Coq Require Import List Bool Arith Reals String Lra Lia.
From XV Require Import Base.Res Base.Ops Base.ROps Base.Kernel Base.Seq1D Base.Tensor Model.Transform
     Proofs.P07 Proofs.P08 Proofs.Tie_transform Generated.G6.
Import ListNotations.
Open Scope R_scope.

(* the kernel regenerated from the source on this run is the one proved about *)
Theorem C08_tie : forall A (o : Ops A) isnan nanv,
  @gen_interp_1d_linear A o isnan nanv = @linear_kernel A o isnan nanv.
Proof. exact Tie_linear_kernel. Qed.

(* For every column length >= 2, every strictly increasing finite profile, every list of
   levels in any order, mask_edges on or off: a level inside the range (end values
   included) gets the piecewise-linear interpolant through the (target_data, data)
   points; a level outside gets NaN when mask_edges is on and the nearest end value
   when it is off. *)
Theorem C08_pl : forall nv phi theta levels mask i,
  increasing theta -> (2 <= List.length theta)%nat -> (i < List.length levels)%nat ->
  let x := nth i levels 0 in
  let v := nth i (linear_call ROps Rnotnan nv phi theta levels mask false) 0 in
  (nth 0 theta 0 <= x <= last theta 0 -> pl_at theta phi x v) /\
  (x < nth 0 theta 0 -> v = if mask then nv else nth 0 phi 0) /\
  (last theta 0 < x -> v = if mask then nv else last phi 0).
Proof. exact linear_kernel_increasing. Qed.

(* ... and a strictly decreasing profile is the same interpolation on the reversed
   column (so C08_pl applies to it). *)
Theorem C08_decreasing : forall nv phi theta levels mask,
  increasing (rev theta) -> (2 <= List.length theta)%nat ->
  linear_call ROps Rnotnan nv phi theta levels mask false
  = linear_call ROps Rnotnan nv (rev phi) (rev theta) levels mask false.
Proof. exact linear_kernel_decreasing. Qed.

Section ByDefinition.
  Context {A : Type} (o : Ops A) (isnan : A -> bool) (nanv : A) (ln : A -> A).

  (* method 'log' is the same interpolation in the logarithms of target_data and levels *)
  Theorem C08_log : forall mask bypass phi theta levels,
    linear_col o isnan nanv ln true mask bypass phi theta levels
    = linear_col o isnan nanv ln false mask bypass phi (map ln theta) (map ln levels).
  Proof. reflexivity. Qed.

  (* columns are independent: the value at a point of the result depends only on the
     data column, the target_data column and the target column through that point *)
  Theorem C08_columns : forall logarithmic mask bypass (phi theta target : tensor A) dim tdim e,
    get (linear_interpolation o isnan nanv ln logarithmic mask bypass phi theta target dim tdim) e
    = nth (e tdim) (linear_col o isnan nanv ln logarithmic mask bypass
                               (column phi dim e) (column theta dim e) (column target tdim e)) (zero o).
  Proof. reflexivity. Qed.

  (* naming: the new dimension is the given target_dim, else the dimension of a 1-d
     target array, else -- for a bare array -- the name of target_data; the result is
     named after the input plus the suffix *)
  Theorem C08_names_result : forall (c : tcall (A:=A)) n,
    tc_da_name c = Some n -> n <> ""%string -> out_name c = Some (n ++ tc_suffix c)%string.
  Proof.
    intros c n H Hn. unfold out_name. rewrite H.
    destruct (String.eqb n "") eqn:E; [apply String.eqb_eq in E; contradiction|reflexivity].
  Qed.
End ByDefinition.

Print Assumptions C08_tie.
Print Assumptions C08_pl.
Print Assumptions C08_decreasing.
Print Assumptions C08_log.
Print Assumptions C08_columns.
Print Assumptions C08_names_result.

(* Non-vacuity: theta = [1;2;4], phi = [10;20;60], levels [3; 0; 4]: 40 in the middle,
   masked below the range, the end value on the upper end. *)
Example C08_nonvacuous :
  increasing [1; 2; 4] /\
  pl_at [1; 2; 4] [10; 20; 60] 3 40.
Proof.
  split; [simpl; repeat split; lra|].
  exists 1%nat. simpl. repeat split; try lra; try lia. 
Qed.
