(* C10 -- The metric applied is the one registered for the array's position and axes.
   Statements only; each proof is one [exact] of a lemma in Proofs/. *)
From Coq Require Import List Bool ZArith String.
From XV Require Import Base.Res Base.Assoc Model.Registry Model.Metrics Spec.S10 Proofs.P10.
Import ListNotations.
Open Scope string_scope.
Open Scope nat_scope.
Open Scope list_scope.

(* When a variable is registered for exactly the requested set of axes, the metric is the
   registered variable located at the array's position if there is one, otherwise one of
   them flagged as interpolated to it -- for every registry, array and axis set. *)
Theorem C10_exact : forall axis_dims reg ad axes l e,
  find_key axes reg = Some l -> names_unique l ->
  get_metric axis_dims reg ad axes = Ok e ->
  admissible reg ad axes e = true.
Proof. exact get_metric_exact. Qed.

(* Only when nothing is registered for exactly that set is the metric a product, with one
   factor per block of one of the enumerated combinations: for each block, the variable
   registered at the array's position if there is one, taken as it is, and otherwise --
   only then -- one of the registered ones flagged as interpolated to it. *)
Theorem C10_product : forall axis_dims reg ad axes e,
  find_key axes reg = None ->
  get_metric axis_dims reg ad axes = Ok e ->
  exists c ls, In c (axis_combinations axes) /\
    Forall2 (fun b l => find_key b reg = Some l) c ls /\
    Forall2 (fun f l =>
               (f_interp f = false /\ exists v, In v l /\ fst v = f_name f /\ fits ad v = true) \/
               (f_interp f = true /\ (forall v, In v l -> fits ad v = false) /\
                exists v, In v l /\ fst v = f_name f)) e ls.
Proof. exact get_metric_product. Qed.

(* The combination used is the FIRST one, in the enumerated order (largest first block
   first), all of whose blocks are registered with at least one variable; every earlier
   one lacks a block.  The factors are the block-by-block choice over that one. *)
Theorem C10_first : forall axis_dims reg ad axes e,
  find_key axes reg = None ->
  get_metric axis_dims reg ad axes = Ok e ->
  exists pre c post ls,
    axis_combinations axes = pre ++ c :: post /\
    (forall c', In c' pre -> usable reg c' = false) /\ usable reg c = true /\
    all_lookup reg c = Some ls /\ choose_blocks ad ls = Some e.
Proof. exact get_metric_first. Qed.

(* When no enumerated combination is usable nothing is made up: the request is refused. *)
Theorem C10_refused : forall axis_dims reg ad axes,
  find_key axes reg = None ->
  (forall c, In c (axis_combinations axes) -> usable reg c = false) ->
  exists err, get_metric axis_dims reg ad axes = Err err.
Proof. exact get_metric_none_usable. Qed.

(* On grids of up to three axes every enumerated combination (after the whole set) is a
   partition of the requested axes into non-empty blocks, largest block first. *)
Theorem C10_partitions : forall axes,
  NoDup axes -> List.length axes <= 3 ->
  forallb (is_partition axes) (tl (axis_combinations axes)) = true.
Proof. exact combinations_are_partitions. Qed.

Print Assumptions C10_exact.
Print Assumptions C10_product.
Print Assumptions C10_partitions.
Print Assumptions C10_first.
Print Assumptions C10_refused.

(* Non-vacuity: dx at centre and left registered for {X}; a left-located array gets the
   left metric, an outer-located one the last registered, interpolated; {X,Y} without an
   area metric is the product dx*dy. *)
Definition ex_reg : registry :=
  [ (["X"], [("dx_c", ["xc"]); ("dx_l", ["xl"])]); (["Y"], [("dy_c", ["yc"])]) ].
Definition ex_axd := [("X", ["xc"; "xl"; "xo"]); ("Y", ["yc"])].
Example C10_nonvacuous :
  get_metric ex_axd ex_reg ["yc"; "xl"] ["X"] = Ok [{| f_name := "dx_l"; f_interp := false |}] /\
  get_metric ex_axd ex_reg ["xo"] ["X"] = Ok [{| f_name := "dx_l"; f_interp := true |}] /\
  get_metric ex_axd ex_reg ["yc"; "xc"] ["X"; "Y"]
    = Ok [{| f_name := "dx_c"; f_interp := false |}; {| f_name := "dy_c"; f_interp := false |}].
Proof. repeat split; vm_compute; reflexivity. Qed.
