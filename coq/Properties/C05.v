(* C05 -- Halo cells across every kind of face link come from the documented cell.
   Statements only; each proof is one [exact] of a lemma in Proofs/. *)
From Coq Require Import List Bool ZArith String.
From XV Require Import Base.Res Base.Assoc Base.Seq1D Base.Tensor
     Model.Axis Model.FaceConn Model.FacePad Spec.S05 Spec.S17 Proofs.P05.
Import ListNotations.
Open Scope string_scope.
Open Scope nat_scope.
Open Scope list_scope.

Section C05.
  Context {A : Type} (neg : A -> A) (dflt : A).

  (* One (axis, side) step of _pad_face_connections, for all 8 link kinds (left/right x
     same/swapped axis x normal/reversed), scalar and vector input, every width W, every
     face size, every position of the dimensions and every extra dimension (they are the
     environment e): the step succeeds; inside the W-wide halo strip of the padded
     dimension the result holds (sign adjusted) the cell of the source face addressed by
     src_env; everywhere else the target is unchanged (face interior, the other strip,
     all other dimensions). *)
  Theorem C05_step :
    forall W (g : grid A) facedim nfaces isvector vectoraxis axname is_right
           sf saxis rev pre pre_partner td (target source : tensor A) sa sdim,
    let swap := negb (String.eqb axname saxis) in
    (0 <= sf < Z.of_nat nfaces)%Z ->
    (if isvector && swap
     then rename_positions g (isel_index facedim (Z.to_nat sf) pre_partner) target
     else Ok (isel_index facedim (Z.to_nat sf) pre)) = Ok source ->
    find_axis g saxis = Ok sa -> dim_on sa source = Ok sdim ->
    wf source -> wf target ->
    (swap = false -> sdim = td) -> (swap = true -> sdim <> td) ->
    W <= size td target ->
    exists res,
      connect_one neg W g facedim nfaces isvector vectoraxis axname is_right (sf, saxis, rev)
                  pre pre_partner td target = Ok res /\
      let nt := size td target in
      let ns := size sdim source in
      let ntS := size td source in
      (forall e, (if is_right then nt - W <= e td < nt else e td < W) ->
         let h := if is_right then e td - (nt - W) else e td in
         get res e = step_sign neg isvector vectoraxis axname swap rev
                               (get source (src_env W is_right rev swap td sdim ns ntS h e))) /\
      (forall e, (if is_right then e td < nt - W else W <= e td) -> get res e = get target e).
  Proof. exact (connect_one_spec neg dflt). Qed.

  (* the sign applied is the specification's: negated exactly when the link reverses the
     component's direction; the partner component is taken iff the link swaps axes (that
     choice is the [source] hypothesis of C05_step) *)
  Theorem C05_sign : forall isvector vectoraxis axname swap rev (v : A),
    step_sign neg isvector vectoraxis axname swap rev v
    = vec_sign neg isvector vectoraxis axname swap rev v.
  Proof. exact (step_sign_vec_sign neg). Qed.
End C05.

(* src_env in the property's words.  Orthogonal index: strip position h of depth
   k = depth_of h reads, in the source's unpadded frame, the cell k cells inward from
   the linked edge. *)
Theorem C05_depth : forall W is_right rev ns h,
  h < W -> 3 * W <= ns ->
  src_start W is_right rev ns + (if rev then W - 1 - h else h)
  = W + ortho_index (negb is_right) rev (ns - 2 * W) (depth_of is_right W h).
Proof. exact src_index_ortho. Qed.

(* Along-edge position: kept, or mirrored for an axis-swapping non-reversed link. *)
Theorem C05_along : forall W N t, t < N -> (N + 2 * W) - 1 - (W + t) = W + (N - 1 - t).
Proof. exact tang_mirror. Qed.

(* Two linked faces see each other symmetrically: the cell read is k cells inward from
   the edge on which the back-link sits (C17's back_side), and the along-edge map of a
   link composed with that of its back-link is the identity. *)
Theorem C05_symmetric_ortho : forall pos rev N k, (pos = 0 \/ pos = 1) ->
  ortho_index (Nat.eqb pos 0) rev N k = inward N (back_side pos rev) k.
Proof. exact ortho_is_inward_from_back_side. Qed.
Theorem C05_symmetric_along : forall swap rev N t, t < N ->
  along swap rev N (along swap rev N t) = t.
Proof. exact along_involutive. Qed.

Print Assumptions C05_step.
Print Assumptions C05_sign.
Print Assumptions C05_depth.
Print Assumptions C05_along.
Print Assumptions C05_symmetric_ortho.
Print Assumptions C05_symmetric_along.

(* Non-vacuity: two faces of 2x2 cells linked X-right -> Y-left non-reversed (an
   axis-swapping link), width 1: the halo of face 0 holds face 1's first row mirrored. *)
Definition ex_g : grid Z :=
  [ {| ax_name := "X"; ax_coords := [(Center, "x")]; ax_shifts := []; ax_boundary := BFill; ax_fill := 0%Z |};
    {| ax_name := "Y"; ax_coords := [(Center, "y")]; ax_shifts := []; ax_boundary := BFill; ax_fill := 0%Z |} ].
Definition ex_conn : facetab :=
  [ (0%Z, [("X", (None, Some (1%Z, "Y", false)))]);
    (1%Z, [("Y", (Some (0%Z, "X", false), None))]) ].
Definition ex_da : tensor Z :=
  of_list 0%Z [("face", 2); ("y", 2); ("x", 2)] [1; 2; 3; 4;  5; 6; 7; 8]%Z.
Example C05_nonvacuous :
  match pad_fc Z.opp 0%Z ["X"; "Y"] ex_g "face" ex_conn false "" ex_da None [("X", (0, 1))]
               [("X", Some BFill); ("Y", Some BFill)] [("X", Some 0%Z); ("Y", Some 0%Z)] with
  | Ok r => tabulate (transpose ["face"; "y"; "x"] r)
  | Err _ => []
  end = [1; 2; 6;  3; 4; 5;   5; 6; 0;  7; 8; 0]%Z.
Proof. vm_compute. reflexivity. Qed.
