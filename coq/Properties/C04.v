(* C04 -- Vector components cross rotated face links with the right partner and sign.
   Statements only; each proof is one [exact] of a lemma in Proofs/. *)
From Coq Require Import List Bool ZArith String Reals.
From XV Require Import Base.Res Base.Assoc Base.Tensor Model.Axis Model.GridCtor Model.Pad
     Spec.S03 Spec.S05 Proofs.P03 Proofs.P04 Proofs.P05.
Open Scope Z_scope.

(* Shared edge, for every flux field Phi on pairs of cells of the undivided (periodic or
   open) domain, every pair of charts, every non-reversed link and its back-link that
   match the charts, every along-edge position t: the flux from my cell at the linked
   edge into the halo cell -- the missing edge value of my component along axis a -- is
   the flux from the neighbour's halo cell into its edge cell along ITS axis sa, which is
   the value C05 shows the padding copies (same component across a same-axis link, the
   partner across an axis-swapping one, at the mirrored along-edge position). *)
Theorem C04_edge : forall {A : Type} (Phi : Z * Z -> Z * Z -> A) dom cf cs a_is_x is_left sa_is_x N t,
  0 < dom_lx dom -> 0 < dom_ly dom ->
  let swap := negb (Bool.eqb a_is_x sa_is_x) in
  link_consistentb dom cf cs a_is_x is_left sa_is_x false N = true ->
  link_consistentb dom cs cf sa_is_x (negb is_left) a_is_x false N = true ->
  let t' := along_z swap false N t in
  PhiG Phi dom (chart_apply cf (inner_pos a_is_x is_left N t))
               (chart_apply cf (halo_pos a_is_x is_left N 1 t))
  = PhiG Phi dom (chart_apply cs (halo_pos sa_is_x (negb is_left) N 1 t'))
                 (chart_apply cs (source_pos sa_is_x is_left false swap N 1 t)).
Proof. intros A Phi dom. exact (shared_edge_flux Phi dom). Qed.

(* ... and it is copied with no sign change: the component parallel to the padded axis
   is never negated across a non-reversed link. *)
Theorem C04_parallel_sign : forall {A : Type} (neg : A -> A) isvector ax swap (v : A),
  step_sign neg isvector ax ax swap false v = v.
Proof. intros A. exact (@parallel_sign_nonreversed A). Qed.

(* The divergence is the sum of the outward fluxes over the four neighbours, and the four
   neighbours of a cell are the same set under each of the 8 orientations a chart may
   have: the discrete divergence of the face components equals that of the undivided
   field, at every cell. *)
Theorem C04_divergence : forall (F : Z * Z -> R) (a b c d : Z),
  signed_perm a b c d ->
  (F (a * 1 + b * 0, c * 1 + d * 0)%Z + F (a * -1 + b * 0, c * -1 + d * 0)%Z +
   F (a * 0 + b * 1, c * 0 + d * 1)%Z + F (a * 0 + b * -1, c * 0 + d * -1)%Z
   = F (1, 0)%Z + F (-1, 0)%Z + F (0, 1)%Z + F (0, -1)%Z)%R.
Proof. exact divergence_orientation_free. Qed.

(* On a grid without face connections the vector form is padded exactly like the
   component alone. *)
Theorem C04_simple : forall {A : Type} (dflt : A) (g : grid A) ax t bw b f,
  pad_data dflt g (DVector ax t) bw b f = pad_data dflt g (DScalar t) bw b f.
Proof. intros A. exact (@pad_vector_is_scalar A). Qed.

Print Assumptions C04_edge.
Print Assumptions C04_parallel_sign.
Print Assumptions C04_divergence.
Print Assumptions C04_simple.

(* Non-vacuity: the two faces of C03's example are linked non-reversed both ways. *)
Example C04_nonvacuous :
  let dom := {| dom_lx := 3; dom_ly := 6; dom_perx := true; dom_pery := true |} in
  let c0 := {| ch_ox := 0; ch_oy := 2; ch_a := 0; ch_b := 1; ch_c := -1; ch_d := 0 |} in
  let c1 := {| ch_ox := 2; ch_oy := 5; ch_a := -1; ch_b := 0; ch_c := 0; ch_d := -1 |} in
  link_consistentb dom c0 c1 true false false false 3 = true /\
  link_consistentb dom c1 c0 false true true false 3 = true.
Proof. split; vm_compute; reflexivity. Qed.
