(* C20 -- ill-posed requests raise instead of returning an array.
   Statements only; each proof is one [exact] of a lemma in Proofs/P20.v (or P11.v).
   [refused r] says the model entry point ends in an exception.  One theorem per listed
   class; each holds for every grid, array, number of axes and position of the offending
   axis in a multi-axis call. *)
From Coq Require Import List Bool ZArith String.
From XV Require Import Base.Res Base.Assoc Base.Ops Base.Seq1D Base.Tensor
     Model.Axis Model.GridCtor Model.Pad Model.GridOps Model.GridOpsTable Model.Dispatch Model.Cumsum
     Model.Signature Model.UFunc Model.Transform Model.Refuse Model.Registry Model.Metrics Proofs.P10 Proofs.P11 Proofs.P20.
Import ListNotations.
Open Scope string_scope.
Open Scope nat_scope.
Open Scope list_scope.

(* the two facts about the predefined table the refusals rest on, for the table read from
   xgcm/gridops.py (Tie_gridops ties [canon_gridops] to the generated one) *)
Theorem C20_table :
  table_refuses canon_gridops = true /\
  forallb (fun fn => table_pads fn canon_gridops) ["diff"; "interp"; "min"; "max"] = true.
Proof. exact canon_table_refuses. Qed.

Section C20.
  Context {A : Type} (o : Ops A) (ofZ : Z -> A).

  (* an axis the grid lacks *)
  Theorem C20_axis_missing : forall tbl (g : grid A) dssizes c t ax,
    In ax (k_axes c) -> (forall a, In a g -> ax_name a <> ax) ->
    refused (grid_op o ofZ tbl g dssizes c t).
  Proof. exact (op_axis_missing o ofZ). Qed.

  (* data lacking (or having two) dimensions of the axis *)
  Theorem C20_dims : forall tbl (g : grid A) dssizes c t ax a,
    In ax (k_axes c) -> find_axis g ax = Ok a ->
    List.length (filter (fun d => memS d (map snd (ax_coords a)))
                        (nodup string_dec (dnames (dims t)))) <> 1 ->
    refused (grid_op o ofZ tbl g dssizes c t).
  Proof. exact (op_dims_wrong o ofZ). Qed.

  (* a shift the axis cannot make: same position, or a position the axis lacks *)
  Theorem C20_shift : forall tbl (g : grid A) dssizes c t ax a from tp,
    table_refuses tbl = true -> In ax (k_axes c) ->
    signature_of g (dnames (dims t)) (k_to c) ax = Ok (a, from, tp) ->
    tp = from \/ lookupP tp (ax_coords a) = None ->
    refused (grid_op o ofZ tbl g dssizes c t).
  Proof. exact (op_shift_impossible o ofZ). Qed.

  (* an unknown boundary word, given as a scalar or for any axis of a mapping, whatever
     the shift (padding or not) *)
  Theorem C20_boundary_word : forall tbl (g : grid A) dssizes c t ax a from tp,
    table_pads (k_func c) tbl = true -> In ax (k_axes c) ->
    signature_of g (dnames (dims t)) (k_to c) ax = Ok (a, from, tp) ->
    g <> [] -> NoDup (map (@ax_name A) g) ->
    match k_boundary c with
    | KScalar v => v = Some BUnknown
    | KMap m => NoDup (map fst m) /\ exists k, In (k, Some BUnknown) m
    end ->
    refused (grid_op o ofZ tbl g dssizes c t).
  Proof.
    intros tbl g dssizes c t ax a from tp Ht HI Hs Hg HND Hb.
    exact (op_unknown_boundary o ofZ tbl g dssizes c t ax a from tp Ht HI Hs
                               (unknown_word_in_force g (k_boundary c) Hg HND Hb)).
  Qed.

  (* an unknown position word; a non-numeric fill value; and every refusal above carries
     over to the call with raw arguments *)
  Theorem C20_position_word : forall tbl cstbl (g : grid A) dssizes (c : rawcall (A:=A)) t,
    r_axes c <> [] -> decode_to (to_used c) = None ->
    refused (raw_op o ofZ tbl cstbl g dssizes c t).
  Proof. exact (raw_unknown_position o ofZ). Qed.

  Theorem C20_fill_value : forall tbl cstbl (g : grid A) dssizes (c : rawcall (A:=A)) t,
    r_axes c <> [] -> fill_numeric (r_fill c) = false ->
    refused (raw_op o ofZ tbl cstbl g dssizes c t).
  Proof. exact (raw_nonnumeric_fill o ofZ). Qed.

  Theorem C20_raw : forall tbl cstbl (g : grid A) dssizes (c : rawcall (A:=A)) t to,
    r_axes c <> [] -> String.eqb (r_func c) "cumsum" = false ->
    decode_to (r_to c) = Some to ->
    refused (grid_op o ofZ tbl g dssizes
                     {| k_func := r_func c; k_axes := r_axes c; k_to := to;
                        k_boundary := r_boundary c; k_fill := decode_fill o (r_fill c) |} t) ->
    refused (raw_op o ofZ tbl cstbl g dssizes c t).
  Proof. exact (raw_op_refused o ofZ). Qed.

  (* transform: a periodic axis; conservative without outer positions; conservative bins
     that neither increase nor decrease strictly *)
  Context (isnan : A -> bool) (nanv : A) (ln : A -> A) (half : A -> A).

  Theorem C20_transform_periodic : forall (c : tcall (A:=A)),
    tc_periodic c = true -> grid_transform o isnan nanv ln half c = Err ValueError.
  Proof. exact (transform_periodic o isnan nanv ln half). Qed.

  Theorem C20_transform_dims : forall (c : tcall (A:=A)),
    List.length (filter (fun d => memS d (axis_dims c)) (dnames (dims (tc_da c)))) <> 1 ->
    refused (grid_transform o isnan nanv ln half c).
  Proof. exact (transform_dims_wrong o isnan nanv ln half). Qed.

  Theorem C20_transform_outer : forall (c : tcall (A:=A)),
    tc_method c = "conservative" -> lookupP Outer (tc_coords c) = None ->
    refused (grid_transform o isnan nanv ln half c).
  Proof. exact (transform_no_outer o isnan nanv ln half). Qed.

  Theorem C20_transform_bins : forall phi theta bins pd td tg,
    forallb (fun d => ltb o d (zero o)) (window2 (fun a b => sub o b a) bins) = false ->
    forallb (fun d => ltb o (zero o) d) (window2 (fun a b => sub o b a) bins) = false ->
    refused (conservative_interpolation o isnan phi theta bins pd td tg).
  Proof. exact (conservative_interpolation_refused o isnan). Qed.

  (* grid ufuncs: wrong number of inputs or of axis entries, entry of the wrong arity
     (inputs on the wrong positions: C11_reject) *)
  Theorem C20_ufunc_number : forall (g : grid A) (c : ucall (A:=A)) args,
    List.length args <> List.length (u_axis c) ->
    ufunc_received (zero o) g c args = Err ValueError.
  Proof. exact (ufunc_wrong_number (zero o)). Qed.

  Theorem C20_ufunc_axis : forall (g : grid A) (c : ucall (A:=A)) args,
    List.length args = List.length (u_axis c) ->
    (List.length (u_axis c) <> List.length (s_in (u_sig c)) \/
     forallb (fun p : list string * list string => List.length (fst p) =? List.length (snd p))
             (combine (u_axis c) (map (map fst) (s_in (u_sig c)))) = false) ->
    ufunc_received (zero o) g c args = Err ValueError.
  Proof. exact (ufunc_axis_mismatch (zero o)). Qed.

  Theorem C20_ufunc_position : forall (g : grid A) (c : ucall) args d2r out_ax,
    List.length args = List.length (u_axis c) ->
    dummy_to_real (map (map fst) (s_in (u_sig c))) (u_axis c) = Ok d2r ->
    mapM (mapM (fun n => match lookupS n d2r with Some r => Ok r | None => Err KeyError end))
         (map (map fst) (s_out (u_sig c))) = Ok out_ax ->
    (exists ns ps arg np,
        In (ns, ps, arg) (combine (combine (u_axis c) (map (map snd) (s_in (u_sig c)))) args) /\
        In np (combine ns ps) /\ ~ on_position g np arg) ->
    ufunc_received (zero o) g c args = Err ValueError.
  Proof. exact (misplaced_rejected (zero o)). Qed.

  (* the constructor: a dimension the dataset lacks, an unknown boundary word, a default
     shift onto the same position -- on any axis of any number of axes *)
  Theorem C20_ctor : forall dsdims coords bd fd sd name cs,
    In (name, cs) coords ->
    ( forallb (fun pd : pos * string => memS (snd pd) dsdims) cs = false \/
      get_or_none name bd = Some BUnknown \/
      (exists p d, In (p, d) cs /\
                   lookupP p (match get_or_none name sd with Some s => s | None => [] end) = Some p) ) ->
    refused (mk_axes (zero o) dsdims coords bd fd sd).
  Proof.
    intros dsdims coords bd fd sd name cs HI H.
    apply (mk_axes_refused (zero o) dsdims coords bd fd sd name cs HI).
    destruct H as [H|[H|[p [d [H1 H2]]]]].
    - apply mk_axis_dim_missing. exact H.
    - rewrite H. apply mk_axis_unknown_boundary.
    - eapply mk_axis_shift_same; eassumption.
  Qed.
End C20.

Print Assumptions C20_table.
Print Assumptions C20_axis_missing.
Print Assumptions C20_dims.
Print Assumptions C20_shift.
Print Assumptions C20_boundary_word.
Print Assumptions C20_position_word.
Print Assumptions C20_fill_value.
Print Assumptions C20_raw.
Print Assumptions C20_transform_periodic.
Print Assumptions C20_transform_dims.
Print Assumptions C20_transform_outer.
Print Assumptions C20_transform_bins.
Print Assumptions C20_ufunc_number.
Print Assumptions C20_ufunc_axis.
Print Assumptions C20_ufunc_position.
Print Assumptions C20_ctor.

(* The metric operations (get_metric, hence integrate / average / cumint / derivative and every
   metric_weighted call): a request naming an axis the grid lacks, or made for an array that lacks --
   or has two -- dimensions of a requested axis, is refused, whatever has been registered. *)
Theorem C20_metric : forall axis_dims reg array_dims axes,
  ill_posed_metric axis_dims array_dims axes = true ->
  exists e, get_metric axis_dims reg array_dims axes = Err e.
Proof. exact get_metric_refuses. Qed.
Print Assumptions C20_metric.

(* Non-vacuity: a concrete valid call succeeds, and the same call with one edit from each
   class of the first group is refused by computation. *)
From Coq Require Import QArith.
Definition ex_g : grid Q :=
  [ {| ax_name := "X"; ax_coords := [(Center, "xc"); (Left, "xl")];
       ax_shifts := [(Center, Left); (Left, Center)]; ax_boundary := BFill; ax_fill := 0%Q |} ].
Definition ex_t : tensor Q := of_list 0%Q [("xc", 3%nat)] [1%Q; 2%Q; 4%Q].
Definition ex_raw (to : string) (b : kw bword) (f : kw (option Q)) (axes : list string) : rawcall (A:=Q) :=
  {| r_func := "diff"; r_axes := axes; r_to := KScalar (Some to); r_boundary := b; r_fill := f |}.
Definition ex_run (c : rawcall (A:=Q)) :=
  is_ok (raw_op QOps (fun z => inject_Z z) canon_gridops cumsum_table ex_g
                [("xc", 3%nat); ("xl", 3%nat)] c ex_t).
Example C20_nonvacuous :
  ex_run (ex_raw "left" (KScalar None) (KScalar None) ["X"]) = true /\
  ex_run (ex_raw "left" (KScalar None) (KScalar None) ["Q"]) = false /\
  ex_run (ex_raw "center" (KScalar None) (KScalar None) ["X"]) = false /\
  ex_run (ex_raw "outer" (KScalar None) (KScalar None) ["X"]) = false /\
  ex_run (ex_raw "middle" (KScalar None) (KScalar None) ["X"]) = false /\
  ex_run (ex_raw "left" (KScalar (Some BUnknown)) (KScalar None) ["X"]) = false /\
  ex_run (ex_raw "left" (KScalar None) (KScalar (Some None)) ["X"]) = false.
Proof. vm_compute. repeat split; reflexivity. Qed.
