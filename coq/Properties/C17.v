(* C17 -- Only reciprocal face-connection tables are accepted.
   This file contains statements only; every proof is one [exact] of a lemma in Proofs/. *)
From Coq Require Import List Bool ZArith String.
From XV Require Import Base.Res Base.Assoc Model.FaceConn Spec.S17 Proofs.P17.
Import ListNotations.
Open Scope string_scope.

(* For every constructor call (any number of face dimensions, faces, axes and links):
   the model of Grid._assign_face_connections returns normally exactly when there is a
   single face dimension, it is a dimension of the dataset, every axis key of the table
   is a grid axis, and every link is reciprocated in the sense of the property. *)
Theorem C17_iff : forall inp : fc_input, assign inp = Ok tt <-> accepted_spec inp.
Proof. exact assign_iff. Qed.
Print Assumptions C17_iff.

(* The executable oracle used by the correspondence check is the same predicate. *)
Theorem C17_oracle : forall inp : fc_input, accepted_specb inp = true <-> accepted_spec inp.
Proof. exact accepted_specb_iff. Qed.
Print Assumptions C17_oracle.

(* Linked faces see each other symmetrically: the side on which the back-link sits,
   looked at from the neighbour, points back to the original side. *)
Theorem C17_back_side_involutive : forall pos rev, (pos = 0 \/ pos = 1)%nat ->
  back_side (back_side pos rev) rev = pos.
Proof. exact back_side_invol. Qed.
Print Assumptions C17_back_side_involutive.

(* Non-vacuity: the two-face table of the documentation is accepted, and an edited one
   (back-link names the wrong axis) is refused. *)
Definition ex_tbl : facetab :=
  [ (0%Z, [("X", (None, Some (1%Z, "X", false)))]);
    (1%Z, [("X", (Some (0%Z, "X", false), None))]) ].
Definition ex_inp (t : facetab) : fc_input :=
  {| fc_dict := [("face", t)]; fc_dsdims := ["face"; "x"]; fc_faces := [0%Z; 1%Z];
     fc_axes := ["X"; "Y"] |}.
Example C17_nonvacuous_accept : assign (ex_inp ex_tbl) = Ok tt /\ accepted_spec (ex_inp ex_tbl).
Proof. split; [reflexivity | apply accepted_specb_iff; reflexivity]. Qed.
Example C17_nonvacuous_refuse :
  assign (ex_inp [ (0%Z, [("X", (None, Some (1%Z, "X", false)))]);
                   (1%Z, [("X", (Some (0%Z, "Y", false), None))]) ]) = Err ValueError.
Proof. reflexivity. Qed.
