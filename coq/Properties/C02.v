(* C02 -- Boundary rule resolution and padding widths are exactly as specified.
   Statements only; each proof is one [exact] of a lemma in Proofs/. *)
From Coq Require Import List Bool ZArith String.
From XV Require Import Base.Res Base.Assoc Base.Seq1D Base.Tensor Model.Axis Model.GridCtor Model.Pad
     Spec.S02 Proofs.P02_pad Proofs.P02_resolve.
Import ListNotations.
Open Scope string_scope.
Open Scope nat_scope.
Open Scope list_scope.

Section C02.
  Context {A : Type} (zero : A).

  (* Constructor, every spelling of periodic / boundary / fill_value: each axis of the
     Grid carries the prescribed rule and fill value.  The one excluded spelling
     ([periodic] a list not naming the axis, no explicit boundary for it) is the recorded
     known finding; see C02_resolve_periodic_list_refuted. *)
  Theorem C02_resolve : forall (c : ctor_args A) (g : grid A),
    grid_ctor zero c = Ok g ->
    map (@ax_name A) g = map fst (c_coords c) /\
    forall a, In a g -> periodic_spelling_ok c (ax_name a) ->
      ax_boundary a = grid_rule c (ax_name a) /\ ax_fill a = grid_fill zero c (ax_name a).
  Proof. exact (grid_ctor_spec zero). Qed.

  (* The full statement (without the exclusion) is false of the faithful model. *)
  Theorem C02_resolve_periodic_list_refuted :
    exists g a, grid_ctor zero (refuting_ctor (A:=A)) = Ok g /\ In a g /\
                ax_boundary a <> grid_rule (refuting_ctor (A:=A)) (ax_name a).
  Proof. exact (grid_ctor_periodic_list_refuted zero). Qed.

  (* Per call: per-call argument (scalar or partial/total mapping), else Grid level,
     else default; exactly the requested widths; dimension found by position. *)
  Theorem C02_rule_in_force :
    forall (c : ctor_args A) (g : grid A) a dadims callb callf lo hi p,
    grid_ctor zero c = Ok g -> In a g -> NoDup (map fst (c_coords c)) ->
    periodic_spelling_ok c (ax_name a) -> kw_wf callb -> kw_wf callf ->
    resolve_one zero g dadims (complete_kwargs g (@ax_boundary A) callb)
                (complete_kwargs g (@ax_fill A) callf) (ax_name a, (lo, hi)) = Ok p ->
    ps_rule p = rule_of_bword (call_rule c callb (ax_name a)) /\
    (ps_rule p = Fill -> ps_fill p = call_fill zero c callf (ax_name a)) /\
    ps_lo p = lo /\ ps_hi p = hi /\
    exists q, get_position_name a dadims = Ok (q, ps_dim p).
  Proof. exact (resolve_one_spec zero). Qed.

  (* Scalar and total per-axis spellings of the same choice are interchangeable. *)
  Theorem C02_spellings : forall {V} (g : grid A) (proj : axis A -> V) (v : V) a,
    NoDup (map (@ax_name A) g) -> In a g ->
    lookupS (ax_name a) (complete_kwargs g proj (KScalar (Some v))) =
    lookupS (ax_name a) (complete_kwargs g proj (KMap (map (fun b => (ax_name b, Some v)) g))).
  Proof. exact (@complete_kwargs_spellings A). Qed.

  (* Padding, for every shape, dimension order, number of requested axes and widths
     0..n: sizes grow by exactly lo+hi on requested dimensions, order and all other
     dimensions unchanged ... *)
  Theorem C02_pad_sizes : forall (ps : list (padspec (A:=A))) (t : tensor A),
    ps_all_ok t ps ->
    dnames (dims (pad_dims zero ps t)) = dnames (dims t) /\
    forall d, size d (pad_dims zero ps t) =
              match find (fun p => String.eqb (ps_dim p) d) ps with
              | Some p => ps_lo p + size d t + ps_hi p
              | None => size d t
              end.
  Proof. exact (pad_dims_dims zero). Qed.

  (* ... every original value stays in place and every new cell in the halo of exactly
     one requested dimension holds the wrapped / constant / nearest-edge value of that
     dimension's rule (cells in the halo of two dimensions are not constrained here). *)
  Theorem C02_pad_values : forall (ps : list (padspec (A:=A))) (t : tensor A) e v,
    wf t -> ps_all_ok t ps ->
    (forall p, In p ps -> e (ps_dim p) < ps_lo p + size (ps_dim p) t + ps_hi p) ->
    spec_pad_cell ps t e = Some v ->
    get (pad_dims zero ps t) e = v.
  Proof. exact (pad_dims_spec zero). Qed.
End C02.

Print Assumptions C02_resolve.
Print Assumptions C02_resolve_periodic_list_refuted.
Print Assumptions C02_rule_in_force.
Print Assumptions C02_spellings.
Print Assumptions C02_pad_sizes.
Print Assumptions C02_pad_values.

(* Non-vacuity: a concrete 2-d array padded on both dimensions meets the hypotheses,
   and the theorem's conclusion is the expected halo value. *)
Definition ex_t : tensor Z := of_list 0%Z [("y", 2); ("x", 3)] [1; 2; 3; 4; 5; 6]%Z.
Definition ex_ps : list (padspec (A:=Z)) :=
  [ {| ps_dim := "x"; ps_rule := Periodic; ps_fill := 0%Z; ps_lo := 1; ps_hi := 2 |};
    {| ps_dim := "y"; ps_rule := Extend; ps_fill := 0%Z; ps_lo := 1; ps_hi := 0 |} ].
Example C02_nonvacuous :
  ps_all_ok ex_t ex_ps /\
  tabulate (pad_dims 0%Z ex_ps ex_t) =
  [3; 1; 2; 3; 1; 2;  3; 1; 2; 3; 1; 2;  6; 4; 5; 6; 4; 5]%Z.
Proof.
  split; [|reflexivity]. split.
  - simpl. repeat constructor; simpl; intuition discriminate.
  - repeat constructor; simpl; try reflexivity; unfold size; simpl; auto with arith.
Qed.
