(* C13 -- axis, dimension and variable names are opaque labels.
   Statements only; each proof is one [exact] of a lemma in Proofs/P13.v or Proofs/P13_ufunc.v.
   [injective r]: r maps different names to different names. *)
From Coq Require Import List Bool ZArith String.
From XV Require Import Base.Res Base.Assoc Base.Ops Base.Seq1D Base.Tensor Model.Axis Model.GridCtor Model.Pad Model.GridOps Model.Dispatch Model.Cumsum
     Model.Signature Model.UFunc Proofs.TensorLemmas Proofs.P13 Proofs.P13_ufunc Proofs.Tie_names Generated.G13.
Import ListNotations.
Open Scope string_scope.
Open Scope list_scope.

(* No place in the name-handling files looks inside a name, orders names, or builds a
   name by concatenation, other than the reviewed sites (inventory regenerated from /repo
   on this run). *)
Theorem C13_no_name_inspection :
  G13_available = true /\
  forallb (fun s => existsb (nsite_eqb s) reviewed_sites) gen_name_sensitive_sites = true.
Proof. exact (conj Tie_name_sites_available Tie_name_sites). Qed.

Section C13.
  Variable r : string -> string.
  Hypothesis r_inj : injective r.

  (* dictionaries keyed by names, membership, order of first appearance *)
  Theorem C13_lookup : forall {V} k (l : list (string * V)),
    lookupS (r k) (rename_keys r l) = lookupS k l.
  Proof. exact (@lookupS_rename r r_inj). Qed.

  Theorem C13_first_appearance : forall l, dedup_l (map r l) = map r (dedup_l l).
  Proof. exact (dedup_rename r r_inj). Qed.

  (* which dimension of an array lies on an axis; finding an axis by name (ra renames the
     axes, r the dimensions) *)
  Theorem C13_axis_lookup : forall {A} (ra : string -> string), injective ra ->
    forall (g : grid A) n,
    find_axis (map (rename_axis r ra) g) (ra n) =
    match find_axis g n with Ok a => Ok (rename_axis r ra a) | Err e => Err e end.
  Proof. intros A ra Hra. exact (find_axis_rename r ra Hra). Qed.

  Theorem C13_position_of : forall {A} (ra : string -> string) (a : axis A) dadims,
    get_position_name (rename_axis r ra a) (map r dadims) =
    match get_position_name a dadims with
    | Ok pd => Ok (fst pd, r (snd pd))
    | Err e => Err e
    end.
  Proof. intros A ra. exact (get_position_name_rename r r_inj ra). Qed.

  (* the combinators every 1-d operation is built from -- padding, the stencils, cumsum,
     trimming (map_dim) and the ufunc call convention (apply_core, transpose) -- commute
     with renaming the dimensions: same dimensions up to renaming, same number at every
     point *)
  Theorem C13_map_dim : forall {A} (dflt : A) d d' n f (t : tensor A), wf t ->
    dims (map_dim dflt (r d) (r d') n f (rename_tensor r t)) =
      dims (rename_tensor r (map_dim dflt d d' n f t)) /\
    forall e, get (map_dim dflt (r d) (r d') n f (rename_tensor r t)) e =
              get (rename_tensor r (map_dim dflt d d' n f t)) e.
  Proof. intros A dflt. exact (map_dim_rename r r_inj dflt). Qed.

  Theorem C13_apply_core : forall {A} (dflt : A) d d' n f (t : tensor A), wf t ->
    dims (apply_core dflt (r d) (r d') n f (rename_tensor r t)) =
      dims (rename_tensor r (apply_core dflt d d' n f t)) /\
    forall e, get (apply_core dflt (r d) (r d') n f (rename_tensor r t)) e =
              get (rename_tensor r (apply_core dflt d d' n f t)) e.
  Proof. intros A dflt. exact (apply_core_rename r r_inj dflt). Qed.

  Theorem C13_transpose : forall {A} order (t : tensor A),
    transpose (map r order) (rename_tensor r t) = rename_tensor r (transpose order t).
  Proof. intros A. exact (transpose_rename r r_inj). Qed.

  Theorem C13_pad_dim : forall {A} (dflt : A) (p : padspec (A:=A)) (t : tensor A), wf t ->
    let p' := {| ps_dim := r (ps_dim p); ps_rule := ps_rule p; ps_fill := ps_fill p;
                 ps_lo := ps_lo p; ps_hi := ps_hi p |} in
    dims (pad_dim dflt p' (rename_tensor r t)) = dims (rename_tensor r (pad_dim dflt p t)) /\
    forall e, get (pad_dim dflt p' (rename_tensor r t)) e = get (rename_tensor r (pad_dim dflt p t)) e.
  Proof. intros A dflt. exact (pad_dim_rename dflt r r_inj). Qed.

  (* grid-ufunc dummy names: the canonical numbering that decides signature equivalence
     (C15_equiv) is unchanged, and the binding of dummies to real axes is the renamed
     binding *)
  Theorem C13_numbering : forall names,
    fst (number_names (map r names) []) = fst (number_names names []).
  Proof. exact (numbering_rename r r_inj). Qed.

  Theorem C13_binding : forall (r2 : string -> string), injective r2 -> forall dummy axis,
    dummy_to_real (map (map r) dummy) (map (map r2) axis) =
    match dummy_to_real dummy axis with
    | Ok m => Ok (map (fun p => (r (fst p), r2 (snd p))) m)
    | Err e => Err e
    end.
  Proof. intros r2 H2. exact (dummy_to_real_rename r r2 r_inj H2). Qed.
End C13.

(* A whole entry point: xgcm.padding.pad on a grid without face connections.  For every
   grid, array, widths, boundary / fill arguments (scalar or per-axis mappings) and every
   pair of injective renamings of the axes (ra) and of the dimensions (r): padding the
   renamed array on the renamed grid with the renamed arguments raises the same exception,
   or returns an array with the renamed dimensions holding the same number at every point. *)
Theorem C13_pad : forall (r ra : string -> string), injective r -> injective ra ->
  forall {A} (dflt : A) (g : grid A) (t : tensor A) bw boundary fill,
  respects t ->
  match pad dflt (rename_grid r ra g) (rename_tensor r t) (option_map (rename_widths ra) bw)
            (rename_kw ra boundary) (rename_kw ra fill),
        pad dflt g t bw boundary fill with
  | Ok t1, Ok t2 => teq t1 (rename_tensor r t2)
  | Err e1, Err e2 => e1 = e2
  | _, _ => False
  end.
Proof. intros r ra Hr Hra A dflt. exact (pad_rename r ra Hr Hra dflt). Qed.

(* A second whole entry point: Grid.diff / interp / min / max over any number of axes, on
   grids without face connections, for any table of predefined operations.  The renamed
   call (axes, dimensions, the keys of `to` / boundary / fill_value, the dataset's sizes)
   raises the same exception or returns the renamed result with the same number at every
   point and the dimensions in the renamed order. *)
Theorem C13_grid_op : forall (r ra : string -> string), injective r -> injective ra ->
  forall {A} (o : Ops A) (ofZ : Z -> A) tbl (g : grid A) dssizes c (t : tensor A),
  respects t ->
  match grid_op o ofZ tbl (rename_grid r ra g) (rename_dims r dssizes) (rename_call ra c) (rename_tensor r t),
        grid_op o ofZ tbl g dssizes c t with
  | Ok t1, Ok t2 => teq t1 (rename_tensor r t2)
  | Err e1, Err e2 => e1 = e2
  | _, _ => False
  end.
Proof. intros r ra Hr Hra A o ofZ. exact (grid_op_rename r ra Hr Hra o ofZ). Qed.

(* A third whole entry point: Grid.cumsum over any number of axes, any shift table. *)
Theorem C13_cumsum : forall (r ra : string -> string), injective r -> injective ra ->
  forall {A} (o : Ops A) tbl (g : grid A) dssizes c (t : tensor A),
  respects t ->
  match grid_cumsum o tbl (rename_grid r ra g) (rename_dims r dssizes) (rename_callcs ra c) (rename_tensor r t),
        grid_cumsum o tbl g dssizes c t with
  | Ok t1, Ok t2 => teq t1 (rename_tensor r t2)
  | Err e1, Err e2 => e1 = e2
  | _, _ => False
  end.
Proof. intros r ra Hr Hra A o. exact (grid_cumsum_rename r ra Hr Hra o). Qed.

(* A fourth whole entry point: apply_as_grid_ufunc / a decorated grid ufunc, up to the call
   of the user's function.  Three INDEPENDENT injective renamings -- of the dimensions (r),
   of the grid's axes (ra) and of the dummy names of the signature (rd): dummy names are bound
   variables of their own namespace, so one that is spelled like a real axis plays no
   special role.  The renamed call (axes in `axis`, signature, boundary_width keyed by the
   renamed dummies, boundary / fill_value keyed by the renamed axes) raises the same
   exception, or hands the function the same arrays up to renaming the dimensions (same
   number at every point), with the renamed core dimensions and the renamed width table. *)
Theorem C13_ufunc_received : forall (r ra rd : string -> string), injective r -> injective ra -> injective rd ->
  forall {A} (dflt : A) (g : grid A) (c : ucall (A:=A)) (args : list (tensor A)),
  Forall respects args ->
  match ufunc_received dflt (rename_grid r ra g) (rename_ucall ra rd c) (map (rename_tensor r) args),
        ufunc_received dflt g c args with
  | Ok (recv1, ic1, oc1, bw1), Ok (recv2, ic2, oc2, bw2) =>
    Forall2 (R r) recv1 recv2 /\ ic1 = map (map r) ic2 /\ oc1 = map (map r) oc2 /\ bw1 = rename_widths ra bw2 /\
    Forall respects recv2
  | Err e1, Err e2 => e1 = e2
  | _, _ => False
  end.
Proof. intros r ra rd Hr Hra Hrd A dflt. exact (ufunc_received_rename r ra rd Hr Hra Hrd dflt). Qed.

(* ... and the whole call, for every user function that is itself indifferent to names
   (related inputs give related outputs): padding of the outputs when pad_before_func is
   off, the check of the output sizes against the dataset, the results. *)
Theorem C13_ufunc_apply : forall (r ra rd : string -> string), injective r -> injective ra -> injective rd ->
  forall {A} (dflt : A) (g : grid A) dssizes (c : ucall (A:=A)) f f' (args : list (tensor A)),
  Forall respects args -> indifferent r f f' ->
  match ufunc_apply dflt (rename_grid r ra g) (rename_dims r dssizes) (rename_ucall ra rd c) f' (map (rename_tensor r) args),
        ufunc_apply dflt g dssizes c f args with
  | Ok (recv1, outs1), Ok (recv2, outs2) => Forall2 (R r) recv1 recv2 /\ Forall2 (R r) outs1 outs2
  | Err e1, Err e2 => e1 = e2
  | _, _ => False
  end.
Proof. intros r ra rd Hr Hra Hrd A dflt. exact (ufunc_apply_rename r ra rd Hr Hra Hrd dflt). Qed.

Print Assumptions C13_no_name_inspection.
Print Assumptions C13_ufunc_received.
Print Assumptions C13_ufunc_apply.
Print Assumptions C13_cumsum.
Print Assumptions C13_grid_op.
Print Assumptions C13_pad.
Print Assumptions C13_lookup.
Print Assumptions C13_first_appearance.
Print Assumptions C13_axis_lookup.
Print Assumptions C13_position_of.
Print Assumptions C13_map_dim.
Print Assumptions C13_apply_core.
Print Assumptions C13_transpose.
Print Assumptions C13_pad_dim.
Print Assumptions C13_numbering.
Print Assumptions C13_binding.

(* Non-vacuity: an injective renaming that sends "x" to the position word-like "center_x"
   and "t" to "e"; a padded renamed array equals the renamed padded array. *)
Definition ex_r (s : string) : string := ("p_" ++ s)%string.
Example ex_r_inj : injective ex_r.
Proof. intros a b H. unfold ex_r in H. inversion H. reflexivity. Qed.
Example C13_nonvacuous :
  let t := of_list 0%Z [("x", 3); ("t", 2)] [1; 2; 3; 4; 5; 6]%Z in
  let p := {| ps_dim := "x"; ps_rule := Extend; ps_fill := 0%Z; ps_lo := 1; ps_hi := 1 |} in
  let p' := {| ps_dim := ex_r "x"; ps_rule := Extend; ps_fill := 0%Z; ps_lo := 1; ps_hi := 1 |} in
  tabulate (pad_dim 0%Z p' (rename_tensor ex_r t)) = tabulate (rename_tensor ex_r (pad_dim 0%Z p t)) /\
  tabulate (pad_dim 0%Z p t) = [1; 2; 1; 2; 3; 4; 5; 6; 5; 6]%Z.
Proof. vm_compute. split; reflexivity. Qed.
(* the hypothesis of C13_ufunc_apply is satisfiable: handing back what was received *)
Example C13_indifferent_nonvacuous : forall {A} r,
  indifferent (A:=A) r (fun recv _ _ => recv) (fun recv _ _ => recv).
Proof. intros A r. exact (identity_indifferent r). Qed.
