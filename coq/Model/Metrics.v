(* Executable model of Grid.get_metric (grid.py 453-534) and metrics.iterate_axis_combinations:
   WHICH registered variables make up the metric, in which order, and which of them are
   interpolated to the array's position.  The registry is the one of Model/Registry.v. *)
From Coq Require Import List Bool ZArith String.
From XV Require Import Base.Res Base.Assoc Model.Registry.
Import ListNotations.
Open Scope string_scope.
Open Scope nat_scope.
Open Scope list_scope.

(* one factor of the metric: a registered variable, used as it is or interpolated to the
   position of the array (nearest-value extension, with a warning) *)
Record factor : Type := { f_name : string; f_interp : bool }.
Definition mexpr : Type := list factor.       (* their product, in this order *)

Fixpoint combinations {T} (l : list T) (k : nat) : list (list T) :=
  match k, l with
  | 0, _ => [[]]
  | S _, [] => []
  | S k', x :: r => map (cons x) (combinations r k') ++ combinations r k
  end.

Fixpoint dedup_s (l : list string) : list string :=
  match l with
  | [] => []
  | x :: r => x :: filter (fun y => negb (String.eqb y x)) (dedup_s r)
  end.

Fixpoint countdown (n : nat) : list nat := match n with 0 => [] | S k => S k :: countdown k end.

(* iterate_axis_combinations: the whole set first, then (these, others...) *)
Definition axis_combinations (items : list string) : list (list (list string)) :=
  let il := dedup_s items in
  let N := List.length items in
  [il] ::
  flat_map (fun nleft =>
    let nright := N - nleft in
    flat_map (fun sub_loop =>
      map (fun these =>
             let those := filter (fun i => negb (memS i these)) il in
             these :: combinations those sub_loop)
          (combinations il nleft))
      (countdown (Nat.min nright nleft)))
    (countdown (N - 1)).

Fixpoint products {T} (ls : list (list T)) : list (list T) :=
  match ls with
  | [] => [[]]
  | l :: r => flat_map (fun x => map (cons x) (products r)) l
  end.

Definition fits (array_dims : list string) (v : varinfo) : bool := subsetS (snd v) array_dims.

Fixpoint all_lookup (reg : registry) (blocks : list (list string)) : option (list (list varinfo)) :=
  match blocks with
  | [] => Some []
  | b :: r => match find_key b reg, all_lookup reg r with
              | Some l, Some ls => Some (l :: ls)
              | _, _ => None
              end
  end.

(* one factor per block of the partition: the variable registered at the array's position
   if there is one, otherwise the last one registered, interpolated; an empty list of
   candidates is a KeyError (the next partition is tried) *)
Definition choose_block (array_dims : list string) (l : list varinfo) : option factor :=
  match find (fits array_dims) l with
  | Some v => Some {| f_name := fst v; f_interp := false |}
  | None => match rev l with
            | v :: _ => Some {| f_name := fst v; f_interp := true |}
            | [] => None
            end
  end.

Fixpoint choose_blocks (array_dims : list string) (ls : list (list varinfo)) : option mexpr :=
  match ls with
  | [] => Some []
  | l :: r => match choose_block array_dims l, choose_blocks array_dims r with
              | Some f, Some fs => Some (f :: fs)
              | _, _ => None
              end
  end.

Fixpoint scan_combinations (reg : registry) (array_dims : list string) (cs : list (list (list string)))
  : option mexpr :=
  match cs with
  | [] => None
  | c :: r =>
    match all_lookup reg c with
    | None => scan_combinations reg array_dims r                (* KeyError: try the next one *)
    | Some ls => match choose_blocks array_dims ls with
                 | Some (f :: fs) => Some (f :: fs)
                 | _ => scan_combinations reg array_dims r
                 end
    end
  end.

(* get_metric.  [axis_dims] gives, for a grid axis, the dimensions of its positions. *)
Definition get_metric (axis_dims : list (string * list string)) (reg : registry)
           (array_dims : list string) (axes : list string) : res mexpr :=
  (* _get_dims_from_axis: each axis known, exactly one of its dimensions on the array *)
  do _ <- forM_ (fun ax => match lookupS ax axis_dims with
                           | None => Err KeyError
                           | Some ds => match filter (fun d => memS d array_dims) ds with
                                        | [_] => Ok tt
                                        | _ => Err ValueError
                                        end
                           end) (dedup_s axes);
  match find_key axes reg with
  | Some l =>
    match find (fits array_dims) l with
    | Some v => Ok [{| f_name := fst v; f_interp := false |}]
    | None => match rev l with
              | v :: _ => Ok [{| f_name := fst v; f_interp := true |}]
              | [] => Err OtherError                               (* mv unbound *)
              end
    end
  | None =>
    match scan_combinations reg array_dims (axis_combinations axes) with
    | Some e => Ok e
    | None => Err KeyError
    end
  end.
