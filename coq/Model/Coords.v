(* Executable model of the labels (dimension names, coordinates, name) of the result of a
   1-D grid operation: coordinate stripping in pad() (padding.py 60-67, 408-412),
   xr.apply_ufunc's treatment of coordinates on excluded core dimensions,
   _reattach_coords (grid_ufunc.py 1112-1151) and the cumsum path (grid.py 1172-1184).
   A coordinate is (name, dims, identity); the identity says WHICH object (values and
   attributes) it is, e.g. "the grid dataset's coordinate x_l". *)
From Coq Require Import List Bool ZArith String.
From XV Require Import Base.Res Base.Assoc Base.Ops Base.Seq1D Base.Tensor
     Model.Axis Model.GridCtor Model.Pad Model.GridOps Model.Dispatch Model.Cumsum.
Import ListNotations.
Open Scope string_scope.
Open Scope nat_scope.
Open Scope list_scope.

Record coordv : Type := { cv_name : string; cv_dims : list string; cv_id : nat }.
Record labels : Type := { l_dims : list string; l_coords : list coordv; l_name : option string }.

Definition fits (ds : list string) (c : coordv) : bool := forallb (fun d => memS d ds) (cv_dims c).

(* DataArray.assign_coords: same-named coordinates are replaced, new ones appended *)
Definition assign_coords (new : list coordv) (old : list coordv) : list coordv :=
  filter (fun c => negb (memS (cv_name c) (map cv_name new))) old ++ new.

Definition is_dim_coord (ds : list string) (c : coordv) : bool := memS (cv_name c) ds.

(* _reattach_coords *)
Definition reattach (dscoords : list coordv) (keep : bool) (l : labels) : labels :=
  let merged := assign_coords (filter (fits (l_dims l)) dscoords) (l_coords l) in
  {| l_dims := l_dims l;
     l_coords := if keep then merged else filter (is_dim_coord (l_dims l)) merged;
     l_name := l_name l |}.

(* pad(): with a non-zero width every coordinate is stripped; with zero widths the array
   is returned as it is *)
Definition pad_labels (pads : bool) (l : labels) : labels :=
  if pads then {| l_dims := l_dims l; l_coords := []; l_name := l_name l |} else l.

(* xr.apply_ufunc with input core dimension d (excluded) and output core dimension d' *)
Definition apply_labels (d d' : string) (l : labels) : labels :=
  {| l_dims := filter (fun x => negb (String.eqb x d)) (l_dims l) ++ [d'];
     l_coords := filter (fun c => negb (memS d (cv_dims c))) (l_coords l);
     l_name := l_name l |}.

(* one axis of diff / interp / min / max *)
Definition step_labels (dscoords : list coordv) (keep pads : bool) (d d' : string) (l : labels) : labels :=
  reattach dscoords keep (apply_labels d d' (pad_labels pads l)).

(* one axis of cumsum: xarray cumsum, trim, pad, rename, drop ALL coordinates, reattach *)
Definition cumsum_step_labels (dscoords : list coordv) (keep : bool) (d d' : string) (l : labels) : labels :=
  reattach dscoords keep
           {| l_dims := map (fun x => if String.eqb x d then d' else x) (l_dims l);
              l_coords := []; l_name := l_name l |}.

Section Ops.
  Context {A : Type}.

  (* the (dimension left, dimension entered, pads?) of every axis of a call, read off the
     same lookups as Dispatch.step *)
  Definition shift_of (tbl : list gentry) (g : grid A) (orig : list string) (fn : string)
             (to : kw pos) (axn : string) : res (string * string * bool) :=
    do sg <- signature_of g orig to axn;
    let '(a, from, tp) := sg in
    do e <- select fn from tp tbl;
    do din <- match lookupP from (ax_coords a) with Some d => Ok d | None => Err ValueError end;
    do dout <- match lookupP tp (ax_coords a) with Some d => Ok d | None => Err KeyError end;
    let w := match ge_width e with Some w => w | None => (0, 0) end in
    Ok (din, dout, negb ((fst w =? 0) && (snd w =? 0))).

  Definition final_order (orig : list string) (shifts : list (string * string)) : list string :=
    map (fun d => match lookupS d shifts with Some n => n | None => d end) orig.

  Definition steps_labels (dscoords : list coordv) (keep : bool) (sh : list (string * string * bool))
             (l : labels) : labels :=
    fold_left (fun acc (s : string * string * bool) =>
                 step_labels dscoords keep (snd s) (fst (fst s)) (snd (fst s)) acc) sh l.

  Definition op_labels (tbl : list gentry) (g : grid A) (dscoords : list coordv) (keep : bool)
             (fn : string) (axes : list string) (to : kw pos) (l : labels) : res labels :=
    do sh <- mapM (shift_of tbl g (l_dims l) fn to) axes;
    let r := steps_labels dscoords keep sh l in
    Ok {| l_dims := final_order (l_dims l) (map fst sh); l_coords := l_coords r; l_name := l_name r |}.

  Definition cumsum_steps_labels (dscoords : list coordv) (keep : bool) (sh : list (string * string))
             (l : labels) : labels :=
    fold_left (fun acc (s : string * string) => cumsum_step_labels dscoords keep (fst s) (snd s) acc) sh l.

  Definition cumsum_labels (g : grid A) (dscoords : list coordv) (keep : bool)
             (axes : list string) (to : kw pos) (l : labels) : res labels :=
    do sh <- mapM (fun axn =>
                     do a <- find_axis g axn;
                     do pd <- get_position_name a (l_dims l);
                     do tp <- target_pos a to (fst pd);
                     do nd <- match lookupP tp (ax_coords a) with Some d => Ok d | None => Err KeyError end;
                     Ok (snd pd, nd)) axes;
    Ok (cumsum_steps_labels dscoords keep sh l).
End Ops.
