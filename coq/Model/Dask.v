(* Executable model of the dask handling of the 1-d grid operations:
   the choice of dask mode and map_overlap per axis (grid.py 650-683), the refusal of
   length-changing positions (grid_ufunc.py 987-1010), the chunk pattern after padding
   (grid_ufunc.py 1013-1073) and dask.array.map_overlap with depth = boundary width,
   boundary="none", trim=False (grid_ufunc.py 926-984): every block is extended by the
   last lo entries of its left neighbour and the first hi entries of its right neighbour,
   the function runs on every extended block, the results are concatenated. *)
From Coq Require Import List Bool ZArith String.
From XV Require Import Base.Res Base.Seq1D Model.Axis.
Import ListNotations.
Open Scope string_scope.
Open Scope nat_scope.
Open Scope list_scope.

Definition chunks : Type := list nat.

(* _get_chunk_pattern_for_merging_boundary along one dimension *)
Definition merge_boundary (orig : chunks) (lo hi : nat) : chunks :=
  match orig with
  | [] => []
  | [n] => [lo + n + hi]
  | f :: r => (f + lo) :: removelast r ++ [last r 0 + hi]
  end.

(* per axis: (dask argument of apply_ufunc, map_overlap?) *)
Definition dask_mode (is_dask : bool) (nchunks_core : nat) (funcname : string) (allowed_before : bool)
  : string * bool :=
  if 1 <? nchunks_core then ("allowed", negb (String.eqb funcname "cumsum"))
  else ((if allowed_before then "allowed" else if is_dask then "parallelized" else "forbidden"), false).

Definition length_changing (p : pos) : bool := match p with Inner | Outer => true | _ => false end.

(* _check_if_length_would_change *)
Definition overlap_check (map_overlap : bool) (n_outputs : nat) (positions : list pos) : res unit :=
  if map_overlap then
    if 1 <? n_outputs then Err NotImplementedError
    else if existsb length_changing positions then Err NotImplementedError else Ok tt
  else Ok tt.

Section Blocks.
  Context {A : Type}.

  Fixpoint split (cs : chunks) (x : list A) : list (list A) :=
    match cs with
    | [] => []
    | c :: r => firstn c x :: split r (skipn c x)
    end.

  Fixpoint overlap_from (lo hi : nat) (prev : list A) (blocks : list (list A)) : list (list A) :=
    match blocks with
    | [] => []
    | b :: r => (lastn lo prev ++ b ++ firstn hi (hd [] r)) :: overlap_from lo hi b r
    end.
  Definition overlap (lo hi : nat) (blocks : list (list A)) : list (list A) := overlap_from lo hi [] blocks.

  (* the chunked execution of f along one dimension of an array padded by (lo, hi) *)
  Definition map_overlap (f : list A -> list A) (lo hi : nat) (orig : chunks) (padded : list A)
    : list (list A) :=
    map f (overlap lo hi (split (merge_boundary orig lo hi) padded)).
End Blocks.
