(* Executable model of how raw (untyped) call arguments reach the typed models: position
   words and fill values arrive as arbitrary Python objects; the words are decoded by the
   signature parser, the fill values are checked by xgcm.padding.pad. *)
From Coq Require Import List Bool ZArith String.
From XV Require Import Base.Res Base.Assoc Base.Ops Base.Seq1D Base.Tensor
     Model.Axis Model.GridCtor Model.Pad Model.GridOps Model.Dispatch Model.Cumsum.
Import ListNotations.
Open Scope string_scope.
Open Scope nat_scope.
Open Scope list_scope.

Definition kw_values {V} (k : kw V) : list V :=
  match k with
  | KScalar (Some v) => [v]
  | KScalar None => []
  | KMap m => flat_map (fun p : string * option V => match snd p with Some v => [v] | None => [] end) m
  end.

Definition kw_map {V W} (f : V -> W) (k : kw V) : kw W :=
  match k with
  | KScalar v => KScalar (option_map f v)
  | KMap m => KMap (map (fun p : string * option V => (fst p, option_map f (snd p))) m)
  end.

Section Refuse.
  Context {A : Type} (o : Ops A) (ofZ : Z -> A).

  (* a raw fill value: a number, or anything else *)
  Definition fill_numeric (k : kw (option A)) : bool :=
    forallb (fun v : option A => match v with Some _ => true | None => false end) (kw_values k).
  Definition decode_fill (k : kw (option A)) : kw A :=
    kw_map (fun v : option A => match v with Some a => a | None => zero o end) k.

  (* a raw `to`: words; an unknown word makes the signature string unparsable *)
  Definition decode_to (k : kw string) : option (kw pos) :=
    if forallb (fun w => match pos_of_name w with Some _ => true | None => false end) (kw_values k)
    then Some (kw_map (fun w => match pos_of_name w with Some p => p | None => Center end) k)
    else None.

  Record rawcall : Type := {
    r_func : string;                 (* diff | interp | min | max | cumsum *)
    r_axes : list string;
    r_to : kw string;
    r_boundary : kw bword;
    r_fill : kw (option A)
  }.

  (* the words of `to` that are actually looked at: those of the axes operated on *)
  Definition to_used (c : rawcall) : kw string :=
    match r_to c with
    | KScalar v => KScalar v
    | KMap m => KMap (filter (fun p : string * option string => memS (fst p) (r_axes c)) m)
    end.

  Definition raw_op (tbl : list gentry) (cstbl : list ((pos * pos) * (bool * (nat * nat))))
             (g : grid A) (dssizes : dimlist) (c : rawcall) (t : tensor A) : res (tensor A) :=
    match r_axes c with
    | [] => Ok t
    | _ =>
      match decode_to (to_used c) with
      | None =>
        (* the lookups that precede the construction of the signature still happen *)
        do _ <- mapM (fun axn => do a <- find_axis g axn; get_position_name a (dnames (dims t)))
                     (r_axes c);
        Err ValueError
      | Some _ =>
        let to := match decode_to (r_to c) with Some k => k | None =>
                    kw_map (fun w => match pos_of_name w with Some p => p | None => Center end) (r_to c) end in
        do r <- (if String.eqb (r_func c) "cumsum"
                 then grid_cumsum o cstbl g dssizes
                                  {| cs_axes := r_axes c; cs_to := to; cs_boundary := r_boundary c;
                                     cs_fill := decode_fill (r_fill c) |} t
                 else grid_op o ofZ tbl g dssizes
                              {| k_func := r_func c; k_axes := r_axes c; k_to := to;
                                 k_boundary := r_boundary c; k_fill := decode_fill (r_fill c) |} t);
        if fill_numeric (r_fill c) then Ok r else Err TypeError
      end
    end.
End Refuse.
