(* Canonical hand-kept copy of the gridops table (the correspondence evaluators use it so that
   they never depend on Generated/); Proofs/Tie_gridops.v ties the regenerated table to the
   same acceptance predicate. *)
From Coq Require Import List String ZArith.
From XV Require Import Model.Axis Model.GridOps.
Import ListNotations.
Open Scope string_scope.
Definition canon_gridops : list gentry := [
{| ge_name := "diff_center_to_left"; ge_from := Center; ge_to := Left; ge_width := (Some (1%nat, 0%nat)); ge_fill := None; ge_boundary := None; ge_pad_before := true; ge_body := (Some (BSub (BTail BArg) (BInit BArg))) |};
{| ge_name := "diff_left_to_center"; ge_from := Left; ge_to := Center; ge_width := (Some (0%nat, 1%nat)); ge_fill := None; ge_boundary := None; ge_pad_before := true; ge_body := (Some (BSub (BTail BArg) (BInit BArg))) |};
{| ge_name := "diff_center_to_right"; ge_from := Center; ge_to := Right; ge_width := (Some (0%nat, 1%nat)); ge_fill := None; ge_boundary := None; ge_pad_before := true; ge_body := (Some (BSub (BTail BArg) (BInit BArg))) |};
{| ge_name := "diff_right_to_center"; ge_from := Right; ge_to := Center; ge_width := (Some (1%nat, 0%nat)); ge_fill := None; ge_boundary := None; ge_pad_before := true; ge_body := (Some (BSub (BTail BArg) (BInit BArg))) |};
{| ge_name := "diff_center_to_outer"; ge_from := Center; ge_to := Outer; ge_width := (Some (1%nat, 1%nat)); ge_fill := None; ge_boundary := None; ge_pad_before := true; ge_body := (Some (BSub (BTail BArg) (BInit BArg))) |};
{| ge_name := "diff_outer_to_center"; ge_from := Outer; ge_to := Center; ge_width := (Some (0%nat, 0%nat)); ge_fill := None; ge_boundary := None; ge_pad_before := true; ge_body := (Some (BSub (BTail BArg) (BInit BArg))) |};
{| ge_name := "diff_center_to_inner"; ge_from := Center; ge_to := Inner; ge_width := (Some (0%nat, 0%nat)); ge_fill := None; ge_boundary := None; ge_pad_before := true; ge_body := (Some (BSub (BTail BArg) (BInit BArg))) |};
{| ge_name := "diff_inner_to_center"; ge_from := Inner; ge_to := Center; ge_width := (Some (1%nat, 1%nat)); ge_fill := None; ge_boundary := None; ge_pad_before := true; ge_body := (Some (BSub (BTail BArg) (BInit BArg))) |};
{| ge_name := "diff_left_to_inner"; ge_from := Left; ge_to := Inner; ge_width := None; ge_fill := None; ge_boundary := None; ge_pad_before := true; ge_body := None |};
{| ge_name := "interp_center_to_left"; ge_from := Center; ge_to := Left; ge_width := (Some (1%nat, 0%nat)); ge_fill := None; ge_boundary := None; ge_pad_before := true; ge_body := (Some (BDivC (BAdd (BInit BArg) (BTail BArg)) (2)%Z)) |};
{| ge_name := "interp_left_to_center"; ge_from := Left; ge_to := Center; ge_width := (Some (0%nat, 1%nat)); ge_fill := None; ge_boundary := None; ge_pad_before := true; ge_body := (Some (BDivC (BAdd (BInit BArg) (BTail BArg)) (2)%Z)) |};
{| ge_name := "interp_center_to_right"; ge_from := Center; ge_to := Right; ge_width := (Some (0%nat, 1%nat)); ge_fill := None; ge_boundary := None; ge_pad_before := true; ge_body := (Some (BDivC (BAdd (BInit BArg) (BTail BArg)) (2)%Z)) |};
{| ge_name := "interp_right_to_center"; ge_from := Right; ge_to := Center; ge_width := (Some (1%nat, 0%nat)); ge_fill := None; ge_boundary := None; ge_pad_before := true; ge_body := (Some (BDivC (BAdd (BInit BArg) (BTail BArg)) (2)%Z)) |};
{| ge_name := "interp_center_to_outer"; ge_from := Center; ge_to := Outer; ge_width := (Some (1%nat, 1%nat)); ge_fill := None; ge_boundary := None; ge_pad_before := true; ge_body := (Some (BDivC (BAdd (BInit BArg) (BTail BArg)) (2)%Z)) |};
{| ge_name := "interp_outer_to_center"; ge_from := Outer; ge_to := Center; ge_width := (Some (0%nat, 0%nat)); ge_fill := None; ge_boundary := None; ge_pad_before := true; ge_body := (Some (BDivC (BAdd (BInit BArg) (BTail BArg)) (2)%Z)) |};
{| ge_name := "interp_center_to_inner"; ge_from := Center; ge_to := Inner; ge_width := (Some (0%nat, 0%nat)); ge_fill := None; ge_boundary := None; ge_pad_before := true; ge_body := (Some (BDivC (BAdd (BInit BArg) (BTail BArg)) (2)%Z)) |};
{| ge_name := "interp_inner_to_center"; ge_from := Inner; ge_to := Center; ge_width := (Some (1%nat, 1%nat)); ge_fill := None; ge_boundary := None; ge_pad_before := true; ge_body := (Some (BDivC (BAdd (BInit BArg) (BTail BArg)) (2)%Z)) |};
{| ge_name := "min_center_to_left"; ge_from := Center; ge_to := Left; ge_width := (Some (1%nat, 0%nat)); ge_fill := None; ge_boundary := None; ge_pad_before := true; ge_body := (Some (BMinStack (BInit BArg) (BTail BArg))) |};
{| ge_name := "min_left_to_center"; ge_from := Left; ge_to := Center; ge_width := (Some (0%nat, 1%nat)); ge_fill := None; ge_boundary := None; ge_pad_before := true; ge_body := (Some (BMinStack (BInit BArg) (BTail BArg))) |};
{| ge_name := "min_center_to_right"; ge_from := Center; ge_to := Right; ge_width := (Some (0%nat, 1%nat)); ge_fill := None; ge_boundary := None; ge_pad_before := true; ge_body := (Some (BMinStack (BInit BArg) (BTail BArg))) |};
{| ge_name := "min_right_to_center"; ge_from := Right; ge_to := Center; ge_width := (Some (1%nat, 0%nat)); ge_fill := None; ge_boundary := None; ge_pad_before := true; ge_body := (Some (BMinStack (BInit BArg) (BTail BArg))) |};
{| ge_name := "min_center_to_outer"; ge_from := Center; ge_to := Outer; ge_width := (Some (1%nat, 1%nat)); ge_fill := None; ge_boundary := None; ge_pad_before := true; ge_body := (Some (BMinStack (BInit BArg) (BTail BArg))) |};
{| ge_name := "min_outer_to_center"; ge_from := Outer; ge_to := Center; ge_width := (Some (0%nat, 0%nat)); ge_fill := None; ge_boundary := None; ge_pad_before := true; ge_body := (Some (BMinStack (BInit BArg) (BTail BArg))) |};
{| ge_name := "min_center_to_inner"; ge_from := Center; ge_to := Inner; ge_width := (Some (0%nat, 0%nat)); ge_fill := None; ge_boundary := None; ge_pad_before := true; ge_body := (Some (BMinStack (BInit BArg) (BTail BArg))) |};
{| ge_name := "min_inner_to_center"; ge_from := Inner; ge_to := Center; ge_width := (Some (1%nat, 1%nat)); ge_fill := None; ge_boundary := None; ge_pad_before := true; ge_body := (Some (BMinStack (BInit BArg) (BTail BArg))) |};
{| ge_name := "max_center_to_left"; ge_from := Center; ge_to := Left; ge_width := (Some (1%nat, 0%nat)); ge_fill := None; ge_boundary := None; ge_pad_before := true; ge_body := (Some (BMaxStack (BInit BArg) (BTail BArg))) |};
{| ge_name := "max_left_to_center"; ge_from := Left; ge_to := Center; ge_width := (Some (0%nat, 1%nat)); ge_fill := None; ge_boundary := None; ge_pad_before := true; ge_body := (Some (BMaxStack (BInit BArg) (BTail BArg))) |};
{| ge_name := "max_center_to_right"; ge_from := Center; ge_to := Right; ge_width := (Some (0%nat, 1%nat)); ge_fill := None; ge_boundary := None; ge_pad_before := true; ge_body := (Some (BMaxStack (BInit BArg) (BTail BArg))) |};
{| ge_name := "max_right_to_center"; ge_from := Right; ge_to := Center; ge_width := (Some (1%nat, 0%nat)); ge_fill := None; ge_boundary := None; ge_pad_before := true; ge_body := (Some (BMaxStack (BInit BArg) (BTail BArg))) |};
{| ge_name := "max_center_to_outer"; ge_from := Center; ge_to := Outer; ge_width := (Some (1%nat, 1%nat)); ge_fill := None; ge_boundary := None; ge_pad_before := true; ge_body := (Some (BMaxStack (BInit BArg) (BTail BArg))) |};
{| ge_name := "max_outer_to_center"; ge_from := Outer; ge_to := Center; ge_width := (Some (0%nat, 0%nat)); ge_fill := None; ge_boundary := None; ge_pad_before := true; ge_body := (Some (BMaxStack (BInit BArg) (BTail BArg))) |};
{| ge_name := "max_center_to_inner"; ge_from := Center; ge_to := Inner; ge_width := (Some (0%nat, 0%nat)); ge_fill := None; ge_boundary := None; ge_pad_before := true; ge_body := (Some (BMaxStack (BInit BArg) (BTail BArg))) |};
{| ge_name := "max_inner_to_center"; ge_from := Inner; ge_to := Center; ge_width := (Some (1%nat, 1%nat)); ge_fill := None; ge_boundary := None; ge_pad_before := true; ge_body := (Some (BMaxStack (BInit BArg) (BTail BArg))) |};
{| ge_name := "cumsum_center_to_left"; ge_from := Center; ge_to := Left; ge_width := (Some (1%nat, 0%nat)); ge_fill := (Some (0)%Z); ge_boundary := None; ge_pad_before := false; ge_body := (Some (BInit (BCumsum BArg))) |};
{| ge_name := "cumsum_left_to_center"; ge_from := Left; ge_to := Center; ge_width := (Some (0%nat, 0%nat)); ge_fill := None; ge_boundary := None; ge_pad_before := true; ge_body := (Some (BCumsum BArg)) |};
{| ge_name := "cumsum_center_to_right"; ge_from := Center; ge_to := Right; ge_width := (Some (0%nat, 0%nat)); ge_fill := None; ge_boundary := None; ge_pad_before := true; ge_body := (Some (BCumsum BArg)) |};
{| ge_name := "cumsum_right_to_center"; ge_from := Right; ge_to := Center; ge_width := (Some (1%nat, 0%nat)); ge_fill := (Some (0)%Z); ge_boundary := None; ge_pad_before := false; ge_body := (Some (BInit (BCumsum BArg))) |};
{| ge_name := "cumsum_center_to_outer"; ge_from := Center; ge_to := Outer; ge_width := (Some (1%nat, 0%nat)); ge_fill := (Some (0)%Z); ge_boundary := None; ge_pad_before := false; ge_body := (Some (BCumsum BArg)) |};
{| ge_name := "cumsum_outer_to_center"; ge_from := Outer; ge_to := Center; ge_width := (Some (0%nat, 0%nat)); ge_fill := None; ge_boundary := None; ge_pad_before := true; ge_body := (Some (BInit (BCumsum BArg))) |};
{| ge_name := "cumsum_center_to_inner"; ge_from := Center; ge_to := Inner; ge_width := (Some (0%nat, 0%nat)); ge_fill := None; ge_boundary := None; ge_pad_before := true; ge_body := (Some (BInit (BCumsum BArg))) |};
{| ge_name := "cumsum_inner_to_center"; ge_from := Inner; ge_to := Center; ge_width := (Some (1%nat, 0%nat)); ge_fill := (Some (0)%Z); ge_boundary := None; ge_pad_before := false; ge_body := (Some (BCumsum BArg)) |}
].
