(* Executable model of xgcm/padding.py for grids without face connections:
   pad() and _pad_basic(). *)
From Coq Require Import List Bool ZArith String.
From XV Require Import Base.Res Base.Assoc Base.Seq1D Base.Tensor Model.Axis Model.GridCtor.
Import ListNotations.
Open Scope string_scope.
Open Scope nat_scope.
Open Scope list_scope.

Section Pad.
  Context {A : Type} (dflt : A).

  (* a resolved padding request along one dimension *)
  Record padspec : Type := { ps_dim : string; ps_rule : rule; ps_fill : A; ps_lo : nat; ps_hi : nat }.

  Definition pad_dim (p : padspec) (t : tensor A) : tensor A :=
    map_dim dflt (ps_dim p) (ps_dim p) (ps_lo p + size (ps_dim p) t + ps_hi p)
            (pad1 (ps_rule p) (ps_fill p) (ps_lo p) (ps_hi p)) t.

  Definition pad_dims (ps : list padspec) (t : tensor A) : tensor A :=
    fold_left (fun acc p => pad_dim p acc) ps t.

  (* the body of the loop of _pad_basic, up to the xarray call: axis lookup, dimension of
     the ORIGINAL array on that axis, mode translation, fill value *)
  Definition resolve_one (g : grid A) (dadims : list string)
             (padding : list (string * option bword)) (fillv : list (string * option A))
             (w : string * (nat * nat)) : res padspec :=
    let '(ax, (lo, hi)) := w in
    do a <- find_axis g ax;
    do pd <- get_position_name a dadims;
    match lookupS ax padding with
    | None => Err KeyError
    | Some b =>
      do r <- pad_mode b;
      match r with
      | Fill => match lookupS ax fillv with
                | None => Err KeyError
                | Some None => Err TypeError          (* constant_values=None *)
                | Some (Some c) => Ok {| ps_dim := snd pd; ps_rule := r; ps_fill := c;
                                         ps_lo := lo; ps_hi := hi |}
                end
      | _ => Ok {| ps_dim := snd pd; ps_rule := r; ps_fill := dflt; ps_lo := lo; ps_hi := hi |}
      end
    end.

  Fixpoint resolve_all g dadims padding fillv (ws : list (string * (nat * nat)))
    : res (list padspec) :=
    match ws with
    | [] => Ok []
    | w :: r => do p <- resolve_one g dadims padding fillv w;
                do rest <- resolve_all g dadims padding fillv r;
                Ok (p :: rest)
    end.

  (* every boundary word of the completed per-axis mapping is one pad() understands *)
  Definition words_known (padding : list (string * option bword)) : bool :=
    forallb (fun p : string * option bword =>
               match snd p with Some BUnknown => false | _ => true end) padding.

  (* xgcm.padding.pad on a grid without face connections.  [boundary_width = None] is
     modelled by [None]. Returns the (possibly unchanged) array. *)
  Definition pad (g : grid A) (t : tensor A) (bw : option (list (string * (nat * nat))))
             (boundary : kw bword) (fill_value : kw A) : res (tensor A) :=
    let padding := complete_kwargs g (@ax_boundary A) boundary in
    let fillv := complete_kwargs g (@ax_fill A) fill_value in
    (* an unknown boundary word is refused before anything else, padding or not *)
    if negb (words_known padding) then Err ValueError else
    match bw with
    | None => Ok t
    | Some ws =>
      if forallb (fun w => (fst (snd w) =? 0) && (snd (snd w) =? 0)) ws then Ok t
      else do ps <- resolve_all g (dnames (dims t)) padding fillv ws;
           Ok (pad_dims ps t)
    end.
End Pad.
