(* Executable model of xgcm/axis.py: positions, Axis construction, position lookup. *)
From Coq Require Import List Bool ZArith String.
From XV Require Import Base.Res Base.Assoc Base.Seq1D.
Import ListNotations.
Open Scope string_scope.
Open Scope nat_scope.
Open Scope list_scope.

Inductive pos : Type := Center | Left | Right | Inner | Outer.

Definition pos_eqb (a b : pos) : bool :=
  match a, b with
  | Center, Center | Left, Left | Right, Right | Inner, Inner | Outer, Outer => true
  | _, _ => false
  end.
Lemma pos_eqb_spec a b : pos_eqb a b = true <-> a = b.
Proof. destruct a, b; simpl; split; intros; try reflexivity; discriminate. Qed.

Definition pos_name (p : pos) : string :=
  match p with Center => "center" | Left => "left" | Right => "right"
             | Inner => "inner" | Outer => "outer" end.
Definition all_pos : list pos := [Center; Left; Right; Inner; Outer].
Definition pos_of_name (s : string) : option pos :=
  find (fun p => String.eqb (pos_name p) s) all_pos.

Definition lookupP {V} := @lookup pos V pos_eqb.
Definition memP := @memk pos pos_eqb.

(* The staggered-grid geometry in doubled coordinates; the independent oracle of
   C01, C09 and C14.  Cell i of an axis with N cells spans [2i, 2i+2]. *)
Definition coord2 (p : pos) (i : Z) : Z :=
  match p with
  | Center => 2 * i + 1 | Left => 2 * i | Right => 2 * i + 2
  | Outer => 2 * i | Inner => 2 * i + 2
  end%Z.
Definition plen (p : pos) (N : nat) : nat :=
  match p with Outer => N + 1 | Inner => N - 1 | _ => N end.

(* boundary words as they arrive from the API *)
Inductive bword : Type := BPeriodic | BFill | BExtend | BUnknown.

Definition bword_eqb (a b : bword) : bool :=
  match a, b with
  | BPeriodic, BPeriodic | BFill, BFill | BExtend, BExtend | BUnknown, BUnknown => true
  | _, _ => false
  end.

(* _XGCM_BOUNDARY_KWARG_TO_XARRAY_PAD_KWARG, keyed by an optional word (None -> wrap) *)
Definition pad_mode (b : option bword) : res rule :=
  match b with
  | None | Some BPeriodic => Ok Periodic
  | Some BFill => Ok Fill
  | Some BExtend => Ok Extend
  | Some BUnknown => Err KeyError
  end.

(* FALLBACK_SHIFTS of axis.py (canonical copy; Generated/G2 is tied to it) *)
Definition fallback_shifts : list (pos * list pos) :=
  [ (Center, [Left; Right; Outer; Inner]); (Left, [Center]); (Right, [Center]);
    (Outer, [Center]); (Inner, [Center]) ].

Section Axis.
  Context {A : Type}.

  Record axis : Type := {
    ax_name : string;
    ax_coords : list (pos * string);      (* position -> dimension, insertion ordered *)
    ax_shifts : list (pos * pos);         (* _default_shifts *)
    ax_boundary : bword;
    ax_fill : A
  }.

  (* the loop of Axis.__init__ building _default_shifts *)
  Fixpoint mk_shifts_go (fb : list (pos * list pos)) (coords : list (pos * string))
           (user : list (pos * pos)) (todo : list (pos * string))
    : res (list (pos * pos)) :=
    match todo with
    | [] => Ok []
    | (p, _) :: r =>
      let s := match lookupP p user with
               | Some q => Some q
               | None => match lookupP p fb with
                         | Some cands => find (fun q => memP q (map fst coords)) cands
                         | None => None
                         end
               end in
      match s with
      | Some q => if pos_eqb q p then Err ValueError
                  else do rest <- mk_shifts_go fb coords user r; Ok ((p, q) :: rest)
      | None => mk_shifts_go fb coords user r
      end
    end.
  Definition mk_shifts fb coords user := mk_shifts_go fb coords user coords.

  (* Axis.__init__ (dims must exist in the dataset; boundary word must be known) *)
  Definition mk_axis (dsdims : list string) (name : string) (coords : list (pos * string))
             (user_shifts : list (pos * pos)) (boundary : option bword) (fill : option A)
             (zero : A) : res axis :=
    if negb (forallb (fun pd => memS (snd pd) dsdims) coords) then Err ValueError else
    do sh <- mk_shifts fallback_shifts coords user_shifts;
    let b := match boundary with None => BPeriodic | Some b => b end in
    match b with
    | BUnknown => Err ValueError
    | _ => Ok {| ax_name := name; ax_coords := coords; ax_shifts := sh; ax_boundary := b;
                 ax_fill := match fill with None => zero | Some v => v end |}
    end.

  (* Axis._get_position_name *)
  Definition get_position_name (ax : axis) (dadims : list string) : res (pos * string) :=
    let axis_dims := map snd (ax_coords ax) in
    let candidates := filter (fun d => memS d axis_dims) (nodup string_dec dadims) in
    match candidates with
    | [] => Err KeyError
    | [_] => match find (fun pd => memS (snd pd) dadims) (ax_coords ax) with
             | Some pd => Ok pd
             | None => Err RuntimeError
             end
    | _ => Err KeyError
    end.

  Definition grid : Type := list axis.     (* Grid.axes: OrderedDict in coords order *)

  Definition find_axis (g : grid) (name : string) : res axis :=
    match find (fun a => String.eqb (ax_name a) name) g with
    | Some a => Ok a
    | None => Err KeyError
    end.
End Axis.
Arguments axis : clear implicits.
Arguments grid : clear implicits.
