(* Executable model of Grid._1d_grid_ufunc_dispatch (grid.py 599-747) for one scalar
   input on a grid without face connections, together with the part of
   apply_as_grid_ufunc (grid_ufunc.py 561-819) it goes through. *)
From Coq Require Import List Bool ZArith String.
From XV Require Import Base.Res Base.Assoc Base.Ops Base.Seq1D Base.Tensor
     Model.Axis Model.GridCtor Model.Pad Model.GridOps.
Import ListNotations.
Open Scope string_scope.
Open Scope nat_scope.
Open Scope list_scope.

Section Dispatch.
  Context {A : Type} (o : Ops A) (ofZ : Z -> A).
  Let dflt := zero o.

  Record call01 : Type := {
    k_func : string;                 (* "diff" | "interp" | "min" | "max" *)
    k_axes : list string;
    k_to : kw pos;
    k_boundary : kw bword;
    k_fill : kw A
  }.

  (* to[ax_name], falling back on the axis' default shift *)
  Definition target_pos (a : axis A) (to : kw pos) (from : pos) : res pos :=
    do v <- match to with
            | KScalar v => Ok v
            | KMap m => match lookupS (ax_name a) m with Some v => Ok v | None => Err KeyError end
            end;
    match v with
    | Some p => Ok p
    | None => match lookupP from (ax_shifts a) with Some p => Ok p | None => Err KeyError end
    end.

  (* _create_1d_grid_ufunc_signatures: one (from, to) per axis, positions read off the
     ORIGINAL array *)
  Definition signature_of (g : grid A) (orig : list string) (to : kw pos) (axn : string)
    : res (axis A * pos * pos) :=
    do a <- find_axis g axn;
    do pd <- get_position_name a orig;
    do tp <- target_pos a to (fst pd);
    Ok (a, fst pd, tp).

  Definition step (tbl : list gentry) (g : grid A) (dssizes : dimlist) (c : call01)
             (orig : list string) (t : tensor A) (axn : string) : res (tensor A) :=
    do sg <- signature_of g orig (k_to c) axn;
    let '(a, from, tp) := sg in
    do e <- select (k_func c) from tp tbl;
    (* apply_as_grid_ufunc: the input must lie on the signature's position *)
    do din <- match lookupP from (ax_coords a) with Some d => Ok d | None => Err ValueError end;
    if negb (memS din (dnames (dims t))) then Err ValueError else
    do dout <- match lookupP tp (ax_coords a) with Some d => Ok d | None => Err KeyError end;
    let w := match ge_width e with Some w => w | None => (0, 0) end in
    do padded <- (if ge_pad_before e
                  then pad dflt g t (Some [(axn, w)]) (k_boundary c) (k_fill c)
                  else Ok t);
    do body <- match ge_body e with Some b => Ok b | None => Err NotImplementedError end;
    let newlen := List.length (eval o ofZ body (column padded din env0)) in
    let r := apply_core dflt din dout newlen (eval o ofZ body) padded in
    (* _reattach_coords: the grid's coordinate of the new dimension must fit *)
    if negb (newlen =? dsize dout dssizes) then Err ValueError else Ok r.

  Fixpoint steps tbl g dssizes c orig (t : tensor A) (axes : list string) : res (tensor A) :=
    match axes with
    | [] => Ok t
    | axn :: r => do t' <- step tbl g dssizes c orig t axn; steps tbl g dssizes c orig t' r
    end.

  Fixpoint mapM {T U} (f : T -> res U) (l : list T) : res (list U) :=
    match l with
    | [] => Ok []
    | x :: r => do y <- f x; do ys <- mapM f r; Ok (y :: ys)
    end.

  (* _transpose_to_keep_same_dim_order *)
  Definition restore_order (g : grid A) (orig : list string) (axes : list string)
             (r : tensor A) : res (tensor A) :=
    do shifted <- mapM (fun axn =>
                          do a <- find_axis g axn;
                          do old <- get_position_name a orig;
                          do new <- get_position_name a (dnames (dims r));
                          Ok (snd old, snd new)) axes;
    let shifted' := fold_left (fun acc (q : string * string) => assoc_set (fst q) (snd q) acc)
                              shifted [] in
    Ok (transpose (map (fun d => match lookupS d shifted' with Some n => n | None => d end) orig) r).

  Definition grid_op (tbl : list gentry) (g : grid A) (dssizes : dimlist) (c : call01)
             (t : tensor A) : res (tensor A) :=
    let orig := dnames (dims t) in
    do _ <- mapM (signature_of g orig (k_to c)) (k_axes c);
    do r <- steps tbl g dssizes c orig t (k_axes c);
    restore_order g orig (k_axes c) r.
End Dispatch.
