(* Executable model of Grid.cumsum (grid.py 1051-1193) without metric weighting, on a
   grid without face connections. *)
From Coq Require Import List Bool ZArith String.
From XV Require Import Base.Res Base.Assoc Base.Ops Base.Seq1D Base.Tensor
     Model.Axis Model.GridCtor Model.Pad Model.GridOps Model.Dispatch.
Import ListNotations.
Open Scope string_scope.
Open Scope nat_scope.
Open Scope list_scope.

(* the if/elif chain: (from, to) -> (trim the last value?, padding widths); canonical copy,
   Generated/G4 is tied to it *)
Definition cumsum_table : list ((pos * pos) * (bool * (nat * nat))) :=
  [ ((Center, Right), (false, (0, 0))); ((Left, Center), (false, (0, 0)));
    ((Center, Left), (true, (1, 0)));   ((Right, Center), (true, (1, 0)));
    ((Center, Inner), (true, (0, 0)));  ((Outer, Center), (true, (0, 0)));
    ((Center, Outer), (false, (1, 0))); ((Inner, Center), (false, (1, 0))) ].

Definition shift_eqb (a b : pos * pos) : bool :=
  pos_eqb (fst a) (fst b) && pos_eqb (snd a) (snd b).
Definition lookup_shift {V} := @lookup (pos * pos) V shift_eqb.

Section Cumsum.
  Context {A : Type} (o : Ops A).
  Let dflt := zero o.

  Record callcs : Type := {
    cs_axes : list string;
    cs_to : kw pos;
    cs_boundary : kw bword;
    cs_fill : kw A
  }.

  Definition cumsum_step (tbl : list ((pos * pos) * (bool * (nat * nat)))) (g : grid A)
             (dssizes : dimlist) (c : callcs) (orig : list string) (t : tensor A)
             (axn : string) : res (tensor A) :=
    do a <- find_axis g axn;
    do pd <- get_position_name a orig;
    let from := fst pd in let dim := snd pd in
    let data := map_dim dflt dim dim (size dim t) (cumsum o) t in
    do ax_to <- target_pos a (cs_to c) from;
    match lookup_shift (from, ax_to) tbl with
    | None => Err ValueError
    | Some (trim, w) =>
      let data := if trim then map_dim dflt dim dim (size dim t - 1) (@removelast A) data
                  else data in
      do padded <- pad dflt g data (Some [(axn, w)]) (cs_boundary c) (cs_fill c);
      do newdim <- match lookupP ax_to (ax_coords a) with Some d => Ok d | None => Err KeyError end;
      let renamed := rename_dim dim newdim padded in
      if negb (size newdim renamed =? dsize newdim dssizes) then Err ValueError else Ok renamed
    end.

  Fixpoint cumsum_steps tbl g dssizes c orig (t : tensor A) (axes : list string) : res (tensor A) :=
    match axes with
    | [] => Ok t
    | axn :: r => do t' <- cumsum_step tbl g dssizes c orig t axn;
                  cumsum_steps tbl g dssizes c orig t' r
    end.

  Definition grid_cumsum tbl (g : grid A) (dssizes : dimlist) (c : callcs) (t : tensor A)
    : res (tensor A) :=
    cumsum_steps tbl g dssizes c (dnames (dims t)) t (cs_axes c).
End Cumsum.
