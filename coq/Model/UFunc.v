(* Executable model of apply_as_grid_ufunc / GridUFunc.__call__ (xgcm/grid_ufunc.py 394-475,
   561-873, 1082-1109) on grids without face connections: option binding, dummy -> real
   axes, position check, core dimensions, padding, and the calling convention of the user
   function (a parameter of the model). *)
From Coq Require Import List Bool ZArith String.
From XV Require Import Base.Res Base.Assoc Base.Seq1D Base.Tensor
     Model.Axis Model.GridCtor Model.Pad Model.Signature Model.Dispatch.
Import ListNotations.
Open Scope string_scope.
Open Scope nat_scope.
Open Scope list_scope.

(* an option given at definition time and/or at call time: the call-time value wins *)
Definition resolve_option {V} (default : V) (bound call : option V) : V :=
  match call with Some v => v | None => match bound with Some v => v | None => default end end.

Fixpoint dedup_l (l : list string) : list string :=
  match l with
  | [] => []
  | x :: r => x :: filter (fun y => negb (String.eqb y x)) (dedup_l r)
  end.

(* _identify_dummy_axes_with_real_axes *)
Definition dummy_to_real (dummy : list (list string)) (axis : list (list string))
  : res (list (string * string)) :=
  if negb (List.length axis =? List.length dummy) then Err ValueError else
  if negb (forallb (fun p => List.length (fst p) =? List.length (snd p)) (combine axis dummy))
  then Err ValueError else
  let ud := dedup_l (List.concat dummy) in
  let ur := dedup_l (List.concat axis) in
  if negb (List.length ud =? List.length ur) then Err ValueError else Ok (combine ud ur).

Section UFunc.
  Context {A : Type} (dflt : A).

  Record ucall : Type := {
    u_sig : sig;                                           (* dummy axis names and positions *)
    u_axis : list (list string);                           (* real axes per argument *)
    u_bw : option (list (string * (nat * nat)));           (* keyed by DUMMY names *)
    u_boundary : kw bword; u_fill : kw A;
    u_pad_before : bool
  }.

  Definition dim_at (g : grid A) (n : string) (p : pos) : option string :=
    match find_axis g n with
    | Ok a => lookupP p (ax_coords a)
    | Err _ => None
    end.

  (* the check that every input lies on the positions the signature names *)
  Definition check_positions (g : grid A) (axis : list (list string)) (inpos : list (list pos))
             (args : list (tensor A)) : res unit :=
    forM_ (fun t : list string * list pos * tensor A =>
             let '(ns, ps, arg) := t in
             forM_ (fun np : string * pos =>
                      match dim_at g (fst np) (snd np) with
                      | None => Err ValueError
                      | Some d => if dhas d (dims arg) then Ok tt else Err ValueError
                      end) (combine ns ps))
          (combine (combine axis inpos) args).

  Definition core_dims (g : grid A) (axis : list (list string)) (poss : list (list pos))
    : res (list (list string)) :=
    mapM (fun np : list string * list pos =>
            mapM (fun x : string * pos => match dim_at g (fst x) (snd x) with
                                          | Some d => Ok d
                                          | None => Err KeyError
                                          end) (combine (fst np) (snd np)))
         (combine axis poss).

  (* _substitute_dummy_axis_names *)
  Definition substitute_bw (bw : option (list (string * (nat * nat)))) (d2r : list (string * string))
    : res (list (string * (nat * nat))) :=
    match bw with
    | Some ((_ :: _) as l) =>
      mapM (fun w : string * (nat * nat) => match lookupS (fst w) d2r with
                                             | Some r => Ok (r, snd w)
                                             | None => Err KeyError
                                             end) l
    | _ => Ok (map (fun dr : string * string => (snd dr, (0, 0))) d2r)
    end.

  (* what xr.apply_ufunc hands to the function for one argument: its own non-core
     dimensions (in the common broadcast order) first, the core dimensions last *)
  Definition as_received (bdims : list string) (core : list string) (t : tensor A) : tensor A :=
    transpose (filter (fun d => dhas d (dims t) && negb (memS d core)) bdims ++ core) t.

  Definition broadcast_dims (cores : list (list string)) (args : list (tensor A)) : list string :=
    dedup_l (List.concat (map (fun ct : list string * tensor A =>
                            filter (fun d => negb (memS d (fst ct))) (dnames (dims (snd ct))))
                         (combine cores args))).

  (* apply_as_grid_ufunc up to the call of the user function: the arrays it receives *)
  Definition ufunc_received (g : grid A) (c : ucall) (args : list (tensor A))
    : res (list (tensor A) * list (list string) * list (list string) * list (string * (nat * nat))) :=
    if negb (List.length args =? List.length (u_axis c)) then Err ValueError else
    let innames := map (map fst) (s_in (u_sig c)) in
    let inpos := map (map snd) (s_in (u_sig c)) in
    let outnames := map (map fst) (s_out (u_sig c)) in
    let outpos := map (map snd) (s_out (u_sig c)) in
    do d2r <- dummy_to_real innames (u_axis c);
    do out_ax <- mapM (mapM (fun n => match lookupS n d2r with Some r => Ok r | None => Err KeyError end)) outnames;
    do _ <- check_positions g (u_axis c) inpos args;
    do in_core <- core_dims g (u_axis c) inpos;
    do out_core <- core_dims g out_ax outpos;
    do bw <- substitute_bw (u_bw c) d2r;
    do padded <- (if u_pad_before c
                  then mapM (fun t => pad dflt g t (Some bw) (u_boundary c) (u_fill c)) args
                  else Ok args);
    (* xr.apply_ufunc(exclude_dims = all core dims): a core dimension of any input or
       output may appear in an input only as one of its own core dimensions *)
    let excl := List.concat in_core ++ List.concat out_core in
    if existsb (fun ct : list string * tensor A =>
                  existsb (fun d => memS d excl && negb (memS d (fst ct))) (dnames (dims (snd ct))))
               (combine in_core padded)
    then Err ValueError else
    let bdims := broadcast_dims in_core padded in
    Ok (map (fun ct : list string * tensor A => as_received bdims (fst ct) (snd ct)) (combine in_core padded),
        in_core, out_core, bw).

  (* the whole call for a user function [f] given on the labelled form of the arrays it
     receives; each output must come back with the grid's size on every declared output
     dimension (_reattach_coords) *)
  Definition ufunc_apply (g : grid A) (dssizes : dimlist) (c : ucall)
             (f : list (tensor A) -> list (list string) -> list (list string) -> list (tensor A))
             (args : list (tensor A)) : res (list (tensor A) * list (tensor A)) :=
    do r <- ufunc_received g c args;
    let '(recv, in_core, out_core, bw) := r in
    let outs := f recv in_core out_core in
    if negb (List.length outs =? List.length out_core) then Err ValueError else
    do padded <- (if u_pad_before c then Ok outs
                  else mapM (fun t => pad dflt g t (Some bw) (u_boundary c) (u_fill c)) outs);
    do _ <- forM_ (fun oc : tensor A * list string =>
                     forM_ (fun d => if dsize d (dims (fst oc)) =? dsize d dssizes
                                     then Ok tt else Err ValueError) (snd oc))
                  (combine padded out_core);
    Ok (recv, padded).

  (* The user functions of the correspondence runs ("functions that trim what was padded"):
     output j is the first received array cut along its i-th core axis to [len] entries
     from [start] and moved to core position m of the output (Some (m, start, len)), or
     taken at entry 0 (None). *)
  Definition trim_plan : Type := list (list (option (nat * nat * nat))).

  Definition user_trim (plan : trim_plan) (recv : list (tensor A))
             (in_core out_core : list (list string)) : list (tensor A) :=
    match recv, in_core with
    | r0 :: _, core0 :: _ =>
      let lead := filter (fun d => negb (memS d core0)) (dnames (dims r0)) in
      map (fun po : list (option (nat * nat * nat)) * list string =>
             let t := fold_left
                        (fun acc (x : string * option (nat * nat * nat)) =>
                           match snd x with
                           | None => isel_index (fst x) 0 acc
                           | Some (m, st, ln) =>
                             rename_dim (fst x) (nth m (snd po) "")
                                        (isel_range (fst x) st (Nat.min ln (size (fst x) acc - st)) acc)
                           end) (combine core0 (fst po)) r0 in
             transpose (lead ++ snd po) t)
          (combine plan out_core)
    | _, _ => []
    end.
End UFunc.
