(* Executable model of Grid._assign_face_connections (xgcm/grid.py 314-389)
   and of the constructor lines that reach it (244-245, 262-263). No proofs here. *)
From Coq Require Import List Bool ZArith String.
From XV Require Import Base.Res Base.Assoc.
Import ListNotations.
Open Scope string_scope.

Definition link : Type := (Z * string * bool)%type.       (* (face, axis, reverse) *)
Definition sides : Type := (option link * option link)%type.  (* (left, right) *)
Definition facetab : Type := list (Z * list (string * sides)).

Record fc_input : Type := {
  fc_dict   : list (string * facetab);  (* the face_connections dict: facedim -> table *)
  fc_dsdims : list string;              (* ds.dims *)
  fc_faces  : list Z;                   (* ds[facedim].values of the first key *)
  fc_axes   : list string               (* grid.axes keys *)
}.

(* axis_links[position] for a 2-tuple; positions other than 0/1 -> IndexError caught as KeyError *)
Definition side_at (t : sides) (pos : nat) : option link :=
  match pos with O => fst t | _ => snd t end.

Definition check_neighbor (tbl : facetab) (axes : list string) (faces : list Z)
           (fidx : Z) (axis : string) (l : option link) (position : nat) : res unit :=
  match l with
  | None => Ok tt
  | Some (idx, ax, rev) =>
    let correct_position := if rev then (1 - position)%nat else position in
    match lookupZ idx tbl with
    | None => Err KeyError
    | Some fa =>
      match lookupS ax fa with
      | None => Err KeyError
      | Some t =>
        match side_at t correct_position with
        | None => Err TypeError          (* unpacking None *)
        | Some (idx_n, ax_n, rev_n) =>
          if negb (memS ax axes) then Err KeyError
          else if negb (memS ax_n axes) then Err KeyError
          else if negb (memZ idx faces) then Err IndexError
          else if negb (memZ idx_n faces) then Err IndexError
          else if negb (Z.eqb idx_n fidx) || negb (String.eqb ax_n axis)
                  || negb (Bool.eqb rev_n rev)
               then Err ValueError
               else Ok tt
        end
      end
    end
  end.

Definition check_face_axis (tbl : facetab) axes faces (fidx : Z) (e : string * sides) : res unit :=
  let '(axis, (l, r)) := e in
  do _ <- check_neighbor tbl axes faces fidx axis l 1;
  check_neighbor tbl axes faces fidx axis r 0.

Definition check_face (tbl : facetab) axes faces (e : Z * list (string * sides)) : res unit :=
  forM_ (check_face_axis tbl axes faces (fst e)) (snd e).

Definition axis_keys (tbl : facetab) : list string :=
  flat_map (fun e => map fst (snd e)) tbl.

Definition assign (inp : fc_input) : res unit :=
  match fc_dict inp with
  | [] => Err IndexError                    (* list(fc.keys())[0] on {} *)
  | [(facedim, tbl)] =>
    if negb (memS facedim (fc_dsdims inp)) then Err ValueError
    else
      do _ <- forM_ (check_face tbl (fc_axes inp) (fc_faces inp)) tbl;
      forM_ (fun a => if memS a (fc_axes inp) then Ok tt else Err KeyError) (axis_keys tbl)
  | _ :: _ :: _ => Err ValueError           (* more than one face dimension *)
  end.
