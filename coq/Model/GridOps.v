(* The table of predefined 1-D grid ufuncs (xgcm/gridops.py): entry type, the array
   expression language their bodies are written in, its evaluation on one column, and
   selection by name prefix + one-axis signature (grid.py _select_grid_ufunc). *)
From Coq Require Import List Bool ZArith String.
From XV Require Import Base.Res Base.Assoc Base.Ops Base.Seq1D Model.Axis.
Import ListNotations.
Open Scope string_scope.
Open Scope nat_scope.
Open Scope list_scope.

Inductive bexpr : Type :=
| BArg                                   (* the (padded) input column a *)
| BTail (e : bexpr)                      (* e[..., 1:] *)
| BInit (e : bexpr)                      (* e[..., :-1] *)
| BSub (a b : bexpr) | BAdd (a b : bexpr) | BMul (a b : bexpr) | BDiv (a b : bexpr)
| BDivC (e : bexpr) (c : Z) | BMulC (e : bexpr) (c : Z)
| BMinStack (a b : bexpr)                (* np.min(np.stack([a, b], axis=-1), axis=-1) *)
| BMaxStack (a b : bexpr)
| BCumsum (e : bexpr).                   (* np.cumsum(e, axis=-1) *)

Record gentry : Type := {
  ge_name : string;
  ge_from : pos; ge_to : pos;
  ge_width : option (nat * nat);
  ge_fill : option Z;
  ge_boundary : option string;
  ge_pad_before : bool;
  ge_body : option bexpr        (* None: the function raises NotImplementedError *)
}.

Fixpoint bexpr_eqb (x y : bexpr) : bool :=
  match x, y with
  | BArg, BArg => true
  | BTail a, BTail b | BInit a, BInit b | BCumsum a, BCumsum b => bexpr_eqb a b
  | BSub a b, BSub c d | BAdd a b, BAdd c d | BMul a b, BMul c d | BDiv a b, BDiv c d
  | BMinStack a b, BMinStack c d | BMaxStack a b, BMaxStack c d =>
      bexpr_eqb a c && bexpr_eqb b d
  | BDivC a c, BDivC b d | BMulC a c, BMulC b d => bexpr_eqb a b && Z.eqb c d
  | _, _ => false
  end.

Section Eval.
  Context {A : Type} (o : Ops A) (ofZ : Z -> A).

  Fixpoint map2 (f : A -> A -> A) (x y : list A) : list A :=
    match x, y with
    | a :: x', b :: y' => f a b :: map2 f x' y'
    | _, _ => []
    end.

  Fixpoint cumsum_from (acc : A) (x : list A) : list A :=
    match x with
    | [] => []
    | a :: r => let s := add o acc a in s :: cumsum_from s r
    end.
  Definition cumsum (x : list A) : list A := cumsum_from (zero o) x.

  Fixpoint eval (e : bexpr) (a : list A) : list A :=
    match e with
    | BArg => a
    | BTail e => tl (eval e a)
    | BInit e => removelast (eval e a)
    | BSub x y => map2 (sub o) (eval x a) (eval y a)
    | BAdd x y => map2 (add o) (eval x a) (eval y a)
    | BMul x y => map2 (mul o) (eval x a) (eval y a)
    | BDiv x y => map2 (div o) (eval x a) (eval y a)
    | BDivC x c => map (fun v => div o v (ofZ c)) (eval x a)
    | BMulC x c => map (fun v => mul o v (ofZ c)) (eval x a)
    | BMinStack x y => map2 (omin o) (eval x a) (eval y a)
    | BMaxStack x y => map2 (omax o) (eval x a) (eval y a)
    | BCumsum x => cumsum (eval x a)
    end.
End Eval.

Definition is_prefix (p s : string) : bool := String.prefix p s.

(* _select_grid_ufunc for the one-axis signatures built by the dispatch: candidates by
   name prefix; among them the entries whose (from, to) positions are the requested
   ones (signature equivalence of one-axis one-argument signatures) *)
Definition select (funcname : string) (from to : pos) (tbl : list gentry) : res gentry :=
  match filter (fun e => is_prefix funcname (ge_name e)) tbl with
  | [] => Err NotImplementedError
  | named =>
    match filter (fun e => pos_eqb (ge_from e) from && pos_eqb (ge_to e) to) named with
    | [] => Err NotImplementedError
    | [e] => Ok e
    | _ => Err ValueError
    end
  end.
