(* Executable model of Grid.set_metrics (grid.py 391-435) and of the constructor's
   `metrics=` loop.  A DataArray in the registry is its (name, dims). *)
From Coq Require Import List Bool ZArith String.
From XV Require Import Base.Res Base.Assoc.
Import ListNotations.
Open Scope string_scope.
Open Scope nat_scope.
Open Scope list_scope.

Definition subsetS (a b : list string) : bool := forallb (fun x => memS x b) a.
Definition set_eqb (a b : list string) : bool := subsetS a b && subsetS b a.

Definition varinfo : Type := (string * list string)%type.       (* (name, dims) *)
Definition registry : Type := list (list string * list varinfo).  (* frozenset(axes) -> list *)

Record reg_env : Type := {
  re_axes : list string;                       (* grid.axes *)
  re_vars : list (string * list string)        (* ds.variables: name -> dims *)
}.

Record reg_call : Type := { rc_key : list string; rc_names : list string; rc_overwrite : bool }.

Fixpoint find_key (k : list string) (r : registry) : option (list varinfo) :=
  match r with
  | [] => None
  | (k', l) :: rest => if set_eqb k k' then Some l else find_key k rest
  end.

Fixpoint set_key (k : list string) (l : list varinfo) (r : registry) : registry :=
  match r with
  | [] => [(k, l)]
  | (k', l') :: rest => if set_eqb k k' then (k', l) :: rest else (k', l') :: set_key k l rest
  end.

(* the inner loop over the existing values: replace every entry with the same dimension
   set (overwrite) or raise at the first one; returns the list as mutated so far *)
Fixpoint scan (v : varinfo) (overwrite : bool) (l : list varinfo)
  : list varinfo * bool * res unit :=      (* (list, did_overwrite, outcome) *)
  match l with
  | [] => ([], false, Ok tt)
  | ve :: rest =>
    if set_eqb (snd v) (snd ve) then
      if overwrite then
        let '(rest', _, out) := scan v overwrite rest in (v :: rest', true, out)
      else (ve :: rest, false, Err ValueError)
    else
      let '(rest', did, out) := scan v overwrite rest in (ve :: rest', did, out)
  end.

Definition register_one (v : varinfo) (overwrite : bool) (l : list varinfo)
  : list varinfo * res unit :=
  let '(l', did, out) := scan v overwrite l in
  match out with
  | Err e => (l', Err e)
  | Ok _ => (if did then l' else l' ++ [v], Ok tt)
  end.

Fixpoint register_all (vs : list varinfo) (overwrite : bool) (l : list varinfo)
  : list varinfo * res unit :=
  match vs with
  | [] => (l, Ok tt)
  | v :: rest => let '(l', out) := register_one v overwrite l in
                 match out with
                 | Err e => (l', Err e)
                 | Ok _ => register_all rest overwrite l'
                 end
  end.

Fixpoint infos (env : reg_env) (names : list string) : option (list varinfo) :=
  match names with
  | [] => Some []
  | n :: r => match lookupS n (re_vars env), infos env r with
              | Some ds, Some l => Some ((n, ds) :: l)
              | _, _ => None
              end
  end.

(* set_metrics: returns the registry as left behind, and whether the call raised *)
Definition set_metrics (env : reg_env) (reg : registry) (c : reg_call) : registry * res unit :=
  if negb (forallb (fun a => memS a (re_axes env)) (rc_key c)) then (reg, Err KeyError) else
  match infos env (rc_names c) with
  | None => (reg, Err KeyError)
  | Some vs =>
    match find_key (rc_key c) reg with
    | Some l => let '(l', out) := register_all vs (rc_overwrite c) l in
                (set_key (rc_key c) l' reg, out)
    | None => (reg ++ [(rc_key c, vs)], Ok tt)
    end
  end.

(* a history of calls; a call that raises leaves its partial effect, later calls go on
   (the caller caught the exception) *)
Fixpoint run_history (env : reg_env) (reg : registry) (cs : list reg_call)
  : registry * list (res unit) :=
  match cs with
  | [] => (reg, [])
  | c :: r => let '(reg', out) := set_metrics env reg c in
              let '(reg'', outs) := run_history env reg' r in (reg'', out :: outs)
  end.
