(* Executable model of xgcm/sgrid.py and of metadata_parsers.parse_metadata / parse_sgrid. *)
From Coq Require Import List Bool ZArith String Ascii.
From XV Require Import Base.Res Base.Assoc Model.Axis Model.Comodo Model.Signature.
Import ListNotations.
Open Scope string_scope.
Open Scope nat_scope.
Open Scope list_scope.

Definition is_space (c : ascii) : bool :=
  let n := nat_of_ascii c in (n =? 32) || ((9 <=? n) && (n <=? 13)).

(* str.split() : split on runs of whitespace, no empty pieces *)
Fixpoint py_split_go (cur : list ascii) (s : list ascii) : list (list ascii) :=
  match s with
  | [] => match cur with [] => [] | _ => [rev cur] end
  | c :: r => if is_space c
              then match cur with [] => py_split_go [] r | _ => rev cur :: py_split_go [] r end
              else py_split_go (c :: cur) r
  end.
Definition py_split (s : string) : list string := map str (py_split_go [] (chars s)).

Definition replace_char (a b : ascii) (s : string) : string :=
  str (map (fun c => if Ascii.eqb c a then b else c) (chars s)).
Definition remove_char (a : ascii) (s : string) : string :=
  str (filter (fun c => negb (Ascii.eqb c a)) (chars s)).

(* the attributes of the grid_topology variable *)
Record sgrid_attrs : Type := {
  sg_ndim : nat;                         (* topology_dimension *)
  sg_node : option string;               (* node_dimensions *)
  sg_face : option string;               (* face_dimensions *)
  sg_volume : option string;             (* volume_dimensions *)
  sg_vertical : option string            (* vertical_dimensions *)
}.

Definition pad2pos (w : string) : option pos :=
  if String.eqb w "high" then Some Left
  else if String.eqb w "low" then Some Right
  else if String.eqb w "both" then Some Inner
  else if String.eqb w "none" then Some Outer
  else None.

Definition sgrid_axes (a : sgrid_attrs) : res (list string) :=
  match sg_ndim a with
  | 1 => Ok ["X"]
  | 2 => Ok (["X"; "Y"] ++ match sg_vertical a with Some _ => ["Z"] | None => [] end)
  | 3 => Ok ["X"; "Y"; "Z"]
  | _ => Err ValueError
  end.

Definition nth_res {T} (l : list T) (i : nat) : res T :=
  match nth_error l i with Some x => Ok x | None => Err IndexError end.

(* tokens[i-1] with Python's negative index for i = 0 *)
Definition nth_before {T} (l : list T) (i : nat) : res T :=
  match i with
  | 0 => match rev l with x :: _ => Ok x | [] => Err IndexError end
  | S j => nth_res l j
  end.

Fixpoint indices_of (x : string) (l : list string) (i : nat) : list nat :=
  match l with
  | [] => []
  | y :: r => if String.eqb x y then i :: indices_of x r (S i) else indices_of x r (S i)
  end.

Definition cell_entry (text : string) (node : string) : res (string * string) :=
  let toks := py_split (replace_char ":" " " text) in
  match indices_of node toks 0 with
  | [i] => do cell <- nth_before toks i;
           do padw <- nth_res toks (i + 2);
           Ok (cell, remove_char ")" padw)
  | _ => Err IndexError
  end.

Definition sgrid_axis (a : sgrid_attrs) (axis_name : string) : res (list (pos * string)) :=
  do i_select <- (if String.eqb axis_name "X" then Ok 0 else if String.eqb axis_name "Y" then Ok 1
                  else if String.eqb axis_name "Z" then Ok 2 else Err ValueError);
  do cnp <- (match (if String.eqb axis_name "Z" then sg_vertical a else None) with
             | Some v =>
               let toks := py_split (replace_char ":" " " v) in
               do node <- nth_res toks 1; do cell <- nth_res toks 0; do padw <- nth_res toks 3;
               Ok (cell, node, remove_char ")" padw)
             | None =>
               match sg_node a with
               | None => Err ValueError
               | Some nd =>
                 do node <- nth_res (py_split nd) i_select;
                 match sg_ndim a with
                 | 1 | 2 => match sg_face a with
                            | None => Err KeyError
                            | Some t => do cp <- cell_entry t node; Ok (fst cp, node, snd cp)
                            end
                 | 3 => match sg_volume a with
                        | None => Err KeyError
                        | Some t => do cp <- cell_entry t node; Ok (fst cp, node, snd cp)
                        end
                 | _ => Err ValueError
                 end
               end
             end);
  let '(cell, node, padw) := cnp in
  match pad2pos padw with
  | Some p => Ok [(Center, cell); (p, node)]
  | None => Err KeyError
  end.

Definition parse_sgrid (a : sgrid_attrs) : res (list (string * list (pos * string))) :=
  do axes <- sgrid_axes a;
  mapM_res (fun ax => do c <- sgrid_axis a ax; Ok (ax, c)) axes.

(* assert_valid_sgrid: the Conventions attribute mentions SGRID *)
Fixpoint contains (needle hay : list ascii) : bool :=
  match hay with
  | [] => match needle with [] => true | _ => false end
  | _ :: r => (fix pre (n h : list ascii) : bool :=
                 match n, h with
                 | [], _ => true
                 | a :: n', b :: h' => Ascii.eqb a b && pre n' h'
                 | _, [] => false
                 end) needle hay || contains needle r
  end.
Definition declares_sgrid (conventions : option string) : bool :=
  match conventions with
  | None => false
  | Some c => contains (chars "SGRID") (chars c) || contains (chars "sgrid") (chars c)
              || contains (chars "Sgrid") (chars c)
  end.

(* parse_metadata: SGRID when the dataset declares it, COMODO otherwise *)
Definition parse_metadata (conventions : option string) (sg : option sgrid_attrs) (ds : list cdim)
  : res (list (string * list (pos * string))) :=
  if declares_sgrid conventions then
    match sg with Some a => parse_sgrid a | None => Err ValueError end
  else parse_comodo ds.

(* the merge block of Grid.__init__: user-supplied coords together with parsed ones are
   refused *)
Definition ctor_coords (user : option (list (string * list (pos * string))))
           (parsed : res (list (string * list (pos * string))))
  : res (list (string * list (pos * string))) :=
  do p <- parsed;
  match user, p with
  | Some _, _ => Err ValueError            (* 'coords' is always among the parsed kwargs: conflict *)
  | None, [] => Err ValueError             (* no axis could be determined (Axis loop finds none) *)
  | None, _ => Ok p
  end.
