(* Executable model of _GridUFuncSignature (xgcm/grid_ufunc.py 33-320): the signature
   patterns, parsing from a string, printing, and equivalence up to renaming of the dummy
   axis names.  ASCII identifiers only (Python's Unicode \w is not modelled). *)
From Coq Require Import List Bool Ascii String Arith.
From XV Require Import Base.Res Base.Assoc Base.Regex Model.Axis.
Import ListNotations.
Open Scope char_scope.
Open Scope list_scope.

Definition is_word (c : ascii) : bool :=
  let n := nat_of_ascii c in
  (((48 <=? n) && (n <=? 57)) || ((65 <=? n) && (n <=? 90)) || ((97 <=? n) && (n <=? 122)) || (n =? 95))%nat.
Definition is_newline (c : ascii) : bool := Ascii.eqb c "010".

Definition chars (s : string) : list ascii := list_ascii_of_string s.

(* the seven patterns, composed as the source composes them *)
Fixpoint LitNE (s : list ascii) : re :=
  match s with
  | [] => Eps
  | [c] => Chr (Ascii.eqb c)
  | c :: r => Cat (Chr (Ascii.eqb c)) (LitNE r)
  end.
Definition AXIS_NAME : re := Plus (Chr is_word).
Definition AXIS_POSITION : re :=
  Alt (LitNE (chars "center")) (Alt (LitNE (chars "left")) (Alt (LitNE (chars "right"))
      (Alt (LitNE (chars "inner")) (LitNE (chars "outer"))))).
Definition PAIR : re := Cat AXIS_NAME (Cat (Chr (Ascii.eqb ":")) AXIS_POSITION).
Definition PAIR_LIST : re := Opt (Cat PAIR (Star (Cat (Chr (Ascii.eqb ",")) PAIR))).
Definition ARGUMENT : re := Cat (Chr (Ascii.eqb "(")) (Cat PAIR_LIST (Chr (Ascii.eqb ")"))).
Definition ARGUMENT_LIST : re := Cat ARGUMENT (Star (Cat (Chr (Ascii.eqb ",")) ARGUMENT)).
Definition SIGNATURE : re := Cat ARGUMENT_LIST (Cat (LitNE (chars "->")) ARGUMENT_LIST).

(* a signature value: per argument its (dummy axis name, position) pairs *)
Definition sarg : Type := list (string * pos).
Record sig : Type := { s_in : list sarg; s_out : list sarg }.

(* __str__ *)
Definition join (sep : string) (l : list string) : string :=
  match l with
  | [] => ""%string
  | x :: r => fold_left (fun acc y => (acc ++ sep ++ y)%string) r x
  end.
Definition print_pair (p : string * pos) : string := (fst p ++ ":" ++ pos_name (snd p))%string.
Definition print_arg (a : sarg) : string := ("(" ++ join "," (map print_pair a) ++ ")")%string.
Definition print_args (l : list sarg) : string := join "," (map print_arg l).
Definition print_sig (s : sig) : string := (print_args (s_in s) ++ "->" ++ print_args (s_out s))%string.

(* scanners standing for the re.findall calls on already validated text *)
Fixpoint split_on (sep : ascii) (cur : list ascii) (s : list ascii) : list (list ascii) :=
  match s with
  | [] => [rev cur]
  | c :: r => if Ascii.eqb c sep then rev cur :: split_on sep [] r else split_on sep (c :: cur) r
  end.

(* the contents of the parenthesised groups, left to right *)
Fixpoint find_arguments (inside : option (list ascii)) (s : list ascii) : list (list ascii) :=
  match s with
  | [] => []
  | c :: r =>
    match inside with
    | None => if Ascii.eqb c "("%char then find_arguments (Some []) r else find_arguments None r
    | Some cur => if Ascii.eqb c ")" then rev cur :: find_arguments None r
                  else find_arguments (Some (c :: cur)) r
    end
  end.

Definition str (l : list ascii) : string := string_of_list_ascii l.

(* (name):(position) pairs of one argument *)
Definition split_pairs (content : list ascii) : list (string * pos) :=
  match content with
  | [] => []
  | _ =>
    flat_map (fun piece =>
      match split_on ":" [] piece with
      | [n; p] => match pos_of_name (str p) with Some q => [(str n, q)] | None => [] end
      | _ => []
      end) (split_on "," [] content)
  end.

Definition remove_spaces (s : list ascii) : list ascii := filter (fun c => negb (Ascii.eqb c " ")) s.

(* first occurrence of "->" *)
Fixpoint split_arrow (acc : list ascii) (s : list ascii) : option (list ascii * list ascii) :=
  match s with
  | "-" :: ">" :: r => Some (rev acc, r)
  | c :: r => split_arrow (c :: acc) r
  | [] => None
  end.

(* _parse_signature_from_string + the constructor *)
Definition parse_string (text : string) : res sig :=
  let s := remove_spaces (chars text) in
  if negb (matches SIGNATURE s) then Err ValueError else
  match split_arrow [] s with
  | None => Err ValueError
  | Some (in_txt, out_txt) =>
    let ins := map split_pairs (find_arguments None in_txt) in
    let outs := map split_pairs (find_arguments None out_txt) in
    match ins with
    | [] => Err ValueError
    | _ => Ok {| s_in := ins; s_out := outs |}
    end
  end.

(* equivalent(): number the dummy names in order of first appearance, compare *)
Fixpoint number_names (names : list string) (env : list (string * nat)) : list nat * list (string * nat) :=
  match names with
  | [] => ([], env)
  | n :: r =>
    match lookupS n env with
    | Some k => let '(ks, env') := number_names r env in (k :: ks, env')
    | None => let k := List.length env in
              let '(ks, env') := number_names r (env ++ [(n, k)]) in (k :: ks, env')
    end
  end.

Definition all_names (s : sig) : list string :=
  flat_map (map fst) (s_in s) ++ flat_map (map fst) (s_out s).
Definition shape (s : sig) : list (list pos) * list (list pos) :=
  (map (map snd) (s_in s), map (map snd) (s_out s)).

Definition canonical (s : sig) : list nat * (list (list pos) * list (list pos)) :=
  (fst (number_names (all_names s) []), shape s).

Definition list_pos_eqb (a b : list pos) : bool :=
  (List.length a =? List.length b)%nat && forallb (fun p => pos_eqb (fst p) (snd p)) (combine a b).
Definition shape_eqb (a b : list (list pos)) : bool :=
  (List.length a =? List.length b)%nat && forallb (fun p => list_pos_eqb (fst p) (snd p)) (combine a b).
Definition nats_eqb (a b : list nat) : bool :=
  (List.length a =? List.length b)%nat && forallb (fun p => Nat.eqb (fst p) (snd p)) (combine a b).

Definition equivalent (a b : sig) : bool :=
  nats_eqb (fst (canonical a)) (fst (canonical b)) &&
  shape_eqb (fst (snd (canonical a))) (fst (snd (canonical b))) &&
  shape_eqb (snd (snd (canonical a))) (snd (snd (canonical b))).
