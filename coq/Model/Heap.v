(* A small store model for C18: what a function body may do to the objects its caller
   handed in.  Objects live at locations; every object has one "interior" (the objects
   reachable through it: dict values, attrs, data buffers), itself an object.  A body is a
   list of actions extracted from the Python source (translator G18); conditionals are kept
   ([AIf]; loops and try blocks are linearised onto it by the translator).  The static check [confined] is the
   alias analysis; Proofs/P18.v proves it sound for this store semantics. *)
From Coq Require Import List Bool ZArith String.
From XV Require Import Base.Assoc.
Import ListNotations.
Open Scope string_scope.
Open Scope nat_scope.
Open Scope list_scope.

Definition var := string.
Definition loc := nat.

Inductive action : Type :=
| ABindFresh (x : var)               (* x = a new object with a new interior: literal without names *)
| ABindShallow (x y : var)           (* x = a new object sharing y's interior: y.copy(), dict(y), {star-star y}, y.method(...) *)
| ABindAlias (x y : var)             (* x = y *)
| ABindSub (x y : var)               (* x = part of y: y[k], y.attr, for x in y.items() *)
| ABindUnknown (x : var)             (* x = something that may belong to the caller: result of an arbitrary call *)
| AMutate (x : var)                  (* in-place change of the object x names: x[k] = v, x.attr = v, x.pop() *)
| AMutateDeep (x : var)              (* in-place change inside it: x.attrs[k] = v, x[k].pop() *)
| AIf (t e : list action).           (* if ...: t else: e -- also one (possibly skipped) round of a loop body,
                                        a try block and its handlers *)

(* ---- store semantics ---- *)
Record heap : Type := {
  h_env : var -> loc;                (* unbound names point at location 0 (caller-owned) *)
  h_ver : loc -> nat;                (* how often the object at a location was changed in place *)
  h_in : loc -> loc;                 (* interior *)
  h_next : loc                       (* allocation pointer *)
}.

Definition upd_env (e : var -> loc) (x : var) (l : loc) : var -> loc :=
  fun y => if String.eqb y x then l else e y.
Definition upd_nat (f : loc -> nat) (l : loc) (v : nat) : loc -> nat :=
  fun k => if Nat.eqb k l then v else f k.

(* [choices]: which of the conditional actions run, and where an unknown binding points *)
Section Exec.
  Fixpoint exec1 (a : action) (ch : list nat) (h : heap) {struct a} : heap * list nat :=
    let run := fix run (l : list action) (ch : list nat) (h : heap) {struct l} : heap * list nat :=
                 match l with
                 | [] => (h, ch)
                 | x :: r => let '(h', ch') := exec1 x ch h in run r ch' h'
                 end in
    match a with
    | ABindFresh x =>
      let p := h_next h in let c := S p in
      ({| h_env := upd_env (h_env h) x p; h_ver := h_ver h;
          h_in := upd_nat (upd_nat (h_in h) p c) c c; h_next := S c |}, ch)
    | ABindShallow x y =>
      let p := h_next h in
      ({| h_env := upd_env (h_env h) x p; h_ver := h_ver h;
          h_in := upd_nat (h_in h) p (h_in h (h_env h y)); h_next := S p |}, ch)
    | ABindAlias x y =>
      ({| h_env := upd_env (h_env h) x (h_env h y); h_ver := h_ver h; h_in := h_in h; h_next := h_next h |}, ch)
    | ABindSub x y =>
      ({| h_env := upd_env (h_env h) x (h_in h (h_env h y)); h_ver := h_ver h; h_in := h_in h;
          h_next := h_next h |}, ch)
    | ABindUnknown x =>
      (* any existing location whatever *)
      let l := match ch with c :: _ => if Nat.ltb c (h_next h) then c else 0 | [] => 0 end in
      ({| h_env := upd_env (h_env h) x l; h_ver := h_ver h; h_in := h_in h; h_next := h_next h |}, tl ch)
    | AMutate x =>
      let l := h_env h x in
      ({| h_env := h_env h; h_ver := upd_nat (h_ver h) l (S (h_ver h l)); h_in := h_in h; h_next := h_next h |}, ch)
    | AMutateDeep x =>
      let l := h_in h (h_env h x) in
      ({| h_env := h_env h; h_ver := upd_nat (h_ver h) l (S (h_ver h l)); h_in := h_in h; h_next := h_next h |}, ch)
    | AIf t e =>
      match ch with
      | 0 :: r => run e r h
      | _ :: r => run t r h
      | [] => run e [] h
      end
    end.

  Fixpoint exec_list (acts : list action) (ch : list nat) (h : heap) : heap * list nat :=
    match acts with
    | [] => (h, ch)
    | a :: r => let '(h', ch') := exec1 a ch h in exec_list r ch' h'
    end.

  Definition exec (acts : list action) (ch : list nat) (h : heap) : heap := fst (exec_list acts ch h).
End Exec.

(* ---- the static check ---- *)
(* names known to denote an object made in this call / with an interior made in this call *)
Record flags : Type := { f_self : list var; f_deep : list var }.

Definition set_flag (b : bool) (x : var) (l : list var) : list var :=
  if b then x :: l else filter (fun y => negb (String.eqb y x)) l.

Definition inter (a b : flags) : flags :=
  {| f_self := filter (fun x => memS x (f_self b)) (f_self a);
     f_deep := filter (fun x => memS x (f_deep b)) (f_deep a) |}.

(* [check a f]: None if a mutation is not allowed, otherwise the flags after a *)
Fixpoint check (a : action) (f : flags) {struct a} : option flags :=
  let chk := fix chk (l : list action) (f : flags) {struct l} : option flags :=
               match l with
               | [] => Some f
               | x :: r => match check x f with Some f' => chk r f' | None => None end
               end in
  match a with
  | ABindFresh x => Some {| f_self := x :: f_self f; f_deep := x :: f_deep f |}
  | ABindShallow x y => Some {| f_self := x :: f_self f; f_deep := set_flag (memS y (f_deep f)) x (f_deep f) |}
  | ABindAlias x y => Some {| f_self := set_flag (memS y (f_self f)) x (f_self f);
                              f_deep := set_flag (memS y (f_deep f)) x (f_deep f) |}
  | ABindSub x y => Some {| f_self := set_flag (memS y (f_deep f)) x (f_self f);
                            f_deep := set_flag (memS y (f_deep f)) x (f_deep f) |}
  | ABindUnknown x => Some {| f_self := set_flag false x (f_self f); f_deep := set_flag false x (f_deep f) |}
  | AMutate x => if memS x (f_self f) then Some f else None
  | AMutateDeep x => if memS x (f_deep f) then Some f else None
  | AIf t e => match chk t f, chk e f with
               | Some ft, Some fe => Some (inter ft fe)
               | _, _ => None
               end
  end.

Fixpoint check_list (acts : list action) (f : flags) : option flags :=
  match acts with
  | [] => Some f
  | a :: r => match check a f with Some f' => check_list r f' | None => None end
  end.

(* names denoting, on entry, objects the caller cannot see (the keyword dictionary; the object
   under construction in __init__), and names whose interior the caller cannot see either *)
Definition confined (fresh_self fresh_deep : list var) (acts : list action) : bool :=
  match check_list acts {| f_self := fresh_self; f_deep := fresh_deep |} with Some _ => true | None => false end.
