(* Executable model of Grid.__init__ (resolution of periodic / boundary / fill_value into
   per-axis settings, grid.py 215-260), _map_kwargs_over_axes and
   _complete_user_kwargs_using_axis_defaults (grid.py 271-312). *)
From Coq Require Import List Bool ZArith String.
From XV Require Import Base.Res Base.Assoc Base.Seq1D Model.Axis.
Import ListNotations.
Open Scope string_scope.
Open Scope nat_scope.
Open Scope list_scope.

(* "scalar or per-axis mapping" keyword arguments; None is [KScalar None] *)
Inductive kw (V : Type) : Type :=
| KScalar : option V -> kw V
| KMap : list (string * option V) -> kw V.
Arguments KScalar {V} _.
Arguments KMap {V} _.

Inductive periodic_arg : Type :=
| PBool : bool -> periodic_arg
| PList : list string -> periodic_arg
| PMap : list (string * bool) -> periodic_arg.

(* dict[k] = v on an insertion-ordered dict *)
Fixpoint assoc_set {V} (k : string) (v : V) (l : list (string * V)) : list (string * V) :=
  match l with
  | [] => [(k, v)]
  | (k', v') :: r => if String.eqb k k' then (k, v) :: r else (k', v') :: assoc_set k v r
  end.

(* Grid._map_kwargs_over_axes *)
Definition map_kwargs_over_axes {V} (k : kw V) (axes : list string) : list (string * option V) :=
  match k with
  | KScalar v => map (fun a => (a, v)) axes
  | KMap m => m
  end.

(* dict.get(k, None) where the stored value may itself be None *)
Definition get_or_none {V} (k : string) (m : list (string * option V)) : option V :=
  match lookupS k m with Some v => v | None => None end.

Section Ctor.
  Context {A : Type} (zero : A).

  Record ctor_args : Type := {
    c_dsdims : list string;
    c_coords : list (string * list (pos * string));
    c_periodic : periodic_arg;
    c_boundary : kw bword;
    c_fill : kw A;
    c_shifts : kw (list (pos * pos))
  }.

  Definition periodic_dict (p : periodic_arg) (axes : list string) : list (string * bool) :=
    match p with
    | PBool b => map (fun a => (a, b)) axes
    | PList l => map (fun a => (a, true)) l      (* only the listed axes are visited *)
    | PMap m => m
    end.

  (* the loop `for ax, p in periodic_dict.items(): if boundary_dict.get(ax) is None: ...` *)
  Definition fill_in_periodic (bd : list (string * option bword)) (pd : list (string * bool))
    : list (string * option bword) :=
    fold_left (fun (bd : list (string * option bword)) (q : string * bool) =>
                 match get_or_none (fst q) bd with
                 | None => assoc_set (fst q) (Some (if snd q then BPeriodic else BFill)) bd
                 | Some _ => bd
                 end) pd bd.

  Fixpoint mk_axes (dsdims : list string) (coords : list (string * list (pos * string)))
           (bd : list (string * option bword)) (fd : list (string * option A))
           (sd : list (string * option (list (pos * pos)))) : res (grid A) :=
    match coords with
    | [] => Ok []
    | (name, cs) :: r =>
      do a <- mk_axis dsdims name cs
                 (match get_or_none name sd with Some s => s | None => [] end)
                 (get_or_none name bd) (get_or_none name fd) zero;
      do rest <- mk_axes dsdims r bd fd sd;
      Ok (a :: rest)
    end.

  Definition grid_ctor (c : ctor_args) : res (grid A) :=
    let all_axes := map fst (c_coords c) in
    let bd := map_kwargs_over_axes (c_boundary c) all_axes in
    let bd := fill_in_periodic bd (periodic_dict (c_periodic c) all_axes) in
    let sd := map_kwargs_over_axes (c_shifts c) all_axes in
    let fd := map_kwargs_over_axes (c_fill c) all_axes in
    mk_axes (c_dsdims c) (c_coords c) bd fd sd.

  (* Grid._complete_user_kwargs_using_axis_defaults: defaults | user *)
  Definition complete_kwargs {V} (g : grid A) (proj : axis A -> V) (user : kw V)
    : list (string * option V) :=
    let defaults := map (fun a => (ax_name a, Some (proj a))) g in
    match user with
    | KScalar None => defaults
    | _ => fold_left (fun (acc : list (string * option V)) (q : string * option V) =>
                        assoc_set (fst q) (snd q) acc)
                     (map_kwargs_over_axes user (map (@ax_name A) g)) defaults
    end.
End Ctor.
Arguments ctor_args : clear implicits.
