(* Executable model of xgcm.padding._pad_face_connections (padding.py 70-313) and of
   pad() for grids with face connections.  Mirrors the code statement by statement; the
   iteration order of the `set` of axes is an explicit parameter. *)
From Coq Require Import List Bool ZArith String.
From XV Require Import Base.Res Base.Assoc Base.Ops Base.Seq1D Base.Tensor
     Model.Axis Model.GridCtor Model.Pad Model.FaceConn Model.Dispatch.
Import ListNotations.
Open Scope string_scope.
Open Scope nat_scope.
Open Scope list_scope.

Section FacePad.
  Context {A : Type} (neg : A -> A) (dflt : A).

  Definition dim_on (a : axis A) (t : tensor A) : res string :=
    do pd <- get_position_name a (dnames (dims t)); Ok (snd pd).

  (* _maybe_rename_grid_positions: give the partner component the target's dimension
     names, axis by axis *)
  Definition rename_positions (g : grid A) (source target : tensor A) : res (tensor A) :=
    fold_left (fun (acc : res (tensor A)) (di : string) =>
      do s <- acc;
      if dhas di (dims s) then Ok s else
      fold_left (fun (acc2 : res (tensor A)) (a : axis A) =>
        do s2 <- acc2;
        if memS di (map snd (ax_coords a)) then
          match find (fun p => dhas p (dims source)) (map snd (ax_coords a)) with
          | Some sd => Ok (rename_dim sd di s2)
          | None => Err IndexError
          end
        else Ok s2) g (Ok s))
      (dnames (dims target)) (Ok source).

  (* one (axis, side) step of the inner loop *)
  Definition connect_one (W : nat) (g : grid A) (facedim : string) (nfaces : nat)
             (isvector : bool) (vectoraxis axname : string) (is_right : bool) (conn : link)
             (pre pre_partner : tensor A) (target_dim : string) (target : tensor A)
    : res (tensor A) :=
    let '(sf, saxis, rev) := conn in
    let swap := negb (String.eqb axname saxis) in
    if (sf <? 0)%Z || (Z.of_nat nfaces <=? sf)%Z then Err IndexError else
    do source <- (if isvector && swap
                  then rename_positions g (isel_index facedim (Z.to_nat sf) pre_partner) target
                  else Ok (isel_index facedim (Z.to_nat sf) pre));
    do sa <- find_axis g saxis;
    do source_dim <- dim_on sa source;
    let ns := size source_dim source in
    let nt := size target_dim target in
    let src_start := if is_right then (if rev then ns - 2 * W else W)
                     else (if rev then W else ns - 2 * W) in
    let source_slice := isel_range source_dim src_start W source in
    let target_slice := if is_right then isel_range target_dim 0 (nt - W) target
                        else isel_range target_dim W (nt - W) target in
    let source_slice := if swap then swap_names source_dim target_dim source_slice
                        else source_slice in
    let ortho := target_dim in
    let tang := source_dim in
    let source_slice :=
        if rev then
          let s := flip_n ortho W source_slice in
          if isvector && String.eqb vectoraxis axname then tmap neg s else s
        else source_slice in
    let source_slice :=
        if swap && negb rev then
          let s := flip_n tang (size target_dim source) source_slice in
          if isvector && negb (String.eqb vectoraxis axname) then tmap neg s else s
        else source_slice in
    Ok (if is_right then concat_at target_dim (nt - W) W target_slice source_slice
        else concat_at target_dim W (nt - W) source_slice target_slice).

  Definition max_width (pw : list (string * (nat * nat))) : nat :=
    fold_left (fun m (w : string * (nat * nat)) => Nat.max m (Nat.max (fst (snd w)) (snd (snd w)))) pw 0.

  Definition pad_one_face (W : nat) (g : grid A) (facedim : string) (nfaces : nat)
             (conn : facetab) (order : list string) (isvector : bool) (vectoraxis : string)
             (pre pre_partner : tensor A) (i : nat) : res (tensor A) :=
    let target0 := isel_index facedim i pre in
    match lookupZ (Z.of_nat i) conn with
    | None => Err KeyError
    | Some cs =>
      fold_left (fun (acc : res (tensor A)) (axname : string) =>
        do target <- acc;
        let lr := match lookupS axname cs with Some p => p | None => (None, None) end in
        do ta <- find_axis g axname;
        do target_dim <- dim_on ta target;
        fold_left (fun (acc2 : res (tensor A)) (cr : option link * bool) =>
          do tg <- acc2;
          match fst cr with
          | Some c => if 0 <? W
                      then connect_one W g facedim nfaces isvector vectoraxis axname (snd cr) c
                                       pre pre_partner target_dim tg
                      else Ok tg
          | None => Ok tg
          end) [(fst lr, false); (snd lr, true)] (Ok target))
        order (Ok target0)
    end.

  (* _pad_face_connections.  [order] is the iteration order of
     set(connection axes + boundary_width keys). *)
  Definition pad_fc (order : list string) (g : grid A) (facedim : string) (conn : facetab)
             (isvector : bool) (vectoraxis : string) (da : tensor A) (partner : option (tensor A))
             (pw : list (string * (nat * nat)))
             (padding : list (string * option bword)) (fillv : list (string * option A))
    : res (tensor A) :=
    do partner_t <- (if isvector then match partner with Some p => Ok p | None => Err ValueError end
                     else Ok da);
    let pwfull := map (fun ax => (ax, match lookupS ax pw with Some w => w | None => (0, 0) end)) order in
    let W := max_width pwfull in
    let maxpw := map (fun ax => (ax, (W, W))) order in
    do ps <- resolve_all dflt g (dnames (dims da)) padding fillv maxpw;
    let pre := pad_dims dflt ps da in
    do pre_partner <- (if isvector
                       then do ps2 <- resolve_all dflt g (dnames (dims partner_t)) padding fillv maxpw;
                            Ok (pad_dims dflt ps2 partner_t)
                       else Ok pre);
    let n := size facedim da in
    do faces <- mapM (pad_one_face W g facedim n conn order isvector vectoraxis pre pre_partner)
                     (seq 0 n);
    let padded := stack dflt facedim faces in
    (* trim back from the maximal width to the requested widths *)
    fold_left (fun (acc : res (tensor A)) (w : string * (nat * nat)) =>
      do t <- acc;
      do a <- find_axis g (fst w);
      do d <- dim_on a t;
      let start := W - fst (snd w) in
      let stop := W - snd (snd w) in
      Ok (isel_range d start (size d t - start - stop) t)) pwfull (Ok padded).

  (* the order in which the axes are visited: the grid's axes that are needed, in grid
     order, then any other needed name in order of first appearance *)
  Fixpoint dedup (l : list string) : list string :=
    match l with
    | [] => []
    | x :: r => x :: filter (fun y => negb (String.eqb y x)) (dedup r)
    end.
  Definition pad_axes_order (g : grid A) (conn : facetab) (pw : list (string * (nat * nat)))
    : list string :=
    let needed := flat_map (fun e => map fst (snd e)) conn ++ map fst pw in
    let inorder := filter (fun ax => memS ax needed) (map (@ax_name A) g) in
    inorder ++ filter (fun ax => negb (memS ax inorder)) (dedup needed).

  (* pad() on a grid with face connections *)
  Definition pad_faces (order : list string) (g : grid A) (facedim : string) (conn : facetab)
             (isvector : bool) (vectoraxis : string) (da : tensor A) (partner : option (tensor A))
             (bw : option (list (string * (nat * nat)))) (boundary : kw bword) (fill_value : kw A)
    : res (tensor A) :=
    let padding := complete_kwargs g (@ax_boundary A) boundary in
    let fillv := complete_kwargs g (@ax_fill A) fill_value in
    match bw with
    | None => Ok da
    | Some ws =>
      if forallb (fun w => (fst (snd w) =? 0) && (snd (snd w) =? 0)) ws then Ok da
      else pad_fc order g facedim conn isvector vectoraxis da partner ws padding fillv
    end.
End FacePad.
