(* Executable model of xgcm/transform.py.  The two loop-nest kernels below are the
   canonical copies of what translator G6 regenerates from the source on every run
   (Proofs/Tie_transform.v proves the regenerated terms equal to them); the NumPy/xarray
   wrappers around them are modelled by hand. *)
From Coq Require Import List Bool Arith ZArith String.
From XV Require Import Base.Res Base.Assoc Base.Ops Base.Kernel Base.Seq1D Base.Tensor.
Import ListNotations.
Open Scope string_scope.
Open Scope nat_scope.
Open Scope list_scope.

Section Transform.
Context {A : Type} (o : Ops A) (isnan : A -> bool) (nanv : A).

Definition conservative_kernel (phi : list A) (theta_1 : list A) (theta_2 : list A) (theta_hat_1 : list A) (theta_hat_2 : list A) (output : list A) : list A :=
let output := (zeros_like o output) in
let n := (List.length theta_1) in
let m := (List.length theta_hat_1) in
let output := fold_left (fun (output : list A) (i : nat) =>
if ((isnan (idx o theta_1 i)) && (isnan (idx o theta_2 i)))
then (output)
else (if (isnan (idx o theta_1 i))
then (let theta_min := (idx o theta_2 i) in
let theta_max := (idx o theta_2 i) in
let output := fold_left (fun (output : list A) (j : nat) =>
if ((gtb o (idx o theta_hat_1 j) theta_max) || (ltb o (idx o theta_hat_2 j) theta_min))
then (output)
else (if (eqb o theta_max theta_min)
then (if ((ltb o theta_min (idx o theta_hat_2 j)) || (Nat.eqb j (m - 1%nat)%nat))
then (let output := upd_add o output j (idx o phi i) in
output)
else (output))
else (let theta_hat_min := (py_max o theta_min (idx o theta_hat_1 j)) in
let theta_hat_max := (py_min o theta_max (idx o theta_hat_2 j)) in
let alpha := (div o (sub o theta_hat_max theta_hat_min) (sub o theta_max theta_min)) in
let output := upd_add o output j (mul o alpha (idx o phi i)) in
output)))
(seq 0 m) output in
output)
else (if (isnan (idx o theta_2 i))
then (let theta_min := (idx o theta_1 i) in
let theta_max := (idx o theta_1 i) in
let output := fold_left (fun (output : list A) (j : nat) =>
if ((gtb o (idx o theta_hat_1 j) theta_max) || (ltb o (idx o theta_hat_2 j) theta_min))
then (output)
else (if (eqb o theta_max theta_min)
then (if ((ltb o theta_min (idx o theta_hat_2 j)) || (Nat.eqb j (m - 1%nat)%nat))
then (let output := upd_add o output j (idx o phi i) in
output)
else (output))
else (let theta_hat_min := (py_max o theta_min (idx o theta_hat_1 j)) in
let theta_hat_max := (py_min o theta_max (idx o theta_hat_2 j)) in
let alpha := (div o (sub o theta_hat_max theta_hat_min) (sub o theta_max theta_min)) in
let output := upd_add o output j (mul o alpha (idx o phi i)) in
output)))
(seq 0 m) output in
output)
else (if (ltb o (idx o theta_1 i) (idx o theta_2 i))
then (let theta_min := (idx o theta_1 i) in
let theta_max := (idx o theta_2 i) in
let output := fold_left (fun (output : list A) (j : nat) =>
if ((gtb o (idx o theta_hat_1 j) theta_max) || (ltb o (idx o theta_hat_2 j) theta_min))
then (output)
else (if (eqb o theta_max theta_min)
then (if ((ltb o theta_min (idx o theta_hat_2 j)) || (Nat.eqb j (m - 1%nat)%nat))
then (let output := upd_add o output j (idx o phi i) in
output)
else (output))
else (let theta_hat_min := (py_max o theta_min (idx o theta_hat_1 j)) in
let theta_hat_max := (py_min o theta_max (idx o theta_hat_2 j)) in
let alpha := (div o (sub o theta_hat_max theta_hat_min) (sub o theta_max theta_min)) in
let output := upd_add o output j (mul o alpha (idx o phi i)) in
output)))
(seq 0 m) output in
output)
else (let theta_min := (idx o theta_2 i) in
let theta_max := (idx o theta_1 i) in
let output := fold_left (fun (output : list A) (j : nat) =>
if ((gtb o (idx o theta_hat_1 j) theta_max) || (ltb o (idx o theta_hat_2 j) theta_min))
then (output)
else (if (eqb o theta_max theta_min)
then (if ((ltb o theta_min (idx o theta_hat_2 j)) || (Nat.eqb j (m - 1%nat)%nat))
then (let output := upd_add o output j (idx o phi i) in
output)
else (output))
else (let theta_hat_min := (py_max o theta_min (idx o theta_hat_1 j)) in
let theta_hat_max := (py_min o theta_max (idx o theta_hat_2 j)) in
let alpha := (div o (sub o theta_hat_max theta_hat_min) (sub o theta_max theta_min)) in
let output := upd_add o output j (mul o alpha (idx o phi i)) in
output)))
(seq 0 m) output in
output)))))
(seq 0 n) output in
output.
Definition linear_kernel (phi : list A) (theta : list A) (target_theta_levels : list A) (mask_edges : bool) (bypass_checks : bool) (output : list A) : list A :=
if (negb bypass_checks)
then (let theta_sign_test := (not_nan isnan theta) in
if (ltb o (idx_last o theta_sign_test) (idx o theta_sign_test 0%nat))
then (let theta := (rev theta) in
let phi := (rev phi) in
let output := (np_interp o isnan nanv target_theta_levels theta phi) in
if mask_edges
then (let theta_max := (nanmax o isnan nanv theta) in
let theta_min := (nanmin o isnan nanv theta) in
let output := fold_left (fun (output : list A) (i : nat) =>
let theta_lev := (idx o target_theta_levels i) in
if ((ltb o theta_lev theta_min) || (gtb o theta_lev theta_max))
then (let output := upd_set output i nanv in
output)
else (output))
(seq 0 (List.length target_theta_levels)) output in
output)
else (output))
else (let output := (np_interp o isnan nanv target_theta_levels theta phi) in
if mask_edges
then (let theta_max := (nanmax o isnan nanv theta) in
let theta_min := (nanmin o isnan nanv theta) in
let output := fold_left (fun (output : list A) (i : nat) =>
let theta_lev := (idx o target_theta_levels i) in
if ((ltb o theta_lev theta_min) || (gtb o theta_lev theta_max))
then (let output := upd_set output i nanv in
output)
else (output))
(seq 0 (List.length target_theta_levels)) output in
output)
else (output)))
else (let output := (np_interp o isnan nanv target_theta_levels theta phi) in
if mask_edges
then (let theta_max := (nanmax o isnan nanv theta) in
let theta_min := (nanmin o isnan nanv theta) in
let output := fold_left (fun (output : list A) (i : nat) =>
let theta_lev := (idx o target_theta_levels i) in
if ((ltb o theta_lev theta_min) || (gtb o theta_lev theta_max))
then (let output := upd_set output i nanv in
output)
else (output))
(seq 0 (List.length target_theta_levels)) output in
output)
else (output)).

(* _interp_1d_conservative as called through guvectorize: output preallocated with one
   entry per bin *)
Definition conservative_call (phi theta_1 theta_2 hat_1 hat_2 : list A) : list A :=
  conservative_kernel phi theta_1 theta_2 hat_1 hat_2 (map (fun _ => zero o) hat_1).
Definition linear_call (phi theta levels : list A) (mask_edges bypass_checks : bool) : list A :=
  linear_kernel phi theta levels mask_edges bypass_checks (map (fun _ => zero o) levels).

(* interp_1d_conservative on one column (the leading dimensions of phi/theta are looped
   over by the gufunc): bin monotonicity test, flip, kernel, flip back along the bins *)
Definition conservative_col (phi theta bins : list A) : res (list A) :=
  if negb (List.length phi =? List.length theta - 1) then Err OtherError else
  let target_diff := window2 (fun a b => sub o b a) bins in
  if forallb (fun d => ltb o d (zero o)) target_diff then
    let bins' := rev bins in
    Ok (rev (conservative_call phi (removelast theta) (tl theta) (removelast bins') (tl bins')))
  else if forallb (fun d => ltb o (zero o) d) target_diff then
    Ok (conservative_call phi (removelast theta) (tl theta) (removelast bins) (tl bins))
  else Err ValueError.

(* interp_1d_linear on one column; the logarithmic variant maps ln over theta and the
   levels first *)
Definition linear_col (ln : A -> A) (logarithmic mask_edges bypass_checks : bool)
           (phi theta levels : list A) : list A :=
  let theta := if logarithmic then map ln theta else theta in
  let levels := if logarithmic then map ln levels else levels in
  linear_call phi theta levels mask_edges bypass_checks.

(* xarray wrappers: apply over the core dimension of every column; the new dimension is
   appended last (xr.apply_ufunc), named target_dim *)
Definition conservative_interpolation (phi theta : tensor A) (bins : list A)
           (phi_dim theta_dim target_dim : string) : res (tensor A) :=
  let m := List.length bins - 1 in
  (* the monotonicity of the bins does not depend on the column *)
  match conservative_col (column phi phi_dim env0) (column theta theta_dim env0) bins with
  | Err e => Err e
  | Ok _ =>
    Ok {| dims := dremove phi_dim (dims phi) ++ [(target_dim, m)];
          get := fun e => match conservative_col (column phi phi_dim e) (column theta theta_dim e) bins with
                          | Ok out => nth (e target_dim) out (zero o)
                          | Err _ => zero o
                          end |}
  end.

Definition linear_interpolation (ln : A -> A) (logarithmic mask_edges bypass_checks : bool)
           (phi theta target : tensor A) (dim target_dim : string) : tensor A :=
  {| dims := dremove dim (dims phi) ++ [(target_dim, size target_dim target)];
     get := fun e => nth (e target_dim)
                         (linear_col ln logarithmic mask_edges bypass_checks
                                     (column phi dim e) (column theta dim e)
                                     (column target target_dim e)) (zero o) |}.
End Transform.

(* ---- Grid.transform: target parsing, naming, dispatch (transform.py 269-502) ---- *)
From XV Require Import Model.Axis.

Section GridTransform.
  Context {A : Type} (o : Ops A) (isnan : A -> bool) (nanv : A) (ln : A -> A) (half : A -> A).

  Inductive target_arg : Type :=
  | TBare (vals : list A)                 (* a numpy array *)
  | TArr (t : tensor A).                  (* a DataArray *)

  Record tcall : Type := {
    tc_periodic : bool;                         (* axis.boundary == "periodic" *)
    tc_coords : list (pos * string);            (* axis.coords *)
    tc_da : tensor A; tc_da_name : option string;
    tc_target : target_arg; tc_target_dim : option string;
    tc_target_data : option (tensor A * option string);
    tc_ds_coord : string -> tensor A;           (* grid._ds[dim] *)
    tc_method : string; tc_mask_edges : bool; tc_bypass : bool; tc_suffix : string
  }.

  Record tresult : Type := {
    tr_tensor : tensor A; tr_name : option string; tr_newdim : string; tr_coord : option (list A)
  }.

  Definition axis_dims (c : tcall) : list string := map snd (tc_coords c).
  Definition other_dims (c : tcall) (t : tensor A) : list string :=
    filter (fun d => negb (memS d (axis_dims c))) (dnames (dims t)).

  (* _parse_target *)
  Definition parse_target (c : tcall) (target_data_dim : string)
    : res (tensor A * string * tensor A * option (list A)) :=
    let td := match tc_target_data c with
              | Some (t, n) => (t, n)
              | None => (tc_ds_coord c target_data_dim, Some target_data_dim)
              end in
    do tdim <- match tc_target_dim c with
               | Some d => Ok d
               | None => match tc_target c with
                         | TArr t => match dims t with
                                     | [(d, _)] => Ok d
                                     | _ => Err ValueError       (* N-d target needs target_dim *)
                                     end
                         | TBare _ => Ok (match snd td with Some n => n
                                                          | None => "TRANSFORMED_DIMENSION"%string end)
                         end
               end;
    let '(target, coord) := match tc_target c with
                            | TArr t => (t, None)
                            | TBare v => (of_list (zero o) [(tdim, List.length v)] v, Some v)
                            end in
    (* _check_other_dims *)
    if negb (forallb (fun d => memS d (other_dims c (tc_da c))) (other_dims c (fst td)))
    then Err ValueError
    else Ok (target, tdim, fst td, coord).

  Definition out_name (c : tcall) : option string :=
    match tc_da_name c with
    | Some n => if String.eqb n "" then None else Some (n ++ tc_suffix c)%string
    | None => None
    end.

  Definition grid_transform (c : tcall) : res tresult :=
    if tc_periodic c then Err ValueError else
    let cands := filter (fun d => memS d (axis_dims c)) (dnames (dims (tc_da c))) in
    match cands with
    | [dim] =>
      if String.eqb (tc_method c) "linear" || String.eqb (tc_method c) "log" then
        do p <- parse_target c dim;
        let '(target, tdim, tdata, coord) := p in
        Ok {| tr_tensor := linear_interpolation o isnan nanv ln (String.eqb (tc_method c) "log")
                                                (tc_mask_edges c) (tc_bypass c)
                                                (tc_da c) tdata target dim tdim;
              tr_name := out_name c; tr_newdim := tdim; tr_coord := coord |}
      else if String.eqb (tc_method c) "conservative" then
        match lookupP Outer (tc_coords c) with
        | None => Err RuntimeError
        | Some odim =>
          do p <- parse_target c odim;
          let '(target, tdim, tdata, coord) := p in
          (* target_data on the cell centres is first interpolated to the bounds with
             nearest-value extension (grid.interp(..., boundary="extend")) *)
          let tdata' :=
              if dhas odim (dims tdata) then tdata
              else map_dim (zero o) dim odim (size dim tdata + 1)
                           (fun x => window2 (fun a b => half (add o a b)) (pad1 Extend (zero o) 1 1 x))
                           tdata in
          let bins := column target tdim env0 in
          do r <- conservative_interpolation o isnan (tc_da c) tdata' bins dim odim tdim;
          Ok {| tr_tensor := r; tr_name := out_name c; tr_newdim := tdim;
                tr_coord := Some (window2 (fun a b => half (add o a b)) bins) |}
        end
      else Err OtherError
    | _ => Err KeyError
    end.
End GridTransform.
