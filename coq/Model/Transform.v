(* Executable model of xgcm/transform.py.  The two loop-nest kernels below are the
   canonical copies of what translator G6 regenerates from the source on every run
   (Proofs/Tie_transform.v proves the regenerated terms equal to them); the NumPy/xarray
   wrappers around them are modelled by hand. *)
From Coq Require Import List Bool Arith ZArith String.
From XV Require Import Base.Res Base.Assoc Base.Ops Base.Kernel Base.Seq1D Base.Tensor.
Import ListNotations.
Open Scope string_scope.
Open Scope nat_scope.
Open Scope list_scope.

Section Transform.
Context {A : Type} (o : Ops A) (isnan : A -> bool) (nanv : A).

Definition conservative_kernel (phi : list A) (theta_1 : list A) (theta_2 : list A) (theta_hat_1 : list A) (theta_hat_2 : list A) (output : list A) : list A :=
let output := (zeros_like o output) in
let n := (List.length theta_1) in
let m := (List.length theta_hat_1) in
let output := fold_left (fun (output : list A) (i : nat) =>
if ((isnan (idx o theta_1 i)) && (isnan (idx o theta_2 i)))
then (output)
else (if (isnan (idx o theta_1 i))
then (let theta_min := (idx o theta_2 i) in
let theta_max := (idx o theta_2 i) in
let output := fold_left (fun (output : list A) (j : nat) =>
if ((gtb o (idx o theta_hat_1 j) theta_max) || (ltb o (idx o theta_hat_2 j) theta_min))
then (output)
else (if (eqb o theta_max theta_min)
then (if ((ltb o theta_min (idx o theta_hat_2 j)) || (Nat.eqb j (m - 1%nat)%nat))
then (let output := upd_add o output j (idx o phi i) in
output)
else (output))
else (let theta_hat_min := (py_max o theta_min (idx o theta_hat_1 j)) in
let theta_hat_max := (py_min o theta_max (idx o theta_hat_2 j)) in
let alpha := (div o (sub o theta_hat_max theta_hat_min) (sub o theta_max theta_min)) in
let output := upd_add o output j (mul o alpha (idx o phi i)) in
output)))
(seq 0 m) output in
output)
else (if (isnan (idx o theta_2 i))
then (let theta_min := (idx o theta_1 i) in
let theta_max := (idx o theta_1 i) in
let output := fold_left (fun (output : list A) (j : nat) =>
if ((gtb o (idx o theta_hat_1 j) theta_max) || (ltb o (idx o theta_hat_2 j) theta_min))
then (output)
else (if (eqb o theta_max theta_min)
then (if ((ltb o theta_min (idx o theta_hat_2 j)) || (Nat.eqb j (m - 1%nat)%nat))
then (let output := upd_add o output j (idx o phi i) in
output)
else (output))
else (let theta_hat_min := (py_max o theta_min (idx o theta_hat_1 j)) in
let theta_hat_max := (py_min o theta_max (idx o theta_hat_2 j)) in
let alpha := (div o (sub o theta_hat_max theta_hat_min) (sub o theta_max theta_min)) in
let output := upd_add o output j (mul o alpha (idx o phi i)) in
output)))
(seq 0 m) output in
output)
else (if (ltb o (idx o theta_1 i) (idx o theta_2 i))
then (let theta_min := (idx o theta_1 i) in
let theta_max := (idx o theta_2 i) in
let output := fold_left (fun (output : list A) (j : nat) =>
if ((gtb o (idx o theta_hat_1 j) theta_max) || (ltb o (idx o theta_hat_2 j) theta_min))
then (output)
else (if (eqb o theta_max theta_min)
then (if ((ltb o theta_min (idx o theta_hat_2 j)) || (Nat.eqb j (m - 1%nat)%nat))
then (let output := upd_add o output j (idx o phi i) in
output)
else (output))
else (let theta_hat_min := (py_max o theta_min (idx o theta_hat_1 j)) in
let theta_hat_max := (py_min o theta_max (idx o theta_hat_2 j)) in
let alpha := (div o (sub o theta_hat_max theta_hat_min) (sub o theta_max theta_min)) in
let output := upd_add o output j (mul o alpha (idx o phi i)) in
output)))
(seq 0 m) output in
output)
else (let theta_min := (idx o theta_2 i) in
let theta_max := (idx o theta_1 i) in
let output := fold_left (fun (output : list A) (j : nat) =>
if ((gtb o (idx o theta_hat_1 j) theta_max) || (ltb o (idx o theta_hat_2 j) theta_min))
then (output)
else (if (eqb o theta_max theta_min)
then (if ((ltb o theta_min (idx o theta_hat_2 j)) || (Nat.eqb j (m - 1%nat)%nat))
then (let output := upd_add o output j (idx o phi i) in
output)
else (output))
else (let theta_hat_min := (py_max o theta_min (idx o theta_hat_1 j)) in
let theta_hat_max := (py_min o theta_max (idx o theta_hat_2 j)) in
let alpha := (div o (sub o theta_hat_max theta_hat_min) (sub o theta_max theta_min)) in
let output := upd_add o output j (mul o alpha (idx o phi i)) in
output)))
(seq 0 m) output in
output)))))
(seq 0 n) output in
output.
Definition linear_kernel (phi : list A) (theta : list A) (target_theta_levels : list A) (mask_edges : bool) (bypass_checks : bool) (output : list A) : list A :=
if (negb bypass_checks)
then (let theta_sign_test := (not_nan isnan theta) in
if (ltb o (idx_last o theta_sign_test) (idx o theta_sign_test 0%nat))
then (let theta := (rev theta) in
let phi := (rev phi) in
let output := (np_interp o isnan nanv target_theta_levels theta phi) in
if mask_edges
then (let theta_max := (nanmax o isnan nanv theta) in
let theta_min := (nanmin o isnan nanv theta) in
let output := fold_left (fun (output : list A) (i : nat) =>
let theta_lev := (idx o target_theta_levels i) in
if ((ltb o theta_lev theta_min) || (gtb o theta_lev theta_max))
then (let output := upd_set output i nanv in
output)
else (output))
(seq 0 (List.length target_theta_levels)) output in
output)
else (output))
else (let output := (np_interp o isnan nanv target_theta_levels theta phi) in
if mask_edges
then (let theta_max := (nanmax o isnan nanv theta) in
let theta_min := (nanmin o isnan nanv theta) in
let output := fold_left (fun (output : list A) (i : nat) =>
let theta_lev := (idx o target_theta_levels i) in
if ((ltb o theta_lev theta_min) || (gtb o theta_lev theta_max))
then (let output := upd_set output i nanv in
output)
else (output))
(seq 0 (List.length target_theta_levels)) output in
output)
else (output)))
else (let output := (np_interp o isnan nanv target_theta_levels theta phi) in
if mask_edges
then (let theta_max := (nanmax o isnan nanv theta) in
let theta_min := (nanmin o isnan nanv theta) in
let output := fold_left (fun (output : list A) (i : nat) =>
let theta_lev := (idx o target_theta_levels i) in
if ((ltb o theta_lev theta_min) || (gtb o theta_lev theta_max))
then (let output := upd_set output i nanv in
output)
else (output))
(seq 0 (List.length target_theta_levels)) output in
output)
else (output)).

(* _interp_1d_conservative as called through guvectorize: output preallocated with one
   entry per bin *)
Definition conservative_call (phi theta_1 theta_2 hat_1 hat_2 : list A) : list A :=
  conservative_kernel phi theta_1 theta_2 hat_1 hat_2 (map (fun _ => zero o) hat_1).
Definition linear_call (phi theta levels : list A) (mask_edges bypass_checks : bool) : list A :=
  linear_kernel phi theta levels mask_edges bypass_checks (map (fun _ => zero o) levels).

(* interp_1d_conservative on one column (the leading dimensions of phi/theta are looped
   over by the gufunc): bin monotonicity test, flip, kernel, flip back along the bins *)
Definition conservative_col (phi theta bins : list A) : res (list A) :=
  if negb (List.length phi =? List.length theta - 1) then Err OtherError else
  let target_diff := window2 (fun a b => sub o b a) bins in
  if forallb (fun d => ltb o d (zero o)) target_diff then
    let bins' := rev bins in
    Ok (rev (conservative_call phi (removelast theta) (tl theta) (removelast bins') (tl bins')))
  else if forallb (fun d => ltb o (zero o) d) target_diff then
    Ok (conservative_call phi (removelast theta) (tl theta) (removelast bins) (tl bins))
  else Err ValueError.

(* interp_1d_linear on one column; the logarithmic variant maps ln over theta and the
   levels first *)
Definition linear_col (ln : A -> A) (logarithmic mask_edges bypass_checks : bool)
           (phi theta levels : list A) : list A :=
  let theta := if logarithmic then map ln theta else theta in
  let levels := if logarithmic then map ln levels else levels in
  linear_call phi theta levels mask_edges bypass_checks.

(* xarray wrappers: apply over the core dimension of every column; the new dimension is
   appended last (xr.apply_ufunc), named target_dim *)
Definition conservative_interpolation (phi theta : tensor A) (bins : list A)
           (phi_dim theta_dim target_dim : string) : res (tensor A) :=
  let m := List.length bins - 1 in
  (* the monotonicity of the bins does not depend on the column *)
  match conservative_col (column phi phi_dim env0) (column theta theta_dim env0) bins with
  | Err e => Err e
  | Ok _ =>
    Ok {| dims := dremove phi_dim (dims phi) ++ [(target_dim, m)];
          get := fun e => match conservative_col (column phi phi_dim e) (column theta theta_dim e) bins with
                          | Ok out => nth (e target_dim) out (zero o)
                          | Err _ => zero o
                          end |}
  end.

Definition linear_interpolation (ln : A -> A) (logarithmic mask_edges bypass_checks : bool)
           (phi theta target : tensor A) (dim target_dim : string) : tensor A :=
  {| dims := dremove dim (dims phi) ++ [(target_dim, size target_dim target)];
     get := fun e => nth (e target_dim)
                         (linear_col ln logarithmic mask_edges bypass_checks
                                     (column phi dim e) (column theta dim e)
                                     (column target target_dim e)) (zero o) |}.
End Transform.
