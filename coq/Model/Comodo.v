(* Executable model of xgcm/comodo.py and xgcm/metadata_parsers.parse_comodo. *)
From Coq Require Import List Bool ZArith String.
From XV Require Import Base.Res Base.Assoc Model.Axis Model.GridCtor.
Import ListNotations.
Open Scope string_scope.
Open Scope nat_scope.
Open Scope list_scope.

(* the c_grid_axis_shift attribute after _maybe_fix_type *)
Inductive shift : Type :=
| SNone                (* attribute absent *)
| SLeft | SRight       (* -0.5, +0.5 *)
| SZero                (* 0.0 *)
| SOther               (* another float *)
| STrue.               (* present but not convertible to float *)

(* `not shift` *)
Definition shift_falsy (s : shift) : bool := match s with SNone | SZero => true | _ => false end.

(* a dimension of the dataset: name, length, `axis` attribute, shift *)
Record cdim : Type := { cd_name : string; cd_len : nat; cd_axis : option string; cd_shift : shift }.

Fixpoint dedup_str (l : list string) : list string :=
  match l with
  | [] => []
  | x :: r => x :: filter (fun y => negb (String.eqb y x)) (dedup_str r)
  end.

(* get_all_axes: axis names in order of first appearance *)
Definition comodo_axes (ds : list cdim) : list string :=
  dedup_str (flat_map (fun d => match cd_axis d with Some a => [a] | None => [] end) ds).

Definition pos_set (p : pos) (d : string) (l : list (pos * string)) : list (pos * string) :=
  (fix go (l : list (pos * string)) :=
     match l with
     | [] => [(p, d)]
     | (q, e) :: r => if pos_eqb q p then (p, d) :: r else (q, e) :: go r
     end) l.

(* get_axis_positions_and_coords *)
Definition comodo_axis (ds : list cdim) (axis_name : string) : res (list (pos * string)) :=
  let coords := filter (fun d => match cd_axis d with Some a => String.eqb a axis_name | None => false end) ds in
  match coords with
  | [] => Err ValueError
  | _ =>
    match filter (fun d => shift_falsy (cd_shift d)) coords with
    | [] => Err ValueError
    | [c] =>
      let axis_len := cd_len c in
      let rest := filter (fun d => negb (String.eqb (cd_name d) (cd_name c))) coords in
      fold_left (fun (acc : res (list (pos * string))) (d : cdim) =>
        do m <- acc;
        if cd_len d =? axis_len + 1 then Ok (pos_set Outer (cd_name d) m)
        else if S (cd_len d) =? axis_len then Ok (pos_set Inner (cd_name d) m)
        else match cd_shift d with
             | SLeft => if cd_len d =? axis_len then Ok (pos_set Left (cd_name d) m) else Err ValueError
             | SRight => if cd_len d =? axis_len then Ok (pos_set Right (cd_name d) m) else Err ValueError
             | _ => Err ValueError
             end) rest (Ok [(Center, cd_name c)])
    | _ => Err ValueError
    end
  end.

Fixpoint mapM_res {T U} (f : T -> res U) (l : list T) : res (list U) :=
  match l with
  | [] => Ok []
  | x :: r => do y <- f x; do ys <- mapM_res f r; Ok (y :: ys)
  end.

(* parse_comodo: coords = {axis: positions} in the order of the axes *)
Definition parse_comodo (ds : list cdim) : res (list (string * list (pos * string))) :=
  mapM_res (fun a => do c <- comodo_axis ds a; Ok (a, c)) (comodo_axes ds).
