#!/bin/bash
# usage: rerun_seeded.sh [tier]  -- apply every stored seeded change to /repo in turn, run its property's
# check, undo; writes seeded/REPORT.txt.  /repo must be clean.
TIER=${1:-quick}
cd /verif
[ -z "$(git -C /repo status --short)" ] || { echo "/repo is not clean"; exit 2; }
: > seeded/REPORT.txt
for d in seeded/C*-m*; do
  prop=$(basename $d | cut -d- -f1)
  [ "$(basename $d)" = "C15-m8" ] && prop=C13   # breaks C13's ground, see its meta.json
  case "$(basename $d)" in C11-m9|C11-m10) prop=C06;; esac   # defects of lazy execution, see meta.json
  if grep -q '"obsolete"' $d/meta.json; then echo "$(basename $d) obsolete (see meta.json)" >> seeded/REPORT.txt; continue; fi
  if ! git -C /repo apply --check $PWD/$d/patch.diff 2>/dev/null; then
    echo "$(basename $d) patch-no-longer-applies" >> seeded/REPORT.txt; continue
  fi
  git -C /repo apply $PWD/$d/patch.diff
  cp evidence/$prop.json evidence/.$prop.keep 2>/dev/null     # evidence/<id>.json describes runs on the real tree only
  out=$(./check $prop --tier $TIER 2>&1 | grep -E "^VIOLATION" | head -1)
  git -C /repo checkout -- .
  [ -f evidence/.$prop.keep ] && mv evidence/.$prop.keep evidence/$prop.json
  if [ -n "$out" ]; then echo "$(basename $d) DETECTED ${out##* }" >> seeded/REPORT.txt; else echo "$(basename $d) missed" >> seeded/REPORT.txt; fi
done
cat seeded/REPORT.txt
