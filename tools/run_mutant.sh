#!/bin/bash
# usage: run_mutant.sh <patch> <prop> [tier]   -- apply to /repo, run the check, undo
P=$1; PROP=$2; TIER=${3:-quick}
cd /repo && git apply $P || { echo "APPLY FAILED $P"; exit 2; }
cd /verif && ./check $PROP --tier $TIER 2>&1 | grep -E "^VIOLATION|^KNOWN|quick:|thorough:|PROOF BUILD" | head -6
git -C /repo checkout -- .
