#!/bin/bash
# usage: run_mutant.sh <patch> <prop> [tier]   -- apply to /repo, run the check, undo
# The evidence file and replays of the run against the changed tree are not kept:
# evidence/<id>.json always describes the last run on the real tree.
P=$1; PROP=$2; TIER=${3:-quick}
cd /repo && git apply $P || { echo "APPLY FAILED $P"; exit 2; }
cp /verif/evidence/$PROP.json /verif/evidence/.$PROP.keep 2>/dev/null
cd /verif && ./check $PROP --tier $TIER 2>&1 | grep -E "^VIOLATION|^KNOWN|quick:|thorough:|PROOF BUILD" | head -6
git -C /repo checkout -- .
[ -f /verif/evidence/.$PROP.keep ] && mv /verif/evidence/.$PROP.keep /verif/evidence/$PROP.json
