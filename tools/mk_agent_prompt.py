#!/venv/bin/python
"""mk_agent_prompt.py <PROP> <worktree> <outfile> -- the brief handed to a fresh sub-agent that is to
produce two more seeded changes for a property: only the property's text, the scratch worktree, and a
one-line description of each change already stored (so that the new ones differ in kind).  Nothing from
/verif's machinery is mentioned."""
import json, sys, glob
prop, wt, out = sys.argv[1:4]
P = None
for l in open("/verif/properties.jsonl"):
    d = json.loads(l)
    if d["id"] == prop:
        P = d
existing = []
for m in sorted(glob.glob(f"/verif/seeded/{prop}-m*/meta.json")):
    t = json.load(open(m))["needs_to_manifest"].replace("\n", " ")
    existing.append("- " + t[:230])
txt = f"""You are testing how well a semantic property of the Python library xgcm (xarray-based staggered-grid operations) is protected. You work ONLY inside your own scratch git worktree of the repository at {wt} (a checkout of xgcm; the package is {wt}/xgcm). Do not look at or touch /repo or /verif. Python: /venv/bin/python with PYTHONPATH={wt} (numpy, xarray, dask, pytest installed; numba is NOT installed; a pure-Python stand-in lives in /tmp/numba_standin -- add it to PYTHONPATH (PYTHONPATH={wt}:/tmp/numba_standin) if you need xgcm.transform / Grid.transform). NEVER use `git stash` (the stash is shared between worktrees); use only git diff / git checkout -- xgcm / git apply.

The property (this is all you are given):

{P['id']}: {P['title']}

{P['statement']}

Quantifier: {P['quantifier']['text']}


Several mutants already exist for this property; yours must be DIFFERENT in kind from all of them and, if at all possible, touch a different function, module or mechanism (think about less obvious places: helper functions, defaults, error paths, argument normalisation, the representation of the data (dtype, missing values, laziness), the packaging of arguments (mappings vs scalars, key order, None entries, DataArray vs array), the labels of the dataset, the interaction of two features, rarely used options, state carried from one call to the next):
{chr(10).join(existing)}

Your task: produce TWO different, independent source changes ("mutants") to the xgcm package in {wt}, each of which BREAKS this property while (a) the package still imports, and (b) the existing test suite still passes: run `cd {wt} && /venv/bin/python -m pytest -q -p no:cacheprovider -n 8 -x xgcm/test 2>&1 | tail -3` (takes ~2-3 minutes; the unmodified tree gives 4087 passed) and confirm there are no failures with your change applied. Prefer changes that need something SPECIFIC to manifest (an unusual input, a particular combination of arguments, a multi-step sequence, a particular layout or size, two cooperating sites that each look fine alone) rather than ones any ordinary use would expose at once. Each change should be small (a few lines) and realistic, like a plausible refactoring slip or edge-case bug.

For each mutant k in 1,2 write, under {wt}/mutants/m<k>/ :
  - patch.diff : `git diff` of the change against HEAD (only the xgcm source change, not the mutants directory)
  - demo.py    : a small standalone program (run as `PYTHONPATH={wt} /venv/bin/python demo.py`) that exits 0 and prints PASS on the unmodified tree and exits non-zero (assertion failure) with the change applied, demonstrating the property violation through the public API
  - notes.txt  : one paragraph: what the change is, what exactly it needs in order to manifest, and the pytest summary line you observed with the change applied.
Work on one mutant at a time: apply, verify demo fails, run the test suite, save the three files, then `git checkout -- xgcm` and verify demo passes, then do the next. Leave the worktree with NO source modification at the end (only the untracked mutants/ directory). Report briefly what the two mutants are. If, while exploring, you find that the UNMODIFIED tree already violates the property for some input, report that input too.
"""
open(out, "w").write(txt)
print("wrote", out, len(existing), "existing")
