#!/venv/bin/python
"""store_seeded.py <worktree> <PROP> <mutant dir name> <detected: yes|no|after-strengthening> [note] [stored-as]"""
import json, shutil, sys
from pathlib import Path
wt, prop, m, detected = sys.argv[1:5]
note = sys.argv[5] if len(sys.argv) > 5 else ""
src = Path(wt) / "mutants" / m
stored_as = sys.argv[6] if len(sys.argv) > 6 else m
dst = Path("/verif/seeded") / f"{prop}-{stored_as}"
dst.mkdir(parents=True, exist_ok=True)
for f in ("patch.diff", "demo.py"):
    shutil.copy(src / f, dst / f)
conf = [l.strip() for l in open("/tmp/confirm.log") if l.startswith(f"{wt} mutants/{m} ")]
meta = {
    "property": prop,
    "origin": "independent sub-agent given only the property text and a scratch worktree",
    "needs_to_manifest": (src / "notes.txt").read_text().strip(),
    "confirmed_by_me": conf[-1] if conf else "not confirmed",
    "how_confirmed": "tools/confirm_mutants.sh in the scratch worktree: demo.py passes on the clean tree (rc 0), fails with the patch (rc 1); full pinned suite run with the patch applied",
    "check_run": f"tools/run_mutant.sh seeded/{prop}-{stored_as}/patch.diff {prop}  (git -C /repo apply; ./check {prop} --tier quick; git -C /repo checkout -- .)",
    "detected_by_check": detected,
    "note": note,
}
(dst / "meta.json").write_text(json.dumps(meta, indent=1) + "\n")
print("stored", dst)
