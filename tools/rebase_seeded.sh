#!/bin/bash
# usage: rebase_seeded.sh  -- stored changes whose patch no longer applies to /repo's HEAD (because a later
# fix: commit touched the same lines) are carried over with a 3-way apply; the sub-agent's original patch is
# kept as patch_original.diff.  Conflicts are reported for manual rebasing.  /repo must be clean.
cd /repo; [ -z "$(git status --short)" ] || { echo "/repo is not clean"; exit 2; }
for d in /verif/seeded/C*-m*; do
  grep -q "\"obsolete\"" $d/meta.json && continue
  git apply --check $d/patch.diff 2>/dev/null && continue
  if git apply --3way $d/patch.diff >/dev/null 2>&1 && [ -z "$(git diff --name-only --diff-filter=U)" ]; then
    [ -f $d/patch_original.diff ] || cp $d/patch.diff $d/patch_original.diff
    git diff HEAD > $d/patch.diff; echo "$(basename $d) rebased"
  else
    echo "$(basename $d) CONFLICT"
  fi
  git reset -q --hard HEAD
done
