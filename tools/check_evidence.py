#!/usr/bin/env python3
"""check_evidence.py -- the committed evidence/<id>.json files must describe runs on the unchanged tree:
every obligation discharged, no unlisted violation.  Used as a pre-commit guard."""
import glob, json, sys
bad = []
for f in sorted(glob.glob("/verif/evidence/C*.json")):
    c = json.load(open(f))["coverage"]
    if not (c.get("obligations", 0) == c.get("discharged", -1) > 0):
        bad.append(f"{f}: discharged {c.get('discharged')} of {c.get('obligations')}")
    if c.get("model_disagreements", 0) or (c.get("spec_disagreements", 0) and not c.get("known_findings_reproduced")):
        bad.append(f"{f}: disagreements recorded ({c.get('spec_disagreements')} spec / {c.get('model_disagreements')} model)")
if bad:
    print("evidence files not from a clean run:\n  " + "\n  ".join(bad)); sys.exit(1)
