#!/bin/bash
# usage: confirm_mutants.sh <worktree> <outfile>  -- confirm each mutants/m*/ in a scratch worktree
WT=$1; OUT=$2
cd $WT || exit 1
for m in mutants/m*; do
  [ -f $m/patch.diff ] || continue
  git checkout -q -- xgcm
  PYTHONPATH=$WT:/tmp/numba_standin /venv/bin/python $m/demo.py >/dev/null 2>&1; clean=$?
  git apply $m/patch.diff || { echo "$WT $m apply-failed" >> $OUT; continue; }
  PYTHONPATH=$WT:/tmp/numba_standin /venv/bin/python $m/demo.py >/dev/null 2>&1; mut=$?
  t=$(/venv/bin/python -m pytest -q -p no:cacheprovider -n 6 --timeout=900 xgcm/test 2>&1 | tail -1)
  git checkout -q -- xgcm
  echo "$WT $m demo_clean_rc=$clean demo_mutant_rc=$mut tests: $t" >> $OUT
done
