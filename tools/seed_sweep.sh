#!/bin/bash
# usage: seed_sweep.sh "<seeds>" [tier]  -- run every check under each seed on the current tree; evidence files are restored afterwards
SEEDS=${1:-"0 1 2 3"}; TIER=${2:-quick}
cd /verif; K=$(mktemp -d); cp evidence/*.json $K/
for s in $SEEDS; do for p in C01 C02 C03 C04 C05 C06 C07 C08 C09 C10 C11 C12 C13 C14 C15 C16 C17 C18 C19 C20; do
  VERIF_SEED=$s ./check $p --tier $TIER > $K/out 2>&1; rc=$?
  if [ $rc -ne 0 ] || grep -q "^VIOLATION" $K/out; then echo "seed $s $p rc=$rc"; grep -A1 "^VIOLATION" $K/out | head -4 | cut -c1-400; tail -1 $K/out; fi
done; echo "seed $s done"; done
cp $K/C*.json evidence/; rm -rf $K
