"""Decompositions of a rectangular domain into square faces with per-face orientations,
their charts, and the face_connections table that describes each junction.
chart_f(p) = origin_f + M_f p, p = (i, j) local (x, y) cell indices."""
from __future__ import annotations

import itertools

# the 8 signed permutation matrices ((a, b), (c, d)): (i, j) -> (a i + b j, c i + d j)
ORIENT = {
    "id": ((1, 0), (0, 1)),
    "r90": ((0, -1), (1, 0)),
    "r180": ((-1, 0), (0, -1)),
    "r270": ((0, 1), (-1, 0)),
    "mx": ((-1, 0), (0, 1)),      # mirror x
    "my": ((1, 0), (0, -1)),      # mirror y
    "t": ((0, 1), (1, 0)),        # transpose
    "at": ((0, -1), (-1, 0)),     # anti-transpose
}


def mul(M, v):
    return (M[0][0] * v[0] + M[0][1] * v[1], M[1][0] * v[0] + M[1][1] * v[1])


def transpose(M):
    return ((M[0][0], M[1][0]), (M[0][1], M[1][1]))


def make_charts(Kx, Ky, N, orients):
    """orients[(bx, by)] = name.  The face occupying block (bx, by) covers global cells
    [bx N, (bx+1) N) x [by N, (by+1) N); its origin is the global position of local (0, 0)."""
    charts = []
    for by in range(Ky):
        for bx in range(Kx):
            M = ORIENT[orients[(bx, by)]]
            # corners of the block in local coords: choose origin so that the image of [0,N)^2 is the block
            ox = bx * N + (N - 1 if min(M[0][0], M[0][1]) < 0 else 0)
            oy = by * N + (N - 1 if min(M[1][0], M[1][1]) < 0 else 0)
            charts.append({"o": (ox, oy), "M": M, "block": (bx, by)})
    return charts


def chart_apply(ch, p):
    q = mul(ch["M"], p)
    return (ch["o"][0] + q[0], ch["o"][1] + q[1])


def links(Kx, Ky, N, charts, per_x, per_y):
    """Return the face_connections table [[f, [[axis, [left, right]]]]] or None if some
    junction cannot be expressed (relative orientation not identity / quarter turn /
    mirror along the connecting axis)."""
    block_to_face = {tuple(ch["block"]): f for f, ch in enumerate(charts)}
    E = {"X": (1, 0), "Y": (0, 1)}
    table = []
    for f, ch in enumerate(charts):
        fal = []
        for a in ("X", "Y"):
            b = "Y" if a == "X" else "X"
            sides = []
            for side in (0, 1):
                # a cell just outside the face across that side, at along-edge index 0
                p = [0, 0]
                p["XY".index(a)] = -1 if side == 0 else N
                q = chart_apply(ch, tuple(p))
                gx, gy = q
                if not (0 <= gx < Kx * N):
                    if not per_x:
                        sides.append(None)
                        continue
                    gx %= Kx * N
                if not (0 <= gy < Ky * N):
                    if not per_y:
                        sides.append(None)
                        continue
                    gy %= Ky * N
                g = block_to_face[(gx // N, gy // N)]
                chg = charts[g]
                R = transpose(chg["M"])
                d = mul(R, mul(ch["M"], E[a]))        # my +a direction in the neighbour's frame
                t = mul(R, mul(ch["M"], E[b]))        # my tangent in the neighbour's frame
                sa = "X" if d[0] != 0 else "Y"
                sb = "Y" if sa == "X" else "X"
                rev = (d[0] + d[1]) < 0
                swap = sa != a
                want = -1 if (swap and not rev) else 1
                if t != tuple(want * x for x in E[sb]):
                    return None
                sides.append([g, sa, rev])
            fal.append([a, sides])
        table.append([f, fal])
    return table


def random_decomposition(rng, max_faces=4, rotations_only=False, pool=None):
    """Rejection-sample orientations until every junction is expressible."""
    names = pool or (["id", "r90", "r180", "r270"] if rotations_only else list(ORIENT))
    for _ in range(2000):
        Kx, Ky = rng.choice([(1, 1), (2, 1), (1, 2), (2, 2), (3, 1), (1, 3), (3, 2), (2, 3)])
        if Kx * Ky > max_faces:
            continue
        N = rng.randint(2, 4)
        per_x, per_y = rng.random() < 0.5, rng.random() < 0.5
        orients = {(bx, by): rng.choice(names) for bx in range(Kx) for by in range(Ky)}
        charts = make_charts(Kx, Ky, N, orients)
        tbl = links(Kx, Ky, N, charts, per_x, per_y)
        if tbl is not None:
            return {"Kx": Kx, "Ky": Ky, "N": N, "per_x": per_x, "per_y": per_y,
                    "orients": {f"{k[0]},{k[1]}": v for k, v in orients.items()},
                    "charts": [{"o": list(c["o"]), "M": [list(c["M"][0]), list(c["M"][1])]} for c in charts],
                    "conn": tbl}
    raise RuntimeError("no expressible decomposition found")
