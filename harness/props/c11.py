"""C11 -- grid ufuncs receive padded core dims last and return declared positions."""
from __future__ import annotations

from fractions import Fraction

from .. import common as C
from . import c02 as G

ID = "C11"
PROPERTY_FILE = "Properties/C11.v"
PROOF_TARGETS = ["Properties/C11.vo"]
EVAL_TARGETS = ["Corr/Eval_C11.vo"]
TIE_LEMMAS = ["Tie_signature"]
IMPORTS = ("From Coq Require Import List Bool ZArith QArith String.\n"
           "From XV Require Import Base.Res Base.Assoc Base.Seq1D Base.Tensor Model.Axis Model.GridCtor "
           "Model.Pad Model.Signature Model.UFunc Corr.Eval_C11.")
CASE_TYPE = "case11"
RUN_FN = "run11"
SCOPE = "nat_scope"
SHARD = 80
RULE = ("signatures with 1-3 inputs, 0-2 outputs, 0-2 dummy axes per argument (dummy names equal to, "
        "swapped against, or unrelated to the real names) x injective bindings to 1-3 real axes x "
        "boundary_width on the dummies shared by all inputs x rule/fill per call, per definition, both, neither x "
        "pad before/after x four ways of wrapping (apply_as_grid_ufunc, Grid.apply_as_grid_ufunc, "
        "as_grid_ufunc with a signature string, as_grid_ufunc with type hints) x loop dims and dim orders; the "
        "user function records every array it receives and returns trimmed slices of its first input according "
        "to a generated plan (mostly the plan that undoes the padding; sometimes a wrong start or length). "
        "Separate malformed streams: input on a different position than the signature names, axis/argument "
        "count mismatches, inconsistent bindings, boundary_width naming an unbound dummy. Distinct = canonical "
        "input hash; non-trivial = the function was called with some width > 0 or more than one input.")

DUMMIES = [["X", "Y", "Z"], ["A", "B", "C"], ["Y", "Z", "X"], ["lon", "lat", "lev"]]
OPTS = ["bw", "boundary", "fill", "pad_before"]


def nontrivial(case, obs):
    return bool(obs.get("recv")) and (len(case["args"]) > 1 or any(
        lo or hi for o in (case["bound"], case["call"]) for _, (lo, hi) in (o.get("bw") or [])))


def describe(case, obs):
    return (f"{case['mode']}: signature {case['sig']!r} axis={case['axis']} args dims="
            f"{[a['dims'] for a in case['args']]} bound={case['bound']} call={case['call']} plan={case['plan']} "
            f"grid(periodic={case['ctor']['periodic']}, boundary={case['ctor']['boundary']}, "
            f"fill={case['ctor']['fill']}) -> recv shapes {[r[0] for r in obs.get('recv', [])]} "
            f"result {str(obs.get('res', obs.get('err')))[:200]}")


def resolve(case, name, default):
    if name in case["call"]:
        return case["call"][name]
    if name in case["bound"]:
        return case["bound"][name]
    return default


def gen_case(rng, zero_override=False, int_later_fill=False):
    naxes = rng.choice([1, 2, 2, 3])
    axes = ["X", "Y", "Z"][:naxes]
    N = {a: rng.randint(3, 4) for a in axes}   # widths (<= 2) never exceed a length (>= 2)
    coords = []
    for a in axes:
        ps = ["center"] + [p for p in G.POS[1:] if rng.random() < 0.6]
        rng.shuffle(ps)
        coords.append([a, [[p, f"{a.lower()}_{p[0]}"] for p in ps]])
    cmap = {a: dict(cs) for a, cs in coords}
    periodic = rng.choice([True, False, {a: rng.random() < 0.5 for a in axes}])
    ctor = {"coords": coords, "N": N, "periodic": periodic,
            "boundary": G.kwval(rng, axes, G.WORDS), "fill": G.kwval(rng, axes, [0, 3, -2, 7])}
    # dummies and an injective binding
    names = rng.choice(DUMMIES)[:naxes]
    real = axes[:]
    rng.shuffle(real)
    bind = dict(zip(names, real))
    n_in = rng.choice([1, 1, 2, 2, 3])
    n_out = rng.choice([0, 1, 1, 1, 2])
    in_sig = []
    for k in range(n_in):
        m = rng.choice([1, 1, 2]) if naxes > 1 else 1
        if k > 0 and rng.random() < 0.1:
            m = 0
        ds_ = rng.sample(names, min(m, naxes))
        in_sig.append([[d, rng.choice(list(cmap[bind[d]]))] for d in ds_])
    if not in_sig[0]:
        in_sig[0] = [[names[0], "center"]]
    d0 = [d for d, _ in in_sig[0]]
    out_sig = []
    for j in range(max(n_out, 1)):
        if n_out == 0:
            out_sig.append([])
            continue
        sub = [d for d in d0 if rng.random() < 0.8] or d0[:1]
        rng.shuffle(sub)
        out_sig.append([[d, rng.choice(list(cmap[bind[d]]))] for d in sub])

    def fmt(args):
        return ",".join("(" + ",".join(f"{d}:{p}" for d, p in a) + ")" for a in args)
    sp = rng.choice(["", "", " "])
    sig = fmt(in_sig) + sp + "->" + sp + fmt(out_sig)
    axis = [[bind[d] for d, _ in a] for a in in_sig]
    # boundary_width on dummies shared by all inputs
    shared = [d for d in names if all(d in [x for x, _ in a] for a in in_sig)]
    bwv = None
    if shared and rng.random() < 0.8:
        sub = [d for d in shared if rng.random() < 0.8] or shared[:1]
        rng.shuffle(sub)
        bwv = [[d, [rng.randint(0, 2), rng.randint(0, 2)]] for d in sub]
    # arrays
    args = []
    lead0 = None
    for k, a in enumerate(in_sig):
        dims = [[cmap[bind[d]][p], G.plen(p, N[bind[d]])] for d, p in a]
        used = {bind[d] for d, _ in a}
        if k == 0:
            lead = []
            sig_axes = {bind[d] for a_ in in_sig + out_sig for d, _ in a_}
            for ax in axes:
                if ax not in used and rng.random() < 0.5 and (ax not in sig_axes or rng.random() < 0.15):
                    p = rng.choice(list(cmap[ax]))
                    lead.append([cmap[ax][p], G.plen(p, N[ax])])
            if rng.random() < 0.5:
                lead.append(["t", 2])
            lead0 = lead
        else:
            lead = [l for l in lead0 if rng.random() < 0.6 and
                    not any(l[0] in cmap[ax].values() for ax in used)]
        dims = dims + lead
        rng.shuffle(dims)
        size = 1
        for _, l in dims:
            size *= l
        args.append({"dims": dims, "vals": [(5 * i * i + 7 * i + 3 + 11 * k) % 31 - 4 for i in range(size)]})
    # options: where each is supplied
    mode = rng.choice(["apply", "grid", "decorator", "decorator", "hints"])
    if mode == "hints" and any(not a for a in in_sig + out_sig):
        mode = "decorator"
    pbv = rng.random() < 0.85
    if not pbv:
        # padding after the function: the (trimmed) outputs are what is padded
        bwv = None if bwv is None else [[d, [min(lo, 1), min(hi, 1)]] for d, (lo, hi) in bwv]
    values = {"bw": bwv, "boundary": G.kwval(rng, axes, G.WORDS), "fill": G.kwval(rng, axes, [0, 5, -1, 9, 0.5]),
              "pad_before": pbv}
    alt = {"bw": None if bwv is None else [[d, [rng.randint(0, 1), rng.randint(0, 1)]] for d, _ in bwv],
           "boundary": G.kwval(rng, axes, G.WORDS), "fill": G.kwval(rng, axes, [1, 4, -3]),
           "pad_before": not values["pad_before"]}
    bound, call = {}, {}
    if zero_override and shared:
        # a fixed pattern run at every seed: a ufunc defined with a non-zero fill value, called with zero
        # (0, 0.0, or a mapping of zeros): zero is a fill value like any other, the call-time value wins
        mode = "decorator" if mode in ("apply", "grid") else mode
        bwv = [[d, [1, 1]] for d in shared]
        values["bw"] = bwv
        bound = {"bw": bwv, "boundary": "fill", "fill": rng.choice([5, {a: 5 for a in axes}])}
        call = {"fill": rng.choice([0, 0.0, {a: 0 for a in axes}])}
        if not pbv:
            bound["pad_before"] = False
    forced_dtype = None
    if int_later_fill and len(shared) >= 2:
        # a fixed pattern: integer data padded along two axes, the first by extension (or an integral fill
        # value), a later one with a fractional fill value: every axis' halo must survive
        mode = rng.choice(["apply", "grid", "decorator"])
        bwv = [[d, [1, 2]] for d in shared]
        values["bw"] = bwv
        real = [bind[d] for d in shared]
        call = {"bw": bwv, "boundary": {real[0]: rng.choice(["extend", "fill"]), **{a: "fill" for a in real[1:]}},
                "fill": {real[0]: 3, **{a: 0.5 for a in real[1:]}}}
        bound = {}
        forced_dtype = "int64"
    for o in (OPTS if not ((zero_override and shared) or forced_dtype) else []):
        r = rng.random()
        if mode in ("apply", "grid"):
            if r < 0.75:
                call[o] = values[o]
        elif r < 0.3:
            bound[o] = values[o]
        elif r < 0.55:
            call[o] = values[o]
        elif r < 0.8:
            bound[o] = alt[o]
            call[o] = values[o]
    # parameter names of the hinted function, in declaration order (any identifiers, any order)
    hint_names = rng.sample(["temp", "salt", "w", "v", "u", "hi", "lo", "b", "a", "_x", "Zeta"], len(in_sig))
    case = {"ctor": ctor, "sig": sig, "axis": axis, "args": args, "mode": mode, "bound": bound, "call": call,
            "hint_names": hint_names,
            # how the numbers are held; whether the option objects have been used before, on another grid
            "dtype": forced_dtype or rng.choice(["float64", "float64", "int64"]), "used_before": rng.random() < 0.3,
            "axis_str": rng.random() < 0.3,
            "in_sig": in_sig, "out_sig": out_sig}
    # the plan that undoes the padding
    bw_eff = dict((d, w) for d, w in (resolve(case, "bw", None) or []))
    pb = resolve(case, "pad_before", True)
    plan = []
    for o in out_sig:
        od = [d for d, _ in o]
        pj = []
        for d, p in in_sig[0]:
            if d in od:
                m = od.index(d)
                outlen = G.plen(o[m][1], N[bind[d]])
                lo, hi = bw_eff.get(d, (0, 0))
                if pb:
                    st, ln = lo, outlen
                else:
                    st, ln = 0, max(outlen - lo - hi, 0)
                r = rng.random()
                if r < 0.06:
                    ln += rng.choice([-1, 1])
                elif r < 0.12:
                    st = max(0, st + rng.choice([-1, 1]))
                pj.append([m, st, max(ln, 1)])
            else:
                pj.append(None)
        plan.append(pj)
    case["plan"] = plan
    return case


def malform(rng, case):
    r = rng.random()
    if r < 0.5:
        # an input on a different position of the same axis than the signature names
        k = rng.randrange(len(case["args"]))
        if case["in_sig"][k]:
            i = rng.randrange(len(case["in_sig"][k]))
            d, p = case["in_sig"][k][i]
            ax = case["axis"][k][i]
            cm = dict(dict(case["ctor"]["coords"])[ax])
            others = [q for q in cm if q != p]
            if others:
                q = rng.choice(others)
                for dd in case["args"][k]["dims"]:
                    if dd[0] == cm[p]:
                        old = dd[1]
                        dd[0], dd[1] = cm[q], G.plen(q, case["ctor"]["N"][ax])
                        size = 1
                        for _, l in case["args"][k]["dims"]:
                            size *= l
                        case["args"][k]["vals"] = [(3 * i + 1) % 17 for i in range(size)]
                case["kind"] = "misplaced"
    elif r < 0.65:
        case["axis"] = case["axis"][:-1] if len(case["axis"]) > 1 else case["axis"] + [case["axis"][0]]
        case["kind"] = "axis-count"
    elif r < 0.8:
        case["axis"][0] = case["axis"][0] + ["X"]
        case["kind"] = "axis-arity"
    elif r < 0.9:
        allax = [a for a, _ in case["ctor"]["coords"]]
        if len(allax) > 1:
            case["axis"][-1] = [rng.choice(allax) for _ in case["axis"][-1]]
            case["kind"] = "rebinding"
    else:
        case["call"]["bw"] = [["Q", [1, 1]]]
        case["kind"] = "bw-unbound"
    return case


def generate(rng, tier):
    n = 320 if tier == "quick" else 5000
    cases = []
    for i in range(n):
        c = gen_case(rng, zero_override=(i % 20 == 0), int_later_fill=(i % 20 in (10, 11, 12)))
        if i % 6 == 5:
            c = malform(rng, c)
        cases.append(c)
    return cases


def run_impl(case):
    import numpy as np
    import xarray as xr
    from typing import Annotated, Tuple
    from xgcm.grid_ufunc import apply_as_grid_ufunc, as_grid_ufunc
    ds, g, sizes = G.build_grid(case["ctor"], with_coords=True)
    das = []
    for a in case["args"]:
        shape = [l for _, l in a["dims"]]
        das.append(xr.DataArray(np.array(a["vals"], dtype=case.get("dtype", "float64")).reshape(shape),
                                dims=[d for d, _ in a["dims"]]))
    recv, ret = [], []
    plan = case["plan"]
    k0 = len(case["in_sig"][0])

    def body(*arrs):
        recv.append([[list(map(int, a.shape)), [str(Fraction(float(v))) for v in np.asarray(a).ravel()]]
                     for a in arrs])
        a0 = np.asarray(arrs[0])
        nlead = a0.ndim - k0
        outs = []
        for pj in plan:
            idx = [slice(None)] * nlead
            keep = []
            for pl in pj:
                if pl is None:
                    idx.append(0)
                else:
                    m, st, ln = pl
                    idx.append(slice(st, st + ln))
                    keep.append(m)
            o = a0[tuple(idx)]
            perm = list(range(nlead)) + [nlead + keep.index(m) for m in range(len(keep))]
            outs.append(np.array(o.transpose(perm)))
        ret.append([[str(Fraction(float(v))) for v in o.ravel()] for o in outs])
        return outs[0] if len(outs) == 1 else tuple(outs)

    def f1(a):
        return body(a)

    def f2(a, b):
        return body(a, b)

    def f3(a, b, c):
        return body(a, b, c)
    func = {1: f1, 2: f2, 3: f3}[len(case["in_sig"])]

    def kws(o):
        kw = {}
        if "bw" in o:
            kw["boundary_width"] = None if o["bw"] is None else {d: tuple(w) for d, w in o["bw"]}
        if "boundary" in o:
            kw["boundary"] = o["boundary"]
        if "fill" in o:
            kw["fill_value"] = o["fill"]
        if "pad_before" in o:
            kw["pad_before_func"] = o["pad_before"]
        return kw
    # an entry naming one axis may be spelled as a plain string
    axis = [a[0] if case.get("axis_str") and len(a) == 1 else tuple(a) for a in case["axis"]]
    if case.get("axis_str") and len(axis) == 1 and isinstance(axis[0], str) and case.get("axis_whole", True):
        axis = axis[0]          # the whole argument as one plain string: it names that one axis
    call_kw, bound_kw = kws(case["call"]), kws(case["bound"])
    if case.get("used_before"):
        # the same option objects (mappings) have served a call on ANOTHER grid, whose defaults differ
        try:
            c2 = dict(case["ctor"], boundary="extend", fill=9, periodic=False)
            _, g2, _ = G.build_grid(c2, with_coords=True)
            if case["mode"] in ("apply", "grid"):
                apply_as_grid_ufunc(func, *das, axis=axis, grid=g2, signature=case["sig"], **call_kw)
            else:
                as_grid_ufunc(signature=case["sig"], **bound_kw)(func)(g2, *das, axis=axis, **call_kw)
        except Exception:
            pass
        del recv[:], ret[:]
    kws = lambda o: call_kw if o is case["call"] else bound_kw
    try:
        mode = case["mode"]
        if mode == "apply":
            r = apply_as_grid_ufunc(func, *das, axis=axis, grid=g, signature=case["sig"], **kws(case["call"]))
        elif mode == "grid":
            r = g.apply_as_grid_ufunc(func, *das, axis=axis, signature=case["sig"], **kws(case["call"]))
        else:
            if mode == "hints":
                def ann(a):
                    return Annotated[np.ndarray, ",".join(f"{d}:{p}" for d, p in a)]
                names = case.get("hint_names") or ["a", "b", "c"][:len(case["in_sig"])]
                hints = {n: ann(a) for n, a in zip(names, case["in_sig"])}
                outs = [ann(a) for a in case["out_sig"]]
                hints["return"] = outs[0] if len(outs) == 1 else Tuple[tuple(outs)]
                func.__annotations__ = hints
                gu = as_grid_ufunc(**kws(case["bound"]))(func)
            else:
                gu = as_grid_ufunc(signature=case["sig"], **kws(case["bound"]))(func)
            r = gu(g, *das, axis=axis, **kws(case["call"]))
        if not isinstance(r, (tuple, list)):
            r = (r,)
        res = [[[[d, int(n)] for d, n in zip(x.dims, x.shape)],
                [str(Fraction(float(v))) for v in x.values.ravel()]] for x in r]
        out = {"res": res}
    except Exception as e:
        kind = next((k.__name__ for k in type(e).__mro__ if k.__name__ in C.EKINDS), type(e).__name__)
        out = {"err": kind, "msg": f"{type(e).__name__}: {e}"[:200]}
    if len(recv) > 1:
        out["calls"] = len(recv)
    out["recv"] = recv[0] if recv else []
    out["ret"] = ret[0] if ret else []
    out["sizes"] = sizes
    return out


def copts(o):
    def bw(v):
        return "None" if v is None else "(Some " + C.clist(
            f"({C.cstr(d)}, ({C.cnat(lo)}, {C.cnat(hi)}))" for d, (lo, hi) in v) + ")"
    return ("{| o_bw := " + (f"Some {bw(o['bw'])}" if "bw" in o else "None") +
            "; o_boundary := " + (f"Some {G.ckw(o['boundary'], G.cbw)}" if "boundary" in o else "None") +
            "; o_fill := " + (f"Some {G.ckw(o['fill'], G.cq)}" if "fill" in o else "None") +
            "; o_pad_before := " + (f"Some {C.cbool(o['pad_before'])}" if "pad_before" in o else "None") + " |}")


def coq_case(case, obs):
    def cvals(vs):
        return C.clist(G.cq(Fraction(v)) for v in vs)
    plan = C.clist(C.clist("None" if p is None else f"(Some ({C.cnat(p[0])}, {C.cnat(p[1])}, {C.cnat(p[2])}))"
                           for p in pj) for pj in case["plan"])
    if "err" in obs:
        res = f"(Err {C.cekind(obs['err'])})"
    else:
        res = "(Ok " + C.clist(f"({G.cdims(d)}, {cvals(v)})" for d, v in obs["res"]) + ")"
    return ("{| c11_ctor := " + G.coq_ctor(case["ctor"]) +
            "; c11_dssizes := " + G.cdims(sorted(obs["sizes"].items())) +
            "; c11_sig := " + C.cstr(case["sig"]) +
            "; c11_axis := " + C.clist(C.clist(C.cstr(a) for a in ax) for ax in case["axis"]) +
            "; c11_args := " + C.clist(f"({G.cdims(a['dims'])}, {cvals(a['vals'])})" for a in case["args"]) +
            "; c11_bound := " + copts(case["bound"]) + "; c11_call := " + copts(case["call"]) +
            "; c11_plan := " + plan +
            "; c11_recv := " + C.clist(f"({C.clist(C.cnat(n) for n in sh)}, {cvals(v)})" for sh, v in obs["recv"]) +
            "; c11_ret := " + C.clist(cvals(v) for v in obs["ret"]) +
            f"; c11_res := {res} |}}")


def distribution(cases, obs):
    from collections import Counter
    c = Counter()
    for case, o in zip(cases, obs):
        c["mode:" + case["mode"]] += 1
        c["kind:" + case.get("kind", "well-formed")] += 1
        c[f"in={len(case['in_sig'])},out={len(case['out_sig'])}"] += 1
        c["err:" + o["err"] if "err" in o else "ok"] += 1
        c["called" if o.get("recv") else "not-called"] += 1
        for name in OPTS:
            where = ("both" if name in case["bound"] and name in case["call"] else
                     "bound" if name in case["bound"] else "call" if name in case["call"] else "neither")
            c[f"{name}:{where}"] += 1
    return dict(c)
