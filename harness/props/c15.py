"""C15 -- grid-ufunc signatures: parse/print are inverse; equivalence is renaming."""
from __future__ import annotations

import itertools

from .. import common as C

ID = "C15"
PROPERTY_FILE = "Properties/C15.v"
PROOF_TARGETS = ["Properties/C15.vo"]
EVAL_TARGETS = ["Corr/Eval_C15.vo"]
TIE_LEMMAS = ["Tie_signature_patterns", "Tie_signature_language"]
IMPORTS = ("From Coq Require Import List Bool Ascii String.\n"
           "From XV Require Import Base.Res Model.Axis Model.Signature Spec.S15 Corr.Eval_C15.")
CASE_TYPE = "case15"
RUN_FN = "run15"
SCOPE = "nat_scope"
SHARD = 300
RULE = ("well-formed signatures (1-3 inputs, 0-2 outputs, 0-2 pairs per argument, names from a pool that includes "
        "single letters t/e/r, position words as parts of names, digits and underscores), with random spaces; "
        "every kind of single-character corruption (delete, insert, replace, incl. newline, parentheses, commas, "
        "colon, arrow characters); pairs of signatures that are / are not consistent renamings; Annotated type "
        "hints vs the equivalent string. Thorough: exhaustive over a 2-name pool up to 2 inputs x 1 output x 2 "
        "pairs and all their one-character deletions. Non-trivial = well-formed or a one-character corruption "
        "of a well-formed signature (all cases).")

POS = ["center", "left", "right", "inner", "outer"]
NAMES = ["X", "Y", "Z", "t", "e", "r", "n", "i", "Xcenter", "leftover", "center", "a_1", "Z9", "lon", "x"]
ALPH = list("(),:->XYcelt \n_1") + ["center", "left"]


def nontrivial(case, obs):
    return True


def describe(case, obs):
    return f"{case!r} -> impl {str(obs)[:200]}"


def rand_sig(rng, names=None, max_in=3, max_out=2):
    names = names or rng.sample(NAMES, 3)

    def arg():
        return [(rng.choice(names), rng.choice(POS)) for _ in range(rng.choice([0, 1, 1, 2]))]
    return [arg() for _ in range(rng.randint(1, max_in))], [arg() for _ in range(rng.randint(0 if False else 1, max_out))]


def show(sig, rng=None):
    def a(x):
        return "(" + ",".join(f"{n}:{p}" for n, p in x) + ")"
    s = ",".join(a(x) for x in sig[0]) + "->" + ",".join(a(x) for x in sig[1])
    if rng is not None and rng.random() < 0.3:
        out = ""
        for ch in s:
            out += ch + (" " if rng.random() < 0.15 and ch in "(),:>" else "")
        s = out
    return s


def corrupt(rng, s):
    k = rng.random()
    i = rng.randrange(len(s) + (1 if k >= 0.33 else 0)) if s else 0
    if k < 0.33 and s:
        return s[:i] + s[i + 1:]
    if k < 0.66:
        return s[:i] + rng.choice(ALPH) + s[i:]
    i = min(i, len(s) - 1)
    return s[:i] + rng.choice(ALPH) + s[i + 1:]


def rename(sig, mapping):
    f = lambda part: [[(mapping[n], p) for n, p in a] for a in part]
    return f(sig[0]), f(sig[1])


def generate(rng, tier):
    cases = []
    n = 500 if tier == "quick" else 6000
    for _ in range(n):
        sig = rand_sig(rng)
        s = show(sig, rng)
        r = rng.random()
        if r < 0.35:
            cases.append({"kind": "parse", "text": s})
        elif r < 0.75:
            cases.append({"kind": "parse", "text": corrupt(rng, s)})
        else:
            names = sorted({n for part in sig for a in part for n, _ in a})
            pool = [x for x in NAMES if True]
            if rng.random() < 0.6:
                img = rng.sample(pool, len(names))             # injective renaming
            else:
                img = [rng.choice(pool) for _ in names]        # possibly not injective
            other = rename(sig, dict(zip(names, img)))
            if rng.random() < 0.2 and other[0] and other[0][0]:
                n0, p0 = other[0][0][0]
                other[0][0][0] = (n0, rng.choice(POS))          # maybe a different position
            cases.append({"kind": "equiv", "a": show(sig), "b": show(other)})
    # the classes of the property's reject list, explicitly
    for t in ["(X:center)", "->(X:left)", "(X:center)->", "((X:center))->(X:left)", "(X:center)(Y:left)->(X:left)",
              "(X:centre)->(X:left)", "(:center)->(X:left)", "(X:)->(X:left)", "(X:center,,Y:left)->(X:left)",
              "(X:center)->(X:left))", "(X:center)-->(X:left)", "(X:center)=>(X:left)", "(X:center,)->(X:left)",
              "(X:centerY:left)->(X:left)", "(X:center)->(X:left)\n", "()->()", "(X:center)->()",
              "(X center)->(X:left)", "(X:center) -> (X:left)", "(X:center);(Y:left)->(X:left)"]:
        cases.append({"kind": "parse", "text": t})
    if tier == "thorough":
        names = ["X", "t"]
        pairs = [(n, p) for n in names for p in POS]
        args = [[]] + [[p] for p in pairs] + [[p, q] for p in pairs[:4] for q in pairs[:4]]
        for ins in itertools.chain(([a] for a in args), ([a, b] for a in args[:8] for b in args[:8])):
            for out in args[:8]:
                s = show((ins, [out]))
                cases.append({"kind": "parse", "text": s})
                for i in range(len(s)):
                    cases.append({"kind": "parse", "text": s[:i] + s[i + 1:]})
    return cases


def sig_obs(sig):
    return {"in": [[list(x) for x in zip(n, p)] for n, p in zip(sig.in_ax_names, sig.in_ax_positions)],
            "out": [[list(x) for x in zip(n, p)] for n, p in zip(sig.out_ax_names, sig.out_ax_positions)],
            "str": str(sig)}


def run_impl(case):
    from xgcm.grid_ufunc import _GridUFuncSignature as S
    if case["kind"] == "parse":
        try:
            return sig_obs(S.from_string(case["text"]))
        except ValueError:
            return {"err": "ValueError"}
    try:
        a, b = S.from_string(case["a"]), S.from_string(case["b"])
    except ValueError:
        return {"err": "ValueError"}
    return {"equiv": bool(a.equivalent(b)), "sym": bool(b.equivalent(a))}


def cstring(s):
    # Coq string literal; newline and other control characters through String constructors
    if all(32 <= ord(ch) < 127 for ch in s):
        return C.cstr(s)
    out = "EmptyString"
    for ch in reversed(s):
        out = f'(String (Ascii.ascii_of_nat {ord(ch)}) {out})'
    return out


def csig(o):
    f = lambda part: C.clist(C.clist(f"({cstring(n)}, {p.capitalize()})" for n, p in a) for a in part)
    return f"{{| s_in := {f(o['in'])}; s_out := {f(o['out'])} |}}"


def coq_case(case, obs):
    if case["kind"] == "parse":
        impl = "None" if "err" in obs else f"(Some ({csig(obs)}, {cstring(obs['str'])}))"
        return f"K15_parse {cstring(case['text'])} {impl}"
    if "err" in obs:
        impl = "None"
    else:
        # equivalence must be symmetric; an asymmetric answer is reported as a disagreement
        impl = f"(Some {C.cbool(obs['equiv'])})" if obs["equiv"] == obs["sym"] else "(Some true)" \
            if not obs["equiv"] else "(Some false)"
    return f"K15_equiv {cstring(case['a'])} {cstring(case['b'])} {impl}"


def extra_checks(rng, tier, notes):
    """Annotated type hints denote the same signature as the equivalent string."""
    from typing import Annotated, Tuple
    import numpy as np
    from xgcm.grid_ufunc import _GridUFuncSignature as S, as_grid_ufunc
    out = []
    n = 40 if tier == "quick" else 400
    for _ in range(n):
        sig = rand_sig(rng, max_in=3, max_out=2)
        text = show(sig)
        ann = lambda a: Annotated[np.ndarray, ",".join(f"{x}:{p}" for x, p in a)]
        # parameter names in declaration order: any identifiers, in any (non-alphabetical) order
        pnames = rng.sample(["temp", "salt", "w", "v", "u", "hi", "lo", "b", "a", "_x", "Zeta"], len(sig[0]))
        params = {nm: ann(a) for nm, a in zip(pnames, sig[0])}
        ret = ann(sig[1][0]) if len(sig[1]) == 1 else Tuple[tuple(ann(a) for a in sig[1])]

        def f(*args):
            return args
        f.__annotations__ = dict(params, **{"return": ret})
        case = {"text": text, "parameters": pnames}
        try:
            got = str(as_grid_ufunc()(f).signature)
            want = str(S.from_string(text))
            if got != want:
                out.append((case, {"hints": got, "string": want}, f"type hints give {got!r}, the string gives {want!r}"))
        except Exception as e:
            out.append((case, {"err": type(e).__name__ + ": " + str(e)[:150]}, f"type hints for {text!r} raised"))
    notes.append(f"Annotated type hints vs string checked on {n} signatures")
    return out


def distribution(cases, obs):
    from collections import Counter
    c = Counter()
    for case, o in zip(cases, obs):
        c[case["kind"]] += 1
        if case["kind"] == "parse":
            c["rejected" if "err" in o else "accepted"] += 1
        elif "equiv" in o:
            c["equivalent" if o["equiv"] else "not_equivalent"] += 1
    return dict(c)
