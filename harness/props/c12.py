"""C12 -- results do not depend on the hash seed or on table ordering."""
from __future__ import annotations

import copy
import json
import os
import random
import subprocess

from .. import common as C
from . import c05 as F

ID = "C12"
PROPERTY_FILE = "Properties/C12.v"
PROOF_TARGETS = ["Properties/C12.vo", "Proofs/Tie_sets.vo"]
EVAL_TARGETS = ["Corr/Eval_C12.vo"]
TIE_LEMMAS = ["Tie_set_iteration_sites"]
IMPORTS = F.IMPORTS + "\nFrom XV Require Import Corr.Eval_C12."
CASE_TYPE = "case05"
RUN_FN = "run12"
SCOPE = "nat_scope"
SHARD = 40
RULE = ("(a) padded face-connected arrays with 2-D width sets, every cell including the halo corners compared "
        "with the order-free model whose axis order is computed from the grid alone, each topology also with its "
        "table and width mapping listed in reversed order; (b) the same pad calls, pairs of renamed multi-axis "
        "signatures, COMODO/SGRID datasets with 2-4 axes and metric registries offering several partitions, run "
        "in fresh interpreters under several PYTHONHASHSEED values and required to give byte-identical canonical "
        "output. Non-trivial = at least two axes / names so that two iteration orders exist (all cases).")
ASSUMPTIONS = ["CPython's set iteration order is some permutation determined by PYTHONHASHSEED and history; "
               "this is observed across real seeds, not proved"]


def nontrivial(case, obs):
    return True


describe = F.describe
run_impl = F.run_impl
coq_case = F.coq_case
distribution = F.distribution


def reorder_case(case):
    c = copy.deepcopy(case)
    c["conn"] = [[f, list(reversed(fal))] for f, fal in reversed(c["conn"])]
    # faces must stay keyed by index; only the listing order changes
    if c["bw"]:
        c["bw"] = list(reversed(c["bw"]))
    return c


def generate(rng, tier):
    n = 110 if tier == "quick" else 1500
    cases = []
    while len(cases) < n:
        c = F.gen_case(rng)
        if not c["bw"] or len(c["bw"]) < 2:
            continue
        # make the corners matter: non-zero widths on both axes, extend/periodic/fill mixed
        for a, w in c["bw"]:
            if w == [0, 0]:
                w[rng.randrange(2)] = 1
        cases.append(c)
        cases.append(reorder_case(c))
    return cases


def seed_cases(rng, tier):
    cases = []
    n = 12 if tier == "quick" else 60
    while len([c for c in cases if c["kind"] == "pad"]) < n:
        c = F.gen_case(rng)
        if c["bw"] and len(c["bw"]) == 2:
            cases.append({"kind": "pad", "case": c})
    sigs = [("(X:center,Y:left)->(Y:center)", "(a:center,b:left)->(b:center)"),
            ("(X:center,Y:left)->(Y:center)", "(a:center,b:left)->(a:center)"),
            ("(X:center,Y:left),(Z:inner)->(X:left,Z:center)", "(p:center,q:left),(r:inner)->(p:left,r:center)"),
            ("(X:center,Y:left),(Z:inner)->(X:left,Z:center)", "(p:center,q:left),(r:inner)->(q:left,r:center)"),
            ("(t:center,e:left)->(e:outer)", "(lon:center,lat:left)->(lat:outer)"),
            ("(X:center,Y:center,Z:center)->(Z:left)", "(c:center,b:center,a:center)->(a:left)")]
    for a, b in sigs:
        cases.append({"kind": "equiv", "a": a, "b": b})
    axes_pool = ["X", "Y", "Z", "T"]
    for k in range(6 if tier == "quick" else 30):
        na = rng.randint(2, 4)
        axes = rng.sample(axes_pool, na)
        dims = []
        for a in axes:
            N = rng.randint(2, 4)
            dims.append([f"{a.lower()}c", N, a, None])
            if rng.random() < 0.7:
                dims.append([f"{a.lower()}g", N, a, -0.5])
            if rng.random() < 0.3:
                dims.append([f"{a.lower()}o", N + 1, a, rng.choice([-0.5, 0.5])])
        rng.shuffle(dims)
        cases.append({"kind": "parse", "convention": "comodo", "dims": dims})
    for topo in ("2d", "2dv", "3d"):
        sizes = [["xi_psi", 4], ["xi_rho", 5], ["eta_psi", 3], ["eta_rho", 4], ["s_rho", 2], ["s_w", 3]]
        if topo == "3d":
            attrs = {"cf_role": "grid_topology", "topology_dimension": 3, "node_dimensions": "xi_psi eta_psi s_w",
                     "volume_dimensions": "xi_rho: xi_psi (padding: both) eta_rho: eta_psi (padding: both) s_rho: s_w (padding: none)"}
        else:
            attrs = {"cf_role": "grid_topology", "topology_dimension": 2, "node_dimensions": "xi_psi eta_psi",
                     "face_dimensions": "xi_rho: xi_psi (padding: both) eta_rho: eta_psi (padding: both)"}
            if topo == "2dv":
                attrs["vertical_dimensions"] = "s_rho: s_w (padding: none)"
        cases.append({"kind": "parse", "convention": "sgrid", "sizes": sizes, "grid_attrs": attrs})
    # a user's grid ufunc over 2-3 axes whose function reads the corner of the halo: per-axis rules and
    # fill values differ, so the corner tells in which order the axes were padded
    for k in range(6 if tier == "quick" else 30):
        names = rng.sample(["X", "Y", "Z", "lon", "lat", "T"], rng.choice([2, 2, 3]))
        dummies = rng.sample(["a", "b", "c", "X", "Y", "p", "q", "time"], len(names))
        bw = [[d, [1, 1]] for d in dummies]
        rng.shuffle(bw)
        fills = rng.sample([1.0, 2.0, 5.0, -3.0], len(names))
        cases.append({"kind": "ufunc", "axes": names, "dummies": dummies, "bw": bw,
                      "boundary": rng.choice(["fill", dict(zip(names, rng.sample(["fill", "extend", "fill"], len(names))))]),
                      "fill": dict(zip(names, fills))})
    regs = [[[["X"], ["dx_c"]], [["Y"], ["dy_c"]], [["Z"], ["dz_c"]], [["X", "Y"], ["a_cc"]]],
            [[["X"], ["dx_c"]], [["Y"], ["dy_c"]], [["Z"], ["dz_c"]]],
            [[["X", "Y"], ["a_cc"]], [["Z"], ["dz_c"]], [["X"], ["dx_c"]]]]
    for reg in regs:
        for axes in (["X", "Y", "Z"], ["Z", "Y", "X"], ["Y", "Z", "X"], ["X", "Y"]):
            cases.append({"kind": "metric", "metrics": reg, "axes": axes})
    # a registration that lists a variable twice; queried from a position none of them is at, so that WHICH
    # one is interpolated matters
    for reg in ([[["X", "Y"], ["a_lc", "a_cl", "a_lc"]], [["Z"], ["dz_c"]]],
                [[["X", "Y"], ["a_cl", "a_lc", "a_cl", "a_lc"]], [["Z"], ["dz_c"]]],
                [[["X"], ["dx_l", "dx_o", "dx_l"]], [["Y"], ["dy_c"]], [["Z"], ["dz_c"]]]):
        for axes in (["X", "Y", "Z"], ["X", "Y"]):
            cases.append({"kind": "metric", "metrics": reg, "axes": axes})
    # operations that leave `to` to the axis' default shift, on axes that have several staggered positions
    from . import c01 as K1
    pool = [c for c in K1.generate(random.Random(rng.randint(0, 10 ** 6)), "quick")
            if c["call"]["to"] is None and any(len(ps) >= 3 for _, ps in c["ctor"]["coords"])]
    for c in pool[:(10 if tier == "quick" else 60)]:
        cases.append({"kind": "op", "case": c})
    return cases


def extra_checks(rng, tier, notes):
    cases = seed_cases(rng, tier)
    d = C.BUILD / "C12"
    d.mkdir(parents=True, exist_ok=True)
    f = d / "seedcases.json"
    f.write_text(json.dumps(cases))
    seeds = [0, 1, 2] if tier == "quick" else list(range(16))
    procs = []
    for s in seeds:
        env = dict(os.environ, PYTHONHASHSEED=str(s))
        procs.append((s, subprocess.Popen(["/venv/bin/python", "-W", "ignore", "-m", "harness.seedworker", str(f)],
                                          cwd=str(C.ROOT), env=env, stdout=subprocess.PIPE,
                                          stderr=subprocess.PIPE, text=True)))
    results = {}
    out = []
    for s, p in procs:
        o, e = p.communicate(timeout=1200)
        try:
            results[s] = json.loads(o)
        except Exception:
            out.append(({"seed": s}, {"stderr": e[-500:]}, f"seed worker for PYTHONHASHSEED={s} failed"))
    if not out:
        ref = results[seeds[0]]
        ndiff = 0
        for i, case in enumerate(cases):
            for s in seeds[1:]:
                if json.dumps(results[s][i], sort_keys=True) != json.dumps(ref[i], sort_keys=True):
                    ndiff += 1
                    out.append(({"case": case, "seeds": [seeds[0], s]},
                                {str(seeds[0]): ref[i], str(s): results[s][i]},
                                f"result depends on PYTHONHASHSEED ({seeds[0]} vs {s}): {str(case)[:300]}"))
                    break
            # signature equivalence must also be symmetric
            if case["kind"] == "equiv" and isinstance(ref[i], dict) and ref[i].get("ab") != ref[i].get("ba"):
                out.append((case, ref[i], f"equivalent() is not symmetric for {case['a']} / {case['b']}"))
        kinds = {}
        for c in cases:
            kinds[c["kind"]] = kinds.get(c["kind"], 0) + 1
        notes.append(f"{len(cases)} cases {kinds} run in fresh interpreters under PYTHONHASHSEED in {seeds}: "
                     f"{ndiff} seed-dependent")
    out.extend(order_accept_checks(rng, tier, notes))
    return out


def order_accept_checks(rng, tier, notes):
    """accept/reject of a face-connection table must not depend on the order in which the same faces (and
    the axes of a face) are listed -- also for malformed tables"""
    import itertools
    from . import c17 as K17
    out = []
    n = 60 if tier == "quick" else 600
    ntab = nperm = 0
    for _ in range(n):
        nf = rng.randint(2, 4)
        t = K17.random_reciprocal(rng, nf)
        for _k in range(rng.choice([0, 1, 1, 2])):
            t = K17.edits(rng, t, nf, ("X", "Y"))
        perms = list(itertools.permutations(range(len(t))))
        rng.shuffle(perms)
        outcomes = {}
        for perm in perms[:24]:
            tp = [t[i] for i in perm]
            if rng.random() < 0.5:
                tp = [[f, list(reversed(fal))] for f, fal in tp]
            o = K17.run_impl(K17.mk(tp, nfaces=nf))
            # accept/reject only: WHICH defect of a table with several is reported first may depend
            # on the order (the property speaks of accept/reject outcomes)
            outcomes.setdefault("accepted" if o["ok"] else "rejected", tp)
            nperm += 1
        ntab += 1
        if len(outcomes) > 1:
            (a, ta), (b, tb) = list(outcomes.items())[:2]
            out.append(({"table_order_1": ta, "table_order_2": tb}, {"outcome_1": a, "outcome_2": b},
                        f"accept/reject depends on the listing order of the same face links: {ta} -> {a}; {tb} -> {b}"))
    notes.append(f"{ntab} face-connection tables (reciprocal and edited) constructed in {nperm} listing orders: "
                 f"{len(out)} order-dependent")
    return out
