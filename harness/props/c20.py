"""C20 -- ill-posed requests raise instead of returning an array."""
from __future__ import annotations

import copy
from fractions import Fraction

from .. import common as C
from . import c01 as K1
from . import c02 as G
from . import c08 as K8
from . import c11 as K11

ID = "C20"
PROPERTY_FILE = "Properties/C20.v"
PROOF_TARGETS = ["Properties/C20.vo"]
EVAL_TARGETS = ["Corr/Eval_C20.vo"]
TIE_LEMMAS = ["Tie_gridops", "Tie_cumsum", "Tie_pad_modes", "Tie_valid_positions", "Tie_signature"]
IMPORTS = ("From Coq Require Import List Bool ZArith QArith String.\n"
           "From XV Require Import Base.Res Base.Assoc Base.QNOps Base.Seq1D Base.Tensor Model.Axis Model.GridCtor "
           "Model.Pad Model.Signature Model.UFunc Model.Transform Model.Refuse Model.Registry Model.Metrics Corr.Eval_C08 Corr.Eval_C11 Corr.Eval_C20.")
CASE_TYPE = "case20"
RUN_FN = "run20"
SCOPE = "nat_scope"
SHARD = 80
RULE = ("base calls from the generators of C01/C09 (diff, interp, min, max, cumsum on 1-3 axes), C08/C07 "
        "(Grid.transform linear and conservative), C11 (grid ufuncs wrapped four ways) and C02 (Grid constructor), "
        "each with ONE ill-posing edit from the listed classes: axis the grid lacks; data dimension of the axis "
        "removed / a second one added; `to` equal to the current position / a position the axis lacks / an "
        "unknown word; unknown boundary word as scalar, for the operated axis, for another axis; non-numeric fill "
        "value as scalar or per axis under every rule and on shifts that do not pad; transform on a periodic "
        "axis / with non-monotonic conservative bins / conservative without outer; ufunc input on another position, "
        "one argument or one `axis` entry too few, entry of the wrong arity; constructor with a dimension the "
        "dataset lacks, unknown boundary word, non-numeric fill value, default shift onto the same position. "
        "15% of the cases are unedited base calls (model and implementation must still agree on raise/return). "
        "Non-trivial = an edited call.")

OPS = ["diff", "interp", "min", "max", "cumsum"]


def nontrivial(case, obs):
    return case["edit"] != "none"


def describe(case, obs):
    r = case["req"]
    return f"{case['kind']} edit={case['edit']}: {str({k: v for k, v in r.items() if k not in ('vals', 'da_vals', 'td_vals', 'args')})[:700]} -> {obs}"


# ---------------------------------------------------------------- grid operations
def edit_op(rng, req):
    c, k = req["ctor"], req["call"]
    cmap = {a: dict(cs) for a, cs in c["coords"]}
    axes = k["axes"]
    dimnames = [d for d, _ in req["dims"]]
    frm = {}
    for a in axes:
        for p, d in cmap[a].items():
            if d in dimnames:
                frm[a] = p
    choice = rng.choice(["axis-missing", "dim-removed", "dim-doubled", "same-position", "position-lacking",
                         "unknown-position", "unknown-boundary", "unknown-boundary", "nonnumeric-fill",
                         "nonnumeric-fill"])
    a = rng.choice(axes)

    def to_dict():
        t = k["to"]
        if isinstance(t, dict):
            return dict(t)
        return {x: t for x in [ax for ax, _ in c["coords"]]} if t is not None else {}
    if choice == "axis-missing":
        i = rng.randrange(len(axes))
        if rng.random() < 0.5:
            k["axes"] = axes[:i] + ["Q"] + axes[i + 1:]
        else:
            k["axes"] = axes[:i] + ["Q"] + axes[i:]
        if isinstance(k["to"], dict):
            k["to"] = {**k["to"], "Q": "center"}
    elif choice == "dim-removed":
        d = cmap[a][frm[a]]
        req["dims"] = [x for x in req["dims"] if x[0] != d]
        size = 1
        for _, l in req["dims"]:
            size *= l
        req["vals"] = req["vals"][:size]
    elif choice == "dim-doubled":
        others = [p for p in cmap[a] if p != frm[a]]
        if not others:
            return None
        q = rng.choice(others)
        req["dims"] = req["dims"] + [[cmap[a][q], G.plen(q, c["N"][a])]]
        size = 1
        for _, l in req["dims"]:
            size *= l
        req["vals"] = [(3 * i + 1) % 11 for i in range(size)]
    elif choice == "same-position":
        t = to_dict()
        t[a] = frm[a]
        k["to"] = t if len(axes) > 1 or rng.random() < 0.5 else frm[a]
    elif choice == "position-lacking":
        lacking = [p for p in G.POS if p not in cmap[a]]
        if not lacking:
            return None
        t = to_dict()
        t[a] = rng.choice(lacking)
        k["to"] = t if len(axes) > 1 or rng.random() < 0.5 else t[a]
    elif choice == "unknown-position":
        t = to_dict()
        t[a] = rng.choice(["middle", "centre", "Center", "", " left", "le ft", "left "])
        k["to"] = t if len(axes) > 1 or rng.random() < 0.5 else t[a]
    elif choice == "unknown-boundary":
        w = rng.choice(["reflect", "wrap", "Fill", "constant", ""])      # (an empty word is no word either)
        r = rng.random()
        allax = [ax for ax, _ in c["coords"]]
        if r < 0.35:
            k["boundary"] = w
        else:
            b = k["boundary"]
            b = dict(b) if isinstance(b, dict) else ({x: b for x in allax} if b is not None else {})
            b[a if r < 0.7 else rng.choice(allax)] = w
            k["boundary"] = b
    elif choice == "nonnumeric-fill":
        w = rng.choice(["abc", "nan", "1", "", [], [1.0]])               # falsy junk is junk too
        r = rng.random()
        allax = [ax for ax, _ in c["coords"]]
        if r < 0.35:
            k["fill"] = w
        else:
            f = k["fill"]
            f = dict(f) if isinstance(f, dict) else ({x: f for x in allax} if f is not None else {})
            f[a if r < 0.7 else rng.choice(allax)] = w
            k["fill"] = f
    return choice


def run_op(req):
    import numpy as np
    import xarray as xr
    ds, g, sizes = G.build_grid(req["ctor"], with_coords=True)
    k = req["call"]
    shape = [l for _, l in req["dims"]]
    da = xr.DataArray(np.array(req["vals"], dtype=float).reshape(shape), dims=[d for d, _ in req["dims"]])
    kwargs = {}
    for name, key in (("to", "to"), ("boundary", "boundary"), ("fill", "fill_value")):
        if k[name] is not None:
            kwargs[key] = k[name]
    axis = k["axes"] if len(k["axes"]) != 1 else k["axes"][0]
    r = getattr(g, k["func"])(da, axis, **kwargs)
    assert isinstance(r, xr.DataArray)
    return sizes


def cfill(v):
    return "(Some " + G.cq(v) + ")" if isinstance(v, (int, float, Fraction)) and not isinstance(v, bool) else "None"


def coq_op(req, sizes):
    k = req["call"]
    raw = ("{| r_func := " + C.cstr(k["func"]) + "; r_axes := " + C.clist(C.cstr(a) for a in k["axes"]) +
           f"; r_to := {G.ckw(k['to'], C.cstr)}; r_boundary := {G.ckw(k['boundary'], G.cbw)}" +
           f"; r_fill := {G.ckw(k['fill'], cfill)} |}}")
    return ("(R_op " + G.coq_ctor(req["ctor"]) + " " + G.cdims(sorted(sizes.items())) + " " + G.cdims(req["dims"]) +
            " " + C.clist(G.cq(v) for v in req["vals"]) + " " + raw + ")")


# ---------------------------------------------------------------- transform
def edit_transform(rng, req):
    choice = rng.choice(["periodic", "non-monotonic-bins", "no-outer", "dim-doubled", "dim-removed"])
    if choice == "periodic":
        req["periodic"] = True
    elif choice == "dim-doubled":
        # the data carries both the centre and the outer dimension of the axis
        req["has_outer"] = True
        req["dims"] = req["dims"] + [["zo", req["N"] + 1]]
        size = 1
        for _, l in req["dims"]:
            size *= l
        req["da_vals"] = [(5 * i + 2) % 13 for i in range(size)]
    elif choice == "dim-removed":
        req["dims"] = [d for d in req["dims"] if d[0] != "zc"]
        size = 1
        for _, l in req["dims"]:
            size *= l
        req["da_vals"] = req["da_vals"][:size]
    elif choice == "non-monotonic-bins":
        req["method"] = "conservative"
        req["has_outer"] = True
        lev = sorted(set(req["levels"]))
        while len(lev) < 3:
            lev.append(lev[-1] + 1.0)
        i = rng.randrange(len(lev) - 1)
        r = rng.random()
        if r < 0.5:
            lev[i], lev[i + 1] = lev[i + 1], lev[i]
            if len(lev) == 2:
                return None
        else:
            lev[i + 1] = lev[i]       # a repeated edge: an empty bin
        if lev == sorted(lev) and len(set(lev)) == len(lev):
            return None
        if lev == sorted(lev, reverse=True) and len(set(lev)) == len(lev):
            return None
        req["levels"] = lev
        # the refusal must not wait for a computation: lazy data, targets with or without a coordinate
        if rng.random() < 0.5:
            req["da_chunked"] = True
        if rng.random() < 0.5:
            req["target_kind"] = "arr"
            req["target_nocoord"] = rng.random() < 0.6
    else:
        req["method"] = "conservative"
        req["has_outer"] = False
        if any(d == "zo" for d, _ in req["tdims"]):
            return None
    return choice


def run_transform(req):
    import warnings
    g, da, target, kw, td = K8.build_grid_call(req)
    with warnings.catch_warnings():
        warnings.simplefilter("ignore")
        g.transform(da, "Z", target, **kw)
    return {}


# ---------------------------------------------------------------- ufuncs
def edit_ufunc(rng, req):
    choice = rng.choice(["misplaced", "misplaced", "axis-count", "axis-arity", "args-count"])
    if choice == "misplaced":
        before = copy.deepcopy(req["args"])
        k = rng.randrange(len(req["args"]))
        if not req["in_sig"][k]:
            return None
        i = rng.randrange(len(req["in_sig"][k]))
        d, p = req["in_sig"][k][i]
        ax = req["axis"][k][i]
        cm = dict(dict(req["ctor"]["coords"])[ax])
        others = [q for q in cm if q != p]
        if not others:
            return None
        q = rng.choice(others)
        for dd in req["args"][k]["dims"]:
            if dd[0] == cm[p]:
                dd[0], dd[1] = cm[q], G.plen(q, req["ctor"]["N"][ax])
        size = 1
        for _, l in req["args"][k]["dims"]:
            size *= l
        req["args"][k]["vals"] = [(3 * i + 1) % 17 for i in range(size)]
        if req["args"] == before:
            return None
    elif choice == "axis-count":
        if len(req["axis"]) > 1 and rng.random() < 0.6:
            req["axis"] = req["axis"][:-1]
        else:
            req["axis"] = req["axis"] + [req["axis"][0]]
    elif choice == "axis-arity":
        k = rng.randrange(len(req["axis"]))
        req["axis"][k] = req["axis"][k] + ["X"] if rng.random() < 0.6 or not req["axis"][k] else req["axis"][k][:-1]
    else:
        if len(req["args"]) > 1 and rng.random() < 0.6:
            req["args"] = req["args"][:-1]
        else:
            req["args"] = req["args"] + [copy.deepcopy(req["args"][0])]
    return choice


# ---------------------------------------------------------------- constructor
def edit_ctor(rng, req):
    c = req["ctor"]
    axes = [a for a, _ in c["coords"]]
    choice = rng.choice(["dim-not-in-dataset", "unknown-boundary", "nonnumeric-fill", "shift-to-same"])
    a = rng.choice(axes)
    if choice == "dim-not-in-dataset":
        cs = dict(c["coords"])[a]
        cs[rng.randrange(len(cs))][1] = "nowhere"
    elif choice == "unknown-boundary":
        w = rng.choice(["reflect", "wrap", "Fill"])
        if rng.random() < 0.4:
            c["boundary"] = w
        else:
            b = c["boundary"]
            b = dict(b) if isinstance(b, dict) else ({x: b for x in axes} if b is not None else {})
            b[a] = w
            c["boundary"] = b
    elif choice == "nonnumeric-fill":
        w = rng.choice(["abc", "0"])
        if rng.random() < 0.4:
            c["fill"] = w
        else:
            f = c["fill"]
            f = dict(f) if isinstance(f, dict) else ({x: f for x in axes} if f is not None else {})
            f[a] = w
            c["fill"] = f
    else:
        cs = dict(c["coords"])[a]
        p = rng.choice(cs)[0]
        req["shifts"] = {a: {p: p}}
    return choice


def run_ctor(req):
    import numpy as np
    import xarray as xr
    from xgcm import Grid
    c = req["ctor"]
    sizes = {}
    for a, cs in c["coords"]:
        for p, d in cs:
            if d != "nowhere":
                sizes[d] = G.plen(p, c["N"][a])
    ds = xr.Dataset({f"v_{d}": ((d,), np.zeros(n)) for d, n in sizes.items()})
    coords = {a: {p: d for p, d in cs} for a, cs in c["coords"]}
    kw = {}
    if req.get("shifts"):
        kw["default_shifts"] = req["shifts"]
    Grid(ds, coords=coords, periodic=c["periodic"], boundary=c["boundary"], fill_value=c["fill"],
         autoparse_metadata=False, **kw)
    return {}


def coq_ctor_req(req):
    c = copy.deepcopy(req["ctor"])
    rawfill = c["fill"]

    def num(v):
        return v if isinstance(v, (int, float)) and not isinstance(v, bool) else 0
    c["fill"] = {a: (None if v is None else num(v)) for a, v in rawfill.items()} if isinstance(rawfill, dict) else (
        None if rawfill is None else num(rawfill))
    term = G.coq_ctor(c)
    # the dataset's dimensions: everything except the edited-away one
    dsdims = sorted({d for _, cs in c["coords"] for _, d in cs if d != "nowhere"})
    term = term.replace("c_dsdims := " + C.clist(C.cstr(d) for d in sorted({d for _, cs in c["coords"] for _, d in cs})),
                        "c_dsdims := " + C.clist(C.cstr(d) for d in dsdims))
    if req.get("shifts"):
        sh = "(KMap " + C.clist(
            f"({C.cstr(a)}, Some " + C.clist(f"({G.cpos(p)}, {G.cpos(q)})" for p, q in m.items()) + ")"
            for a, m in req["shifts"].items()) + ")"
        term = term.replace("c_shifts := KScalar None", "c_shifts := " + sh)
    return f"(R_ctor {term} {G.ckw(rawfill, cfill)})"


# ---------------------------------------------------------------- metric operations
def gen_metric(rng):
    from . import c10 as K10
    base = K10.generate(random_child(rng), "quick")
    c = copy.deepcopy(base[rng.randrange(len(base))])
    axes = c["axes"] if isinstance(c["axes"], list) else [c["axes"]]
    return {"history": c["history"], "n_ctor": c.get("n_ctor", 0), "adims": list(c["adims"]), "axes": list(axes),
            "op": rng.choice(["get_metric", "integrate", "average"]), "how": None}


def edit_metric(rng, req):
    from . import c10 as K10
    choice = rng.choice(["axis-not-in-grid", "data-lacks-dim", "data-lacks-dim", "data-two-dims"])
    a = rng.choice(req["axes"])
    if choice == "axis-not-in-grid":
        req["axes"] = [("Q" if x == a else x) for x in req["axes"]]
    elif choice == "data-lacks-dim":
        # the dimension is taken away: by a scalar selection that leaves its label behind as a scalar
        # coordinate, by one that drops it, or by a reduction
        req["how"] = [rng.choice(["isel", "isel_drop", "mean"]), [d for d in req["adims"] if d in K10.AXDIMS[a]][0]]
    else:
        have = [d for d in req["adims"] if d in K10.AXDIMS[a]]
        more = [d for d in K10.AXDIMS[a] if d not in have]
        if not more:
            return None
        req["adims"] = req["adims"] + [rng.choice(more)]
    return choice


def metric_array_dims(req):
    return [d for d in req["adims"] if not (req["how"] and d == req["how"][1])]


def run_metric(req):
    import warnings
    import numpy as np
    import xarray as xr
    from . import c10 as K10
    ds, g = K10.build({"history": req["history"], "n_ctor": req["n_ctor"]})
    arr = xr.DataArray(np.ones([K10.SIZES[d] for d in req["adims"]]), dims=req["adims"],
                       coords={d: ds[d] for d in req["adims"] if d in ds.coords})
    if req["how"]:
        how, d = req["how"]
        arr = arr.isel({d: 1}) if how == "isel" else arr.isel({d: 1}, drop=True) if how == "isel_drop" else arr.mean(d)
    assert list(arr.dims) == metric_array_dims(req)
    with warnings.catch_warnings():
        warnings.simplefilter("ignore")
        r = getattr(g, req["op"])(arr, tuple(req["axes"]) if req["op"] == "get_metric" else list(req["axes"]))
    assert isinstance(r, xr.DataArray)


def coq_metric(req):
    from . import c10 as K10
    cs = K10.cstrs
    env = ("{| re_axes := [\"X\"; \"Y\"; \"Z\"]; re_vars := " +
           C.clist(f"({C.cstr(n)}, {cs(d)})" for n, d in K10.DIMS.items()) + " |}")
    hist = C.clist("{| rc_key := " + cs(c["key"]) + "; rc_names := " + cs(c["names"]) +
                   f"; rc_overwrite := {C.cbool(c['overwrite'])} |}}" for c in req["history"])
    axd = C.clist(f"({C.cstr(a)}, {cs(d)})" for a, d in K10.AXDIMS.items())
    return f"(R_metric {axd} {env} {hist} {cs(metric_array_dims(req))} {cs(req['axes'])})"


# ---------------------------------------------------------------- driver
def generate(rng, tier):
    n = 700 if tier == "quick" else 6000
    base_ops = K1.generate(rng, "quick" if n < 1000 else "thorough")
    cases = []
    i = 0
    while len(cases) < n:
        i += 1
        r = i % 10
        edited = rng.random() > 0.15
        if r == 4:
            req = gen_metric(rng)
            kind, ed = "metric", (edit_metric(rng, req) if edited else "none")
        elif r < 5:
            b = copy.deepcopy(base_ops[i % len(base_ops)])
            req = {"ctor": b["ctor"], "dims": b["dims"], "vals": b["vals"], "call": b["call"]}
            if isinstance(req["ctor"]["periodic"], list):
                req["ctor"]["periodic"] = {a: True for a in req["ctor"]["periodic"]}
            if rng.random() < 0.25:
                req["call"]["func"] = "cumsum"
            kind, ed = "op", (edit_op(rng, req) if edited else "none")
        elif r < 7:
            req = K8.gen_grid(rng)
            req["periodic"] = False
            kind, ed = "transform", (edit_transform(rng, req) if edited else "none")
        elif r < 9:
            req = K11.gen_case(rng)
            kind, ed = "ufunc", (edit_ufunc(rng, req) if edited else "none")
        elif i % 20 == 9 or False:
            req = gen_metric(rng)
            kind, ed = "metric", (edit_metric(rng, req) if edited else "none")
        else:
            base = G.generate(random_child(rng), "quick")[0]["ctor"]
            if isinstance(base["periodic"], list):
                base["periodic"] = True
            req = {"ctor": base}
            kind, ed = "ctor", (edit_ctor(rng, req) if edited else "none")
        if ed is None:
            continue
        cases.append({"kind": kind, "edit": ed, "req": req})
    return cases


def random_child(rng):
    import random
    return random.Random(rng.getrandbits(32))


def run_impl(case):
    kind, req = case["kind"], case["req"]
    out = {}
    try:
        if kind == "op":
            out["sizes"] = None
            ds, g, sizes = G.build_grid(req["ctor"], with_coords=True)
            out["sizes"] = sizes
            run_op(req)
        elif kind == "transform":
            run_transform(req)
        elif kind == "ufunc":
            o = K11.run_impl(req)
            out["u"] = o
            if "err" in o:
                out["raised"] = o["err"]
                out["msg"] = o.get("msg")
                return out
        elif kind == "metric":
            run_metric(req)
        else:
            run_ctor(req)
        out["raised"] = None
    except Exception as e:
        kindname = next((k.__name__ for k in type(e).__mro__ if k.__name__ in C.EKINDS), type(e).__name__)
        out["raised"] = kindname
        out["msg"] = f"{type(e).__name__}: {e}"[:160]
    return out


def coq_case(case, obs):
    kind, req = case["kind"], case["req"]
    if kind == "op":
        if obs.get("sizes") is None:
            term = "(R_ctor " + G.coq_ctor(req["ctor"]) + " (KScalar None))"
        else:
            term = coq_op(req, obs["sizes"])
    elif kind == "transform":
        term = "(R_transform " + K8.coq_tcall(req) + ")"
    elif kind == "ufunc":
        term = "(R_ufunc " + K11.coq_case(req, obs["u"]) + ")"
    elif kind == "metric":
        term = coq_metric(req)
    else:
        term = coq_ctor_req(req)
    raised = "None" if obs["raised"] is None else f"(Some {C.cekind(obs['raised'])})"
    return "{| c20_req := " + term + f"; c20_raised := {raised} |}}"


def distribution(cases, obs):
    from collections import Counter
    c = Counter()
    for case, o in zip(cases, obs):
        c[f"{case['kind']}:{case['edit']}"] += 1
        c["raised:" + str(o.get("raised"))] += 1
    return dict(c)
