"""C09 -- cumsum is the running sum at the shifted position and inverts diff."""
from __future__ import annotations

from fractions import Fraction

from .. import common as C
from . import c02 as G
from . import c01 as K

ID = "C09"
PROPERTY_FILE = "Properties/C09.v"
PROOF_TARGETS = ["Properties/C09.vo"]
EVAL_TARGETS = ["Corr/Eval_C09.vo"]
TIE_LEMMAS = ["Tie_cumsum_table", "Tie_cumsum_canon"]
IMPORTS = ("From Coq Require Import List Bool ZArith QArith String.\n"
           "From XV Require Import Base.Res Base.Assoc Base.Seq1D Base.Tensor Model.Axis Model.GridCtor "
           "Model.Pad Model.GridOps Model.Dispatch Model.Cumsum Corr.Eval_C09.")
CASE_TYPE = "case09"
RUN_FN = "run09"
SCOPE = "nat_scope"
SHARD = 100
RULE = ("layouts x all 8 shifts x rules/fills per call or grid default x 1-3 axes in random order x extra dim x "
        "dim order; kinds: cumsum vs geometric running-sum oracle; diff(cumsum(to outer, fill 0)) == input; "
        "plus implementation-level commutation of two axes (rule not fill-with-nonzero) and cumint/integrate "
        "relations. Distinct = canonical input hash; non-trivial = data not constant (always) and N >= 2.")


def nontrivial(case, obs):
    return True


def describe(case, obs):
    c = case["ctor"]
    k = case["call"]
    return (f"kind={case['kind']} Grid(coords={c['coords']}, N={c['N']}, periodic={c['periodic']}, "
            f"boundary={c['boundary']}, fill_value={c['fill']}).cumsum(dims={case['dims']}, axis={k['axes']}, "
            f"to={k['to']}, boundary={k['boundary']}, fill_value={k['fill']}) -> impl {str(obs)[:200]}")


def generate(rng, tier):
    base = K.generate(rng, tier)
    cases = []
    for b in base:
        k = b["call"]
        call = {"axes": k["axes"], "to": k["to"], "boundary": k["boundary"], "fill": k["fill"]}
        vals, dt = b["vals"], b.get("dtype", "float64")
        if max(abs(v) for v in vals) < 20 and rng.random() < 0.2:
            # 8-bit integers: each value fits (|v| <= 102), the running sums do not
            vals, dt = [v * 6 for v in vals], "int8"
        cases.append({"kind": 0, "ctor": b["ctor"], "dims": b["dims"], "vals": vals, "call": call,
                      "dtype": dt, "warmup": b.get("warmup", False)})
    # inverse: center data, to outer, fill 0
    n = 60 if tier == "quick" else 1000
    for _ in range(n):
        naxes = rng.choice([1, 2, 3])
        axes = ["X", "Y", "Z"][:naxes]
        N = {a: rng.randint(2, 4) for a in axes}
        coords = [[a, [["center", a.lower() + "_c"], ["outer", a.lower() + "_o"]] +
                   ([["left", a.lower() + "_l"]] if rng.random() < 0.5 else [])] for a in axes]
        ctor = {"coords": coords, "N": N, "periodic": rng.choice([True, False]),
                "boundary": G.kwval(rng, axes, G.WORDS), "fill": G.kwval(rng, axes, [0, 3, -2])}
        op_axes = [a for a in axes if rng.random() < 0.8] or [axes[0]]
        rng.shuffle(op_axes)
        dims = [[a.lower() + "_c", N[a]] for a in axes]
        if rng.random() < 0.5:
            dims.append(["t", 2])
        rng.shuffle(dims)
        size = 1
        for _, l in dims:
            size *= l
        vals = [(5 * i * i + i + 3) % 17 - 4 for i in range(size)]
        call = {"axes": op_axes, "to": "outer", "boundary": "fill", "fill": 0}
        dt = rng.choice(["float64", "float64", "int64", "float32", "int8", "int8"])
        if dt == "int8":
            vals = [v * 6 for v in vals]      # each fits 8 bits (|v| <= 102); their running sums do not
        cases.append({"kind": 1, "ctor": ctor, "dims": dims, "vals": vals, "call": call, "dtype": dt})
    return cases


def _kwargs(k):
    kwargs = {}
    if k["to"] is not None:
        kwargs["to"] = k["to"]
    if k["boundary"] is not None:
        kwargs["boundary"] = k["boundary"]
    if k["fill"] is not None:
        kwargs["fill_value"] = k["fill"]
    return kwargs


def run_impl(case):
    import numpy as np
    import xarray as xr
    c = case["ctor"]
    ds, g, sizes = G.build_grid(c, with_coords=True)
    k = case["call"]
    shape = [l for _, l in case["dims"]]
    da = xr.DataArray(np.array(case["vals"], dtype=case.get("dtype", "float64")).reshape(shape),
                      dims=[d for d, _ in case["dims"]])
    axis = k["axes"] if len(k["axes"]) > 1 else k["axes"][0]
    if isinstance(axis, list) and len(case["vals"]) % 3 == 0:
        axis = tuple(axis)
    if case["kind"] == 0 and case.get("dtype") in ("float64", "float32") and len(case["vals"]) % 4 == 1:
        # (direct cases only: the inverse cases difference the result along the padded, hence chunked, outer
        # dimension, which is refused by design for lazy data, C06)
        # lazy data, chunked along the dimensions that are not accumulated (cumsum along a chunked
        # dimension is outside what map_overlap can do and is handled by the package differently)
        acc = {d for a, cs in c["coords"] if a in k["axes"] for _, d in cs}
        ch = {d: 1 for d in da.dims if d not in acc}
        if ch:
            da = da.chunk(ch)
    try:
        if case.get("warmup"):
            try:
                g.cumsum((da * 3 + 1).isel({da.dims[0]: slice(None, None, -1)}), axis, **_kwargs(k))
            except Exception:
                pass
        r = g.cumsum(da, axis, **_kwargs(k))
        if case["kind"] == 1:
            r = g.diff(r, axis, to="center")
        return {"dims": [[d, int(n)] for d, n in zip(r.dims, r.shape)],
                "vals": [str(Fraction(float(v))) for v in r.values.ravel()], "sizes": sizes}
    except Exception as e:
        return {"err": type(e).__name__, "sizes": sizes}


def coq_case(case, obs):
    ctor = G.coq_ctor(case["ctor"])
    k = case["call"]
    call = ("{| cs_axes := " + C.clist(C.cstr(a) for a in k["axes"]) +
            f"; cs_to := {G.ckw(k['to'], G.cpos)}; cs_boundary := {G.ckw(k['boundary'], G.cbw)}" +
            f"; cs_fill := {G.ckw(k['fill'], G.cq)} |}}")
    if "err" in obs:
        impl = f"(Err {C.cekind(obs['err'])})"
    else:
        impl = "(Ok (" + G.cdims(obs["dims"]) + ", " + C.clist(G.cq(Fraction(v)) for v in obs["vals"]) + "))"
    return ("{| c09_kind := " + C.cnat(case["kind"]) + "; c09_ctor := " + ctor +
            "; c09_dssizes := " + G.cdims(sorted(obs["sizes"].items())) +
            "; c09_dims := " + G.cdims(case["dims"]) + "; c09_vals := " + C.clist(G.cq(v) for v in case["vals"]) +
            f"; c09_call := {call}; c09_impl := {impl} |}}")


def extra_checks(rng, tier, notes):
    """Implementation-level relations of the property: commutation over two axes, cumint ==
    cumsum(da*metric), last value of cumint on outer/right == integrate."""
    import numpy as np
    import xarray as xr
    from xgcm import Grid
    out = []
    n = 40 if tier == "quick" else 400
    done = 0
    for _ in range(n):
        nx, ny = rng.randint(2, 4), rng.randint(2, 4)
        ds = xr.Dataset(coords={"xc": np.arange(nx), "xo": np.arange(nx + 1), "xr": np.arange(nx),
                                "xl": np.arange(nx), "yc": np.arange(ny), "yo": np.arange(ny + 1),
                                "yl": np.arange(ny)})
        ds["dx"] = ("xc", np.array([rng.randint(1, 5) for _ in range(nx)], dtype=float))
        ds["dy"] = ("yc", np.array([rng.randint(1, 5) for _ in range(ny)], dtype=float))
        coords = {"X": {"center": "xc", "outer": "xo", "right": "xr", "left": "xl"},
                  "Y": {"center": "yc", "outer": "yo", "left": "yl"}}
        rule = rng.choice(["fill0", "extend", "periodic", "fill3"])
        b = {"fill0": "fill", "fill3": "fill"}.get(rule, rule)
        fv = 3 if rule == "fill3" else 0
        g = Grid(ds, coords=coords, periodic=False, boundary=b, fill_value=fv,
                 metrics={("X",): ["dx"], ("Y",): ["dy"]}, autoparse_metadata=False)
        da = xr.DataArray(np.array([[rng.randint(-5, 9) for _ in range(nx)] for _ in range(ny)], dtype=float),
                          dims=["yc", "xc"])
        to = {"X": rng.choice(["left", "right", "outer"]), "Y": rng.choice(["left", "outer"])}
        case = {"nx": nx, "ny": ny, "rule": rule, "to": to, "vals": da.values.tolist(),
                "dx": ds.dx.values.tolist(), "dy": ds.dy.values.tolist()}
        a = g.cumsum(da, ["X", "Y"], to=to)
        b2 = g.cumsum(da, ["Y", "X"], to=to).transpose(*a.dims)
        same = bool(np.array_equal(a.values, b2.values))
        if rule != "fill3" and not same:
            out.append((case, {"xy": a.values.tolist(), "yx": b2.values.tolist()},
                        "cumsum over ['X','Y'] differs from cumsum over ['Y','X'] although no non-zero fill "
                        f"value is in force: {case}"))
        ci = g.cumint(da, "X", to=to["X"])
        cs = g.cumsum(da * ds.dx, "X", to=to["X"])
        if not np.array_equal(ci.values, cs.transpose(*ci.dims).values):
            out.append((case, {"cumint": ci.values.tolist(), "cumsum": cs.values.tolist()},
                        f"cumint differs from cumsum(da*metric): {case}"))
        if to["X"] in ("outer", "right"):
            last = ci.isel({ci.dims[-1] if ci.dims[-1].startswith('x') else ci.dims[0]: -1})
            integ = g.integrate(da, "X")
            if not np.array_equal(np.asarray(last.values).ravel(), np.asarray(integ.values).ravel()):
                out.append((case, {"last": np.asarray(last.values).tolist(), "integrate": np.asarray(integ.values).tolist()},
                            f"last value of cumint to {to['X']} differs from integrate: {case}"))
        # several axes, in both orders, under whatever fill value is in force: the integral is the
        # running sum of data times the cell metric taken over the SAME axes in the SAME order
        for order in (["X", "Y"], ["Y", "X"]):
            ci2 = g.cumint(da, order, to=to)
            cs2 = g.cumsum(da * ds.dx * ds.dy, order, to=to).transpose(*ci2.dims)
            if not np.array_equal(ci2.values, cs2.values):
                out.append(({**case, "axes": order}, {"cumint": ci2.values.tolist(), "cumsum": cs2.values.tolist()},
                            f"cumint over {order} differs from cumsum(da*metric) over {order}: {case}"))
        # per-call mappings re-used on another grid: the second grid's own defaults apply to the
        # axes the mapping does not name
        g_other = Grid(ds, coords=coords, periodic=False, boundary={"X": "fill", "Y": "extend"},
                       fill_value={"X": 7, "Y": -2}, autoparse_metadata=False)
        fv_partial, b_partial = {"Y": 1.0}, {"Y": "fill"}
        g.cumsum(da, ["X", "Y"], to=to, fill_value=fv_partial, boundary=b_partial)
        reused = g_other.cumsum(da, "X", to="outer", fill_value=fv_partial, boundary=b_partial)
        fresh = g_other.cumsum(da, "X", to="outer", fill_value={"Y": 1.0}, boundary={"Y": "fill"})
        if not np.array_equal(reused.values, fresh.values):
            out.append(({**case, "reuse": True}, {"reused": reused.values.tolist(), "fresh": fresh.values.tolist()},
                        "cumsum with per-call mappings already used on another grid differs from the same call "
                        f"with fresh mappings (leading value should be that grid's fill 7): {case}"))
        done += 1
    notes.append(f"implementation-level relations checked on {done} random 2-axis grids "
                 "(commutation unless fill!=0, cumint==cumsum(da*metric) on one and on two axes in both orders, "
                 "last(cumint)==integrate, per-call mappings re-used across grids)")
    return out
