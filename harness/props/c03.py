"""C03 -- scalar operations are invariant to how the domain is cut into faces."""
from __future__ import annotations

from fractions import Fraction

from .. import common as C
from ..lib import atlas
from . import c02 as G
from . import c05 as F

ID = "C03"
PROPERTY_FILE = "Properties/C03.v"
PROOF_TARGETS = ["Properties/C03.vo"]
EVAL_TARGETS = ["Corr/Eval_C03.vo"]
IMPORTS = ("From Coq Require Import List Bool ZArith QArith String.\n"
           "From XV Require Import Base.Res Base.Assoc Base.Seq1D Base.Tensor Model.Axis Model.FaceConn "
           "Spec.S03 Corr.Eval_C03.")
CASE_TYPE = "case03"
RUN_FN = "run03"
SCOPE = "nat_scope"
SHARD = 40
RULE = ("decompositions of a periodic/open Kx x Ky domain (1-6 faces of N x N cells, N in 2..4) with an "
        "independent orientation per face drawn from the 8 signed permutations, rejection-sampled until every "
        "junction is expressible; diff/interp/min/max from center to left/right along X or Y; extend/fill/"
        "periodic on open edges; extra dimension; face dimension anywhere. Non-trivial = the table has a link "
        "of a kind other than same-axis non-reversed, or more than one face.")


def nontrivial(case, obs):
    for f, fal in case["dec"]["conn"]:
        for a, (l, r) in fal:
            for x in (l, r):
                if x is not None and (x[1] != a or x[2]):
                    return True
    return len(case["dec"]["conn"]) > 1


def describe(case, obs):
    d = case["dec"]
    return (f"decomposition Kx={d['Kx']} Ky={d['Ky']} N={d['N']} per=({d['per_x']},{d['per_y']}) "
            f"orients={d['orients']} conn={d['conn']} op={case['func']} axis={case['axis']} to={case['to']} "
            f"rule={case['rule']} fill={case['fill']} dims={case['dims']} -> impl {str(obs)[:120]}")


def generate(rng, tier):
    n = 500 if tier == "quick" else 2500
    cases = []
    for _ in range(n):
        aligned = rng.random() < 0.4          # every face oriented like the domain
        dec = atlas.random_decomposition(rng, max_faces=6 if tier == "thorough" else 4,
                                         pool=["id"] if aligned else None)
        Lx, Ly = dec["Kx"] * dec["N"], dec["Ky"] * dec["N"]
        extra = rng.random() < 0.4
        gd = [["gy", Ly], ["gx", Lx]] + ([["t", 2]] if extra else [])
        size = Lx * Ly * (2 if extra else 1)
        gvals = [(13 * i * i + 7 * i + 5) % 101 - 20 for i in range(size)]
        dims = ["face", "yc", "xc"] + (["t"] if extra else [])
        rng.shuffle(dims)
        case = {"dec": dec, "gdims": gd, "gvals": gvals, "dims": dims,
                "func": rng.choice(["diff", "interp", "min", "max"]), "axis": rng.choice(["X", "Y"]),
                "to": rng.choice(["left", "right"]),
                "rule": rng.choice(["extend", "fill", "periodic"]), "fill": rng.choice([0, 4, -3, 0.5, -2.5]),
                # how the numbers are held (whole numbers throughout): a fractional fill value must survive
                "dtype": rng.choice(["float64", "float64", "int64", "float32"])}
        # the order in which the faces are LISTED in the face_connections dictionary is arbitrary
        listing = list(range(len(dec["conn"])))
        rng.shuffle(listing)
        case["listing"] = listing
        # ... and so are the labels the dataset gives its faces (0..n-1, 1-based, any distinct integers)
        nf_ = len(dec["conn"])
        case["links_as_lists"] = rng.random() < 0.25
        case["labels"] = None if rng.random() < 0.7 else rng.choice([list(range(1, nf_ + 1)), rng.sample(range(0, 12), nf_)])
        if aligned and rng.random() < 0.8:
            if rng.random() < 0.5:
                case["rule"] = "fill"
            # face axes are the domain's axes: rule and fill value may differ per axis; the
            # operated axis' ones are what the undivided domain uses
            other = "Y" if case["axis"] == "X" else "X"
            case["rule_kw"] = {case["axis"]: case["rule"], other: rng.choice(["extend", "fill", "periodic"])}
            case["fill_kw"] = {case["axis"]: case["fill"], other: rng.choice([7, -9, 2])}
            if rng.random() < 0.5:
                case["rule_kw"] = dict(reversed(list(case["rule_kw"].items())))
                case["fill_kw"] = dict(reversed(list(case["fill_kw"].items())))
        cases.append(case)
    return cases


def run_impl(case):
    import numpy as np
    import xarray as xr
    from xgcm import Grid
    d = case["dec"]
    N, nf = d["N"], len(d["conn"])
    Lx, Ly = d["Kx"] * N, d["Ky"] * N
    extra = len(case["gdims"]) == 3
    Gf = np.array(case["gvals"], dtype=float).reshape([l for _, l in case["gdims"]])
    shp = (nf, N, N) + ((2,) if extra else ())
    Fv = np.zeros(shp)
    for f, ch in enumerate(d["charts"]):
        c = {"o": tuple(ch["o"]), "M": (tuple(ch["M"][0]), tuple(ch["M"][1]))}
        for j in range(N):
            for i in range(N):
                gx, gy = atlas.chart_apply(c, (i, j))
                Fv[f, j, i] = Gf[gy, gx]
    lab = case.get("labels") or list(range(nf))      # how the dataset labels its faces
    ds = xr.Dataset(coords={"face": np.array(lab), "xc": np.arange(N), "xg": np.arange(N),
                            "yc": np.arange(N), "yg": np.arange(N)})
    listed = [d["conn"][i] for i in case.get("listing", range(len(d["conn"])))]
    seq = list if case.get("links_as_lists") else tuple      # a table read from JSON / YAML spells links as lists
    lk = lambda l: seq((lab[l[0]], l[1], l[2])) if l else None
    fc = {"face": {lab[f]: {a: (lk(l), lk(r)) for a, (l, r) in fal} for f, fal in listed}}
    try:
        g = Grid(ds, coords={"X": {"center": "xc", "left": "xg", "right": "xg2"} if False else
                             {"center": "xc", "left": "xg"},
                             "Y": {"center": "yc", "left": "yg"}},
                 face_connections=fc, periodic=False, autoparse_metadata=False)
        base = ["face", "yc", "xc"] + (["t"] if extra else [])
        da = xr.DataArray(Fv.astype(case.get("dtype", "float64")), dims=base).transpose(*case["dims"])
        to = case["to"]
        if to == "right":
            # the grid only carries `left`: `right` is exercised through a second grid
            ds2 = ds.assign_coords(xr_=("xr_", np.arange(N)), yr_=("yr_", np.arange(N)))
            g = Grid(ds2, coords={"X": {"center": "xc", "right": "xr_"}, "Y": {"center": "yc", "right": "yr_"}},
                     face_connections=fc, periodic=False, autoparse_metadata=False)
        r = getattr(g, case["func"])(da, case["axis"], to=to, boundary=case.get("rule_kw", case["rule"]),
                                     fill_value=case.get("fill_kw", case["fill"]))
        out_order = sorted(r.dims)
        r = r.transpose(*out_order)
        xdim = [x for x in r.dims if x.startswith("x")][0]
        ydim = [x for x in r.dims if x.startswith("y")][0]
        return {"out_order": out_order, "xdim": xdim, "ydim": ydim,
                "dims": [[x, int(n)] for x, n in zip(r.dims, r.shape)],
                "vals": [str(Fraction(float(v))) for v in r.values.ravel()]}
    except Exception as e:
        import traceback
        return {"err": type(e).__name__, "msg": traceback.format_exc()[-300:], "out_order": [], "xdim": "xc", "ydim": "yc"}


RULES = {"extend": "Extend", "fill": "Fill", "periodic": "Periodic"}


def coq_case(case, obs):
    d = case["dec"]
    N = d["N"]
    dom = (f"{{| dom_lx := {d['Kx'] * N}%Z; dom_ly := {d['Ky'] * N}%Z; dom_perx := {C.cbool(d['per_x'])}; "
           f"dom_pery := {C.cbool(d['per_y'])} |}}")
    charts = C.clist(
        f"{{| ch_ox := {C.cZ(c['o'][0])}%Z; ch_oy := {C.cZ(c['o'][1])}%Z; ch_a := {C.cZ(c['M'][0][0])}%Z; "
        f"ch_b := {C.cZ(c['M'][0][1])}%Z; ch_c := {C.cZ(c['M'][1][0])}%Z; ch_d := {C.cZ(c['M'][1][1])}%Z |}}"
        for c in d["charts"])
    if "err" in obs:
        impl = f"(Err {C.cekind(obs['err'])})"
    else:
        impl = "(Ok (" + G.cdims(obs["dims"]) + ", " + C.clist(G.cq(Fraction(v)) for v in obs["vals"]) + "))"
    return ("{| c03_dom := " + dom + f"; c03_N := {C.cnat(N)}; c03_charts := {charts}; c03_conn := " +
            F.coq_conn(d["conn"]) + "; c03_gdims := " + G.cdims(case["gdims"]) + "; c03_gvals := " +
            C.clist(G.cq(v) for v in case["gvals"]) + f"; c03_func := {C.cstr(case['func'])}; c03_axis := " +
            f"{C.cstr(case['axis'])}; c03_to := {case['to'].capitalize()}; c03_rule := {RULES[case['rule']]}; " +
            f"c03_fill := {G.cq(case['fill'])}; c03_xdim := {C.cstr(obs['xdim'])}; c03_ydim := {C.cstr(obs['ydim'])}; " +
            "c03_out_order := " + C.clist(C.cstr(x) for x in obs["out_order"]) + f"; c03_impl := {impl} |}}")


def distribution(cases, obs):
    from collections import Counter
    c = Counter()
    for case, o in zip(cases, obs):
        d = case["dec"]
        c[f"faces={len(d['conn'])}"] += 1
        c["op:" + case["func"]] += 1
        for v in d["orients"].values():
            c["orient:" + v] += 1
        for f, fal in d["conn"]:
            for a, (l, r) in fal:
                for side, x in (("L", l), ("R", r)):
                    if x is not None:
                        c[f"kind:{side}{'swap' if x[1] != a else 'same'}{'rev' if x[2] else 'nor'}"] += 1
        c["err:" + o["err"] if "err" in o else "ok"] += 1
    return dict(c)
