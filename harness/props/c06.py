"""C06 -- lazy (dask) execution equals in-memory execution for every chunking."""
from __future__ import annotations

from fractions import Fraction

from .. import common as C

ID = "C06"
PROPERTY_FILE = "Properties/C06.v"
PROOF_TARGETS = ["Properties/C06.vo", "Proofs/Tie_gridops.vo"]
EVAL_TARGETS = ["Corr/Eval_C06.vo"]
TIE_LEMMAS = ["Tie_gridops", "Tie_gridops_canon"]
IMPORTS = ("From Coq Require Import List Bool ZArith QArith String.\n"
           "From XV Require Import Base.Res Base.Seq1D Model.Axis Model.Dask Corr.Eval_C06.")
CASE_TYPE = "case06"
RUN_FN = "run06"
SCOPE = "nat_scope"
SHARD = 120
RULE = ("(a) diff / interp / min / max along one axis with all five positions, all 8 shifts, every boundary rule, "
        "on dask-backed arrays with every dimension cut into a random composition of chunks (size-1 and uneven "
        "chunks included), synchronous and threaded schedulers: the graph must be built without any computation, "
        "the computed result must equal the in-memory result (values, dims, coordinates); the columns of the lazy "
        "result are also compared with the block-wise model (Model/Dask.v) run on the same chunks, the result's "
        "chunks with the input's, and the refusal with the model's. (b) at implementation level: cumsum, "
        "derivative, integrate, average, cumint, multi-axis calls, apply_as_grid_ufunc with and without "
        "map_overlap, vector inputs on simple and face-connected grids, face-connected grids chunked over the "
        "face and extra dimensions, multi-axis calls mixing a chunked axis with an unchunked length-changing one, "
        "several lazy results evaluated in one graph. Non-trivial = the operated dimension has more than one chunk, or a vector / "
        "face-connected / metric case.")

POS = ["center", "left", "right", "inner", "outer"]
SHIFTS = [("center", "left"), ("center", "right"), ("center", "inner"), ("center", "outer"),
          ("left", "center"), ("right", "center"), ("inner", "center"), ("outer", "center")]
OPS = ["diff", "interp", "min", "max"]
OTHER = ["cumsum", "cumsum_outer", "derivative", "integrate", "average", "cumint", "diff_xy", "interp_xy",
         "ufunc_plain", "ufunc_overlap", "ufunc_overlap_outer", "vec_simple", "vec_faces", "scalar_faces",
         "scalar_faces_xy", "metric_weighted", "multi_outer", "multi_outer_rev", "pair_one_graph", "product_one_graph", "min_xy_mixed", "max_yx_mixed",
         "ufunc_2in_1out", "ufunc_1in_2out", "ufunc_2in_1out_overlap",
         "lazy_coord", "lazy_coord_xy", "grid_method_overlap", "grid_method_overlap_outer",
         "ufunc_same_pos", "ufunc_same_pos_2out", "ufunc_overlap_2d", "ufunc_overlap_2d_b"]


def plen(p, n):
    return {"outer": n + 1, "inner": n - 1}.get(p, n)


def nontrivial(case, obs):
    return case["kind"] == "other" or len(case["chunks"]["x"]) > 1


def describe(case, obs):
    return f"{case} -> {str(obs)[:500]}"


def composition(rng, n):
    """a random composition of n into positive parts"""
    if n <= 1 or rng.random() < 0.25:
        return [n]
    parts = []
    left = n
    while left > 0:
        c = rng.randint(1, max(1, min(left, 3)))
        parts.append(c)
        left -= c
    return parts


def generate(rng, tier):
    n = 640 if tier == "quick" else 4000
    cases = []
    k = 0
    for i in range(n):
        if i % 4 == 3:
            cases.append({"kind": "other", "what": OTHER[(i // 4) % len(OTHER)], "N": rng.randint(3, 6),
                          "seed": rng.randint(0, 10 ** 6), "sched": rng.choice(["synchronous", "threads"])})
            continue
        frm, to = SHIFTS[k % 8]
        k += 1
        N = rng.randint(3, 7)
        nx = plen(frm, N)
        cases.append({"kind": "stencil", "func": OPS[(k // 8) % 4], "from": frm, "to": to, "N": N,
                      "rule": rng.choice(["fill", "extend", "periodic"]), "fill": rng.choice([0, 2, -3]),
                      "extra": rng.sample(["y", "t"], rng.randint(0, 2)), "xfirst": rng.random() < 0.5,
                      "chunks": {"x": composition(rng, nx), "y": composition(rng, 3), "t": composition(rng, 2)},
                      "sched": rng.choice(["synchronous", "threads"])})
    return cases


class _Count:
    pass


def _lazy_vs_eager(build_lazy, build_eager, sched):
    """returns (refused, lazy_ok, lazy result or None, detail)"""
    import dask
    import numpy as np
    from dask.callbacks import Callback
    n = [0]

    class Cnt(Callback):
        def _start(self, dsk):
            n[0] += 1
    import warnings
    with warnings.catch_warnings():
        warnings.simplefilter("ignore")
        eager = build_eager()
        try:
            with Cnt():
                lazy = build_lazy()
        except NotImplementedError:
            return True, False, None, "NotImplementedError"
        except Exception as e:      # a lazy input refused (or broken) where the in-memory one is accepted
            return False, False, None, f"lazy call raised {type(e).__name__}: {e}"[:200]
        built = n[0]
        outs = lazy if isinstance(lazy, (list, tuple)) else [lazy]
        eouts = eager if isinstance(eager, (list, tuple)) else [eager]
        is_lazy = all(hasattr(o.data, "dask") for o in outs)
        with dask.config.set(scheduler=sched):
            comp = list(dask.compute(*outs))       # all results of the call in ONE graph
            # the blocks must really have the sizes the result announces: continuing lazily (here:
            # adding a zero array laid out in the announced chunks) must work and change nothing
            import xarray as xr
            try:
                cont = list(dask.compute(*[o + xr.zeros_like(o) for o in outs]))
                blocks_ok = all(np.array_equal(a.values, b.values, equal_nan=True) for a, b in zip(cont, comp))
            except Exception as e:
                blocks_ok = False
                cont_err = f"{type(e).__name__}: {e}"[:120]
    ok = built == 0 and is_lazy and len(comp) == len(eouts) and blocks_ok
    detail = f"computations while building={built} lazy={is_lazy}" + \
        ("" if blocks_ok else " blocks do not have the announced sizes (continuing lazily fails)")
    for c, e in zip(comp, eouts):
        same = c.dims == e.dims and c.shape == e.shape and np.array_equal(c.values, e.values, equal_nan=True) and \
            sorted(map(str, c.coords)) == sorted(map(str, e.coords)) and \
            all(np.array_equal(c[k].values, e[k].values) for k in c.coords)
        if not same:
            ok = False
            detail += f" MISMATCH dims {c.dims} vs {e.dims}"
    return False, ok, outs[0], detail


def run_stencil(case):
    import numpy as np
    import xarray as xr
    from xgcm import Grid
    N = case["N"]
    dims = {f"x_{p[0]}": plen(p, N) for p in POS}
    ds = xr.Dataset(coords={d: (d, np.arange(n) * 1.0) for d, n in dims.items()})
    ds = ds.assign_coords(y=("y", np.arange(3.)), t=("t", np.arange(2.)))
    g = Grid(ds, coords={"X": {p: f"x_{p[0]}" for p in POS}}, periodic=False, autoparse_metadata=False)
    xd = f"x_{case['from'][0]}"
    order = ([xd] + case["extra"]) if case["xfirst"] else (case["extra"] + [xd])
    shape = [dims[xd] if d == xd else {"y": 3, "t": 2}[d] for d in order]
    size = int(np.prod(shape))
    vals = ((np.arange(size) * 7 + 3) % 13 - 4.0).reshape(shape)
    da = xr.DataArray(vals, dims=order, coords={d: ds[d] for d in order})
    chunks = {xd: tuple(case["chunks"]["x"])}
    for d in case["extra"]:
        chunks[d] = tuple(case["chunks"][d])
    dd = da.chunk(chunks)
    kw = dict(to=case["to"], boundary=case["rule"], fill_value=case["fill"], keep_coords=True)
    refused, ok, lazy, detail = _lazy_vs_eager(lambda: getattr(g, case["func"])(dd, "X", **kw),
                                               lambda: getattr(g, case["func"])(da, "X", **kw), case["sched"])
    out = {"refused": refused, "lazy_ok": ok, "detail": detail}
    if not refused and lazy is not None:
        nd = f"x_{case['to'][0]}"
        out["out_chunks"] = list(map(int, lazy.chunks[lazy.dims.index(nd)]))
        res = lazy.compute().transpose(..., nd).values.reshape(-1, plen(case["to"], N))
        inp = da.transpose(..., xd).values.reshape(-1, dims[xd])
        # same flattening of the other dimensions on both sides only if their order agrees
        o1 = [d for d in da.dims if d != xd]
        o2 = [d for d in lazy.dims if d != nd]
        if o1 == o2:
            out["cols"] = [[[str(Fraction(float(v))) for v in a], [str(Fraction(float(v))) for v in b]]
                           for a, b in zip(inp, res)]
    return out


def run_other(case):
    import numpy as np
    import xarray as xr
    from xgcm import Grid
    from xgcm.grid_ufunc import apply_as_grid_ufunc
    import random
    rng = random.Random(case["seed"])
    N = case["N"]
    w = case["what"]
    expect_refusal = False
    if w in ("vec_faces", "scalar_faces", "scalar_faces_xy"):
        ds = xr.Dataset(coords={"face": [0, 1], "x": np.arange(3.), "xl": np.arange(3.) - .5, "y": np.arange(3.),
                                "yl": np.arange(3.) - .5, "t": [0., 1.]})
        fc = {"face": {0: {"X": (None, (1, "X", False))}, 1: {"X": ((0, "X", False), None)}}}
        g = Grid(ds, coords={"X": {"center": "x", "left": "xl"}, "Y": {"center": "y", "left": "yl"}},
                 face_connections=fc, periodic=False, autoparse_metadata=False)
        ch = {"face": tuple(composition(rng, 2)), "t": tuple(composition(rng, 2))}
        s = xr.DataArray((np.arange(36.) * 5 % 17).reshape(2, 2, 3, 3), dims=["t", "face", "y", "x"])
        u = xr.DataArray((np.arange(36.) * 3 % 11).reshape(2, 2, 3, 3) + 1, dims=["t", "face", "y", "xl"])
        v = xr.DataArray((np.arange(36.) * 7 % 13).reshape(2, 2, 3, 3) + 1, dims=["t", "face", "yl", "x"])
        b = rng.choice(["fill", "extend"])
        if w == "vec_faces":
            lazy = lambda: g.interp({"X": u.chunk(ch)}, "X", other_component={"Y": v.chunk(ch)}, boundary=b)
            eager = lambda: g.interp({"X": u}, "X", other_component={"Y": v}, boundary=b)
        elif w == "scalar_faces":
            lazy = lambda: g.diff(s.chunk(ch), "X", boundary=b)
            eager = lambda: g.diff(s, "X", boundary=b)
        else:
            lazy = lambda: g.interp(s.chunk(ch), ["X", "Y"], boundary=b)
            eager = lambda: g.interp(s, ["X", "Y"], boundary=b)
    else:
        ds = xr.Dataset(coords={"xc": np.arange(N) + .5, "xl": np.arange(N) * 1., "xo": np.arange(N + 1) * 1.,
                                "yc": np.arange(3.) + .5, "yl": np.arange(3.), "t": [0., 1.]})
        ds["dx"] = ("xc", np.arange(N) + 1.)
        ds["dxl"] = ("xl", np.arange(N) + 2.)
        ds["dy"] = ("yc", np.arange(3.) + 1)
        ds["dyl"] = ("yl", np.arange(3.) + 1)
        g = Grid(ds, coords={"X": {"center": "xc", "left": "xl", "outer": "xo"}, "Y": {"center": "yc", "left": "yl"}},
                 metrics={("X",): ["dx", "dxl"], ("Y",): ["dy", "dyl"]}, periodic=False, autoparse_metadata=False)
        da = xr.DataArray(((np.arange(6 * N) * 5 + 1) % 19 - 3.0).reshape(2, 3, N), dims=["t", "yc", "xc"])
        ch = {"xc": tuple(composition(rng, N)), "yc": tuple(composition(rng, 3)), "t": tuple(composition(rng, 2))}
        dd = da.chunk(ch)
        b = rng.choice(["fill", "extend", "periodic"])
        chunked_x = len(ch["xc"]) > 1
        if w == "cumsum":
            lazy, eager = (lambda: g.cumsum(dd, "X", boundary=b)), (lambda: g.cumsum(da, "X", boundary=b))
        elif w == "cumsum_outer":
            lazy = lambda: g.cumsum(dd, "X", to="outer", boundary="fill", fill_value=0)
            eager = lambda: g.cumsum(da, "X", to="outer", boundary="fill", fill_value=0)
        elif w in ("derivative", "integrate", "average", "cumint"):
            kw = {} if w in ("integrate", "average") else {"boundary": b}
            lazy, eager = (lambda: getattr(g, w)(dd, "X", **kw)), (lambda: getattr(g, w)(da, "X", **kw))
        elif w == "diff_xy":
            lazy, eager = (lambda: g.diff(dd, ["X", "Y"], boundary=b)), (lambda: g.diff(da, ["X", "Y"], boundary=b))
        elif w == "interp_xy":
            lazy, eager = (lambda: g.interp(dd, ["Y", "X"], boundary=b)), (lambda: g.interp(da, ["Y", "X"], boundary=b))
        elif w == "metric_weighted":
            lazy = lambda: g.interp(dd, "X", metric_weighted=("X",), boundary=b)
            eager = lambda: g.interp(da, "X", metric_weighted=("X",), boundary=b)
        elif w in ("ufunc_plain", "ufunc_overlap", "ufunc_overlap_outer"):
            f = lambda a: a[..., 1:] - a[..., :-1]
            if w == "ufunc_plain":
                d1 = da.chunk({"yc": ch["yc"], "t": ch["t"]})
                args = dict(axis=[("X",)], grid=g, signature="(X:center)->(X:left)", boundary_width={"X": (1, 0)},
                            boundary=b, dask="parallelized")
                lazy, eager = (lambda: apply_as_grid_ufunc(f, d1, **args)), \
                    (lambda: apply_as_grid_ufunc(f, da, **{**args, "dask": "forbidden"}))
            elif w == "ufunc_overlap":
                args = dict(axis=[("X",)], grid=g, signature="(X:center)->(X:left)", boundary_width={"X": (1, 0)},
                            boundary=b, dask="allowed", map_overlap=True)
                lazy, eager = (lambda: apply_as_grid_ufunc(f, dd, **args)), \
                    (lambda: apply_as_grid_ufunc(f, da, **{**args, "dask": "forbidden", "map_overlap": False}))
            else:
                f2 = lambda a: a[..., 1:] + a[..., :-1]
                args = dict(axis=[("X",)], grid=g, signature="(X:center)->(X:outer)", boundary_width={"X": (1, 1)},
                            boundary=b, dask="allowed", map_overlap=True)
                expect_refusal = True
                lazy, eager = (lambda: apply_as_grid_ufunc(f2, dd, **args)), \
                    (lambda: apply_as_grid_ufunc(f2, da, **{**args, "dask": "forbidden", "map_overlap": False}))
        elif w in ("ufunc_2in_1out", "ufunc_1in_2out", "ufunc_2in_1out_overlap", "ufunc_1in_2out_overlap"):
            # custom grid ufuncs whose number of inputs differs from their number of outputs
            ov = w.endswith("_overlap")
            dl = xr.DataArray(((np.arange(6 * N) * 7 + 2) % 13 - 1.0).reshape(2, 3, N), dims=["t", "yc", "xl"])
            lz = (lambda a: a.chunk({**{k: v for k, v in ch.items() if k in a.dims},
                                     **({"xl": ch["xc"]} if "xl" in a.dims else {})})) if ov else \
                (lambda a: a.chunk({"yc": ch["yc"], "t": ch["t"]}))
            dk = dict(dask="allowed", map_overlap=True) if ov else dict(dask="parallelized")
            ek = dict(dask="forbidden", map_overlap=False) if ov else dict(dask="forbidden")
            if w.startswith("ufunc_2in_1out"):
                fdiv = lambda flux, tr: (flux[..., 1:] - flux[..., :-1]) * tr[..., :-1]
                args = dict(axis=[("X",), ("X",)], grid=g, signature="(X:left),(X:center)->(X:center)",
                            boundary_width={"X": (0, 1)}, boundary=b)
                lazy = lambda: apply_as_grid_ufunc(fdiv, lz(dl), lz(da), **args, **dk)
                eager = lambda: apply_as_grid_ufunc(fdiv, dl, da, **args, **ek)
            else:
                fboth = lambda a: (a[..., 1:] - a[..., :-1], a[..., 1:] + a[..., :-1])
                args = dict(axis=[("X",)], grid=g, signature="(X:center)->(X:left),(X:left)",
                            boundary_width={"X": (1, 0)}, boundary=b)
                lazy = lambda: apply_as_grid_ufunc(fboth, lz(da), **args, **dk)
                eager = lambda: apply_as_grid_ufunc(fboth, da, **args, **ek)
        elif w in ("ufunc_same_pos", "ufunc_same_pos_2out"):
            # an output on the same position of the same axis as the input (a smoother), parallelized
            d1 = da.chunk({"yc": ch["yc"], "t": ch["t"]})
            if w == "ufunc_same_pos":
                fs = lambda a: a[..., 2:] + a[..., :-2]
                sig = "(X:center)->(X:center)"
            else:
                fs = lambda a: (a[..., 2:] + a[..., :-2], a[..., 1:-1] - a[..., :-2])
                sig = "(X:center)->(X:center),(X:center)"
            args = dict(axis=[("X",)], grid=g, signature=sig, boundary_width={"X": (1, 1)}, boundary=b)
            lazy = lambda: apply_as_grid_ufunc(fs, d1, dask="parallelized", **args)
            eager = lambda: apply_as_grid_ufunc(fs, da, dask="forbidden", **args)
        elif w in ("ufunc_overlap_2d", "ufunc_overlap_2d_b"):
            # two core axes under map_overlap, the data carrying them in the opposite order to the signature,
            # both chunked, different widths on the two axes
            f2d = lambda a: a[..., 1:, 2:] - a[..., :-1, :-2]
            chx = tuple(composition(rng, N))
            dd2 = da.chunk({"xc": chx if len(chx) > 1 else (1, N - 1), "yc": (1, 2), "t": ch["t"]})
            if w.endswith("_b"):
                dd2 = dd2.transpose("t", "xc", "yc")
            args = dict(axis=[("X", "Y")], grid=g, signature="(X:center,Y:center)->(X:left,Y:left)",
                        boundary_width={"X": (1, 0), "Y": (2, 0)}, boundary=b)
            lazy = lambda: apply_as_grid_ufunc(f2d, dd2, dask="allowed", map_overlap=True, **args)
            eager = lambda: apply_as_grid_ufunc(f2d, da, dask="forbidden", map_overlap=False, **args)
        elif w in ("lazy_coord", "lazy_coord_xy"):
            # the lazy input carries a dask-backed non-index coordinate laid out in other chunks than the
            # data (what open_dataset(chunks={}) / a zarr store typically gives)
            import dask.array as dsa
            lon = xr.DataArray(dsa.from_array(np.arange(3. * N).reshape(3, N), chunks=(3, N)), dims=["yc", "xc"])
            tc = xr.DataArray(dsa.from_array(np.arange(2.), chunks=(1,)), dims=["t"])
            with_c = lambda a: a.assign_coords(lon=lon, tlab=tc)
            d1 = with_c(da.chunk({"yc": ch["yc"], "t": ch["t"]} if w == "lazy_coord" else ch))
            de = with_c(da).compute()
            op = rng.choice(["diff", "interp", "min", "max", "derivative"])
            ax_ = "X" if w == "lazy_coord" else ["X", "Y"]
            if op == "derivative":
                ax_ = "X"
            lazy, eager = (lambda: getattr(g, op)(d1, ax_, boundary=b)), (lambda: getattr(g, op)(de, ax_, boundary=b))
        elif w in ("grid_method_overlap", "grid_method_overlap_outer"):
            # Grid.apply_as_grid_ufunc with map_overlap=True and a kernel that needs NumPy blocks
            def fnp(a):
                a = np.ascontiguousarray(a)
                return a[..., 1:] - a[..., :-1]

            def fnp2(a):
                a = np.ascontiguousarray(a)
                return a[..., 1:] + a[..., :-1]
            if w == "grid_method_overlap":
                args = dict(axis=[("X",)], signature="(X:center)->(X:left)", boundary_width={"X": (1, 0)}, boundary=b)
                lazy = lambda: g.apply_as_grid_ufunc(fnp, dd, dask="allowed", map_overlap=True, **args)
                eager = lambda: g.apply_as_grid_ufunc(fnp, da, dask="forbidden", map_overlap=False, **args)
            else:
                args = dict(axis=[("X",)], signature="(X:center)->(X:outer)", boundary_width={"X": (1, 1)}, boundary=b)
                expect_refusal = True
                lazy = lambda: g.apply_as_grid_ufunc(fnp2, dd, dask="allowed", map_overlap=True, **args)
                eager = lambda: g.apply_as_grid_ufunc(fnp2, da, dask="forbidden", map_overlap=False, **args)
        elif w in ("min_xy_mixed", "max_yx_mixed"):
            # an earlier axis chunked along its dimension, a later one in a single chunk
            if w == "min_xy_mixed":
                d1 = da.chunk({"xc": tuple(composition(rng, N)) if N > 1 else (N,), "yc": 3})
                if len(d1.chunks[d1.dims.index("xc")]) == 1:
                    d1 = da.chunk({"xc": (1, N - 1), "yc": 3})
                lazy, eager = (lambda: g.min(d1, ["X", "Y"], boundary=b)), (lambda: g.min(da, ["X", "Y"], boundary=b))
            else:
                d1 = da.chunk({"yc": (1, 2), "xc": N})
                lazy, eager = (lambda: g.max(d1, ["Y", "X"], boundary=b)), (lambda: g.max(da, ["Y", "X"], boundary=b))
        elif w in ("multi_outer", "multi_outer_rev"):
            # a later axis goes to a length-changing position but is not chunked: not a refusal
            order = ["X", "Y"] if w == "multi_outer" else ["Y", "X"]
            ds2 = ds.assign_coords(yo=("yo", np.arange(4.)))
            g2 = Grid(ds2, coords={"X": {"center": "xc", "left": "xl"}, "Y": {"center": "yc", "outer": "yo"}},
                      periodic=False, autoparse_metadata=False)
            d1 = da.chunk({"xc": ch["xc"], "t": ch["t"]})
            kw = dict(to={"X": "left", "Y": "outer"}, boundary=b)
            lazy, eager = (lambda: g2.interp(d1, order, **kw)), (lambda: g2.interp(da, order, **kw))
        elif w in ("pair_one_graph", "product_one_graph"):
            # two lazy results with the same chunk layout evaluated in ONE graph
            import dask
            db = (da * 3 + 1) % 7
            ddb = db.chunk(ch)
            if w == "pair_one_graph":
                lazy = lambda: [g.interp(dd, "X", boundary=b), g.diff(ddb, "X", boundary=b),
                                g.interp(ddb, "X", boundary=b)]
                eager = lambda: [g.interp(da, "X", boundary=b), g.diff(db, "X", boundary=b), g.interp(db, "X", boundary=b)]
            else:
                lazy = lambda: g.diff(dd, "X", boundary=b) * g.diff(ddb, "X", boundary=b) + g.interp(dd, "X", boundary=b)
                eager = lambda: g.diff(da, "X", boundary=b) * g.diff(db, "X", boundary=b) + g.interp(da, "X", boundary=b)
        elif w == "vec_simple":
            u = xr.DataArray(((np.arange(3 * N) * 3) % 7 + 1.0).reshape(3, N), dims=["yc", "xl"])
            chv = {"xl": tuple(composition(rng, N)), "yc": tuple(composition(rng, 3))}
            lazy = lambda: g.interp({"X": u.chunk(chv)}, "X", boundary=b)
            eager = lambda: g.interp({"X": u}, "X", boundary=b)
        else:
            raise KeyError(w)
    refused, ok, _, detail = _lazy_vs_eager(lazy, eager, case["sched"])
    return {"refused": refused, "lazy_ok": ok, "expect_refusal": expect_refusal, "detail": detail}


def run_impl(case):
    return run_stencil(case) if case["kind"] == "stencil" else run_other(case)


RULES = {"fill": "Fill", "extend": "Extend", "periodic": "Periodic"}


def coq_case(case, obs):
    if case["kind"] == "other":
        return f"K06_other {C.cbool(obs['expect_refusal'])} {C.cbool(obs['refused'])} {C.cbool(obs['lazy_ok'])}"
    cols = obs.get("cols", [])
    cq = lambda v: C.cQ(Fraction(v))
    return ("K06_stencil " + C.cstr(case["func"]) + f" {case['from'].capitalize()} {case['to'].capitalize()} "
            f"{RULES[case['rule']]} {cq(case['fill'])} " + C.clist(C.cnat(c) for c in case["chunks"]["x"]) + " " +
            C.clist(f"({C.clist(cq(v) for v in a)}, {C.clist(cq(v) for v in b)})" for a, b in cols) +
            f" {C.cbool(obs['refused'])} " + C.clist(C.cnat(c) for c in obs.get("out_chunks", [])) +
            f" {C.cbool(obs['lazy_ok'])}")


def distribution(cases, obs):
    from collections import Counter
    c = Counter()
    for case, o in zip(cases, obs):
        if case["kind"] == "other":
            c["other:" + case["what"]] += 1
        else:
            c["stencil:" + case["func"]] += 1
            c[f"x-chunks={min(len(case['chunks']['x']), 4)}{'+' if len(case['chunks']['x']) > 4 else ''}"] += 1
        c["sched:" + case["sched"]] += 1
        c["refused" if o["refused"] else ("ok" if o["lazy_ok"] else "LAZY-DIFFERS")] += 1
    return dict(c)
