"""C02 -- boundary rule resolution and padding widths."""
from __future__ import annotations

from fractions import Fraction

from .. import common as C

ID = "C02"
PROPERTY_FILE = "Properties/C02.v"
PROOF_TARGETS = ["Properties/C02.vo", "Proofs/Tie_gridops.vo"]
TIE_LEMMAS = ["Tie_fallback_shifts", "Tie_pad_modes"]
EVAL_TARGETS = ["Corr/Eval_C02.vo"]
IMPORTS = ("From Coq Require Import List Bool ZArith QArith String.\n"
           "From XV Require Import Base.Res Base.Assoc Base.Seq1D Base.Tensor Model.Axis Model.GridCtor Model.Pad Corr.Eval_C02.")
CASE_TYPE = "case02"
RUN_FN = "run02"
SCOPE = "nat_scope"
SHARD = 150
RULE = ("constructor spellings (periodic bool/list/dict x boundary None/scalar/total/partial mapping x "
        "fill_value likewise) x per-call spellings x asymmetric widths 0..n on 1-2 axes x dim orders with an "
        "extra dim; data = distinct integers. Distinct = canonical input hash; non-trivial = some width > 0.")

POS = ["center", "left", "right", "inner", "outer"]
WORDS = ["periodic", "fill", "extend"]


def plen(p, n):
    return {"outer": n + 1, "inner": n - 1}.get(p, n)


def nontrivial(case, obs):
    k = case.get("call")
    return bool(k and k["bw"] and any(lo or hi for _, (lo, hi) in k["bw"]))


def describe(case, obs):
    c = case["ctor"]
    k = case.get("call")
    s = f"Grid(periodic={c['periodic']}, boundary={c['boundary']}, fill_value={c['fill']})"
    if k:
        s += f"; pad(dims={k['dims']}, boundary_width={k['bw']}, boundary={k['boundary']}, fill_value={k['fill']})"
    return s + f" -> impl {str(obs)[:300]}"


def finding_key(case, obs):
    c = case["ctor"]
    if isinstance(c["periodic"], list) and obs.get("axes"):
        axes = [a for a, _ in c["coords"]]
        unnamed = [a for a in axes if a not in c["periodic"]]
        b = c["boundary"]
        for a in unnamed:
            explicit = b if isinstance(b, str) else (b or {}).get(a) if isinstance(b, dict) else None
            got = dict((x[0], x[1]) for x in obs["axes"]).get(a)
            if explicit is None and got == "periodic":
                return "C02:periodic-list-leaves-unnamed-axis-periodic"
    return None


def kwval(rng, axes, vals, allow_partial=True, none_entries=False):
    r = rng.random()
    if r < 0.25:
        return None
    if r < 0.55:
        return rng.choice(vals)
    if r < 0.8 or not allow_partial:
        return {a: rng.choice(vals) for a in axes}
    sub = [a for a in axes if rng.random() < 0.5] or [axes[0]]
    m = {a: rng.choice(vals) for a in sub}
    if none_entries and rng.random() < 0.4:
        # an axis may also be named with None: "nothing chosen for this axis"
        for a in axes:
            if a not in m and rng.random() < 0.6:
                m[a] = None
    return m


def systematic():
    """A fixed block run at every seed: the spellings of "nothing given" and of falsy-but-given values for
    the per-call and the Grid-level boundary / fill_value, on one axis, rule fill, width (1, 1).  Zero is a
    fill value like any other; an empty mapping names no axis; None is "not given"."""
    out = []
    for periodic in (False, True):
        for cb, cf in ((None, None), ("fill", 3), ({"X": "fill"}, {"X": 7}), ("extend", -2), ("fill", 0)):
            for kb in (None, "fill", {"X": "fill"}, {}, "extend", "periodic"):
                for kf in (None, 0, 0.0, 5, {"X": 0}, {"X": 0.0}, {}, 0.5):
                    ctor = {"coords": [["X", [["center", "x_c"], ["left", "x_l"]]]], "N": {"X": 3},
                            "periodic": periodic, "boundary": cb, "fill": cf}
                    call = {"dims": [["x_c", 3]], "vals": [10, 14, 20], "bw": [["X", [1, 1]]], "dtype": "float64",
                            "boundary": kb, "fill": kf}
                    out.append({"ctor": ctor, "call": call})
    for dtype in ("int16", "int64", "float32"):
        for fx, fy in ((0.5, 70000), (70000, 0.5), (0.5, 3), (-40000, 2.5)):
            for order in (("X", "Y"), ("Y", "X")):
                ctor = {"coords": [["X", [["center", "x_c"]]], ["Y", [["center", "y_c"]]]], "N": {"X": 2, "Y": 2},
                        "periodic": False, "boundary": "fill", "fill": None}
                call = {"dims": [["y_c", 2], ["x_c", 2]], "vals": [10, 14, 20, 21], "dtype": dtype,
                        "bw": [[a, [1, 1]] for a in order], "boundary": None, "fill": {"X": fx, "Y": fy}}
                out.append({"ctor": ctor, "call": call})
    return out


def generate(rng, tier):
    cases = systematic()
    n = 400 if tier == "quick" else 6000
    for _ in range(n):
        naxes = rng.choice([1, 2, 2, 2, 3])
        axes = ["X", "Y", "Z"][:naxes]
        N = {a: rng.randint(2, 4) for a in axes}
        coords = []
        for a in axes:
            ps = ["center"] + [p for p in POS[1:] if rng.random() < 0.4]
            rng.shuffle(ps)
            coords.append([a, [[p, f"{a.lower()}_{p[0]}"] for p in ps]])
        pr = rng.random()
        if pr < 0.25:
            periodic = True
        elif pr < 0.5:
            periodic = False
        elif pr < 0.8:
            periodic = [a for a in axes if rng.random() < 0.5]
        else:
            periodic = {a: rng.random() < 0.5 for a in axes}
        ctor = {"coords": coords, "N": N, "periodic": periodic,
                "boundary": kwval(rng, axes, WORDS, none_entries=True),
                "fill": kwval(rng, axes, [0, 3, -2, 7], none_entries=True)}
        call = None
        if rng.random() < 0.85:
            dims = []
            for a, cs in coords:
                if rng.random() < 0.85 or not dims:
                    p, d = rng.choice(cs)
                    dims.append([d, plen(p, N[a]), a])
            if rng.random() < 0.5:
                dims.append(["t", 2, None])
            rng.shuffle(dims)
            on_axes = [a for _, _, a in dims if a]
            padaxes = [a for a in on_axes if rng.random() < 0.8] or on_axes[:1]
            rng.shuffle(padaxes)
            bw = []
            for a in padaxes:
                ln = [l for _, l, aa in dims if aa == a][0]
                m = max(1, min(ln, 3))
                bw.append([a, [rng.randint(0, m), rng.randint(0, m)]])
            if rng.random() < 0.05:
                bw = None
            size = 1
            for _, l, _ in dims:
                size *= l
            vals = [10 + 3 * i + (i * i) % 7 for i in range(size)]
            call = {"dims": [[d, l] for d, l, _ in dims], "vals": vals, "bw": bw,
                    "dtype": rng.choice(["float64", "float64", "int64", "float32", "int16"]),
                    # the array may be lazy (any chunking); the widths may be tuples, lists or NumPy integers
                    "lazy": rng.random() < 0.25, "bw_spelling": rng.choice(["tuple", "tuple", "list", "numpy"]),
                    "boundary": kwval(rng, axes, WORDS),
                    # (70000 does not fit a 16-bit integer, 0.5 no integer at all)
                    "fill": kwval(rng, axes, [0, 5, -1, 9, 0.5, -2.75, 70000])}
        cases.append({"ctor": ctor, "call": call})
    return cases


def build_grid(c, with_coords=False):
    import numpy as np
    import xarray as xr
    from xgcm import Grid
    sizes = {}
    for a, cs in c["coords"]:
        for p, d in cs:
            sizes[d] = plen(p, c["N"][a])
    ds = xr.Dataset({f"v_{d}": ((d,), np.zeros(n)) for d, n in sizes.items()})
    if with_coords:
        ds = ds.assign_coords({d: (d, np.arange(n) * 1.5) for d, n in sizes.items()})
    # dimensions of the dataset that belong to no axis (time steps, ensemble members): the data handed to an
    # operation may be a selection along them
    for d, n in (c.get("ds_extra") or {}).items():
        ds = ds.assign_coords({d: (d, np.arange(n) * 10.0)})
    coords = {a: {p: d for p, d in cs} for a, cs in c["coords"]}
    g = Grid(ds, coords=coords, periodic=c["periodic"], boundary=c["boundary"],
             fill_value=c["fill"], autoparse_metadata=False)
    return ds, g, sizes


def run_impl(case):
    import numpy as np
    import xarray as xr
    from xgcm.padding import pad
    c = case["ctor"]
    try:
        ds, g, _ = build_grid(c)
    except Exception as e:
        return {"ctor_err": type(e).__name__}
    out = {"axes": [[a, g.axes[a].boundary, str(Fraction(g.axes[a].fill_value))] for a in g.axes]}
    k = case.get("call")
    if k:
        shape = [l for _, l in k["dims"]]
        da = xr.DataArray(np.array(k["vals"], dtype=k.get("dtype", "float64")).reshape(shape),
                          dims=[d for d, _ in k["dims"]])
        sp = k.get("bw_spelling", "tuple")
        mk = {"tuple": tuple, "list": list, "numpy": lambda w: (np.int64(w[0]), np.int32(w[1]))}[sp]
        bw = None if k["bw"] is None else {a: mk(w) for a, w in k["bw"]}
        if k.get("lazy"):
            da = da.chunk({d: max(1, (n + 1) // 2) for d, n in zip(da.dims, da.shape)})
        try:
            if len(k["vals"]) % 3 != 1 and bw is not None:
                # nothing is carried from one call to the next: another call, with per-call arguments of its
                # own, on the same Grid first
                try:
                    pad(da * 2 + 1, g, boundary_width=bw, boundary={a: "extend" for a in g.axes},
                        fill_value={a: 100.0 for a in g.axes})
                    pad(da * 2 + 1, g, boundary_width=bw, boundary="fill", fill_value=-77)
                except Exception:
                    pass
            r = pad(da, g, boundary_width=bw, boundary=k["boundary"], fill_value=k["fill"])
            out["pad"] = {"dims": [[d, int(n)] for d, n in zip(r.dims, r.shape)],
                          "vals": [str(Fraction(float(v))) for v in r.values.ravel()],
                          "coords": sorted(map(str, r.coords))}
        except Exception as e:
            out["pad"] = {"err": type(e).__name__}
    return out


BW = {"periodic": "BPeriodic", "fill": "BFill", "extend": "BExtend"}


def ckw(v, f):
    if isinstance(v, dict):
        return "(KMap " + C.clist(f"({C.cstr(a)}, {C.copt(x, f)})" for a, x in v.items()) + ")"
    return f"(KScalar {C.copt(v, f)})"


def cbw(w):
    return BW.get(w, "BUnknown")


def cq(x):
    return C.cQ(Fraction(x))


def cdims(ds):
    return C.clist(f"({C.cstr(d)}, {C.cnat(n)})" for d, n in ds)


def cpos(p):
    return p.capitalize()


def coq_ctor(c):
    dsdims = sorted({d for _, cs in c["coords"] for _, d in cs})
    per = c["periodic"]
    if isinstance(per, bool):
        cper = f"(PBool {C.cbool(per)})"
    elif isinstance(per, list):
        cper = "(PList " + C.clist(C.cstr(a) for a in per) + ")"
    else:
        cper = "(PMap " + C.clist(f"({C.cstr(a)}, {C.cbool(b)})" for a, b in per.items()) + ")"
    ctor = ("{| c_dsdims := " + C.clist(C.cstr(d) for d in dsdims) +
            "; c_coords := " + C.clist(
                f"({C.cstr(a)}, " + C.clist(f"({cpos(p)}, {C.cstr(d)})" for p, d in cs) + ")"
                for a, cs in c["coords"]) +
            f"; c_periodic := {cper}; c_boundary := {ckw(c['boundary'], cbw)}" +
            f"; c_fill := {ckw(c['fill'], cq)}; c_shifts := KScalar None |}}")
    return ctor


def coq_case(case, obs):
    ctor = coq_ctor(case["ctor"])
    k = case.get("call")
    if k:
        bw = "None" if k["bw"] is None else "(Some " + C.clist(
            f"({C.cstr(a)}, ({C.cnat(lo)}, {C.cnat(hi)}))" for a, (lo, hi) in k["bw"]) + ")"
        call = ("(Some {| k_dims := " + cdims(k["dims"]) + "; k_vals := " + C.clist(cq(v) for v in k["vals"]) +
                f"; k_bw := {bw}; k_boundary := {ckw(k['boundary'], cbw)}; k_fill := {ckw(k['fill'], cq)} |}})")
    else:
        call = "None"
    if "ctor_err" in obs:
        impl = f"(ICtorErr {C.cekind(obs['ctor_err'])})"
    else:
        axes = C.clist(f"({C.cstr(a)}, {cbw(b)}, {cq(Fraction(f))})" for a, b, f in obs["axes"])
        p = obs.get("pad")
        if p is None:
            pr = "None"
        elif "err" in p:
            pr = f"(Some (Err {C.cekind(p['err'])}))"
        else:
            pr = "(Some (Ok (" + cdims(p["dims"]) + ", " + C.clist(cq(Fraction(v)) for v in p["vals"]) + ")))"
        impl = f"(ICtorOk {axes} {pr})"
    return f"{{| c02_ctor := {ctor}; c02_call := {call}; c02_impl := {impl} |}}"


def distribution(cases, obs):
    from collections import Counter
    c = Counter()
    for case, o in zip(cases, obs):
        c["periodic:" + type(case["ctor"]["periodic"]).__name__] += 1
        c["boundary:" + type(case["ctor"]["boundary"]).__name__] += 1
        k = case.get("call")
        if k:
            c["call.boundary:" + type(k["boundary"]).__name__] += 1
            c["naxes_padded=" + str(len(k["bw"] or []))] += 1
        if "ctor_err" in o:
            c["ctor_err:" + o["ctor_err"]] += 1
        elif "pad" in o and "err" in o["pad"]:
            c["pad_err:" + o["pad"]["err"]] += 1
    return dict(c)


def extra_checks(rng, tier, notes):
    """The same mapping objects used for two Grids: each Grid resolves its own unnamed axes from its own
    periodic argument, exactly as with freshly written mappings."""
    out = []
    n = 40 if tier == "quick" else 400
    done = 0
    for _ in range(n):
        axes = ["X", "Y", "Z"][:rng.choice([2, 2, 3])]
        coords = [[a, [["center", f"{a.lower()}_c"], ["left", f"{a.lower()}_l"]]] for a in axes]
        N = {a: rng.randint(2, 3) for a in axes}
        named = [a for a in axes if rng.random() < 0.5] or [axes[0]]
        if len(named) == len(axes):
            named = named[:-1]
        b_shared = {a: rng.choice(WORDS) for a in named}
        f_shared = {a: rng.choice([3, -2, 7]) for a in named if rng.random() < 0.7}
        res = []
        for shared in (True, False):
            per = []
            for periodic in rng.sample([True, False], 2) if shared else order:
                b = b_shared if shared else dict(b_snapshot)
                f = f_shared if shared else dict(f_snapshot)
                c = {"coords": coords, "N": N, "periodic": periodic, "boundary": b, "fill": f}
                try:
                    _, g, _ = build_grid(c)
                    per.append([periodic, [[a, g.axes[a].boundary, float(g.axes[a].fill_value)] for a in g.axes]])
                except Exception as e:
                    per.append([periodic, type(e).__name__])
            if shared:
                order = [p for p, _ in per]
                b_snapshot = {a: b_shared[a] for a in named}
                f_snapshot = {a: f_shared[a] for a in f_shared if a in named}
            res.append(per)
        done += 1
        if res[0] != res[1] or set(b_shared) != set(named):
            out.append(({"ctor": {"coords": coords, "N": N, "periodic": order, "boundary": b_snapshot,
                                  "fill": f_snapshot}, "call": None, "reuse": True},
                        {"shared_mappings": res[0], "fresh_mappings": res[1], "mapping_after": b_shared},
                        f"two Grids built with the SAME boundary / fill_value mapping objects (periodic={order}) "
                        f"resolve differently from Grids built with fresh copies: {res[0]} vs {res[1]}; "
                        f"mapping afterwards: {b_shared}"))
    notes.append(f"{done} pairs of Grids built from shared partial mappings compared with fresh mappings")
    out.extend(nan_checks(rng, tier, notes))
    return out


def nan_checks(rng, tier, notes):
    """Every original value stays in place -- missing values (NaN) included, under every rule."""
    import numpy as np
    import xarray as xr
    from xgcm.padding import pad
    out = []
    n = 40 if tier == "quick" else 400
    for _ in range(n):
        nx, ny = rng.randint(2, 4), rng.randint(2, 4)
        c = {"coords": [["X", [["center", "x_c"]]], ["Y", [["center", "y_c"]]]], "N": {"X": nx, "Y": ny},
             "periodic": False, "boundary": None, "fill": None}
        _, g, _ = build_grid(c)
        vals = np.array([[float(rng.randint(-5, 9)) for _ in range(nx)] for _ in range(ny)])
        for _k in range(rng.randint(1, 3)):
            vals[rng.randrange(ny), rng.randrange(nx)] = np.nan
        da = xr.DataArray(vals, dims=["y_c", "x_c"])
        rule = {"X": rng.choice(WORDS), "Y": rng.choice(WORDS)}
        fillv = {"X": rng.choice([0, 3, -2]), "Y": rng.choice([5, 7])}
        lo, hi, lo2, hi2 = [rng.randint(0, 2) for _ in range(4)]
        bw = {"X": (lo, hi), "Y": (lo2, hi2)}
        case = {"ctor": c, "call": None, "vals": [[None if np.isnan(v) else v for v in row] for row in vals.tolist()],
                "rule": rule, "fill": fillv, "bw": bw}
        try:
            r = pad(da, g, boundary_width=bw, boundary=rule, fill_value=fillv).transpose("y_c", "x_c").values
            inner = r[lo2:lo2 + ny, lo:lo + nx]
            ok = inner.shape == vals.shape and np.array_equal(inner, vals, equal_nan=True)
            obs = {"interior": [[None if np.isnan(v) else v for v in row] for row in inner.tolist()]}
        except Exception as e:
            ok, obs = False, {"err": f"{type(e).__name__}: {e}"[:200]}
        if not ok:
            out.append((case, obs, f"padding changed an original value (missing values included): {case} -> {obs}"))
    notes.append(f"{n} arrays with missing values padded under random rules: interior compared NaN-aware")
    return out
