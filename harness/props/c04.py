"""C04 -- vector components cross rotated face links with the right partner and sign."""
from __future__ import annotations

from fractions import Fraction

from .. import common as C
from ..lib import atlas
from . import c02 as G
from . import c05 as F

ID = "C04"
PROPERTY_FILE = "Properties/C04.v"
PROOF_TARGETS = ["Properties/C04.vo"]
EVAL_TARGETS = ["Corr/Eval_C04.vo"]
IMPORTS = ("From Coq Require Import List Bool ZArith QArith String.\n"
           "From XV Require Import Base.Res Base.Assoc Base.Seq1D Base.Tensor Model.Axis Model.FaceConn "
           "Spec.S03 Corr.Eval_C04.")
CASE_TYPE = "case04"
RUN_FN = "run04"
SCOPE = "nat_scope"
SHARD = 40
RULE = ("periodic or open Kx x Ky domains cut into 1-6 square faces with independent quarter-turn orientations, "
        "kept only when every junction is a non-reversed link; an edge-flux field (U on left edges, V on lower "
        "edges) seen through each chart gives the face components u (X-left) and v (Y-left); diff / interp of a "
        "component along its own axis to centres and the divergence diff_X + diff_Y are compared with the "
        "undivided field; plus, on grids without face connections, vector form == component alone. "
        "Non-trivial = at least one axis-swapping link, or more than one face.")


def nontrivial(case, obs):
    for f, fal in case["dec"]["conn"]:
        for a, (l, r) in fal:
            for x in (l, r):
                if x is not None and x[1] != a:
                    return True
    return len(case["dec"]["conn"]) > 1


def describe(case, obs):
    d = case["dec"]
    return (f"decomposition Kx={d['Kx']} Ky={d['Ky']} N={d['N']} per=({d['per_x']},{d['per_y']}) "
            f"orients={d['orients']} conn={d['conn']} op={case['func']} axis={case['axis']} "
            f"rule={case['rule']} fill={case['fill']} -> impl {str(obs)[:120]}")


def nonreversed(dec):
    return all(x is None or not x[2] for f, fal in dec["conn"] for a, (l, r) in fal for x in (l, r))


def generate(rng, tier):
    n = 400 if tier == "quick" else 2000
    cases = []
    while len(cases) < n:
        dec = atlas.random_decomposition(rng, max_faces=6 if tier == "thorough" else 4, rotations_only=True)
        if not nonreversed(dec):
            continue
        N = dec["N"]
        Lx, Ly = dec["Kx"] * N, dec["Ky"] * N
        extra = rng.random() < 0.3
        T = 2 if extra else 1
        U = [[[(7 * (x + 3) * (y + 1) + 11 * t + x * x) % 37 - 9 for t in range(T)] for x in range(Lx + 1)] for y in range(Ly)]
        V = [[[(5 * (x + 2) * (y + 4) + 3 * t + y * y * 2) % 41 - 13 for t in range(T)] for x in range(Lx)] for y in range(Ly + 1)]
        if dec["per_x"]:
            for y in range(Ly):
                U[y][Lx] = list(U[y][0])
        if dec["per_y"]:
            V[Ly] = [list(v) for v in V[0]]
        func = rng.choice(["div", "div", "diff", "interp"])
        narrow = None
        if rng.random() < 0.35:
            # one local component is stored as int64 although its partner is not integer-valued: every
            # global edge value that feeds that local component (on any face) stays an integer, every
            # other edge value is moved by one half (exact in every type; the spec is exact anyway)
            import numpy as np
            which = rng.choice(["u", "v"])
            Uid = np.arange(1, Ly * (Lx + 1) * T + 1).reshape(Ly, Lx + 1, T)
            Vid = (10 ** 6 + np.arange(1, (Ly + 1) * Lx * T + 1)).reshape(Ly + 1, Lx, T)
            keep = set()
            for ch in dec["charts"]:
                c = {"o": tuple(ch["o"]), "M": (tuple(ch["M"][0]), tuple(ch["M"][1]))}
                for j in range(N):
                    for i in range(N):
                        C0 = atlas.chart_apply(c, (i, j))
                        prev = atlas.chart_apply(c, (i - 1, j) if which == "u" else (i, j - 1))
                        keep |= {abs(int(k)) for k in np.ravel(phi(dec, Uid, Vid, prev, C0))}
            U = [[[U[y][x][t] + (0 if int(Uid[y, x, t]) in keep else 0.5) for t in range(T)]
                  for x in range(Lx + 1)] for y in range(Ly)]
            V = [[[V[y][x][t] + (0 if int(Vid[y, x, t]) in keep else 0.5) for t in range(T)]
                  for x in range(Lx)] for y in range(Ly + 1)]
            if dec["per_x"]:
                for y in range(Ly):
                    U[y][Lx] = list(U[y][0])
            if dec["per_y"]:
                V[Ly] = [list(v) for v in V[0]]
            narrow = [which, "int64"]
        cases.append({"dec": dec, "U": U, "V": V, "extra": extra, "func": func, "axis": rng.choice(["X", "Y"]),
                      "rule": rng.choice(["extend", "fill"]), "fill": rng.choice([0, 4, -3]),
                      "face_pos": rng.randrange(3 + (1 if extra else 0)),
                      "seed_listing": rng.randrange(10 ** 6) if rng.random() < 0.6 else None, "narrow": narrow,
                      "links_as_lists": rng.random() < 0.25,
                      # the components may be lazy (chunked over the face and the extra dimension)
                      "lazy": rng.random() < 0.3,
                      "labels": None if rng.random() < 0.7 else rng.choice(
                          [list(range(1, len(dec["conn"]) + 1)), rng.sample(range(0, 12), len(dec["conn"]))])})
    return cases


def phi(dec, U, V, a, b):
    Lx, Ly = dec["Kx"] * dec["N"], dec["Ky"] * dec["N"]

    def ux(x, y):
        return U[y % Ly if dec["per_y"] else y][x % Lx if dec["per_x"] else x]

    def vy(x, y):
        return V[y % Ly if dec["per_y"] else y][x % Lx if dec["per_x"] else x]
    if b[0] == a[0] + 1:
        return ux(b[0], b[1])
    if b[0] == a[0] - 1:
        return -ux(a[0], a[1])
    if b[1] == a[1] + 1:
        return vy(b[0], b[1])
    return -vy(a[0], a[1])


def run_impl(case):
    import numpy as np
    import xarray as xr
    from xgcm import Grid
    d = case["dec"]
    N, nf = d["N"], len(d["conn"])
    U = np.array(case["U"], dtype=float)
    V = np.array(case["V"], dtype=float)
    T = U.shape[-1]
    u = np.zeros((nf, N, N, T))
    v = np.zeros((nf, N, N, T))
    for f, ch in enumerate(d["charts"]):
        c = {"o": tuple(ch["o"]), "M": (tuple(ch["M"][0]), tuple(ch["M"][1]))}
        for j in range(N):
            for i in range(N):
                C0 = atlas.chart_apply(c, (i, j))
                u[f, j, i] = phi(d, U, V, atlas.chart_apply(c, (i - 1, j)), C0)
                v[f, j, i] = phi(d, U, V, atlas.chart_apply(c, (i, j - 1)), C0)
    lab = case.get("labels") or list(range(nf))      # how the dataset labels its faces
    ds = xr.Dataset(coords={"face": np.array(lab), "xc": np.arange(N), "xg": np.arange(N),
                            "yc": np.arange(N), "yg": np.arange(N)})
    listed = list(d["conn"])
    if case.get("seed_listing") is not None:
        import random as _r
        _r.Random(case["seed_listing"]).shuffle(listed)
    seq = list if case.get("links_as_lists") else tuple      # a table read from JSON / YAML spells links as lists
    lk = lambda l: seq((lab[l[0]], l[1], l[2])) if l else None
    fc = {"face": {lab[f]: {a: (lk(l), lk(r)) for a, (l, r) in fal} for f, fal in listed}}
    try:
        g = Grid(ds, coords={"X": {"center": "xc", "left": "xg"}, "Y": {"center": "yc", "left": "yg"}},
                 face_connections=fc, periodic=False, autoparse_metadata=False)
        ud = ["face", "yc", "xg", "t"]
        vd = ["face", "yg", "xc", "t"]
        uda = xr.DataArray(u, dims=ud)
        vda = xr.DataArray(v, dims=vd)
        if not case["extra"]:
            uda, vda = uda.isel(t=0), vda.isel(t=0)
        # move the face dimension
        def mv(da):
            dims = [x for x in da.dims if x != "face"]
            dims.insert(min(case["face_pos"], len(dims)), "face")
            return da.transpose(*dims)
        uda, vda = mv(uda), mv(vda)
        narrow = case.get("narrow")
        if narrow:
            which, dt = narrow
            arr = uda if which == "u" else vda
            if np.array_equal(arr.values.astype(dt).astype(float), arr.values):     # held exactly
                if which == "u":
                    uda = uda.astype(dt)
                else:
                    vda = vda.astype(dt)
        if case.get("lazy"):
            ch = lambda a: a.chunk({d: 1 for d in a.dims if d in ("face", "t")})
            uda, vda = ch(uda), ch(vda)
        kw = dict(boundary=case["rule"], fill_value=case["fill"])

        def op(name, axis):
            if axis == "X":
                return getattr(g, name)({"X": uda}, "X", to="center", other_component={"Y": vda}, **kw)
            return getattr(g, name)({"Y": vda}, "Y", to="center", other_component={"X": uda}, **kw)
        if case["func"] == "div":
            r = op("diff", "X") + op("diff", "Y")
        else:
            r = op(case["func"], case["axis"])
        out_order = sorted(r.dims)
        r = r.transpose(*out_order)
        return {"out_order": out_order, "dims": [[x, int(n)] for x, n in zip(r.dims, r.shape)],
                "vals": [str(Fraction(float(x))) for x in r.values.ravel()]}
    except Exception as e:
        import traceback
        return {"err": type(e).__name__, "msg": traceback.format_exc()[-400:], "out_order": []}


def coq_case(case, obs):
    d = case["dec"]
    N = d["N"]
    Lx, Ly = d["Kx"] * N, d["Ky"] * N
    T = 2 if case["extra"] else 1
    dom = (f"{{| dom_lx := {Lx}%Z; dom_ly := {Ly}%Z; dom_perx := {C.cbool(d['per_x'])}; "
           f"dom_pery := {C.cbool(d['per_y'])} |}}")
    charts = C.clist(
        f"{{| ch_ox := {C.cZ(c['o'][0])}%Z; ch_oy := {C.cZ(c['o'][1])}%Z; ch_a := {C.cZ(c['M'][0][0])}%Z; "
        f"ch_b := {C.cZ(c['M'][0][1])}%Z; ch_c := {C.cZ(c['M'][1][0])}%Z; ch_d := {C.cZ(c['M'][1][1])}%Z |}}"
        for c in d["charts"])
    tdim = [["t", T]] if case["extra"] else []
    uvals = [case["U"][y][x][t] for y in range(Ly) for x in range(Lx + 1) for t in range(T)]
    vvals = [case["V"][y][x][t] for y in range(Ly + 1) for x in range(Lx) for t in range(T)]
    if "err" in obs:
        impl = f"(Err {C.cekind(obs['err'])})"
    else:
        impl = "(Ok (" + G.cdims(obs["dims"]) + ", " + C.clist(G.cq(Fraction(v)) for v in obs["vals"]) + "))"
    rules = {"extend": "Extend", "fill": "Fill", "periodic": "Periodic"}
    return ("{| c04_dom := " + dom + f"; c04_N := {C.cnat(N)}; c04_charts := {charts}; c04_conn := " +
            F.coq_conn(d["conn"]) +
            "; c04_udims := " + G.cdims([["gy", Ly], ["gxe", Lx + 1]] + tdim) + "; c04_uvals := " +
            C.clist(G.cq(v) for v in uvals) +
            "; c04_vdims := " + G.cdims([["gye", Ly + 1], ["gx", Lx]] + tdim) + "; c04_vvals := " +
            C.clist(G.cq(v) for v in vvals) +
            f"; c04_func := {C.cstr(case['func'])}; c04_axis := {C.cstr(case['axis'])}; " +
            f"c04_rule := {rules[case['rule']]}; c04_fill := {G.cq(case['fill'])}; " +
            "c04_out_order := " + C.clist(C.cstr(x) for x in obs["out_order"]) + f"; c04_impl := {impl} |}}")


def extra_checks(rng, tier, notes):
    """On grids without face connections the vector form gives exactly the result of
    passing the component alone (all shifts to centre, diff and interp, both axes)."""
    import numpy as np
    import xarray as xr
    from xgcm import Grid
    out = []
    n = 30 if tier == "quick" else 300
    for _ in range(n):
        N, M = rng.randint(2, 5), rng.randint(2, 4)
        ds = xr.Dataset(coords={"xc": np.arange(N), "xg": np.arange(N), "xr": np.arange(N), "xo": np.arange(N + 1),
                                "xi": np.arange(N - 1), "yc": np.arange(M), "yg": np.arange(M)})
        rule = rng.choice(["extend", "fill", "periodic"])
        g = Grid(ds, coords={"X": {"center": "xc", "left": "xg", "right": "xr", "outer": "xo", "inner": "xi"},
                             "Y": {"center": "yc", "left": "yg"}},
                 periodic=False, boundary=rule, fill_value=rng.choice([0, 2]), autoparse_metadata=False)
        pos = rng.choice(["xg", "xr", "xo", "xi"])
        u = xr.DataArray(np.array([[rng.randint(-9, 9) for _ in range(ds.sizes[pos])] for _ in range(M)], dtype=float),
                         dims=["yc", pos])
        v = xr.DataArray(np.array([[rng.randint(-9, 9) for _ in range(N)] for _ in range(M)], dtype=float),
                         dims=["yg", "xc"])
        for opn in ("diff", "interp"):
            case = {"N": N, "M": M, "rule": rule, "pos": pos, "op": opn, "u": u.values.tolist()}
            try:
                a = getattr(g, opn)(u, "X", to="center")
                b = getattr(g, opn)({"X": u}, "X", to="center", other_component={"Y": v})
                ok = isinstance(b, xr.DataArray) and a.dims == b.dims and np.array_equal(a.values, b.values)
                obs = {"alone": a.values.tolist(), "vector": np.asarray(getattr(b, "values", None)).tolist()}
            except Exception as e:
                ok, obs = False, {"err": type(e).__name__ + ": " + str(e)[:200]}
            if not ok:
                out.append((case, obs, "on a grid without face connections the vector form differs from passing "
                            f"the component alone: {opn} from {pos} rule={rule}: {obs}"))
    notes.append(f"vector form == component alone checked on {n} simple grids x diff/interp")
    return out


def distribution(cases, obs):
    from collections import Counter
    c = Counter()
    for case, o in zip(cases, obs):
        d = case["dec"]
        c[f"faces={len(d['conn'])}"] += 1
        c["func:" + case["func"]] += 1
        for f, fal in d["conn"]:
            for a, (l, r) in fal:
                for side, x in (("L", l), ("R", r)):
                    if x is not None:
                        c[f"kind:{side}{'swap' if x[1] != a else 'same'}"] += 1
        c["err:" + o["err"] if "err" in o else "ok"] += 1
    return dict(c)
