"""C14 -- metadata autoparsing recovers exactly the topology the conventions prescribe."""
from __future__ import annotations

import itertools

from .. import common as C

ID = "C14"
PROPERTY_FILE = "Properties/C14.v"
PROOF_TARGETS = ["Properties/C14.vo"]
EVAL_TARGETS = ["Corr/Eval_C14.vo"]
IMPORTS = ("From Coq Require Import List Bool ZArith String.\n"
           "From XV Require Import Base.Res Model.Axis Model.Comodo Model.Sgrid Corr.Eval_C14.")
CASE_TYPE = "case14"
RUN_FN = "run14"
SCOPE = "nat_scope"
SHARD = 200
RULE = ("topologies with 1-3 axes, every position set containing center (COMODO: any subset; SGRID: center + one "
        "node position per padding word), N >= 1, both signs of c_grid_axis_shift on inner/outer, dimension names "
        "from a pool with names that are substrings/prefixes of each other, dataset dimension order shuffled; "
        "SGRID 1-D / 2-D / 2-D+vertical / 3-D, with and without the space after ':'; plus user coords given "
        "together with parsed ones, a declared SGRID without grid variable, invalid shifts. Thorough: every "
        "position subset x N in 1..3 for one axis and every padding word x topology exhaustively. "
        "Non-trivial = more than center on at least one axis.")

POSL = ["left", "right", "inner", "outer"]
NAMES = ["x", "xi", "xi_rho", "xi_psi", "x_c", "x_g", "lon", "lonG", "y", "eta_rho", "eta_psi", "yy", "z", "zl",
         "s_rho", "s_w", "k", "k_u", "padding", "i", "j", "XC", "XG", "depth", "t",
         # the words of the SGRID attribute grammar are ordinary names too
         "high", "low", "both", "none", "padding_", "center"]


def plen(p, n):
    return {"outer": n + 1, "inner": n - 1}.get(p, n)


def nontrivial(case, obs):
    t = case.get("topo")
    return isinstance(t, list) and any(len(ps) > 1 for _, ps in t)


def describe(case, obs):
    return f"{ {k: v for k, v in case.items()} } -> impl {str(obs)[:200]}"


def gen_comodo(rng, naxes=None, positions=None, N=None):
    naxes = naxes or rng.randint(1, 3)
    axes = rng.sample(["X", "Y", "Z", "T"], naxes)
    names = rng.sample(NAMES, 5 * naxes + 1)
    topo, dims = [], []
    for a in axes:
        n = N or rng.randint(1, 4)
        ps = ["center"] + (positions if positions is not None else [p for p in POSL if rng.random() < 0.45])
        if n == 1 and "inner" in ps and rng.random() < 0.5:
            ps.remove("inner")
        entry = []
        for p in ps:
            d = names.pop()
            entry.append([p, d])
            shift = None if p == "center" else -0.5 if p == "left" else 0.5 if p == "right" else rng.choice([-0.5, 0.5])
            if p == "center" and rng.random() < 0.1:
                shift = 0.0
            dims.append([d, plen(p, n), a, shift])
        topo.append([a, entry])
    if rng.random() < 0.4:
        dims.append([names.pop(), 2, None, None])       # a dimension without axis attribute
    rng.shuffle(dims)
    order = list(dict.fromkeys(a for _, _, a, _ in dims if a is not None))
    topo.sort(key=lambda e: order.index(e[0]))
    return {"conv": None, "sgrid": None, "dims": dims, "user": None, "topo": topo}


PADPOS = {"high": "left", "low": "right", "both": "inner", "none": "outer"}


def gen_sgrid(rng, kind=None, words=None, space=None):
    kind = kind or rng.choice(["1d", "2d", "2dv", "3d"])
    naxes = {"1d": 1, "2d": 2, "2dv": 3, "3d": 3}[kind]
    names = rng.sample(NAMES, 2 * naxes)
    words = words or [rng.choice(list(PADPOS)) for _ in range(naxes)]
    space = rng.random() < 0.5 if space is None else space
    sp = " " if space else ""
    topo, sizes, entries, nodes = [], [], [], []
    for i, a in enumerate(["X", "Y", "Z"][:naxes]):
        n = rng.randint(2, 4)
        cell, node = names.pop(), names.pop()
        w = words[i]
        topo.append([a, [["center", cell], [PADPOS[w], node]]])
        sizes += [[cell, n], [node, plen(PADPOS[w], n)]]
        entries.append(f"{cell}:{sp}{node} (padding:{sp}{w})")
        nodes.append(node)
    attrs = {"cf_role": "grid_topology", "topology_dimension": 3 if kind == "3d" else (1 if kind == "1d" else 2)}
    # the face / volume entries pair each cell dimension with its node dimension BY NAME; the order in
    # which they are listed need not be that of node_dimensions
    def listed(es):
        es = list(es)
        if rng.random() < 0.5:
            rng.shuffle(es)
        return " ".join(es)
    if kind == "3d":
        attrs["node_dimensions"] = " ".join(nodes)
        attrs["volume_dimensions"] = listed(entries)
    else:
        k = 1 if kind == "1d" else 2
        attrs["node_dimensions"] = " ".join(nodes[:k])
        attrs["face_dimensions"] = listed(entries[:k])
        if kind == "2dv":
            attrs["vertical_dimensions"] = entries[2]
    conv = rng.choice(["SGRID-0.3", "CF-1.6, SGRID-0.3", "sgrid"])
    # a dataset that declares SGRID may ALSO carry COMODO/CF `axis` attributes (on a time coordinate, on a
    # depth coordinate outside a 2-D topology, on the topology's own dimensions): SGRID alone is used
    dims = []
    if rng.random() < 0.35:
        if rng.random() < 0.7:
            dims.append([rng.choice(["ocean_time", "tt", "depth_w"]), 3, rng.choice(["T", "Z", "W"]), None])
        if rng.random() < 0.5:
            d, n = rng.choice(sizes)
            dims.append([d, n, rng.choice(["X", "Y", "Q"]), rng.choice([None, -0.5])])
    # the grid-topology container may be a data variable or a (non-index) coordinate of the dataset
    return {"conv": conv, "sgrid": attrs, "sizes": sizes, "dims": dims, "user": None, "topo": topo,
            "grid_as_coord": rng.random() < 0.3, "grid_name": rng.choice(["grid", "grid", "topology", "mesh"])}


def grammar_word_cases(rng):
    """A fixed block at every seed: each word of the SGRID grammar used as the name of a node dimension and of
    a cell dimension, with every padding word, with and without blanks."""
    out = []
    for word in ("padding", "high", "low", "both", "none"):
        for w in PADPOS:
            for role in ("node", "cell"):
                for space in (True, False):
                    sp = " " if space else ""
                    cell, node = ("xi_rho", word) if role == "node" else (word, "xi_psi")
                    n = 3
                    attrs = {"cf_role": "grid_topology", "topology_dimension": 2, "node_dimensions": f"{node} eta_psi",
                             "face_dimensions": f"{cell}:{sp}{node} (padding:{sp}{w}) eta_rho:{sp}eta_psi (padding:{sp}both)"}
                    topo = [["X", [["center", cell], [PADPOS[w], node]]], ["Y", [["center", "eta_rho"], ["inner", "eta_psi"]]]]
                    sizes = [[cell, n], [node, plen(PADPOS[w], n)], ["eta_rho", 4], ["eta_psi", 3]]
                    out.append({"conv": "SGRID-0.3", "sgrid": attrs, "sizes": sizes, "dims": [], "user": None, "topo": topo})
    return out


def generate(rng, tier):
    cases = grammar_word_cases(rng)
    n = 450 if tier == "quick" else 3000
    for i in range(n):
        c = gen_comodo(rng) if i % 2 else gen_sgrid(rng)
        r = rng.random()
        if r < 0.03:
            c["user"] = c["topo"]
            c["topo"] = None                          # conflict: must be refused
        elif r < 0.06:
            # user coords for an axis the metadata does not mention: still a conflict, not a merge
            if c["conv"] is None:
                c["dims"].append(["w_extra", 2, None, None])
            else:
                c["sizes"] = c.get("sizes", []) + [["w_extra", 2]]
            c["user"] = [["W", [["center", "w_extra"]]]]
            c["topo"] = None
        elif r < 0.09 and c["conv"] is None and c["dims"]:
            d = rng.choice(c["dims"])
            if d[3] is not None:
                d[3] = 0.25                           # invalid shift
                c["topo"] = "?"
        elif r < 0.11 and c["conv"]:
            c["sgrid"] = None                         # declared but no grid variable
            c["topo"] = None
        cases.append(c)
    if tier == "thorough":
        for k in range(len(POSL) + 1):
            for ps in itertools.combinations(POSL, k):
                for N in (1, 2, 3):
                    cases.append(gen_comodo(rng, naxes=1, positions=list(ps), N=N))
        for kind in ("1d", "2d", "2dv", "3d"):
            na = {"1d": 1, "2d": 2, "2dv": 3, "3d": 3}[kind]
            for words in itertools.product(list(PADPOS), repeat=na):
                for space in (False, True):
                    cases.append(gen_sgrid(rng, kind=kind, words=list(words), space=space))
    return cases


def build_ds(case):
    import numpy as np
    import xarray as xr
    if case["conv"] is None:
        ds = xr.Dataset()
        for name, n, axis, shift in case["dims"]:
            attrs = {}
            if axis is not None:
                attrs["axis"] = axis
            if shift is not None:
                attrs["c_grid_axis_shift"] = shift
            ds = ds.assign_coords({name: xr.DataArray(np.arange(n, dtype=float), dims=[name], attrs=attrs)})
        return ds
    ds = xr.Dataset(attrs={"Conventions": case["conv"]})
    for d, n in case.get("sizes", []):
        ds = ds.assign_coords({d: np.arange(n)})
    for name, n, axis, shift in case.get("dims", []):
        attrs = {"axis": axis}
        if shift is not None:
            attrs["c_grid_axis_shift"] = shift
        ds = ds.assign_coords({name: xr.DataArray(np.arange(n), dims=[name], attrs=attrs)})
    if case["sgrid"] is not None:
        gn = case.get("grid_name", "grid")
        ds[gn] = xr.DataArray(0, attrs=case["sgrid"])
        if case.get("grid_as_coord"):
            ds = ds.set_coords(gn)
    return ds


def run_impl(case):
    import warnings
    from xgcm import Grid
    warnings.simplefilter("ignore")
    ds = build_ds(case)
    kw = {}
    if case["user"]:
        kw["coords"] = {a: {p: d for p, d in ps} for a, ps in case["user"]}
    try:
        g = Grid(ds, periodic=False, **kw)
        out = {"topo": [[a, [[p, d] for p, d in g.axes[a].coords.items()]] for a in g.axes]}
    except Exception as e:
        return {"err": type(e).__name__}
    # the Grid built from the explicit mapping is the same Grid
    try:
        g2 = Grid(ds, periodic=False, coords={a: dict(ps) for a, ps in out["topo"]}, autoparse_metadata=False)
        out["same_as_explicit"] = all(dict(g.axes[a].coords) == dict(g2.axes[a].coords) and
                                      g.axes[a]._default_shifts == g2.axes[a]._default_shifts and
                                      g.axes[a].boundary == g2.axes[a].boundary for a in g.axes) \
            and list(g.axes) == list(g2.axes)
    except Exception as e:
        out["same_as_explicit"] = False
    return out


def cpos(p):
    return p.capitalize()


def ctopo(t):
    return C.clist(f"({C.cstr(a)}, " + C.clist(f"({cpos(p)}, {C.cstr(d)})" for p, d in ps) + ")" for a, ps in t)


SHIFT = {None: "SNone", -0.5: "SLeft", 0.5: "SRight", 0.0: "SZero"}


def coq_case(case, obs):
    dims = C.clist(
        "{| cd_name := " + C.cstr(n) + f"; cd_len := {C.cnat(l)}; cd_axis := {C.copt(a, C.cstr)}; cd_shift := " +
        SHIFT.get(s, "SOther") + " |}" for n, l, a, s in case["dims"])
    sg = "None"
    if case["sgrid"] is not None:
        a = case["sgrid"]
        sg = ("(Some {| sg_ndim := " + C.cnat(a["topology_dimension"]) +
              f"; sg_node := {C.copt(a.get('node_dimensions'), C.cstr)}; sg_face := {C.copt(a.get('face_dimensions'), C.cstr)}" +
              f"; sg_volume := {C.copt(a.get('volume_dimensions'), C.cstr)}; sg_vertical := {C.copt(a.get('vertical_dimensions'), C.cstr)} |}})")
    exp = "None" if not isinstance(case["topo"], list) else f"(Some {ctopo(case['topo'])})"
    if "err" in obs:
        impl = f"(Err {C.cekind(obs['err'])})"
    elif not obs.get("same_as_explicit", True):
        impl = "(Err OtherError)"      # the parsed Grid differs from the explicit one: a disagreement
    else:
        impl = f"(Ok {ctopo(obs['topo'])})"
    return ("{| c14_conv := " + C.copt(case["conv"], C.cstr) + f"; c14_sgrid := {sg}; c14_dims := {dims}" +
            f"; c14_user := {C.copt(case['user'], ctopo)}; c14_expected := {exp}; c14_unspecified := " +
            C.cbool(case["topo"] == "?") + f"; c14_impl := {impl} |}}")


def distribution(cases, obs):
    from collections import Counter
    c = Counter()
    for case, o in zip(cases, obs):
        c["sgrid" if case["conv"] else "comodo"] += 1
        c["err:" + o["err"] if "err" in o else "ok"] += 1
        if isinstance(case["topo"], list):
            for a, ps in case["topo"]:
                for p, _ in ps:
                    c["pos:" + p] += 1
    return dict(c)
