"""C16 -- the metric registry reflects exactly what was registered, in any batching."""
from __future__ import annotations

import itertools

from .. import common as C

ID = "C16"
PROPERTY_FILE = "Properties/C16.v"
PROOF_TARGETS = ["Properties/C16.vo"]
EVAL_TARGETS = ["Corr/Eval_C16.vo"]
IMPORTS = ("From Coq Require Import List Bool ZArith String.\n"
           "From XV Require Import Base.Res Base.Assoc Model.Registry Spec.S16 Corr.Eval_C16.")
CASE_TYPE = "case16"
RUN_FN = "run16"
SCOPE = "nat_scope"
SHARD = 200
RULE = ("histories of 1-4 set_metrics calls (leading calls optionally as constructor metrics=) over a pool of "
        "variables at different positions for axis sets {X} and {X,Y}; each call names 1-3 variables at pairwise "
        "different positions, overwrite True/False, key given in either axis order; plus unknown axis / unknown "
        "variable calls; after each history get_metric is queried at every position and compared between the "
        "batched history and its one-variable-per-call unfolding. Non-trivial = the history touches an occupied "
        "slot or batches more than one variable.")

POOL = {
    ("X",): ["dx_c", "dx_l", "dx_o", "dx_c2", "dx_l2"],
    ("X", "Y"): ["a_cc", "a_lc", "a_cl", "a_cc2", "a_ll"],
}
DIMS = {"dx_c": ["xc"], "dx_l": ["xl"], "dx_o": ["xo"], "dx_c2": ["xc"], "dx_l2": ["xl"],
        "a_cc": ["yc", "xc"], "a_lc": ["yc", "xl"], "a_cl": ["yl", "xc"], "a_cc2": ["xc", "yc"],
        "a_ll": ["yl", "xl"], "dy_c": ["yc"]}


def nontrivial(case, obs):
    seen = set()
    for c in case["calls"]:
        if len(c["names"]) > 1:
            return True
        for n in c["names"]:
            s = (tuple(sorted(c["key"])), tuple(sorted(DIMS.get(n, []))))
            if s in seen:
                return True
            seen.add(s)
    return False


def describe(case, obs):
    return f"calls={case['calls']} ctor_n={case['ctor_n']} -> impl {str(obs)[:300]}"


def rand_call(rng):
    key = rng.choice(list(POOL))
    names = []
    used = set()
    for n in rng.sample(POOL[key], rng.randint(1, 3)):
        d = tuple(sorted(DIMS[n]))
        if d not in used:
            used.add(d)
            names.append(n)
    k = list(key)
    if rng.random() < 0.3:
        k.reverse()
    return {"key": k, "names": names, "overwrite": rng.random() < 0.5}


def generate(rng, tier):
    cases = []
    n = 800 if tier == "quick" else 6000
    for _ in range(n):
        calls = [rand_call(rng) for _ in range(rng.randint(1, 4))]
        r = rng.random()
        if r < 0.05:
            calls.insert(rng.randrange(len(calls) + 1), {"key": ["Q"], "names": ["dx_c"], "overwrite": False})
        elif r < 0.1:
            calls.insert(rng.randrange(len(calls) + 1), {"key": ["X"], "names": ["dx_c", "nope"], "overwrite": True})
        # leading calls with distinct keys may go through the constructor
        ctor_n = 0
        if rng.random() < 0.4:
            spelled, taken = set(), set()
            for c in calls:
                k = tuple(sorted(c["key"]))
                # a dict cannot hold one spelling twice, but ("X","Y") and ("Y","X") are two entries
                # for the same axis set; they must not clash on a position (the constructor would raise)
                slots = {(k, tuple(sorted(DIMS.get(n, [n])))) for n in c["names"]}
                if tuple(c["key"]) in spelled or slots & taken or c["overwrite"] or \
                        k not in [tuple(sorted(x)) for x in POOL]:
                    break
                if any(n not in DIMS for n in c["names"]):
                    break
                spelled.add(tuple(c["key"]))
                taken |= slots
                ctor_n += 1
        # read-only queries interleaved with the registrations must leave no trace
        cases.append({"calls": calls, "ctor_n": ctor_n, "queries_between": rng.random() < 0.5})
    if tier == "thorough":
        # exhaustive: all histories of <= 3 single/double calls over a pool of 3 variables of one key
        pool = ["dx_c", "dx_l", "dx_c2"]
        opts = [[a] for a in pool] + [[a, b] for a, b in itertools.permutations(pool, 2)
                                      if sorted(DIMS[a]) != sorted(DIMS[b])]
        atoms = [{"key": ["X"], "names": o, "overwrite": ow} for o in opts for ow in (False, True)]
        for L in (1, 2, 3):
            for h in itertools.product(atoms, repeat=L):
                cases.append({"calls": [dict(c) for c in h], "ctor_n": 0})
    return cases


def build(case):
    import numpy as np
    import xarray as xr
    from xgcm import Grid
    ds = xr.Dataset(coords={"xc": np.arange(3), "xl": np.arange(3), "xo": np.arange(4),
                            "yc": np.arange(2), "yl": np.arange(2)})
    val = 1.0
    for n, d in DIMS.items():
        val += 1.0
        ds[n] = (d, np.full([ds.sizes[x] for x in d], val))
    coords = {"X": {"center": "xc", "left": "xl", "outer": "xo"}, "Y": {"center": "yc", "left": "yl"}}
    return ds, coords, Grid


def run_history(case, unfold=False):
    ds, coords, Grid = build(case)
    pristine = ds.copy(deep=True)
    calls = case["calls"]
    outs = []
    k = case["ctor_n"]
    metrics = {tuple(c["key"]): list(c["names"]) for c in calls[:k]} if k else None
    g = Grid(ds, coords=coords, periodic=False, metrics=metrics, autoparse_metadata=False)
    outs += [None] * k

    def probe_all():
        import warnings
        for axes, probes in ((("X",), ["dx_c", "dx_l", "dx_o"]), (("X", "Y"), ["a_cc", "a_lc", "a_cl", "a_ll"])):
            for p in probes:
                try:
                    with warnings.catch_warnings():
                        warnings.simplefilter("ignore")
                        g.get_metric(ds[p], axes)
                except Exception:
                    pass
    if case.get("queries_between"):
        probe_all()
    for c in calls[k:]:
        if case.get("queries_between"):
            probe_all()
        try:
            if unfold and all(n in DIMS for n in c["names"]):
                for n in c["names"]:
                    g.set_metrics(tuple(c["key"]), n, overwrite=c["overwrite"])
            else:
                g.set_metrics(tuple(c["key"]), list(c["names"]), overwrite=c["overwrite"])
            outs.append(None)
        except Exception as e:
            outs.append(type(e).__name__)
    reg = [[sorted(key), [m.name for m in lst]] for key, lst in g._metrics.items()]
    # queries: get_metric at every position for both axis sets
    q = []
    import warnings
    for axes, probes in ((("X",), ["dx_c", "dx_l", "dx_o"]), (("X", "Y"), ["a_cc", "a_lc", "a_cl", "a_ll"])):
        for p in probes:
            try:
                with warnings.catch_warnings():
                    warnings.simplefilter("ignore")
                    m = g.get_metric(ds[p], axes)
                q.append([list(axes), p, [float(v) for v in m.values.ravel()], list(m.dims)])
            except Exception as e:
                q.append([list(axes), p, type(e).__name__, None])
    # every slot holds the registered VARIABLE -- its values as they were in the dataset when the Grid was
    # built, not only its name -- and the dataset itself is as it was
    import numpy as np
    values_ok = all(m.name in pristine and m.dtype == pristine[m.name].dtype and
                    np.array_equal(m.transpose(*pristine[m.name].dims).values, pristine[m.name].values)
                    for lst in g._metrics.values() for m in lst)
    ds_ok = all(ds[v].dtype == pristine[v].dtype and np.array_equal(ds[v].values, pristine[v].values)
                for v in pristine.variables)
    return {"reg": reg, "outs": outs, "queries": q, "values_ok": bool(values_ok and ds_ok)}


def run_impl(case):
    a = run_history(case, unfold=False)
    b = run_history(case, unfold=True)
    a["unfold_same"] = (a["reg"] == b["reg"] and a["outs"] == b["outs"] and a["queries"] == b["queries"]
                        and a["values_ok"] and b["values_ok"])
    if not a["unfold_same"]:
        a["unfolded"] = {"reg": b["reg"], "outs": b["outs"]}
    return a


def extra_checks(rng, tier, notes):
    return []


def coq_case(case, obs):
    env = ("{| re_axes := [\"X\"; \"Y\"]; re_vars := " +
           C.clist(f"({C.cstr(n)}, " + C.clist(C.cstr(x) for x in d) + ")" for n, d in DIMS.items()) + " |}")
    calls = C.clist(
        "{| rc_key := " + C.clist(C.cstr(a) for a in c["key"]) + "; rc_names := " +
        C.clist(C.cstr(n) for n in c["names"]) + f"; rc_overwrite := {C.cbool(c['overwrite'])} |}}"
        for c in case["calls"])
    reg = C.clist("(" + C.clist(C.cstr(a) for a in k) + ", " + C.clist(C.cstr(n) for n in ns) + ")"
                  for k, ns in obs["reg"])
    outs = C.clist(C.copt(o, C.cekind) for o in obs["outs"])
    # a batched history whose one-variable-per-call unfolding behaves differently is a
    # violation by itself: encode it by corrupting the outcome list so the spec column fails
    if not obs["unfold_same"]:
        outs = C.clist(["(Some OtherError)"] * (len(obs["outs"]) + 1))
    return f"{{| c16_env := {env}; c16_calls := {calls}; c16_impl_reg := {reg}; c16_impl_out := {outs} |}}"


def distribution(cases, obs):
    from collections import Counter
    c = Counter()
    for case, o in zip(cases, obs):
        c["ncalls=" + str(len(case["calls"]))] += 1
        c["ctor_n=" + str(case["ctor_n"])] += 1
        for x in o["outs"]:
            c["out:" + str(x)] += 1
        c["unfold_same=" + str(o["unfold_same"])] += 1
    return dict(c)
