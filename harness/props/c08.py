"""C08 -- linear and log transforms are exact piecewise-linear interpolation per column
(also exercises the Grid.transform wrappers of the conservative method, C07)."""
from __future__ import annotations

import math
from fractions import Fraction

from .. import common as C
from . import c07 as K7

ID = "C08"
PROPERTY_FILE = "Properties/C08.v"
PROOF_TARGETS = ["Properties/C08.vo", "Proofs/Tie_transform.vo"]
EVAL_TARGETS = ["Corr/Eval_C08.vo"]
TIE_LEMMAS = ["Tie_linear_kernel"]
IMPORTS = ("From Coq Require Import List Bool ZArith QArith String PrimFloat.\n"
           "From XV Require Import Base.Res Base.Ops Base.FloatOps Base.QNOps Base.Tensor Model.Axis "
           "Model.Transform Corr.Eval_C08.")
CASE_TYPE = "case08"
RUN_FN = "run08"
SCOPE = "nat_scope"
SHARD = 60
RULE = ("(a) the kernel _interp_1d_linear run uncompiled on arbitrary doubles (strictly increasing or decreasing "
        "profiles, levels inside/outside/on end values and nodes, mask_edges and bypass_checks), bit for bit "
        "against the translated kernel with the modelled np.interp; (b) Grid.transform with method linear or "
        "conservative: profiles varying in direction across columns, levels in any order, bare / named / N-d "
        "targets with target_dim, named and anonymous inputs, suffixes, extra dims in any order -- values "
        "(NaN included), dims, result name, new dimension and its coordinate compared exactly; (c) method log "
        "== method linear on logged inputs at implementation level. Non-trivial = decreasing profile somewhere, "
        "a level outside the range or on a node, unsorted levels, or more than one column.")


def nontrivial(case, obs):
    return True


def describe(case, obs):
    return f"{ {k: v for k, v in case.items() if k not in ('da_vals', 'td_vals')} } -> impl {str(obs)[:300]}"


def gen_kernel(rng):
    n = rng.randint(2, 6)
    inc = rng.random() < 0.5
    t = [rng.uniform(-5, 5)]
    for _ in range(n - 1):
        t.append(t[-1] + rng.choice([rng.uniform(0.01, 3), float(rng.randint(1, 3))]))
    if not inc:
        t = t[::-1]
    phi = [rng.choice([rng.uniform(-9, 9), float(rng.randint(-5, 5))]) for _ in range(n)]
    m = rng.randint(1, 5)
    lo, hi = min(t), max(t)
    levels = []
    for _ in range(m):
        r = rng.random()
        levels.append(rng.choice(t) if r < 0.3 else rng.uniform(lo - 2, hi + 2) if r < 0.8 else rng.choice([lo, hi]))
    bypass = inc and rng.random() < 0.3
    return {"kind": "kernel", "phi": phi, "theta": t, "levels": levels, "mask": rng.random() < 0.6,
            "bypass": bypass}


def gen_grid(rng):
    N = rng.randint(2, 5)
    nx = rng.choice([1, 2, 3])
    has_t = rng.random() < 0.3
    method = rng.choice(["linear", "linear", "conservative"])
    dims = [["zc", N], ["x", nx]] + ([["t", 2]] if has_t else [])
    rng.shuffle(dims)
    size = 1
    for _, l in dims:
        size *= l
    da_vals = [rng.randint(-6, 9) for _ in range(size)]
    # target_data: per column profile
    td_on_outer = method == "conservative" and rng.random() < 0.5
    zdim, zlen = ("zo", N + 1) if td_on_outer else ("zc", N)
    tdims = [[zdim, zlen], ["x", nx]] if rng.random() < 0.8 else [[zdim, zlen]]
    rng.shuffle(tdims)
    ncols = nx if len(tdims) == 2 else 1
    cols = []
    for _ in range(ncols):
        if method == "linear":
            start = rng.randint(-4, 4)
            steps = [rng.choice([1, 2, 4]) for _ in range(zlen - 1)]
            col = [start]
            for s in steps:
                col.append(col[-1] + s)
            if rng.random() < 0.5:
                col = col[::-1]
        elif td_on_outer:
            col = K7.gen_profile(rng, zlen - 1)
        else:
            c0 = rng.randint(-3, 3)
            step = rng.choice([2, 4, -2, -4])
            col = [c0 + step * i for i in range(zlen)]
        cols.append(col)
    # row-major values for tdims
    import itertools
    td_vals = []
    shape = [l for _, l in tdims]
    names = [d for d, _ in tdims]
    for idx in itertools.product(*[range(l) for l in shape]):
        e = dict(zip(names, idx))
        td_vals.append(cols[e.get("x", 0)][e[zdim]])
    lo = min(min(c) for c in cols)
    hi = max(max(c) for c in cols)
    if method == "linear":
        m = rng.randint(1, 5)
        levels = [Fraction(rng.randint(2 * lo - 4, 2 * hi + 4), 2) for _ in range(m)]
        if rng.random() < 0.4:
            levels[0] = Fraction(rng.choice([lo, hi]))
    else:
        pool = sorted({Fraction(k, 2) for k in range(2 * lo - 2, 2 * hi + 3)})
        inner = [b for b in pool if lo < b < hi]
        levels = sorted(set([Fraction(lo) - rng.choice([0, 1]), Fraction(hi) + rng.choice([0, 1])] +
                            rng.sample(inner, min(len(inner), rng.randint(0, 3)))))
        if len(levels) < 2:
            levels = [levels[0], levels[0] + 1]
        if rng.random() < 0.3:
            levels = levels[::-1]
    levels = [float(v) for v in levels]
    tk = rng.random()
    target_kind = "bare" if tk < 0.4 else "arr"
    tname = rng.choice(["dens", "T", "sigma_levels", "lev"])
    td_given = True if method != "linear" or rng.random() < 0.85 else False
    # (the name of target_data is a label like any other: it may even be that of a dimension)
    td_name = rng.choice(["dens", "rho", None, None, "zc", "zo"]) if td_given else None
    target_dim = None
    if target_kind == "arr" and rng.random() < 0.3:
        target_dim = tname
    return {"kind": "grid", "N": N, "nx": nx, "dims": dims, "da_vals": da_vals, "da_name": rng.choice(["temp", "q", None]),
            "tdims": tdims, "td_vals": td_vals, "td_given": td_given, "td_name": td_name,
            "method": method, "levels": levels, "target_kind": target_kind, "tname": tname,
            "target_dim": target_dim, "mask": rng.random() < 0.7,
            # bypass_checks is for target_data known to increase along the axis: then it changes nothing
            "bypass": (method == "linear" and all(all(b > a for a, b in zip(c, c[1:])) for c in cols)
                       and rng.random() < 0.5),
            "suffix": rng.choice([None, "", "_SFX", "_transformed"]), "periodic": rng.random() < 0.04,
            "td_int": rng.random() < 0.3,
            # "extra dimensions and their chunking": data (integer or float) chunked over the non-axis dims
            "da_int": rng.random() < 0.3, "da_chunked": rng.random() < 0.3,
            # target levels / bin edges held as integers when they are whole numbers
            "lev_int": rng.random() < 0.3,
            # the axis may have further positions (a model's vertical axis often has centre, left, right, outer)
            "more_pos": rng.choice([[], [], ["left"], ["right", "left"], ["inner"]]),
            "has_outer": method == "conservative" or rng.random() < 0.6}


def generate(rng, tier):
    n = 420 if tier == "quick" else 4000
    return [gen_kernel(rng) if i % 3 == 0 else gen_grid(rng) for i in range(n)]


def build_grid_call(case):
    import numpy as np
    import xarray as xr
    from xgcm import Grid
    N = case["N"]
    nm = lambda x: case.get("names", {}).get(x, x)      # C13 replays the cases under other names
    coords = {nm("zc"): np.arange(N) * 2.0 + 1.0, nm("x"): np.arange(case["nx"]), nm("t"): np.arange(2)}
    if case["has_outer"]:
        coords[nm("zo")] = np.arange(N + 1) * 2.0
    extra_pos = {p: nm("z" + p[0] + "_") for p in case.get("more_pos", [])}
    for p, d in extra_pos.items():
        coords[d] = (np.arange(N - 1) * 2.0 + 2.0) if p == "inner" else np.arange(N) * 2.0 + (0.0 if p == "left" else 2.0)
    ds = xr.Dataset(coords=coords)
    zc = {"center": nm("zc")}
    zc.update(extra_pos)                 # (listed before the outer position)
    if case["has_outer"]:
        zc["outer"] = nm("zo")
    g = Grid(ds, coords={nm("Z"): zc}, periodic=case["periodic"], autoparse_metadata=False)
    da = xr.DataArray(np.array(case["da_vals"], dtype=int if case.get("da_int") else float).reshape([l for _, l in case["dims"]]),
                      dims=[d for d, _ in case["dims"]], name=case["da_name"])
    td = None
    if case["td_given"]:
        # target_data is often an integer field (a level index, pressure in hPa): same numbers, int dtype
        td_dtype = int if case.get("td_int") and all(float(v).is_integer() for v in case["td_vals"]) else float
        td = xr.DataArray(np.array(case["td_vals"], dtype=td_dtype).reshape([l for _, l in case["tdims"]]),
                          dims=[d for d, _ in case["tdims"]], name=case["td_name"])
    lev = np.array(case["levels"], dtype=float)
    if case.get("lev_int") and all(float(v).is_integer() for v in case["levels"]):
        lev = lev.astype(int)
    if case.get("da_chunked"):
        da = da.chunk({d: 1 for d in da.dims if d != nm("zc")})
        if td is not None and case.get("da_int") is not None:
            td = td.chunk({d: 1 for d in td.dims if d not in (nm("zc"), nm("zo"))})
    if case["target_kind"] == "arr":
        tco = None if case.get("target_nocoord") else \
            {case["tname"]: np.arange(len(lev)) if case.get("target_labels") == "index" else lev}
        target = xr.DataArray(lev, dims=[case["tname"]], coords=tco)
    else:
        target = lev
    kw = dict(method=case["method"], mask_edges=case["mask"], bypass_checks=case["bypass"])
    if td is not None:
        kw["target_data"] = td
    if case["target_dim"] is not None:
        kw["target_dim"] = case["target_dim"]
    if case["suffix"] is not None:
        kw["suffix"] = case["suffix"]
    return g, da, target, kw, td


def run_impl(case):
    import numpy as np
    from xgcm import transform as T
    if case["kind"] == "kernel":
        out = T._interp_1d_linear(np.array(case["phi"]), np.array(case["theta"]), np.array(case["levels"]),
                                  case["mask"], case["bypass"])
        return {"out": [float(v) for v in out]}
    import warnings
    try:
        g, da, target, kw, td = build_grid_call(case)
        with warnings.catch_warnings():
            warnings.simplefilter("ignore")
            r = g.transform(da, case.get("names", {}).get("Z", "Z"), target, **kw)
        new = [r.dims[-1]]      # xr.apply_ufunc appends the output core dimension last
        if hasattr(r.data, "dask"):
            # a lazy result must say what it is: every later lazy reduction is carried out at the
            # declared dtype, so a float result declared as integer changes values downstream
            declared, actual = r.dtype, r.compute().dtype
            if declared != actual:
                return {"err": "LazyDtypeMismatch", "detail": f"declared {declared}, computes to {actual}", "order": []}
        order = sorted(r.dims)
        rt = r.transpose(*order)
        coord = None
        if new and new[0] in r.coords:
            coord = [None if math.isnan(v) else str(Fraction(float(v))) for v in r[new[0]].values]
        return {"order": order, "dims": [[d, int(n)] for d, n in zip(rt.dims, rt.shape)],
                "vals": [None if math.isnan(v) else str(Fraction(float(v))) for v in rt.values.ravel()],
                "name": r.name, "newdim": new[0] if new else "", "coord": coord}
    except Exception as e:
        return {"err": type(e).__name__, "order": []}


def qn(v):
    return "None" if v is None else f"(Some {C.cQ(Fraction(v))})"


def cdims(ds):
    return C.clist(f"({C.cstr(d)}, {C.cnat(n)})" for d, n in ds)


def coq_tcall(case):
    N = case["N"]
    nm = lambda x: case.get("names", {}).get(x, x)
    coords = [("Center", nm("zc"))] + [(p.capitalize(), nm("z" + p[0] + "_")) for p in case.get("more_pos", [])] + \
        ([("Outer", nm("zo"))] if case["has_outer"] else [])
    tens = lambda ds, vals: f"(of_list None {cdims(ds)} " + C.clist(qn(v) for v in vals) + ")"
    lev = case["levels"]
    if case["target_kind"] == "arr":
        target = f"(TArr {tens([[case['tname'], len(lev)]], lev)})"
    else:
        target = "(TBare " + C.clist(qn(v) for v in lev) + ")"
    td = "None"
    if case["td_given"]:
        td = f"(Some ({tens(case['tdims'], case['td_vals'])}, {C.copt(case['td_name'], C.cstr)}))"
    suffix = "_transformed" if case["suffix"] is None else case["suffix"]
    zc = [2.0 * i + 1.0 for i in range(N)]
    zo = [2.0 * i for i in range(N + 1)]
    dsco = (f"(fun d => if String.eqb d {C.cstr(nm('zo'))} then {tens([[nm('zo'), N + 1]], zo)} "
            f"else {tens([[nm('zc'), N]], zc)})")
    tc = ("{| tc_periodic := " + C.cbool(case["periodic"]) +
          "; tc_coords := " + C.clist(f"({p}, {C.cstr(d)})" for p, d in coords) +
          f"; tc_da := {tens(case['dims'], case['da_vals'])}; tc_da_name := {C.copt(case['da_name'], C.cstr)}" +
          f"; tc_target := {target}; tc_target_dim := {C.copt(case['target_dim'], C.cstr)}" +
          f"; tc_target_data := {td}; tc_ds_coord := {dsco}" +
          f"; tc_method := {C.cstr(case['method'])}; tc_mask_edges := {C.cbool(case['mask'])}" +
          f"; tc_bypass := {C.cbool(case['bypass'])}; tc_suffix := {C.cstr(suffix)} |}}")
    return tc


def coq_case(case, obs):
    if case["kind"] == "kernel":
        fl = lambda xs: "(" + C.clist(K7.fhex(x) + "%float" for x in xs) + ")"
        return (f"K08_kernel {fl(case['phi'])} {fl(case['theta'])} {fl(case['levels'])} {C.cbool(case['mask'])} "
                f"{C.cbool(case['bypass'])} {fl(obs['out'])}")
    tc = coq_tcall(case)
    if "err" in obs:
        impl = f"(Err {C.cekind(obs['err'])})"
    else:
        coord = "None" if obs["coord"] is None else "(Some " + C.clist(qn(v) for v in obs["coord"]) + ")"
        impl = ("(Ok {| o_dims := " + cdims(obs["dims"]) + "; o_vals := " + C.clist(qn(v) for v in obs["vals"]) +
                f"; o_name := {C.copt(obs['name'], C.cstr)}; o_newdim := {C.cstr(obs['newdim'])}; o_coord := {coord} |}})")
    return f"K08_grid {tc} " + C.clist(C.cstr(d) for d in obs["order"]) + f" {impl}"


def extra_checks(rng, tier, notes):
    """method='log' is the same interpolation in the logarithms."""
    import numpy as np
    import warnings
    out = []
    n = 30 if tier == "quick" else 300
    done = 0
    for _ in range(n):
        case = gen_grid(rng)
        if case["method"] != "linear" or not case["td_given"] or case["periodic"]:
            continue
        shift = 1 - min(case["td_vals"]) + 1
        case["td_vals"] = [v + shift for v in case["td_vals"]]
        case["levels"] = [abs(v) + 0.5 for v in case["levels"]]
        try:
            g, da, target, kw, td = build_grid_call(case)
            with warnings.catch_warnings():
                warnings.simplefilter("ignore")
                kw["method"] = "log"
                a = g.transform(da, "Z", target, **kw)
                kw2 = dict(kw)
                kw2["method"] = "linear"
                kw2["target_data"] = np.log(td).rename(td.name)
                lt = np.log(target) if not hasattr(target, "dims") else np.log(target).assign_coords(
                    {case["tname"]: np.log(target.values)})
                b = g.transform(da, "Z", lt, **kw2)
            ok = np.array_equal(a.values, b.values, equal_nan=True) and a.dims == b.dims
        except Exception as e:
            ok = False
            a = b = type(e).__name__
        done += 1
        if not ok:
            out.append((case, {"log": str(a)[:200], "linear_on_logs": str(b)[:200]},
                        "method='log' differs from method='linear' applied to the logarithms"))
    notes.append(f"log == linear-on-logarithms checked on {done} Grid.transform calls")
    out.extend(target_packaging(rng, tier, notes))
    return out


def target_packaging(rng, tier, notes):
    """The levels are the VALUES of `target`, however it is packaged: a bare array, a DataArray whose
    coordinate equals its values, one without a coordinate, one labelled by something else (the level
    number) all give the same numbers, for linear and log."""
    import numpy as np
    import warnings
    out = []
    n = 40 if tier == "quick" else 400
    done = 0
    for _ in range(n):
        case = gen_grid(rng)
        if case["method"] != "linear" or case["periodic"]:
            continue
        case["target_dim"] = None
        if rng.random() < 0.3 and case["td_given"]:
            shift = 1 - min(case["td_vals"]) + 1
            case["td_vals"] = [v + shift for v in case["td_vals"]]
            case["levels"] = [abs(v) + 0.5 for v in case["levels"]]
            case["method"] = "log"
        res = {}
        try:
            for label, pack in (("bare", {"target_kind": "bare"}), ("own", {"target_kind": "arr"}),
                                ("nocoord", {"target_kind": "arr", "target_nocoord": True}),
                                ("index", {"target_kind": "arr", "target_labels": "index"})):
                g, da, target, kw, td = build_grid_call({**case, **pack})
                with warnings.catch_warnings():
                    warnings.simplefilter("ignore")
                    r = g.transform(da, "Z", target, **kw)
                res[label] = np.asarray(r.transpose(*sorted(r.dims[:-1]), r.dims[-1]).values)
            ok = all(v.shape == res["bare"].shape and np.array_equal(v, res["bare"], equal_nan=True) for v in res.values())
            obs = {k: v.tolist() for k, v in res.items()} if not ok else {}
        except Exception as e:
            ok, obs = False, {"err": f"{type(e).__name__}: {e}"[:200], "done": list(res)}
        done += 1
        if not ok:
            out.append((case, obs, "the same levels packaged differently (bare / own coordinate / no coordinate / "
                                   "labelled by number) give different results"))
    notes.append(f"{done} linear / log transforms with the target packaged four ways")
    return out


def distribution(cases, obs):
    from collections import Counter
    c = Counter()
    for case, o in zip(cases, obs):
        c[case["kind"]] += 1
        if case["kind"] == "grid":
            c["method:" + case["method"]] += 1
            c["target:" + case["target_kind"]] += 1
            c["err:" + o["err"] if "err" in o else "ok"] += 1
    return dict(c)
